/-! ## the choice of parser in the capture loops -/

theorem layerType_eq {p : List Nat} (h : 0 < p.length) : layerType p = .ok (b p 0 / 16) := by
  unfold layerType
  rw [idx_eq h]
  simp [Nat.shiftRight_eq_div_pow]

/-- **dispatch_total**: the capture loops' dispatch (empty-layer guard, slimcap `IPLayer.Type()`,
    `ParsePacketV4` / `ParsePacketV6`) never panics and hands every layer to the parser of its
    version nibble; everything else is counted as invalid IP header. -/
theorem dispatch_total {p : List Nat} (hb : Bytes p) :
    dispatch p = .ok (if p.length = 0 then .empty
                      else if b p 0 / 16 = 4 then .v4 (spec fam4 p)
                      else if b p 0 / 16 = 6 then .v6 (spec fam6 p) else .invalid) := by
  unfold dispatch dispatchWith
  by_cases h0 : p.length = 0
  · simp [h0]
  · have h4 := parseV4_eq_spec hb
    have h6 := parseV6_eq_spec hb
    unfold parseV4 at h4
    unfold parseV6 at h6
    simp only [h0, and_false, if_false]
    rw [layerType_eq (by omega)]
    simp only [bind_ok, ipLayerTypeV4, ipLayerTypeV6, h4, h6]
    repeat' split
    all_goals first | rfl | omega

/-- the second half of the repaired defect: before the fix the loops called `ipLayer.Type()` on an
    empty layer (a frame consisting of the link layer header only) -/
theorem unguarded_dispatch_panics_on_empty_layer : ∃ w, dispatchWith false [] = .panic w :=
  ⟨_, rfl⟩

/-! ## non-vacuity and limits of the hypotheses -/

/-- 10.0.0.1:50000 → 10.0.0.2:80, TCP, flags ACK, 36 bytes -/
def exP : List Nat := [0x45,0,0,36, 0,1,0x40,0, 64,6,0xaa,0xbb, 10,0,0,1, 10,0,0,2, 0xc3,0x50, 0,80,
  0,0,0,1, 0,0,0,2, 0x50,0x10, 0xff,0xff]
/-- the answer: 10.0.0.2:80 → 10.0.0.1:50000, other TTL / id / checksum / sequence numbers / flags -/
def exQ : List Nat := [0x45,0,0,36, 0,9,0,0, 57,6,0xcc,0xdd, 10,0,0,2, 10,0,0,1, 0,80, 0xc3,0x50,
  0,0,0,7, 0,0,0,8, 0x50,0x12, 0x10,0]

example : Bytes exP ∧ Bytes exQ ∧ isMirror fam4 exP exQ = true := by decide
-- port 80 is a common port: the ephemeral side (50000) is dropped in both directions
example : parseV4 exP = .ok (.key [10,0,0,1, 0,0, 10,0,0,2, 0,80, 6] 0x10) := by decide
example : parseV4 exQ = .ok (.key [10,0,0,2, 0,80, 10,0,0,1, 0,0, 6] 0x12) := by decide
example : toList 13 (EPHashV4_Reverse (ofList [10,0,0,1, 0,0, 10,0,0,2, 0,80, 6])) = [10,0,0,2, 0,80, 10,0,0,1, 0,0, 6] := by decide
-- the repaired path: a 3-byte layer (real-kernel witness: Ethernet header + 3 bytes on `lo`)
example : parseV4 [0x45, 0, 0] = .ok .truncated := by decide
example : parseWith layoutV4 false [0x45, 0, 0] = .panic "index out of range" := by decide
example : dispatch [] = .ok .empty := by decide
-- outside `isMirror` (length differs: the answer was cut short by the snap length) the classes differ
example : parseV4 (exQ.take 30) = .ok .truncated ∧ isMirror fam4 exP (exQ.take 30) = false := by decide
-- outside `Bytes`: a list element that is not a byte makes the (checked) table lookup fail in the model
example : (parseV4 (exP.set 23 300)).isPanic = true := by decide
-- IPv6, UDP 53 → 53: both ports are common, both are dropped
example : parseV6 ([0x60,0,0,0, 0,8,17,64] ++ List.replicate 15 0 ++ [1] ++ List.replicate 15 0 ++ [2] ++ [0,53, 0,53, 0,8,0,0])
    = .ok (.key (List.replicate 15 0 ++ [1, 0,0] ++ List.replicate 15 0 ++ [2, 0,0, 17]) 0) := by decide

end C19
