# generates lean/GoProbeModel/Props/C19.lean (v4 and v6 parts share one template)
import sys

def lst(xs): return '[' + ', '.join(xs) + ']'

V4 = dict(v='4', fam='fam4', L='layoutV4', parse='parseV4', Rev='EPHashV4_Reverse',
          bl=19, hdr=20, pp=9, sip=12, dip=16, alen=4, tcpf=33, tcpl=34, udpl=24, icmpl=21, icmp=1, hs=13,
          frag='some (6, 7)', frags='true',
          fields=[('boundsLimit',19),('protoPos',9),('sipStart',12),('sipEnd',16),('dipStart',16),('dipEnd',20),('sportStart',20),('sportEnd',22),('dportStart',22),('dportEnd',24),('tcpFlagsPos',33),('tcpLimit',34),('udpLimit',24),('icmpLimit',21),('icmpTypePos',20),('icmpProto',1),('hSipStart',0),('hSipEnd',4),('hSPortStart',4),('hSPortEnd',6),('hDipStart',6),('hDipEnd',10),('hDPortStart',10),('hDPortEnd',12),('hProtoPos',12),('hSize',13)])
V6 = dict(v='6', fam='fam6', L='layoutV6', parse='parseV6', Rev='EPHashV6_Reverse',
          bl=39, hdr=40, pp=6, sip=8, dip=24, alen=16, tcpf=53, tcpl=54, udpl=44, icmpl=41, icmp=58, hs=37,
          frag='none', frags='false',
          fields=[('boundsLimit',39),('protoPos',6),('sipStart',8),('sipEnd',24),('dipStart',24),('dipEnd',40),('sportStart',40),('sportEnd',42),('dportStart',42),('dportEnd',44),('tcpFlagsPos',53),('tcpLimit',54),('udpLimit',44),('icmpLimit',41),('icmpTypePos',40),('icmpProto',58),('hSipStart',0),('hSipEnd',16),('hSPortStart',16),('hSPortEnd',18),('hDipStart',18),('hDipEnd',34),('hDPortStart',34),('hDPortEnd',36),('hProtoPos',36),('hSize',37)])

def part(d):
    v=d['v']; a=d['alen']; h=d['hdr']; pp=d['pp']; hs=d['hs']
    sp0, sp1, dp0, dp1 = h, h+1, h+2, h+3
    rng = lambda n: lst([str(i) for i in range(n)])
    names=[f'l{v}_{f}' for f,_ in d['fields']]+[f'l{v}_frag']
    out=[]
    out.append(f'/-! ## IPv{v} -/\n')
    for f,val in d['fields']:
        out.append(f'theorem l{v}_{f} : {d["L"]}.{f} = {val} := rfl')
    out.append(f'theorem l{v}_frag : {d["L"]}.frag = {d["frag"]} := rfl')
    out.append(f'macro "simp_l{v}" : tactic => `(tactic| simp only [{", ".join(names)}])')
    out.append(f'theorem f{v}_hdr : fam{v}.hdr = {h} := rfl')
    out.append(f'theorem f{v}_protoPos : fam{v}.protoPos = {pp} := rfl')
    out.append(f'theorem f{v}_icmp : fam{v}.icmp = {d["icmp"]} := rfl')
    out.append(f'theorem f{v}_frags : fam{v}.frags = {d["frags"]} := rfl')
    out.append(f'theorem f{v}_alen : fam{v}.alen = {a} := rfl')
    out.append(f'theorem f{v}_sip : fam{v}.sip = {d["sip"]} := rfl')
    out.append(f'theorem f{v}_dip : fam{v}.dip = {d["dip"]} := rfl')
    out.append(f'theorem range{a} : List.range {a} = {rng(a)} := by decide')
    out.append(f'theorem range{hs} : List.range {hs} = {rng(hs)} := by decide\n')
    # fragCheck
    if v=='4':
        out.append('''theorem fragCheck_v4 {p : List Nat} (h : 8 ≤ p.length) (proto : Nat) :
    fragCheck layoutV4 p proto = .ok (decide (proto ≠ 50 ∧ (b p 6 % 32 ≠ 0 ∨ b p 7 ≠ 0))) := by
  unfold fragCheck
  simp only [l4_frag, ESP]
  by_cases hp : proto = 50
  · simp [hp]
  · rw [idx_eq (by omega : 6 < p.length), idx_eq (by omega : 7 < p.length)]
    simp only [ne_eq, hp, not_false_eq_true, if_true, bind_ok, true_and, Outcome.ok.injEq, decide_eq_decide]
    exact frag_iff _ _
''')
    else:
        out.append('''theorem fragCheck_v6 (p : List Nat) (proto : Nat) : fragCheck layoutV6 p proto = .ok false := by
  unfold fragCheck
  simp only [l6_frag]
''')
    # explicit key lists
    ks=[f'k {i}' for i in range(hs)]
    pk=list(ks)
    cd=f'isCommon proto (b p {dp0}) (b p {dp1})'
    cs=f'isCommon proto (b p {sp0}) (b p {sp1})'
    pk[a]=f'if {cd} then k {a} else b p {sp0}'
    pk[a+1]=f'if {cd} then k {a+1} else b p {sp1}'
    pk[2*a+2]=f'if {cs} then k {2*a+2} else b p {dp0}'
    pk[2*a+3]=f'if {cs} then k {2*a+3} else b p {dp1}'
    pk[hs-1]='proto'
    fk=list(ks); fk[hs-1]='proto'
    out.append(f'''theorem finalize_v{v} (k : Nat → Nat) (proto aux : Nat) :
    finalize {d["L"]} k proto aux = .ok (.key {lst(fk)} aux) := by
  simp only [finalize]
  simp_l{v}
  simp [toList, range{hs}]

theorem ports_v{v} {{p : List Nat}} (hb : Bytes p) (h : {h+4} ≤ p.length) (k : Nat → Nat) (proto aux : Nat) :
    ports {d["L"]} p k proto aux =
      .ok (.key {lst(pk)} aux) := by
  unfold ports
  simp_l{v}
  rw [slice_eq (by omega) (by omega), slice_eq (by omega) (by omega)]
  simp only [bind_ok, Nat.reduceSub]
  rw [isCommonPortChecked_two (fun i => b p ({dp0} + i)) proto (b_lt hb _),
      isCommonPortChecked_two (fun i => b p ({sp0} + i)) proto (b_lt hb _)]
  simp only [bind_ok]
  rw [isCommonPort_table (fun i => b p ({dp0} + i)) proto (b_lt hb _),
      isCommonPort_table (fun i => b p ({sp0} + i)) proto (b_lt hb _)]
  simp only [finalize]
  simp_l{v}
  simp only [Nat.add_zero, Nat.reduceAdd, toList, range{hs}, List.map_cons, List.map_nil]
  cases isCommon proto (b p {dp0}) (b p {dp1}) <;> cases isCommon proto (b p {sp0}) (b p {sp1}) <;> simp [copyInto]
''')
    wp=f'(b p {pp} = 6 ∨ b p {pp} = 17)'
    kl=[f'b p {d["sip"]+i}' for i in range(a)]
    kl+=[f'if {wp} ∧ isCommon (b p {pp}) (b p {dp0}) (b p {dp1}) = false then b p {sp0} else 0',
         f'if {wp} ∧ isCommon (b p {pp}) (b p {dp0}) (b p {dp1}) = false then b p {sp1} else 0']
    kl+=[f'b p {d["dip"]+i}' for i in range(a)]
    kl+=[f'if {wp} ∧ isCommon (b p {pp}) (b p {sp0}) (b p {sp1}) = false then b p {dp0} else 0',
         f'if {wp} ∧ isCommon (b p {pp}) (b p {sp0}) (b p {sp1}) = false then b p {dp1} else 0']
    kl+=[f'b p {pp}']
    out.append(f'''/-- **parse_key_spec (layout)**: the documented key, byte by byte: source address, source port
    (zero unless TCP/UDP and the destination port is not a common service port), destination address,
    destination port (zero unless TCP/UDP and the source port is not a common service port), protocol. -/
theorem keyOf_v{v} (p : List Nat) : keyOf fam{v} p =
    {lst(kl)} := by
  unfold keyOf field
  simp only [f{v}_alen, f{v}_sip, f{v}_dip, f{v}_hdr, f{v}_protoPos, range{a}, List.map_cons, List.map_nil, Nat.add_zero, Nat.reduceAdd]
  by_cases h : {wp}
  · have h' : (b p {pp} == 6 || b p {pp} == 17) = true := by simpa using h
    rcases Bool.eq_false_or_eq_true (isCommon (b p {pp}) (b p {dp0}) (b p {dp1})) with h1 | h1 <;>
    rcases Bool.eq_false_or_eq_true (isCommon (b p {pp}) (b p {sp0}) (b p {sp1})) with h2 | h2 <;>
    simp [h, h', h1, h2]
  · have h' : ¬ b p {pp} = 6 ∧ ¬ b p {pp} = 17 := by omega
    simp [h'.1, h'.2]

theorem keyOf_length_v{v} (p : List Nat) : (keyOf fam{v} p).length = {hs} := by
  rw [keyOf_v{v}]; rfl
''')
    # main theorem
    if v=='4':
        fragpart=f'''    rw [fragCheck_v4 (by omega : 8 ≤ p.length) (b p 9)]
    rw [slice_eq (by omega) (by omega), slice_eq (by omega) (by omega)]
    simp only [bind_ok, spec, f4_hdr, f4_protoPos, f4_icmp, f4_frags, h20, if_false, isFrag, Bool.true_and, TCP, UDP,
      Nat.reduceAdd, Nat.reduceSub]
    by_cases hfr : (b p 9 ≠ 50 ∧ (b p 6 % 32 ≠ 0 ∨ b p 7 ≠ 0))
    · have hfr' : (b p 9 != 50 && (b p 6 % 32 != 0 || b p 7 != 0)) = true := by simpa using hfr
      simp [hfr, hfr']
    · have hfr' : ¬ (b p 9 != 50 && (b p 6 % 32 != 0 || b p 7 != 0)) = true := by simpa using hfr
      simp only [hfr, hfr', decide_false, Bool.false_eq_true, if_false]
'''
    else:
        fragpart=f'''    rw [fragCheck_v6]
    rw [slice_eq (by omega) (by omega), slice_eq (by omega) (by omega)]
    simp only [bind_ok, spec, f6_hdr, f6_protoPos, f6_icmp, f6_frags, h20, if_false, isFrag, Bool.false_and, TCP, UDP,
      Nat.reduceAdd, Nat.reduceSub, Bool.false_eq_true]
'''
    rest_tpl = 'rw [keyOf_v{v}]\nby_cases h6 : b p {pp} = 6\n· by_cases hl : p.length < {tcpl}\n  · simp [h6, hl]\n  · simp only [h6, hl, ↓reduceIte]\n    rw [idx_eq (by omega : {tcpf} < p.length), bind_ok, ports_v{v} hb (by omega)]\n    simp [copyInto, ite_flip]\n· by_cases h17 : b p {pp} = 17\n  · by_cases hl : p.length < {udpl}\n    · simp [h17, hl]\n    · simp only [h17, hl, ↓reduceIte]\n      rw [ports_v{v} hb (by omega)]\n      simp [copyInto, ite_flip]\n  · by_cases h1 : b p {pp} = {icmp}\n    · by_cases hl : p.length < {icmpl}\n      · simp [h1, hl]\n      · simp only [h1, hl, ↓reduceIte]\n        rw [idx_eq (by omega : {h} < p.length), bind_ok, finalize_v{v}]\n        simp [copyInto]\n    · simp only [h6, h17, h1, ↓reduceIte]\n      rw [finalize_v{v}]\n      simp [copyInto]'
    rest = rest_tpl.format(v=v, pp=pp, tcpl=d["tcpl"], tcpf=d["tcpf"], udpl=d["udpl"], icmp=d["icmp"], icmpl=d["icmpl"], h=h)
    ind = 6 if v=='4' else 4
    rest = '\n'.join(' '*ind + l for l in rest.split('\n'))
    out.append(f'''/-- **parse_key_spec**: on every byte string the model of `ParsePacketV{v}` (the code as written, with
    checked indexing) returns exactly the documented result `spec fam{v}`: truncated / fragment /
    key with addresses, protocol and ports per the common-port rule (see `keyOf_v{v}`), and the
    auxiliary byte. In particular it never panics. -/
theorem parseV{v}_eq_spec {{p : List Nat}} (hb : Bytes p) : parseV{v} p = .ok (spec fam{v} p) := by
  unfold parseV{v} parseWith
  simp_l{v}
  by_cases hlen : p.length ≤ {d["bl"]}
  · have : p.length < {h} := by omega
    simp [hlen, spec, f{v}_hdr, this]
  · have h20 : ¬ p.length < {h} := by omega
    simp only [hlen, and_false, if_false]
    rw [idx_eq (by omega : {d["bl"]} < p.length), idx_eq (by omega : {pp} < p.length)]
    simp only [bind_ok]
{fragpart}{rest}

/-- **parse_total**: for EVERY byte string (any length, including those shorter than the fixed
    header) `ParsePacketV{v}` does not panic and returns exactly one of fragment / truncated / a
    {hs}-byte key. -/
theorem parse_total_v{v} {{p : List Nat}} (hb : Bytes p) :
    parseV{v} p = .ok .fragment ∨ parseV{v} p = .ok .truncated ∨
    ∃ k aux, parseV{v} p = .ok (.key k aux) ∧ k.length = {hs} := by
  rw [parseV{v}_eq_spec hb]
  cases hs : spec fam{v} p with
  | fragment => exact Or.inl rfl
  | truncated => exact Or.inr (Or.inl rfl)
  | key k aux =>
    refine Or.inr (Or.inr ⟨k, aux, rfl, ?_⟩)
    rw [spec_key hs, keyOf_length_v{v}]

theorem parse_no_panic_v{v} {{p : List Nat}} (hb : Bytes p) : (parseV{v} p).isPanic = false := by
  rw [parseV{v}_eq_spec hb]; rfl

/-- a layer shorter than the fixed header is classified as truncated (the repaired behaviour) -/
theorem short_header_truncated_v{v} {{p : List Nat}} (h : p.length < {h}) : parseV{v} p = .ok .truncated := by
  unfold parseV{v} parseWith
  simp_l{v}
  have : p.length ≤ {d["bl"]} := by omega
  simp [this]

/-- the defect that was repaired: without the length guard (`guarded = false` = the code before the
    fix) every layer shorter than the fixed header panics at `_ = ipLayer[{d["bl"]}]` -/
theorem unguarded_panics_on_short_header_v{v} {{p : List Nat}} (h : p.length < {h}) :
    ∃ w, parseWith {d["L"]} false p = .panic w := by
  unfold parseWith
  simp_l{v}
  obtain ⟨w, hw⟩ := idx_panic (p := p) (i := {d["bl"]}) (by omega)
  exact ⟨w, by simp [hw]⟩
''')
    # mirror
    eqs_s=', '.join(f'hs{i}' for i in range(a)); eqs_d=', '.join(f'hd{i}' for i in range(a))
    # pattern of nested conjunctions produced by simp for List.all over a elements: a ∧ b ∧ c ∧ d (right nested)
    out.append(f'''theorem spec_mirror_v{v} {{p q : List Nat}} (hm : isMirror fam{v} p q = true) :
    mirrorRes fam{v} (spec fam{v} p) (spec fam{v} q) := by
  simp only [isMirror, eqRange, range{a}, range2, f{v}_alen, f{v}_sip, f{v}_dip, f{v}_hdr, f{v}_protoPos, List.all_cons, List.all_nil,
    Bool.and_true, Bool.and_eq_true, beq_iff_eq, Nat.add_zero, Nat.reduceAdd, Bool.or_eq_true, Bool.not_eq_true',
    Bool.or_eq_false_iff, beq_eq_false_iff_ne] at hm
  obtain ⟨⟨⟨⟨⟨hlen, hproto⟩, hfrag⟩, {eqs_s.replace(", ", ", ")}⟩, {eqs_d}⟩, hports⟩ := hm
  unfold spec
  rw [keyOf_v{v} p, keyOf_v{v} q]
  simp only [f{v}_hdr, f{v}_protoPos, f{v}_icmp, hlen, hproto, hfrag, {eqs_s}, {eqs_d}, Nat.reduceAdd]
  by_cases h20 : p.length < {h}
  · simp [h20, mirrorRes]
  · by_cases hf : isFrag fam{v} p = true
    · simp [h20, hf, mirrorRes]
    · by_cases h6 : b p {pp} = 6
      · obtain ⟨⟨e20, e21⟩, e22, e23⟩ := hports.resolve_left (by simp [h6])
        by_cases hl : p.length < {d["tcpl"]}
        · simp [h20, hf, h6, hl, mirrorRes]
        · simp only [h20, hf, h6, hl, ↓reduceIte, e20, e21, e22, e23, mirrorRes]
          rfl
      · by_cases h17 : b p {pp} = 17
        · obtain ⟨⟨e20, e21⟩, e22, e23⟩ := hports.resolve_left (by simp [h17])
          by_cases hl : p.length < {d["udpl"]}
          · simp [h20, hf, h17, hl, mirrorRes]
          · simp only [h20, hf, h17, hl, ↓reduceIte, e20, e21, e22, e23, mirrorRes]
            rfl
        · by_cases h1 : b p {pp} = {d["icmp"]}
          · by_cases hl : p.length < {d["icmpl"]}
            · simp [h20, hf, h1, hl, mirrorRes]
            · simp [h20, hf, h1, hl, mirrorRes, revKey, f{v}_alen]
          · simp [h20, hf, h6, h17, h1, mirrorRes, revKey, f{v}_alen]

/-- the spec's mirror image of a key is `EPHashV{v}.Reverse()` as regenerated from packet.go -/
theorem revKey_gen_v{v} (k : List Nat) (h : k.length = {hs}) :
    toList {hs} ({d["Rev"]} (ofList k)) = revKey fam{v} k := by
  conv => rhs; rw [list_eq_toList k {hs} h]
  generalize ofList k = g
  simp [toList, range{hs}, {d["Rev"]}, revKey, f{v}_alen]

/-- **mirror**: if `q` is a packet of the same conversation travelling the other way (`isMirror`:
    same length, protocol and fragment status, addresses swapped, TCP/UDP ports swapped; TTL,
    checksums, TCP flags, ICMP type, payload … arbitrary) then both are classified alike and the key
    of `q` is `Reverse()` (the generated `EPHashV{v}.Reverse`) of the key of `p`. -/
theorem mirror_v{v} {{p q : List Nat}} (hp : Bytes p) (hq : Bytes q) (hm : isMirror fam{v} p q = true) :
    (parseV{v} p = .ok .fragment ∧ parseV{v} q = .ok .fragment) ∨
    (parseV{v} p = .ok .truncated ∧ parseV{v} q = .ok .truncated) ∨
    ∃ k aux aux', parseV{v} p = .ok (.key k aux) ∧
      parseV{v} q = .ok (.key (toList {hs} ({d["Rev"]} (ofList k))) aux') := by
  rw [parseV{v}_eq_spec hp, parseV{v}_eq_spec hq]
  have hs := spec_mirror_v{v} hm
  have hkl : ∀ k aux, spec fam{v} p = .key k aux → k.length = {hs} := by
    intro k aux h
    rw [spec_key h, keyOf_length_v{v}]
  cases h1 : spec fam{v} p with
  | fragment =>
    cases h2 : spec fam{v} q with
    | fragment => exact Or.inl ⟨rfl, rfl⟩
    | truncated => rw [h1, h2] at hs; exact hs.elim
    | key k aux => rw [h1, h2] at hs; exact hs.elim
  | truncated =>
    cases h2 : spec fam{v} q with
    | fragment => rw [h1, h2] at hs; exact hs.elim
    | truncated => exact Or.inr (Or.inl ⟨rfl, rfl⟩)
    | key k aux => rw [h1, h2] at hs; exact hs.elim
  | key k aux =>
    cases h2 : spec fam{v} q with
    | fragment => rw [h1, h2] at hs; exact hs.elim
    | truncated => rw [h1, h2] at hs; exact hs.elim
    | key k' aux' =>
      rw [h1, h2] at hs
      refine Or.inr (Or.inr ⟨k, aux, aux', rfl, ?_⟩)
      have : k' = revKey fam{v} k := hs
      rw [this, revKey_gen_v{v} k (hkl k aux h1)]
''')
    return '\n'.join(out)

header = open(sys.argv[1]).read()
footer = open(sys.argv[2]).read()
open(sys.argv[3],'w').write(header + part(V4) + '\n' + part(V6) + '\n' + footer)
