import GoProbeModel.Base.Wire
import GoProbeModel.Spec.C13

/-!
`gpjudge`: executable specs. Reads lines `<Cxx> <case fields…> => <implementation output>` and
prints `holds[:note]` or `violates:<reason>`. Imports only `Spec/*` (never `Gen/*` or `Model/*`),
so it stays buildable when a change to /repo breaks the regenerated model.
-/
def judges : List (String × (List String → String → String)) := [
  ("C13", C13.judge)
]

def splitJudge (fs : List String) : List String × String :=
  let (a, b) := fs.span (· ≠ "=>")
  (a, " ".intercalate (b.drop 1))

def dispatch (line : String) : String :=
  match Wire.fields line with
  | [] => ""
  | c :: rest =>
    match judges.find? (·.1 == c) with
    | some (_, j) => let (args, out) := splitJudge rest; j args out
    | none => "bad-component:" ++ c

partial def loop (h : IO.FS.Stream) (out : IO.FS.Stream) : IO Unit := do
  let line ← h.getLine
  if line.isEmpty then return ()
  out.putStrLn (dispatch line.trimAscii.toString)
  loop h out

def main : IO Unit := do
  let out ← IO.getStdout
  loop (← IO.getStdin) out
  out.flush
