import GoProbeModel.Base.DriverLoop
import GoProbeModel.Spec.C13
import GoProbeModel.Spec.C22
import GoProbeModel.Spec.C01
import GoProbeModel.Spec.C16
import GoProbeModel.Spec.C14
import GoProbeModel.Spec.C23
import GoProbeModel.Spec.C17
import GoProbeModel.Spec.C12
import GoProbeModel.Spec.C04
import GoProbeModel.Spec.C19
import GoProbeModel.Spec.C15
import GoProbeModel.Spec.C03
import GoProbeModel.Spec.C09
import GoProbeModel.Spec.C24
import GoProbeModel.Spec.C31
import GoProbeModel.Spec.C05
import GoProbeModel.Spec.C30
import GoProbeModel.Spec.C18
import GoProbeModel.Spec.C08
import GoProbeModel.Spec.C28
import GoProbeModel.Spec.C20
import GoProbeModel.Spec.C27
import GoProbeModel.Spec.C21
import GoProbeModel.Spec.C07
import GoProbeModel.Spec.C02
import GoProbeModel.Spec.C26
import GoProbeModel.Spec.C25
import GoProbeModel.Spec.C10
import GoProbeModel.Spec.C29
import GoProbeModel.Spec.C11
import GoProbeModel.Spec.C06

/-!
`gpjudge`: executable specs. Reads lines `<Cxx> <case fields…> => <implementation output>` and
prints `holds[:note]` or `violates:<reason>`. Imports only `Spec/*` (never `Gen/*` or `Model/*`),
so it stays buildable when a change to /repo breaks the regenerated model.
-/
def main : IO Unit := DriverLoop.runJudge [
  ("C13", C13.judge),
  ("C22", C22.judge),
  ("C01", C01.judge),
  ("C16", C16.judge),
  ("C14", C14.judge),
  ("C23", C23.judge),
  ("C17", C17.judge),
  ("C12", C12.judge),
  ("C04", C04.judge),
  ("C19", C19.judge),
  ("C15", C15.judge),
  ("C03", C03.judge),
  ("C09", C09.judge),
  ("C24", C24.judge),
  ("C31", C31.judge),
  ("C05", C05.judge),
  ("C30", C30.judge),
  ("C18", C18.judge),
  ("C08", C08.judge),
  ("C28", C28.judge),
  ("C20", C20.judge),
  ("C27", C27.judge),
  ("C21", C21.judge),
  ("C07", C07.judge),
  ("C02", C02.judge),
  ("C26", C26.judge),
  ("C25", C25.judge),
  ("C10", C10.judge),
  ("C29", C29.judge),
  ("C11", C11.judge),
  ("C06", C06.judge)
]
