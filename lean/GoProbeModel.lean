import GoProbeModel.Base.Wire
import GoProbeModel.Base.Outcome
import GoProbeModel.Props.C13
import GoProbeModel.Props.C22
