import GoProbeModel.Base.Wire
import GoProbeModel.Base.Outcome
import GoProbeModel.Props.C13
