import GoProbeModel.Base.Wire
import GoProbeModel.Base.Outcome
import GoProbeModel.Props.C13
import GoProbeModel.Props.C22
import GoProbeModel.Props.C01
import GoProbeModel.Props.C16
import GoProbeModel.Props.C14
import GoProbeModel.Props.C23
