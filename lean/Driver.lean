import GoProbeModel.Base.Wire
import GoProbeModel.Model.C13

/-!
`gpmodel`: executable models. Reads one case line `<Cxx> <fields…>` and prints the model's
canonical output for it (same line protocol as the Go harness).
-/
def components : List (String × (List String → String)) := [
  ("C13", C13.handle)
]

def dispatch (line : String) : String :=
  match Wire.fields line with
  | [] => ""
  | c :: rest =>
    match components.find? (·.1 == c) with
    | some (_, h) => h rest
    | none => "bad-component:" ++ c

partial def loop (h : IO.FS.Stream) (out : IO.FS.Stream) : IO Unit := do
  let line ← h.getLine
  if line.isEmpty then return ()
  out.putStrLn (dispatch line.trimAscii.toString)
  loop h out

def main : IO Unit := do
  let out ← IO.getStdout
  loop (← IO.getStdin) out
  out.flush
