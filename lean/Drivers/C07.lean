import GoProbeModel.Base.DriverLoop
import GoProbeModel.Model.C07
def main : IO Unit := DriverLoop.runModel "C07" C07.handle
