import GoProbeModel.Base.DriverLoop
import GoProbeModel.Model.C01
def main : IO Unit := DriverLoop.runModel "C01" C01.handle
