import GoProbeModel.Base.DriverLoop
import GoProbeModel.Model.C12
def main : IO Unit := DriverLoop.runModel "C12" C12.handle
