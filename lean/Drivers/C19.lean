import GoProbeModel.Base.DriverLoop
import GoProbeModel.Model.C19
def main : IO Unit := DriverLoop.runModel "C19" C19.handle
