import GoProbeModel.Base.DriverLoop
import GoProbeModel.Model.C06
def main : IO Unit := DriverLoop.runModel "C06" C06.handle
