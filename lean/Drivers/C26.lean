import GoProbeModel.Base.DriverLoop
import GoProbeModel.Model.C26
def main : IO Unit := DriverLoop.runModel "C26" C26.handle
