import GoProbeModel.Base.DriverLoop
import GoProbeModel.Model.C09
def main : IO Unit := DriverLoop.runModel "C09" C09.handle
