import GoProbeModel.Base.DriverLoop
import GoProbeModel.Model.C25
def main : IO Unit := DriverLoop.runModel "C25" C25.handle
