import GoProbeModel.Base.DriverLoop
import GoProbeModel.Model.C15
def main : IO Unit := DriverLoop.runModel "C15" C15.handle
