import GoProbeModel.Base.DriverLoop
import GoProbeModel.Model.C21
def main : IO Unit := DriverLoop.runModel "C21" C21.handle
