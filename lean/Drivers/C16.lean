import GoProbeModel.Base.DriverLoop
import GoProbeModel.Model.C16
def main : IO Unit := DriverLoop.runModel "C16" C16.handle
