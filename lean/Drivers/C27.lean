import GoProbeModel.Base.DriverLoop
import GoProbeModel.Model.C27
def main : IO Unit := DriverLoop.runModel "C27" C27.handle
