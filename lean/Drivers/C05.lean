import GoProbeModel.Base.DriverLoop
import GoProbeModel.Model.C05
def main : IO Unit := DriverLoop.runModel "C05" C05.handle
