import GoProbeModel.Base.DriverLoop
import GoProbeModel.Model.C04
def main : IO Unit := DriverLoop.runModel "C04" C04.handle
