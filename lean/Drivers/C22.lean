import GoProbeModel.Base.DriverLoop
import GoProbeModel.Model.C22
def main : IO Unit := DriverLoop.runModel "C22" C22.handle
