import GoProbeModel.Base.DriverLoop
import GoProbeModel.Model.C08
def main : IO Unit := DriverLoop.runModel "C08" C08.handle
