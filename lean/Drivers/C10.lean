import GoProbeModel.Base.DriverLoop
import GoProbeModel.Model.C10
def main : IO Unit := DriverLoop.runModel "C10" C10.handle
