import GoProbeModel.Base.DriverLoop
import GoProbeModel.Model.C14
def main : IO Unit := DriverLoop.runModel "C14" C14.handle
