import GoProbeModel.Base.DriverLoop
import GoProbeModel.Model.C17
def main : IO Unit := DriverLoop.runModel "C17" C17.handle
