import GoProbeModel.Base.DriverLoop
import GoProbeModel.Model.C20
def main : IO Unit := DriverLoop.runModel "C20" C20.handle
