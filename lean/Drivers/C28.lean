import GoProbeModel.Base.DriverLoop
import GoProbeModel.Model.C28
def main : IO Unit := DriverLoop.runModel "C28" C28.handle
