import GoProbeModel.Base.DriverLoop
import GoProbeModel.Model.C18
def main : IO Unit := DriverLoop.runModel "C18" C18.handle
