import GoProbeModel.Base.DriverLoop
import GoProbeModel.Model.C03
def main : IO Unit := DriverLoop.runModel "C03" C03.handle
