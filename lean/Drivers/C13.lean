import GoProbeModel.Base.DriverLoop
import GoProbeModel.Model.C13
def main : IO Unit := DriverLoop.runModel "C13" C13.handle
