import GoProbeModel.Base.DriverLoop
import GoProbeModel.Model.C30
def main : IO Unit := DriverLoop.runModel "C30" C30.handle
