import GoProbeModel.Base.DriverLoop
import GoProbeModel.Model.C02
def main : IO Unit := DriverLoop.runModel "C02" C02.handle
