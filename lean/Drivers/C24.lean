import GoProbeModel.Base.DriverLoop
import GoProbeModel.Model.C24
def main : IO Unit := DriverLoop.runModel "C24" C24.handle
