import GoProbeModel.Base.DriverLoop
import GoProbeModel.Model.C11
def main : IO Unit := DriverLoop.runModel "C11" C11.handle
