import GoProbeModel.Base.DriverLoop
import GoProbeModel.Model.C31
def main : IO Unit := DriverLoop.runModel "C31" C31.handle
