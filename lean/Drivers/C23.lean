import GoProbeModel.Base.DriverLoop
import GoProbeModel.Model.C23
def main : IO Unit := DriverLoop.runModel "C23" C23.handle
