import GoProbeModel.Base.DriverLoop
import GoProbeModel.Model.C29
def main : IO Unit := DriverLoop.runModel "C29" C29.handle
