import GoProbeModel.Spec.C13
import GoProbeModel.Gen.TimeBin

/-!
C13 — hand-written model of `(*TimeBinner).BinTime` (pkg/results/time_bin.go) as a fold of
`RowsMap.MergeRow` over rows whose timestamp is re-labelled by the *generated*
`Gen.TimeBin.BinTimestamp`. A row is (timestamp option, opaque key id, 4 counters); the key id
stands for (labels other than the timestamp, attributes), which `BinTime` never inspects beyond
map-key equality.
-/
namespace C13

def binRow (binSize : Int) (r : Row) : Row :=
  { r with ts := r.ts.map fun t => Gen.TimeBin.BinTimestamp t binSize }

/-- model of BinTime (before the final sort) -/
def binTime (binSize : Int) (rows : List Row) : List Row :=
  (rows.map (binRow binSize)).foldl mergeRow []

/-- wire ops:
  `bints <ts> <binSizeNs>`            -> binned timestamp
  `calc <resolutionNs> <durationNs>`  -> bin size
  `bintime <binSizeNs> <rows>`        -> rows after BinTime, canonical order -/
def handle : List String → String
  | ["bints", ts, b] =>
    match Wire.parseInt ts, Wire.parseInt b with
    | some ts, some b => toString (Gen.TimeBin.BinTimestamp ts b)
    | _, _ => "bad-args"
  | ["calc", r, d] =>
    match Wire.parseInt r, Wire.parseInt d with
    | some r, some d => toString (Gen.TimeBin.CalcTimeBinSize r d)
    | _, _ => "bad-args"
  | ["bintime", b, rows] =>
    match Wire.parseInt b, parseRows rows with
    | some b, some rows => showRows (binTime b rows)
    | _, _ => "bad-args"
  -- `pp <binSizeNs> <limit> <rows>`: `Statement.PostProcess` = `BinTime`, then the row limit; the cases
  -- have `limit ≥` number of binned rows, so the limit cuts nothing
  | ["pp", b, limit, rows] =>
    match Wire.parseInt b, Wire.parseNat limit, parseRows rows with
    | some b, some n, some rows =>
      let o := binTime b rows
      if n ≠ 0 ∧ n < o.length then "outside-domain" else showRows o
    | _, _, _ => "bad-args"
  | _ => "bad-op"


end C13
