import GoProbeModel.Spec.C30
import GoProbeModel.Model.WriteOut

/-!
C30 — model of a `GPDir` reader running concurrently with the writer of Model/WriteOut.lean, one
file operation at a time (`gpdir.go`: `Open` with `recoverDirPath`, `ReadBlockAtIndex` with its
relocate-and-retry on ENOENT (`relocateColumn`: list the month directory, keep metadata and open
column files); `gpfile.go`: lazy `open`). The reader's stop points are its `openat`
calls; the reads between them use descriptors that are already open.
-/
namespace C30
open DB WO

/-- name of the day directory as the reader knows it: the summary in its suffix (none = plain name) -/
abbrev DirName := Option Totals

/-- who lists the month directory again after an ENOENT -/
inductive Stage where
  | init                      -- `recoverDirPath` in the initial `Open`
  | reopen (b c : Nat)        -- `relocateColumn` inside `ReadBlockAtIndex(c, b)`
  deriving Repr, DecidableEq

/-- program counter of the reader: the NEXT file operation (stop points are `openat` and `close`;
    whatever is read through a descriptor is read by the operation after its `openat`) -/
inductive Pc where
  | listOpen                   -- openat(month directory)
  | listClose                  -- getdents64 … close: the directory content as of now
  | openMeta                   -- openat(<name>/.blockmeta)
  | metaClose                  -- fstat, read, close of the metadata file
  | relistOpen (st : Stage)
  | relistClose (st : Stage)
  | openMeta2                  -- second and last attempt of `Open`
  | opencol (b c : Nat) (retry : Bool)
  | closing (n : Nat)          -- `d.Close()` at the end of the read: `n` column files still to close
  | done
  deriving Repr, DecidableEq

structure Reader where
  pc : Pc
  path : DirName                 -- directory name in use
  blocks : List Nat              -- block list of the metadata read by the initial `Open`
  opened : List Nat              -- columns with an open descriptor
  bad : List Nat                 -- indices of blocks that could not be read
  dead : Bool                    -- the initial `Open` failed
  ops : List String              -- operations performed so far (for trace conformance)
  res : Option String            -- final result when it is not a block list
  deriving Repr

def Reader.start : Reader :=
  { pc := .listOpen, path := none, blocks := [], opened := [], bad := [], dead := false, ops := [], res := none }

/-- the next (block, column) at or after `(b, c)` whose column file still has to be opened -/
def nextOpen (hist : List WriteOut) (blocks opened bad : List Nat) : Nat → Nat → Nat → Option (Nat × Nat)
  | 0, _, _ => none
  | fuel + 1, b, c =>
    if b ≥ blocks.length then none
    else if c ≥ 8 then nextOpen hist blocks opened bad fuel (b + 1) 0
    else
      let needs := match blocks[b]? with
        | some id => (match hist[id]? with | some w => colNonEmpty w c | none => false)
        | none => false
      if needs && !opened.contains c && !bad.contains b then some (b, c)
      else nextOpen hist blocks opened bad fuel b (c + 1)

def advance (hist : List WriteOut) (r : Reader) (b c : Nat) : Reader :=
  match nextOpen hist r.blocks r.opened r.bad (8 * (r.blocks.length + 1) + 8) b c with
  | some (b', c') => { r with pc := .opencol b' c' false }
  | none => if r.opened.isEmpty then { r with pc := .done } else { r with pc := .closing r.opened.length }

def colName (c : Nat) : String := colNames.getD c "?"

/-- one file operation of the reader against the current file system -/
def stepReader (hist : List WriteOut) (iface : String) (day : Int) (fs : Fs) (r : Reader) : Reader :=
  let d := fs.day? iface day
  let pathOk : Bool := match d with | some dd => dd.named == r.path | none => false
  let metaNow : Option (List Nat) := d.bind (·.metaIds)
  match r.pc with
  | .done => r
  | .listOpen =>
    -- the month directory may not exist yet
    if fs.dirs.contains (iface ++ "/" ++ (yearMonth day).2) then { r with pc := .listClose, ops := r.ops ++ ["readdir"] }
    else { r with pc := .done, ops := r.ops ++ ["readdir"], res := some "absent" }
  | .listClose =>
    match d with
    | none => { r with pc := .done, ops := r.ops ++ ["close"], res := some "absent" }
    | some dd => { r with pc := .openMeta, path := dd.named, ops := r.ops ++ ["close"] }
  | .openMeta =>
    if pathOk && metaNow.isNone then
      -- `IsUninitialized`: the directory exists but holds no metadata yet: the day is skipped (as walkDB does)
      { r with pc := .done, res := some "absent" }
    else if pathOk && metaNow.isSome then
      -- the descriptor pins the metadata file as it is now (it is only ever replaced by rename)
      { r with pc := .metaClose, ops := r.ops ++ ["openmeta:ok"], blocks := metaNow.getD [] }
    else { r with pc := .relistOpen .init, ops := r.ops ++ ["openmeta:ENOENT"] }
  | .metaClose => advance hist { r with ops := r.ops ++ ["close"] } 0 0
  | .relistOpen st => { r with pc := .relistClose st, ops := r.ops ++ ["readdir"] }
  | .relistClose st =>
    match st, d with
    | .init, none => { r with pc := .done, dead := true, ops := r.ops ++ ["close"], res := some "err:open" }
    | .init, some dd => { r with pc := .openMeta2, path := dd.named, ops := r.ops ++ ["close"] }
    -- `relocateColumn`: only the path changes; metadata and open column files stay as they are
    | .reopen b _, none => advance hist { r with bad := r.bad ++ [b], ops := r.ops ++ ["close"] } (b + 1) 0
    | .reopen b c, some dd => { r with pc := .opencol b c true, path := dd.named, ops := r.ops ++ ["close"] }
  | .openMeta2 =>
    if pathOk && metaNow.isSome then
      { r with pc := .metaClose, ops := r.ops ++ ["openmeta:ok"], blocks := metaNow.getD [] }
    else
      -- the directory moved again between the listing and the open: `Open` gives up
      { r with pc := .done, dead := true, ops := r.ops ++ ["openmeta:ENOENT"], res := some "err:open" }
  | .opencol b c retry =>
    if pathOk then
      advance hist { r with opened := r.opened ++ [c], ops := r.ops ++ ["opencol:" ++ colName c ++ ":ok"] } b (c + 1)
    else if retry then
      -- second ENOENT in a row: `ReadBlockAtIndex` returns the error, the block is lost for this reader
      advance hist { r with bad := r.bad ++ [b], ops := r.ops ++ ["opencol:" ++ colName c ++ ":ENOENT"] } (b + 1) 0
    else
      -- `relocateColumn` lists the month directory for the new name of the day directory
      { r with pc := .relistOpen (.reopen b c), ops := r.ops ++ ["opencol:" ++ colName c ++ ":ENOENT"] }
  | .closing n =>
    let r' := { r with ops := r.ops ++ ["close"] }
    if n ≤ 1 then { r' with pc := .done, opened := [] } else { r' with pc := .closing (n - 1) }

/-- writer position: write-out `k` started in `fs0` and has performed `n` operations -/
structure Writer where
  fs0 : Fs
  k : Nat
  n : Nat
  deriving Repr

def Writer.fs (hist : List WriteOut) (w : Writer) : Fs := runWriteOut hist w.fs0 w.k w.n

def stepWriter (hist : List WriteOut) (w : Writer) : Writer :=
  if w.k ≥ hist.length then w
  else if w.n + 1 ≥ (program hist w.fs0 w.k).length then
    { fs0 := runWriteOut hist w.fs0 w.k 1000, k := w.k + 1, n := 0 }
  else { w with n := w.n + 1 }

def writerDone (hist : List WriteOut) (w : Writer) : Bool := w.k ≥ hist.length

/-- follow the schedule, then let the reader finish, then the writer -/
def runSched (hist : List WriteOut) (iface : String) (day : Int) : List Char → Writer → Reader → Writer × Reader
  | [], w, r => (w, r)
  | 'w' :: s, w, r => runSched hist iface day s (stepWriter hist w) r
  | _ :: s, w, r => runSched hist iface day s w (stepReader hist iface day (w.fs hist) r)

def finishReader (hist : List WriteOut) (iface : String) (day : Int) (fs : Fs) : Nat → Reader → Reader
  | 0, r => r
  | fuel + 1, r => if r.pc = .done then r else finishReader hist iface day fs fuel (stepReader hist iface day fs r)

def resultOf (hist : List WriteOut) (r : Reader) : String :=
  match r.res with
  | some s => s
  | none =>
    Wire.showList ((List.range r.blocks.length).map fun i =>
      if r.dead || r.bad.contains i then "ERR"
      else match r.blocks[i]? with
        | some id => (match hist[id]? with | some w => toString w.ts | none => "ERR")
        | none => "ERR")

def handle : List String → String
  | ["free", _, _] => "free=ok"    -- free-running overlap: no schedule to predict, judged by the spec only
  | [h, k0s, sched] =>
    match parseHistory h, Wire.parseNat k0s with
    | some hist, some k0 =>
      match hist[k0]? with
      | none => "bad-args"
      | some w0 =>
        let fs0 := (List.range k0).foldl (fun fs i => runWriteOut hist fs i 1000) Fs.empty
        let (w, r) := runSched hist w0.iface (dayOf w0.ts) sched.toList { fs0 := fs0, k := k0, n := 0 } Reader.start
        let r := finishReader hist w0.iface (dayOf w0.ts) (w.fs hist) 400 r
        -- `relocateColumn` releases no buffer a caller may hold: what was read for a block is its content
        "rops=" ++ Wire.showList r.ops ++ " res=" ++ resultOf hist r ++ " data=ok"
    | _, _ => "bad-args"
  | _ => "bad-op"

end C30
