import GoProbeModel.Spec.C30
import GoProbeModel.Model.WriteOut

/-!
C30 — model of a `GPDir` reader running concurrently with the writer of Model/WriteOut.lean, one
file operation at a time (`gpdir.go`: `Open` with `recoverDirPath`, `ReadBlockAtIndex` with its
close-reopen-retry on ENOENT; `gpfile.go`: lazy `open`). The reader's stop points are its `openat`
calls; the reads between them use descriptors that are already open.
-/
namespace C30
open DB WO

/-- name of the day directory as the reader knows it: the summary in its suffix (none = plain name) -/
abbrev DirName := Option Totals

inductive Stage where
  | init                      -- the initial `Open`
  | reopen (b c : Nat)        -- recovery inside `ReadBlockAtIndex(c, b)`
  deriving Repr, DecidableEq

/-- what follows the closing of the open column files -/
inductive After where
  | finish                    -- `d.Close()` at the end of the read
  | reopenAt (b c : Nat)      -- `d.Close()` inside `ReadBlockAtIndex` before the recovering `Open`
  deriving Repr, DecidableEq

/-- program counter of the reader: the NEXT file operation (stop points are `openat` and `close`;
    whatever is read through a descriptor is read by the operation after its `openat`) -/
inductive Pc where
  | listOpen                   -- openat(month directory)
  | listClose                  -- getdents64 … close: the directory content as of now
  | openMeta (st : Stage)      -- openat(<name>/.blockmeta)
  | metaClose (st : Stage)     -- fstat, read, close of the metadata file
  | relistOpen (st : Stage)
  | relistClose (st : Stage)
  | openMeta2 (st : Stage)
  | opencol (b c : Nat) (retry : Bool)
  | closing (n : Nat) (next : After)   -- `n` column files still to close
  | done
  deriving Repr, DecidableEq

structure Reader where
  pc : Pc
  path : DirName                 -- directory name in use
  blocks : List Nat              -- block list of the metadata read by the initial `Open`
  opened : List Nat              -- columns with an open descriptor
  bad : List Nat                 -- indices of blocks that could not be read
  dead : Bool                    -- `GPDir` closed by a failed recovery: everything else fails
  ops : List String              -- operations performed so far (for trace conformance)
  res : Option String            -- final result when it is not a block list
  deriving Repr

def Reader.start : Reader :=
  { pc := .listOpen, path := none, blocks := [], opened := [], bad := [], dead := false, ops := [], res := none }

/-- the next (block, column) at or after `(b, c)` whose column file still has to be opened -/
def nextOpen (hist : List WriteOut) (blocks opened bad : List Nat) : Nat → Nat → Nat → Option (Nat × Nat)
  | 0, _, _ => none
  | fuel + 1, b, c =>
    if b ≥ blocks.length then none
    else if c ≥ 8 then nextOpen hist blocks opened bad fuel (b + 1) 0
    else
      let needs := match blocks[b]? with
        | some id => (match hist[id]? with | some w => colNonEmpty w c | none => false)
        | none => false
      if needs && !opened.contains c && !bad.contains b then some (b, c)
      else nextOpen hist blocks opened bad fuel b (c + 1)

def advance (hist : List WriteOut) (r : Reader) (b c : Nat) : Reader :=
  match nextOpen hist r.blocks r.opened r.bad (8 * (r.blocks.length + 1) + 8) b c with
  | some (b', c') => { r with pc := .opencol b' c' false }
  | none => if r.opened.isEmpty then { r with pc := .done } else { r with pc := .closing r.opened.length .finish }

def colName (c : Nat) : String := colNames.getD c "?"

/-- one file operation of the reader against the current file system -/
def stepReader (hist : List WriteOut) (iface : String) (day : Int) (fs : Fs) (r : Reader) : Reader :=
  let d := fs.day? iface day
  let pathOk : Bool := match d with | some dd => dd.named == r.path | none => false
  let metaNow : Option (List Nat) := d.bind (·.metaIds)
  match r.pc with
  | .done => r
  | .listOpen =>
    -- the month directory may not exist yet
    if fs.dirs.contains (iface ++ "/" ++ (yearMonth day).2) then { r with pc := .listClose, ops := r.ops ++ ["readdir"] }
    else { r with pc := .done, ops := r.ops ++ ["readdir"], res := some "absent" }
  | .listClose =>
    match d with
    | none => { r with pc := .done, ops := r.ops ++ ["close"], res := some "absent" }
    | some dd => { r with pc := .openMeta .init, path := dd.named, ops := r.ops ++ ["close"] }
  | .openMeta st =>
    if st = .init && pathOk && metaNow.isNone then
      -- `IsUninitialized`: the directory exists but holds no metadata yet: the day is skipped (as walkDB does)
      { r with pc := .done, res := some "absent" }
    else if pathOk && metaNow.isSome then
      -- the descriptor pins the metadata file as it is now (it is only ever replaced by rename)
      { r with pc := .metaClose st, ops := r.ops ++ ["openmeta:ok"],
               blocks := (if st = .init then metaNow.getD [] else r.blocks) }
    else { r with pc := .relistOpen st, ops := r.ops ++ ["openmeta:ENOENT"] }
  | .metaClose st =>
    let r' := { r with ops := r.ops ++ ["close"] }
    match st with
    | .init => advance hist r' 0 0
    | .reopen b c => { r' with pc := .opencol b c true }
  | .relistOpen st => { r with pc := .relistClose st, ops := r.ops ++ ["readdir"] }
  | .relistClose st =>
    match d with
    | none => { r with pc := .done, dead := true, ops := r.ops ++ ["close"], res := (if st = .init then some "err:open" else r.res) }
    | some dd => { r with pc := .openMeta2 st, path := dd.named, ops := r.ops ++ ["close"] }
  | .openMeta2 st =>
    if pathOk && metaNow.isSome then
      { r with pc := .metaClose st, ops := r.ops ++ ["openmeta:ok"],
               blocks := (if st = .init then metaNow.getD [] else r.blocks) }
    else
      -- the directory moved again between the listing and the open: `Open` gives up
      { r with pc := .done, dead := true, ops := r.ops ++ ["openmeta:ENOENT"], res := (if st = .init then some "err:open" else r.res) }
  | .opencol b c retry =>
    if pathOk then
      advance hist { r with opened := r.opened ++ [c], ops := r.ops ++ ["opencol:" ++ colName c ++ ":ok"] } b (c + 1)
    else if retry then
      -- second ENOENT in a row: `ReadBlockAtIndex` returns the error, the block is lost for this reader
      advance hist { r with bad := r.bad ++ [b], ops := r.ops ++ ["opencol:" ++ colName c ++ ":ENOENT"] } (b + 1) 0
    else
      let r' := { r with ops := r.ops ++ ["opencol:" ++ colName c ++ ":ENOENT"] }
      -- `_ = d.Close()` closes every open column file, then `d.Open()` starts over at the old path
      if r.opened.isEmpty then { r' with pc := .openMeta (.reopen b c) }
      else { r' with pc := .closing r.opened.length (.reopenAt b c) }
  | .closing n next =>
    let r' := { r with ops := r.ops ++ ["close"] }
    if n ≤ 1 then
      match next with
      | .finish => { r' with pc := .done, opened := [] }
      | .reopenAt b c => { r' with pc := .openMeta (.reopen b c), opened := [] }
    else { r' with pc := .closing (n - 1) next }

/-- writer position: write-out `k` started in `fs0` and has performed `n` operations -/
structure Writer where
  fs0 : Fs
  k : Nat
  n : Nat
  deriving Repr

def Writer.fs (hist : List WriteOut) (w : Writer) : Fs := runWriteOut hist w.fs0 w.k w.n

def stepWriter (hist : List WriteOut) (w : Writer) : Writer :=
  if w.k ≥ hist.length then w
  else if w.n + 1 ≥ (program hist w.fs0 w.k).length then
    { fs0 := runWriteOut hist w.fs0 w.k 1000, k := w.k + 1, n := 0 }
  else { w with n := w.n + 1 }

def writerDone (hist : List WriteOut) (w : Writer) : Bool := w.k ≥ hist.length

/-- follow the schedule, then let the reader finish, then the writer -/
def runSched (hist : List WriteOut) (iface : String) (day : Int) : List Char → Writer → Reader → Writer × Reader
  | [], w, r => (w, r)
  | 'w' :: s, w, r => runSched hist iface day s (stepWriter hist w) r
  | _ :: s, w, r => runSched hist iface day s w (stepReader hist iface day (w.fs hist) r)

def finishReader (hist : List WriteOut) (iface : String) (day : Int) (fs : Fs) : Nat → Reader → Reader
  | 0, r => r
  | fuel + 1, r => if r.pc = .done then r else finishReader hist iface day fs fuel (stepReader hist iface day fs r)

def resultOf (hist : List WriteOut) (r : Reader) : String :=
  match r.res with
  | some s => s
  | none =>
    Wire.showList ((List.range r.blocks.length).map fun i =>
      if r.dead || r.bad.contains i then "ERR"
      else match r.blocks[i]? with
        | some id => (match hist[id]? with | some w => toString w.ts | none => "ERR")
        | none => "ERR")

def handle : List String → String
  | [h, k0s, sched] =>
    match parseHistory h, Wire.parseNat k0s with
    | some hist, some k0 =>
      match hist[k0]? with
      | none => "bad-args"
      | some w0 =>
        let fs0 := (List.range k0).foldl (fun fs i => runWriteOut hist fs i 1000) Fs.empty
        let (w, r) := runSched hist w0.iface (dayOf w0.ts) sched.toList { fs0 := fs0, k := k0, n := 0 } Reader.start
        let r := finishReader hist w0.iface (dayOf w0.ts) (w.fs hist) 400 r
        "rops=" ++ Wire.showList r.ops ++ " res=" ++ resultOf hist r
    | _, _ => "bad-args"
  | _ => "bad-op"

end C30
