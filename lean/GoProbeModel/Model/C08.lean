import GoProbeModel.Spec.C08
import GoProbeModel.Gen.IPLimit
import GoProbeModel.Gen.ListMeta

/-!
C08 — executable model **of the code as written** (after the `fix:` commit that derives the IP
version limit from the condition tree) of the query path:

* `node.ParseAndInstrument` as far as the scan depends on it: negation normal form
  (`negationNormalForm` / `transformComparator`), the IP version of the leaves
  (`conditionBytesAndNetmask`), `Node.IPVersion()` per node — the and / or rules are the
  translator-regenerated `IPVersion.LimitAnd` / `IPVersion.LimitOr` (`Gen/IPLimit.lean`);
* `goDB.NewQuery`: attribute flags, condition flags (`Attributes()`), `ipVersion`;
* `DBWriter.Write` as a map interface ↦ day directory ↦ blocks (as in C12), `walkDB` /
  `CreateWorkerJobs` (directory test, `tFirstCovered` / `tLastCovered`) with the regenerated
  `DirTimestamp`, `EpochDay`, `DBWriteInterval` (`Gen/ListMeta.lean`);
* `readBlocksAndEvaluate`: time filter, IP-version pruning (`startEntry` / `numEntries`), the
  v4/v6 key switch, key and comparison-value population per flag, `SetOrUpdate`;
* workloads of `WorkBulkSize` directories, `aggregate` (`Merge` per interface);
* `RunStatement`: iteration with the direction `ValFilter` (regenerated `Counters.Is…`), totals,
  row materialisation, hits.

Abstractions (validated by the correspondence harness, listed in the trusted base):
* the flow hash maps (`hashmap.Map`, primary = IPv4-shaped keys, secondary = IPv6-shaped keys) are
  an abstract additive map `AMap` from (isIPv4, key) to counters — justified by property C18;
  iteration orders (Go maps, hash maps, worker scheduling) are therefore arbitrary and the
  canonical output sorts the rows;
* `Conditional.Evaluate` on the instrumented tree is the denotational semantics `sem` (C09's
  subject) — evaluated, as in the code, on the *comparison value* that carries only the columns
  the condition mentions;
* column files, bit packing, compression and `.blockmeta` are represented by the values they
  encode (C01/C03/C07); counters are natural numbers (sums below 2^64 assumed);
* the year / month pruning of `walkDB` is implied by the day test (C12 `prune_sound`, UTC).
-/
namespace C08
open DB Gen.IPLimit Gen.ListMeta

/-! ### condition: negation normal form, flags, IP version limit -/

/-- `transformComparator` (source text pinned by fact `c08_nnf`) -/
def Cmp.negate : Cmp → Cmp
  | .eq => .ne | .ne => .eq | .lt => .ge | .gt => .le | .le => .gt | .ge => .lt

/-- `negationNormalForm` (`helper node negate`) -/
def nnf : Cond → Bool → Cond
  | .ip s c v, neg => .ip s (if neg then c.negate else c) v
  | .net s c v n, neg => .net s (if neg then c.negate else c) v n
  | .num p c v, neg => .num p (if neg then c.negate else c) v
  | .not a, neg => nnf a (!neg)
  | .and a b, neg => if neg then .or (nnf a neg) (nnf b neg) else .and (nnf a neg) (nnf b neg)
  | .or a b, neg => if neg then .and (nnf a neg) (nnf b neg) else .or (nnf a neg) (nnf b neg)

/-- IP version of an address literal (`conditionBytesAndNetmask`: `isIPv4` of `IPStringToBytes`) -/
def leafVersion (v : String) : Int := if v.length = 8 then IPVersionV4 else IPVersionV6

/-- `Node.IPVersion()`: the IP version the condition is limited to -/
def limit : Cond → Int
  | .ip _ c v => if c ≠ .eq then IPVersionNone else leafVersion v
  | .net _ c v _ => if c ≠ .eq then IPVersionNone else leafVersion v
  | .num _ _ _ => IPVersionNone            -- `ipVersion` of dport / proto leaves stays IPVersionNone
  | .not _ => IPVersionNone
  | .and a b => IPVersion_LimitAnd (limit a) (limit b)
  | .or a b => IPVersion_LimitOr (limit a) (limit b)

/-- `hasCondSIP`, `hasCondDIP`, `hasCondDport`, `hasCondProto` -/
structure Flags where
  sip : Bool
  dip : Bool
  dport : Bool
  proto : Bool
  deriving Repr, DecidableEq

def Flags.none : Flags := ⟨false, false, false, false⟩
def Flags.or (a b : Flags) : Flags := ⟨a.sip || b.sip, a.dip || b.dip, a.dport || b.dport, a.proto || b.proto⟩

/-- keys of `Node.Attributes()` -/
def condFlags : Cond → Flags
  | .ip src _ _ => ⟨src, !src, false, false⟩
  | .net src _ _ _ => ⟨src, !src, false, false⟩    -- `conditionalAttributeNameToColumnIndex`: snet → sip, dnet → dip
  | .num port _ _ => ⟨false, false, port, !port⟩
  | .not a => condFlags a
  | .and a b => (condFlags a).or (condFlags b)
  | .or a b => (condFlags a).or (condFlags b)

/-- `goDB.Query` as far as the scan reads it -/
structure Plan where
  sel : Sel
  cond : Option Cond      -- instrumented tree (negation normal form)
  flags : Flags
  ipVersion : Int
  deriving Repr

/-- `ParseAndInstrument` + `NewQuery` -/
def plan (q : Query) : Plan :=
  match q.cond with
  | none => ⟨q.sel, none, Flags.none, IPVersionNone⟩
  | some c =>
    let n := nnf c false
    ⟨q.sel, some n, condFlags n, limit n⟩

/-! ### abstract additive flow map -/

/-- map key: which of the two hash maps (`isIPv4`) and the populated key -/
abbrev MKey := Bool × Key

abbrev AMap (κ : Type) := List (κ × Ctr)

/-- `SetOrUpdate` -/
def AMap.upd {κ : Type} [DecidableEq κ] : AMap κ → κ → Ctr → AMap κ
  | [], k, c => [(k, c)]
  | (k', c') :: r, k, c => if k' = k then (k', c'.add c) :: r else (k', c') :: AMap.upd r k c

/-- `Merge` -/
def AMap.merge {κ : Type} [DecidableEq κ] (a b : AMap κ) : AMap κ := b.foldl (fun m e => m.upd e.1 e.2) a

/-! ### database: interface directory = day directories in listing order, each with its blocks -/

structure Day where
  day : Int
  blocks : List WriteOut
  deriving Repr

def write : List Day → WriteOut → List Day
  | [], w => [⟨DirTimestamp w.ts, [w]⟩]
  | d :: ds, w =>
    if DirTimestamp w.ts = d.day then { d with blocks := d.blocks ++ [w] } :: ds
    else if DirTimestamp w.ts < d.day then ⟨DirTimestamp w.ts, [w]⟩ :: d :: ds
    else d :: write ds w

/-- the interface directory after the write-outs `ws` (all of one interface) -/
def build (ws : List WriteOut) : List Day := ws.foldl write []

/-- directory test of `walkDB` -/
def selected (tfirst tlast : Int) (d : Day) : Bool :=
  decide (tfirst < d.day + EpochDay) && decide (d.day < tlast + DBWriteInterval)

/-- `GPDir.TimeRange` -/
def timeRange (d : Day) : Option (Int × Int) :=
  match d.blocks.head?, d.blocks.getLast? with
  | some f, some l => some (f.ts, l.ts)
  | _, _ => none

/-- `CreateWorkerJobs`: `(tFirstCovered, tLastCovered)`; `none` = no directory selected (the work
    manager is dropped) -/
def covered (tfirst tlast : Int) (sel : List Day) : Option (Int × Int) :=
  match sel.head?, sel.getLast? with
  | some d0, some dl =>
    match timeRange d0, timeRange dl with
    | some (dirFirst, _), some (_, dirLast) =>
      some (if tfirst < dirFirst then dirFirst else tfirst, if tlast > dirLast then dirLast else tlast)
    | _, _ => none
  | _, _ => none

/-! ### scan -/

def zeroAddr (v4 : Bool) : String := if v4 then "00000000" else "00000000000000000000000000000000"

/-- the comparison value: a key of the entry's family in which only the columns the condition
    mentions are populated -/
def cmpVal (fl : Flags) (f : Flow) : Flow :=
  { f with
    sip := if fl.sip then f.sip else zeroAddr f.isV4
    dip := if fl.dip then f.dip else zeroAddr f.isV4
    dport := if fl.dport then f.dport else 0
    proto := if fl.proto then f.proto else 0 }

/-- entries of a block that are looked at: IPv4 entries come first (`numV4Entries`), the limit
    cuts the loop to `[numV4Entries, numEntries)` or `[0, numV4Entries)` -/
def entriesOf (p : Plan) (w : WriteOut) : List Flow :=
  let v4s := w.flows.filter (·.isV4)
  let v6s := w.flows.filter (fun f => !f.isV4)
  if p.ipVersion = IPVersionV6 then v6s
  else if p.ipVersion = IPVersionV4 then v4s
  else v4s ++ v6s

def satisfied (p : Plan) (f : Flow) : Bool :=
  match p.cond with
  | none => true
  | some c => sem c (cmpVal p.flags f)

/-- one loop iteration: populate key / comparison value, evaluate, `SetOrUpdate` -/
def scanEntry (p : Plan) (w : WriteOut) (m : AMap MKey) (f : Flow) : AMap MKey :=
  let isIPv4 := f.isV4 || !(p.sel.sip || p.sel.dip)
  if satisfied p f then m.upd (isIPv4, keyOf p.sel w f) (ctrOf f) else m

def scanBlock (p : Plan) (m : AMap MKey) (w : WriteOut) : AMap MKey :=
  (entriesOf p w).foldl (scanEntry p w) m

/-- `readBlocksAndEvaluate` on one directory -/
def scanDay (p : Plan) (lo hi : Int) (m : AMap MKey) (d : Day) : AMap MKey :=
  d.blocks.foldl (fun m w => if w.ts < lo ∨ w.ts > hi then m else scanBlock p m w) m

/-- consecutive chunks of `n + 1` elements (structural in the fuel `l.length`) -/
def chunksAux {α : Type} (n : Nat) : Nat → List α → List (List α)
  | 0, _ => []
  | fuel + 1, l => if l.isEmpty then [] else l.take (n + 1) :: chunksAux n fuel (l.drop (n + 1))

def chunks {α : Type} (n : Nat) (l : List α) : List (List α) := chunksAux (n - 1) l.length l

/-- `WorkBulkSize` -/
def workBulkSize : Nat := 32

/-- one interface: `CreateWorkerJobs`, `ExecuteWorkerReadJobs` (one map per workload),
    `aggregate` (merge into the interface's final map) -/
def scanIface (p : Plan) (tfirst tlast : Int) (db : List Day) : AMap MKey :=
  let sel := db.filter (selected tfirst tlast)
  match covered tfirst tlast sel with
  | none => []
  | some (lo, hi) =>
    (chunks workBulkSize sel).foldl (fun fin wl => fin.merge (wl.foldl (scanDay p lo hi) [])) []

/-! ### RunStatement -/

def toCounters (c : Ctr) : Counters := ⟨c.br, c.bs, c.pr, c.ps⟩

/-- `extractDirectionFilter` (fact `c08_direction_filters`) applied by the filtered iterator -/
def valFilter : Option Dir → Ctr → Bool
  | none, _ => true
  | some .inb, c => Counters_IsOnlyInbound (toCounters c)
  | some .outb, c => Counters_IsOnlyOutbound (toCounters c)
  | some .uni, c => Counters_IsUnidirectional (toCounters c)
  | some .bi, c => Counters_IsBidirectional (toCounters c)

/-- `stmt.Ifaces`: the interfaces of the database selected by the argument, sorted -/
def ifaceList (hist : List WriteOut) (q : Query) : List String := sortStrs (queried hist q)

/-- the final map of one interface -/
def ifaceMap (hist : List WriteOut) (q : Query) (iface : String) : AMap MKey :=
  scanIface (plan q) q.first q.last (build (hist.filter (·.iface == iface)))

/-- loop state of the result preparation: rows, totals, count -/
structure Acc where
  rows : List (Key × Ctr)
  totals : Ctr
  count : Nat

def emit (dir : Option Dir) (a : Acc) (e : MKey × Ctr) : Acc :=
  if valFilter dir e.2 then ⟨a.rows ++ [(e.1.2, e.2)], a.totals.add e.2, a.count + 1⟩ else a

/-- `RunStatement` on an existing, non-empty interface list -/
def run (hist : List WriteOut) (q : Query) : Result :=
  let acc := (ifaceList hist q).foldl (fun a i => (ifaceMap hist q i).foldl (emit q.dir) a) ⟨[], Ctr.zero, 0⟩
  { rows := acc.rows, totals := acc.totals, hits := acc.count }

/-- wire op `q <attrs> <cond> <dir> <first> <last> <ifaces> <history>` -/
def handle (args : List String) : String :=
  match parseCase args with
  | none => "bad-args"
  | some (q, hist) =>
    if !(match q.cond with | none => true | some c => c.ok) then "err:prepare"
    else if (queried hist q).isEmpty then "err:noiface"
    else render (run hist q)

end C08
