import GoProbeModel.Spec.C10
import GoProbeModel.Base.Outcome
import GoProbeModel.Gen.Sanitize
import GoProbeModel.Gen.Facts

/-!
C10 — executable model of the code as written (after the `fix:` commit):

* `SanitizeUserInput` (pkg/goDB/conditions/tokenize.go): lower-casing through
  `regexAll.ReplaceAllFunc(…, bytes.ToLower)` (`lower`: rune-wise, invalid UTF-8 bytes become U+FFFD,
  case table of the Go toolchain from `Gen.Facts.c10_unicode_case_ranges`), then the rewrite table
  `Gen.Sanitize.grammarConversions` *regenerated from the source*, applied in listed order, each
  pattern by `ReplaceAllString` (`replaceAll`: non-overlapping leftmost-first matches, left to right).
  The patterns and templates are interpreted by `parsePattern` / `parseTemplate` for exactly the
  constructs that occur: literal characters, `\s+`, a bracket class, the prefix group
  `(^|\s+|([…]))` and the template `${2}` + literal. The matcher `matchAtoms` is a backtracking
  matcher with the priorities of Go's regexp (greedy `+`, alternatives left to right).
* `Tokenize`: whole-string model of the `bufio.Scanner` driven split functions, including the
  64 KiB token limit (a word of ≥ 65536 bytes ends the scan with `ErrTooLong`, the tokens before it
  are returned); the delimiter predicates are the regenerated `startsDelimiter` / `endsDelimiter`.
* `parseConditional` (pkg/goDB/conditions/node/parse.go): the recursive-descent parser over a token
  slice and a position (`listToTree`'s explicit panic is an `Outcome.panic`), errors as
  `kind@position`. Recursion is by fuel (4·len+4); `Props/C10.lean` proves that it never runs out.
* `prepConditionArg` (pkg/query/args.go): sanitise, check, store the tokens joined by one blank.
-/
namespace C10

/-! ## bytes.ToLower on arbitrary bytes -/

structure CaseRange where
  lo : Nat
  hi : Nat
  delta : Option Int      -- `none`: alternating Upper/Lower sequence (unicode.UpperLower)
  deriving Repr

def parseRange (s : String) : Option CaseRange :=
  match s.splitOn "," with
  | [a, b, d] => do
    let lo ← a.toNat?
    let hi ← b.toNat?
    if d == "UL" then some ⟨lo, hi, none⟩ else do
      let dd ← d.toInt?
      some ⟨lo, hi, some dd⟩
  | _ => none

/-- `unicode.CaseRanges` of the toolchain (ranges whose lower-case delta is 0 omitted) -/
def caseRanges : List CaseRange := Gen.Facts.c10_unicode_case_ranges.filterMap parseRange

/-- `unicode.ToLower` -/
def runeLower (r : Nat) : Nat :=
  if r ≤ 127 then (if 65 ≤ r ∧ r ≤ 90 then r + 32 else r) else
  match caseRanges.find? (fun cr => cr.lo ≤ r && r ≤ cr.hi) with
  | some cr =>
    match cr.delta with
    | some d => ((r : Int) + d).toNat
    | none => cr.lo + ((r - cr.lo) / 2 * 2 + 1)
  | none => r

def isCont (c : Char) : Bool := 0x80 ≤ c.toNat && c.toNat ≤ 0xBF

/-- `utf8.DecodeRune`: (rune, width) for a non-empty input; invalid or truncated → (U+FFFD, 1) -/
def decodeRune (s : Str) : Nat × Nat :=
  match s with
  | [] => (0xFFFD, 1)
  | b0 :: rest =>
    let x := b0.toNat
    if x < 0x80 then (x, 1)
    else if 0xC2 ≤ x ∧ x ≤ 0xDF then
      match rest with
      | b1 :: _ => if isCont b1 then ((x % 32) * 64 + b1.toNat % 64, 2) else (0xFFFD, 1)
      | _ => (0xFFFD, 1)
    else if 0xE0 ≤ x ∧ x ≤ 0xEF then
      match rest with
      | b1 :: b2 :: _ =>
        let lo := if x = 0xE0 then 0xA0 else 0x80
        let hi := if x = 0xED then 0x9F else 0xBF
        if lo ≤ b1.toNat ∧ b1.toNat ≤ hi ∧ isCont b2 then
          ((x % 16) * 4096 + (b1.toNat % 64) * 64 + b2.toNat % 64, 3)
        else (0xFFFD, 1)
      | _ => (0xFFFD, 1)
    else if 0xF0 ≤ x ∧ x ≤ 0xF4 then
      match rest with
      | b1 :: b2 :: b3 :: _ =>
        let lo := if x = 0xF0 then 0x90 else 0x80
        let hi := if x = 0xF4 then 0x8F else 0xBF
        if lo ≤ b1.toNat ∧ b1.toNat ≤ hi ∧ isCont b2 ∧ isCont b3 then
          ((x % 8) * 262144 + (b1.toNat % 64) * 4096 + (b2.toNat % 64) * 64 + b3.toNat % 64, 4)
        else (0xFFFD, 1)
      | _ => (0xFFFD, 1)
    else (0xFFFD, 1)

/-- `utf8.AppendRune` -/
def encodeRune (r : Nat) : Str :=
  if r < 0x80 then [Char.ofNat r]
  else if r < 0x800 then [Char.ofNat (0xC0 + r / 64), Char.ofNat (0x80 + r % 64)]
  else if (0xD800 ≤ r ∧ r ≤ 0xDFFF) ∨ r > 0x10FFFF then [Char.ofNat 0xEF, Char.ofNat 0xBF, Char.ofNat 0xBD]
  else if r < 0x10000 then [Char.ofNat (0xE0 + r / 4096), Char.ofNat (0x80 + r / 64 % 64), Char.ofNat (0x80 + r % 64)]
  else [Char.ofNat (0xF0 + r / 262144), Char.ofNat (0x80 + r / 4096 % 64), Char.ofNat (0x80 + r / 64 % 64),
        Char.ofNat (0x80 + r % 64)]

/-- rune-wise lower-casing; `skip` = bytes of the current rune still to pass over -/
def lowerGo : Nat → Str → Str
  | _, [] => []
  | k + 1, _ :: s => lowerGo k s
  | 0, c :: s =>
    let (r, w) := decodeRune (c :: s)
    encodeRune (runeLower r) ++ lowerGo (w - 1) s

/-- `regexAll.ReplaceAllFunc([]byte(conditional), bytes.ToLower)` -/
def lower (s : Str) : Str := lowerGo 0 s

/-! ## the regular-expression subset -/

inductive Atom where
  | lit (c : Char)                -- a literal character (plain or escaped punctuation)
  | ws                            -- `\s+`
  | cls (cs : List Char)          -- `[…]` of literal characters
  | pre (ops : List Char)         -- `(^|\s+|([…]))`: start of text, white space, or one captured character
  deriving DecidableEq, Repr

/-- replacement template: `${2}` (the character captured by the prefix group, if any) followed by
    literal text, or literal text only -/
structure Template where
  group2 : Bool
  text : Str
  deriving DecidableEq, Repr

structure Rule where
  pat : List Atom
  tpl : Template
  deriving DecidableEq, Repr

def metaChars : List Char := ".+*?()|[]{}^$\\".toList

def isPunct (c : Char) : Bool := 33 ≤ c.toNat && c.toNat ≤ 126 && !c.isAlphanum

/-- the inside of a bracket class up to the closing `]` -/
def parseClass : Nat → Str → Option (List Char × Str)
  | 0, _ => none
  | _ + 1, [] => none
  | _ + 1, ']' :: r => some ([], r)
  | f + 1, '\\' :: c :: r => if isPunct c then (parseClass f r).map fun (cs, r') => (c :: cs, r') else none
  | f + 1, c :: r =>
    if c == '[' || c == '^' || c == '-' || c == '\\' then none
    else (parseClass f r).map fun (cs, r') => (c :: cs, r')

def prefixOpen : Str := "(^|\\s+|([".toList

def parseAtoms : Nat → Str → Option (List Atom)
  | 0, _ => none
  | _ + 1, [] => some []
  | f + 1, s@(c :: r) =>
    if prefixOpen.isPrefixOf s then
      match parseClass f (s.drop prefixOpen.length) with
      | some (cs, ')' :: ')' :: r') => (parseAtoms f r').map (Atom.pre cs :: ·)
      | _ => none
    else if c == '\\' then
      match r with
      | 's' :: '+' :: r' => (parseAtoms f r').map (Atom.ws :: ·)
      | d :: r' => if isPunct d then (parseAtoms f r').map (Atom.lit d :: ·) else none
      | [] => none
    else if c == '[' then
      match parseClass f r with
      | some (cs, r') => (parseAtoms f r').map (Atom.cls cs :: ·)
      | none => none
    else if metaChars.contains c then none
    else (parseAtoms f r).map (Atom.lit c :: ·)

/-- a pattern is supported if it parses and consumes at least one character whenever it matches -/
def parsePattern (p : String) : Option (List Atom) :=
  match parseAtoms (p.length + 1) p.toList with
  | some as => if as.any (fun a => match a with | .pre _ => false | _ => true) then some as else none
  | none => none

def parseTemplate (t : String) : Option Template :=
  let s := t.toList
  if "${2}".toList.isPrefixOf s then
    let rest := s.drop 4
    if rest.contains '$' then none else some ⟨true, rest⟩
  else if s.contains '$' then none else some ⟨false, s⟩

/-- the rules in the order in which SanitizeUserInput applies them -/
def rulesOf (tbl : List Gen.Sanitize.grammarConversion) : Option (List Rule) :=
  (tbl.flatMap fun e => e.userGrammarOps.map fun p => (p, e.condGrammarOp)).mapM fun (p, t) =>
    match parsePattern p, parseTemplate t with
    | some as, some tp => some ⟨as, tp⟩
    | _, _ => none

def rules : Option (List Rule) := rulesOf Gen.Sanitize.grammarConversions

/-- RE2 `\s` -/
def isSpace (c : Char) : Bool := c == ' ' || c == '\t' || c == '\n' || c == '\r' || c == Char.ofNat 12

/-- `\s*` with backtracking, greedy: prefer to consume one more white-space character, fall back to
    stopping here (`cont rest consumed`) -/
def wsStar {R : Type} (cont : Str → Nat → Option R) : Str → Nat → Option R
  | [], n => cont [] n
  | x :: s, n =>
    if isSpace x then
      match wsStar cont s (n + 1) with
      | some r => some r
      | none => cont (x :: s) n
    else cont (x :: s) n

/-- `\s+` -/
def wsPlus {R : Type} (cont : Str → Nat → Option R) : Str → Nat → Option R
  | [], _ => none
  | x :: s, n => if isSpace x then wsStar cont s (n + 1) else none

/-- leftmost-first match of the atoms at the beginning of `s`: number of characters consumed (on
    top of `n`) and the captured operator character -/
def matchAtoms : List Atom → Bool → Option Char → Str → Nat → Option (Nat × Option Char)
  | [], _, cap, _, n => some (n, cap)
  | .lit c :: as, _, cap, s, n =>
    match s with
    | x :: s' => if x == c then matchAtoms as false cap s' (n + 1) else none
    | [] => none
  | .cls cs :: as, _, cap, s, n =>
    match s with
    | x :: s' => if cs.contains x then matchAtoms as false cap s' (n + 1) else none
    | [] => none
  | .ws :: as, _, cap, s, n => wsPlus (matchAtoms as false cap) s n
  | .pre ops :: as, atStart, cap, s, n =>
    match (if atStart then matchAtoms as true cap s n else none) with
    | some r => some r
    | none =>
      match wsPlus (matchAtoms as false cap) s n with
      | some r => some r
      | none =>
        match s with
        | x :: s' => if ops.contains x then matchAtoms as false (some x) s' (n + 1) else none
        | [] => none

def expand (t : Template) (cap : Option Char) : Str :=
  (if t.group2 then (match cap with | some c => [c] | none => []) else []) ++ t.text

/-- `ReplaceAllString`: `atStart` = at offset 0 of the text, `skip` = characters of the current match
    still to pass over -/
def replaceGo (r : Rule) : Bool → Nat → Str → Str
  | _, _, [] => []
  | _, k + 1, _ :: s => replaceGo r false k s
  | atStart, 0, c :: s =>
    match matchAtoms r.pat atStart none (c :: s) 0 with
    | some (n, cap) =>
      if n = 0 then expand r.tpl cap ++ c :: replaceGo r false 0 s
      else expand r.tpl cap ++ replaceGo r false (n - 1) s
    | none => c :: replaceGo r false 0 s

def replaceAll (r : Rule) (s : Str) : Str := replaceGo r true 0 s

def applyRules (rs : List Rule) (s : Str) : Str := rs.foldl (fun acc r => replaceAll r acc) s

/-- `SanitizeUserInput` for a given rule list -/
def sanitizeWith (rs : List Rule) (s : Str) : Str := applyRules rs (lower s)

/-! ## Tokenize -/

def startsDelim (c : Char) : Bool := Gen.Sanitize.startsDelimiter c.toNat
def endsDelim (c : Char) : Bool := Gen.Sanitize.endsDelimiter c.toNat

/-- first case of delimiterSplitFunc -/
def singleDelim (c : Char) : Bool := c == '=' || c == '|' || c == '&' || c == '(' || c == ')'
/-- second case of delimiterSplitFunc: the token is replaced by " " and dropped by Tokenize -/
def blankDelim (c : Char) : Bool := c == ' ' || c == '\n' || c == '\r' || c == '\t'

/-- bufio.MaxScanTokenSize: a word of at least this many bytes never fits into the buffer -/
def maxToken : Nat := 65536

def flushW (w : Str) (n : Nat) (k : List Str × Bool) : List Str × Bool :=
  if w.isEmpty then k else if n ≥ maxToken then ([], true) else (w.reverse :: k.1, k.2)

def consTok (t : Str) (k : List Str × Bool) : List Str × Bool := (t :: k.1, k.2)

/-- tokens and "the scanner stopped with ErrTooLong". `w`: the word read so far (reversed) and its
    length; `skip`: the current byte was consumed as second byte of a two-byte delimiter token -/
def tokGo : Str → Str → Nat → Bool → List Str × Bool
  | [], w, n, _ => flushW w n ([], false)
  | c :: rest, w, n, skip =>
    if skip then tokGo rest [] 0 false
    else if startsDelim c then
      flushW w n (
        if singleDelim c then consTok [c] (tokGo rest [] 0 false)
        else if blankDelim c then tokGo rest [] 0 false
        else
          match rest.head? with
          | none => consTok [c] ([], false)
          | some d =>
            if endsDelim d then consTok [c, d] (tokGo rest [] 0 true)
            else consTok [c] (tokGo rest [] 0 false))
    else tokGo rest (c :: w) (n + 1) false

def tokenize (s : Str) : List Str × Bool := tokGo s [] 0 false

/-! ## the parser

The parser state is the token slice and `p.pos`. `p.tokens[p.pos]` is only evaluated behind the guard
`!p.eof()` (fact `c10_parser_shape`: `advance`, `accept`), so the model carries the not yet consumed
tokens `tokens[pos:]` together with `pos`; `eof` is "nothing left". -/

def errAt (kind : String) (pos : Nat) : String := kind ++ "@" ++ toString pos

/-- parser state: remaining tokens and position -/
abbrev PState := List Str × Nat

/-- `p.advance()` -/
def advance : PState → Outcome (Str × PState)
  | ([], pos) => .err (errAt "eoi" pos)
  | (t :: rest, pos) => .ok (t, (rest, pos + 1))

/-- `p.accept(token)` -/
def accept (st : PState) (tok : Str) : Outcome (Bool × PState) :=
  match st with
  | ([], _) => .ok (false, st)
  | (t :: _, _) => if t = tok then (advance st).bind fun (_, st') => .ok (true, st') else .ok (false, st)

/-- `listToTree` -/
def listToTree (isAnd : Bool) : List Ast → Outcome Ast
  | [] => .panic "nodes must not be empty"
  | [n] => .ok n
  | n :: rest => (listToTree isAnd rest).bind fun r => .ok (if isAnd then .and n r else .or n r)

/-- the loops of `attribute()` / `comparator()`: first listed token that is accepted -/
def acceptFirst (st : PState) (kind : String) : List Str → Outcome (Str × PState)
  | [] => .err (errAt kind st.2)
  | a :: as =>
    (accept st a).bind fun (b, st') => if b then .ok (a, st') else acceptFirst st kind as

/-- `p.condition()` -/
def condition (st : PState) : Outcome (Ast × PState) :=
  (acceptFirst st "attr" attributes).bind fun (a, s1) =>
  (acceptFirst s1 "cmp" comparators).bind fun (c, s2) =>
  (advance s2).bind fun (v, s3) => .ok (.cond a c v, s3)

mutual
/-- `p.disjunction()` up to the call of listToTree: the collected nodes -/
def disjNodes : Nat → PState → Outcome (List Ast × PState)
  | 0, _ => .panic "fuel"
  | f + 1, st =>
    (conjNodes f st).bind fun (cs, s1) =>
    (listToTree true cs).bind fun n =>
    (accept s1 tOr).bind fun (b, s2) =>
    if b then (disjNodes f s2).bind fun (ns, s3) => .ok (n :: ns, s3) else .ok ([n], s2)
/-- `p.conjunction()` up to the call of listToTree -/
def conjNodes : Nat → PState → Outcome (List Ast × PState)
  | 0, _ => .panic "fuel"
  | f + 1, st =>
    (negation f st).bind fun (n, s1) =>
    (accept s1 tAnd).bind fun (b, s2) =>
    if b then (conjNodes f s2).bind fun (ns, s3) => .ok (n :: ns, s3) else .ok ([n], s2)
/-- `p.negation()` -/
def negation : Nat → PState → Outcome (Ast × PState)
  | 0, _ => .panic "fuel"
  | f + 1, st =>
    (accept st tNot).bind fun (b, s1) =>
    if b then (primitive f s1).bind fun (n, s2) => .ok (.not n, s2) else primitive f s1
/-- `p.primitive()` -/
def primitive : Nat → PState → Outcome (Ast × PState)
  | 0, _ => .panic "fuel"
  | f + 1, st =>
    (accept st tLp).bind fun (b, s1) =>
    if b then
      (disjNodes f s1).bind fun (ns, s2) =>
      (listToTree false ns).bind fun n =>
      (accept s2 tRp).bind fun (b2, s3) =>
      if b2 then .ok (n, s3) else .err (errAt "expected" s3.2)
    else condition s1
end

def parseFuel (ts : List Str) : Nat := 4 * ts.length + 4

/-- `parseConditional`: `none` = the empty conditional (errEmptyConditional, ignored by the callers) -/
def parseTokens (ts : List Str) : Outcome (Option Ast) :=
  if ts.isEmpty then .ok none
  else
    (disjNodes (parseFuel ts) (ts, 0)).bind fun (ns, st) =>
    (listToTree false ns).bind fun n =>
    if !st.1.isEmpty then .err (errAt "trailing" st.2) else .ok (some n)

/-! ## observations (what the harness prints for one condition text) -/

def astField (toks : List Str × Bool) : String :=
  if toks.2 then "err:tokenize" else
  match parseTokens toks.1 with
  | .ok none => "empty"
  | .ok (some a) => a.wire
  | .err e => "err:" ++ e
  | .panic p => "panic:" ++ p

def isTree (f : String) : Bool := !(f.startsWith "err" || f == "empty" || f.startsWith "panic")

def observeWith (rs : List Rule) (cond : Str) : String :=
  let san := sanitizeWith rs cond
  let toks := tokenize san
  let ast := astField toks
  let canon := joinTokens toks.1
  let re := astField (tokenize canon)
  let canon2 := joinTokens (tokenize (sanitizeWith rs canon)).1
  let prep := if isTree ast && (re != ast || canon2 != canon) then "rej" else "-"
  "det=1 san=" ++ escStr san ++ " tok=" ++ (if toks.2 then "toolong" else "ok") ++ " ast=" ++ ast ++
  " canon=" ++ escStr canon ++ " re=" ++ re ++ " canon2=" ++ escStr canon2 ++ " pc=ok prep=" ++ prep

def handle (args : List String) : String :=
  match rules, caseText args with
  | none, _ => "model:unsupported-pattern-in-table"
  | _, none => "bad-args"
  | some rs, some cond => observeWith rs cond

end C10
