import GoProbeModel.Base.Outcome
import GoProbeModel.Spec.C06
import GoProbeModel.Model.C03

/-!
C06 — executable model of the READER side of a query as the code is now (after the `fix:`
commits listed in checks/config/C06.json), for arbitrary bytes in every file of every day:

* `suffixDecode`  : `NewDirReader` → `setMetadataFromSuffix` → `Metadata.UnmarshalString` (with the
  byte-range check) → `bitpack.DecodeUint64FromString` (table from `Gen/B62.lean`, checked index)
* `C03.unmarshal` : `(*GPDir).Unmarshal` (byte-level model of C03, every slice / index checked)
* `readBlock`     : `(*GPFile).ReadBlockAtIndex` over a `concurrency.MemFile` (the default, non-low-mem
  reader): `RawLen == 0`, `Len == 0`, lazy open (missing file), `Seek` only when the block offset differs
  from the last seek position, `MemFile.Seek` (`io.EOF` at or beyond the end, the position returned
  — zero — is stored), `MemFile.Read` (`m.data[m.pos:]` checked; short read = error, position kept),
  decoder selection by encoder type (0 and > 3: no such encoder), the decoder itself a parameter
  `Dec` (any function), `nRead != RawLen`, the bookkeeping `lastSeekPos += Len`
* `evalBlock`     : the loop body of `(*DBWorkManager).readBlocksAndEvaluate`: time-range test on the
  queried range, reading the query's columns (stop at the first failure), the IPv4-count test, the
  per-column sanity checks, `bitpack.Len` / `bitpack.UnpackInto` (every width byte 0…255), the scan
  loop with every index and slice expression checked (`Outcome.panic` if out of range)
* `processDay`    : `readBlocksAndEvaluate` (a day whose metadata does not decode is skipped and counted)
* `createWorkerJobs` / `runQuery` : selection of the days by the walk, the two `TimeRange()` probes
  (checked, guarded by `NBlocks() > 0`), one worker result map shared by all days, statistics.

Modelling decisions (see trusted base in the config): keys are built per entry (the code reuses one
buffer per IP version and overwrites exactly the queried attribute fields for every entry); counters
are `uint64` (sums modulo 2^64); I/O errors other than "file missing" are outside the model.
-/
namespace C06
open C03 (Desc Col Traffic Meta slice)

abbrev Bytes := List Nat

/-- the block decoder: encoder type, source bytes, announced raw length ↦ content (or failure) -/
abbrev Dec := Nat → Bytes → Nat → Option Bytes

/-- the files of one day directory -/
structure Day where
  ts : Int                     -- day timestamp in the directory name
  suffix : Bytes               -- metadata suffix of the directory name (no `_`)
  bmeta : Option Bytes         -- `.blockmeta` (none = missing)
  cols : List (Option Bytes)   -- the eight column files in `types.ColIdx` order (none = missing)
  deriving Repr, DecidableEq

/-! ### directory suffix -/

/-- `Metadata.UnmarshalString` (result only matters for listings; a query must survive it) -/
def suffixDecode (s : Bytes) : Outcome (List Nat) :=
  let fields := C03.splitOn Gen.MetaLayout.delimDash s
  if fields.length ≠ 7 then .err "fields" else
  if fields.any (fun f => f.any (fun c => c > 122)) then .err "char" else
  C03.decodeAll fields

/-! ### GPFile.ReadBlockAtIndex over a MemFile -/

/-- position of the in-memory file and the reader's idea of it (`lastSeekPos`) -/
structure FileSt where
  pos : Nat
  last : Nat
  deriving Repr, DecidableEq, Inhabited

def FileSt.zero : FileSt := ⟨0, 0⟩

/-- `Offset` of block `j` as `Unmarshal` computes it: the sum of the stored lengths before it -/
def offsetOf (descs : List Desc) (j : Nat) : Nat := ((descs.take j).map (·.len)).sum

/-- `encoder.New` knows the types 1 (null), 2 (zstd), 3 (lz4) -/
def encoderKnown (enc : Nat) : Bool := enc == 2 || enc == 3

/-- The reader allocates buffers of twice the announced raw (and, for compressed blocks, stored)
    length before reading anything. Whether that succeeds is a matter of the host; the model takes
    the harness's setting: the reader's address space is 2 GiB, so a length of 2^30 or more ends the
    process with "out of memory" (`.err "oom"`, the known limit), smaller ones are granted. -/
def bigLen : Nat := 1073741824

/-- result: `none` = an error was returned (the block counts as broken) -/
def readBlock (dec : Dec) (file : Option Bytes) (d : Desc) (off : Nat) (st : FileSt) : Outcome (Option Bytes × FileSt) :=
  if d.rawLen = 0 then .ok (some [], st) else
  if d.len = 0 then .ok (none, st) else
  match file with
  | none => .ok (none, st)                                   -- open fails (ENOENT), file stays unset
  | some data =>
    -- `if seekPos != g.lastSeekPos { g.lastSeekPos, err = g.file.Seek(seekPos, 0) }`
    let sk : Option FileSt :=
      if off ≠ st.last then (if off ≥ data.length then none else some ⟨off, off⟩) else some st
    match sk with
    | none => .ok (none, ⟨st.pos, 0⟩)
    | some st1 =>
      -- `if cap(g.uncompData) < RawLen { g.uncompData = make([]byte, 0, 2*RawLen) }`
      if d.rawLen ≥ bigLen then .err "oom" else
      if d.enc ≠ Gen.MetaLayout.EncoderTypeNull then
        if !encoderKnown d.enc then .ok (none, st1) else
        -- `if cap(g.blockData) < Len { g.blockData = make([]byte, 0, 2*Len) }`
        if d.len ≥ bigLen then .err "oom" else
        -- `src.Read(in)`: `copy(p, m.data[m.pos:])`
        if st1.pos > data.length then .panic "slice bounds out of range" else
        if data.length - st1.pos < d.len then .ok (none, st1) else
        let src := (data.drop st1.pos).take d.len
        match dec d.enc src d.rawLen with
        | none => .ok (none, ⟨st1.pos + d.len, st1.last⟩)
        | some out => .ok (some out, ⟨st1.pos + d.len, st1.last + d.len⟩)
      else
        if st1.pos > data.length then .panic "slice bounds out of range" else
        if data.length - st1.pos < d.rawLen then .ok (none, st1) else
        .ok (some ((data.drop st1.pos).take d.rawLen), ⟨st1.pos + d.rawLen, st1.last + d.len⟩)

/-! ### the query -/

inductive IPVer where
  | none
  | v4
  | v6
  deriving Repr, DecidableEq

/-- the query as the work manager sees it -/
structure Q where
  aSip : Bool
  aDip : Bool
  aDport : Bool
  aProto : Bool
  aTime : Bool
  cSip : Option Bytes      -- `sip = <address>` (4 or 16 bytes)
  cDip : Option Bytes
  cDport : Option Bytes    -- two bytes, big endian
  cProto : Option Nat
  first : Int
  last : Int
  deriving Repr, DecidableEq

def Q.hasCond (q : Q) : Bool := q.cSip.isSome || q.cDip.isSome || q.cDport.isSome || q.cProto.isSome

/-- `Conditional.IPVersion()` of a single comparison -/
def Q.ipVer (q : Q) : IPVer :=
  match q.cSip, q.cDip with
  | some a, _ => if a.length = 4 then .v4 else .v6
  | none, some a => if a.length = 4 then .v4 else .v6
  | none, none => .none

/-- `query.columnIndices`: attribute columns used by attributes or condition in index order
    (sip 0, dip 1, proto 2, dport 3), then the four counters -/
def Q.cols (q : Q) : List Nat :=
  (if q.aSip || q.cSip.isSome then [0] else []) ++ (if q.aDip || q.cDip.isSome then [1] else []) ++
  (if q.aProto || q.cProto.isSome then [2] else []) ++ (if q.aDport || q.cDport.isSome then [3] else []) ++ [4, 5, 6, 7]

/-! ### bitpack -/

def leVal (bs : Bytes) : Nat := bs.foldr (fun b a => b + 256 * a) 0

/-- `bitpack.Len` -/
def bpLen (b : Bytes) : Nat :=
  match b with
  | [] => 0
  | w :: rest => if w = 0 then 0 else rest.length / w

/-- `unpackAllK(b2, res, n)`: `res[i] = unpackK(b2[i*K:])`, which reads `K` bytes -/
def unpackAll (b2 : Bytes) (k : Nat) : Nat → Nat → Outcome (List Nat)
  | 0, _ => .ok []
  | n + 1, i =>
    (slice b2 (i * k) b2.length).bind fun s =>
    (Outcome.idx s (k - 1)).bind fun _ =>
    (unpackAll b2 k n (i + 1)).bind fun r => .ok (leVal (s.take k) :: r)

/-- `bitpack.UnpackInto`: widths 1…7 by their own routine, everything else by `unpackAll8` -/
def unpack (b : Bytes) : Outcome (List Nat) :=
  match b with
  | [] => .ok []
  | w :: rest =>
    if w = 0 then .ok [] else
    unpackAll rest (if w ≤ 7 then w else 8) (rest.length / w) 0

/-! ### one block -/

/-- flow key as far as the query's attributes go -/
structure Key where
  v4 : Bool
  ts : Option Int
  sip : Bytes
  dip : Bytes
  dport : Bytes
  proto : Option Nat
  deriving Repr, DecidableEq


/-- `resultMap` -/
abbrev Agg := List (Key × Cnt)

def Agg.add (m : Agg) (k : Key) (c : Cnt) : Agg :=
  match m with
  | [] => [(k, c)]
  | (k', c') :: rest => if k' = k then (k', c'.add c) :: rest else (k', c') :: Agg.add rest k c

def Agg.get (m : Agg) (k : Key) : Option Cnt := (m.find? (·.1 = k)).map (·.2)

/-- the column blocks of one block index (`[types.ColIdxCount][]byte`, unread columns are empty) -/
abbrev Blocks := Nat → Bytes

/-- IP bytes of entry `i`: `blk[i*4 : i*4+4]` resp. `blk[numV4*4+(i-numV4)*16 : …+16]` -/
def ipAt (blk : Bytes) (numV4 i : Nat) (isV4 : Bool) : Outcome Bytes :=
  if isV4 then slice blk (i * 4) (i * 4 + 4)
  else slice blk (numV4 * 4 + (i - numV4) * 16) (numV4 * 4 + (i - numV4) * 16 + 16)

/-- `if wanted { f(…) }` -/
def whenO {α} (b : Bool) (x : Outcome α) (dflt : α) : Outcome α := if b then x else .ok dflt

/-- body of the scan loop for entry `i` (flags already switched): the key / counters to add to the
    result map, or nothing if the condition does not hold -/
def entryAt (q : Q) (ts : Int) (numV4 : Nat) (blk : Blocks) (br bs pr ps : List Nat) (i : Nat) (isV4 condV4 : Bool) :
    Outcome (Option (Key × Cnt)) :=
  -- key
  (whenO q.aSip (ipAt (blk 0) numV4 i isV4) []).bind fun ksip =>
  (whenO q.aDip (ipAt (blk 1) numV4 i isV4) []).bind fun kdip =>
  (whenO q.aProto ((Outcome.idx (blk 2) i).bind fun p => .ok (some p)) none).bind fun kproto =>
  (whenO q.aDport (slice (blk 3) (i * 2) (i * 2 + 2)) []).bind fun kdport =>
  -- comparison value (`if w.query.Conditional != nil`)
  (whenO q.cSip.isSome (ipAt (blk 0) numV4 i condV4) []).bind fun csip =>
  (whenO q.cDip.isSome (ipAt (blk 1) numV4 i condV4) []).bind fun cdip =>
  (whenO q.cProto.isSome ((Outcome.idx (blk 2) i).bind fun p => .ok (some p)) none).bind fun cproto =>
  (whenO q.cDport.isSome (slice (blk 3) (i * 2) (i * 2 + 2)) []).bind fun cdport =>
  let sat : Bool :=
    (match q.cSip with | some v => csip == v | none => true) &&
    (match q.cDip with | some v => cdip == v | none => true) &&
    (match q.cDport with | some v => cdport == v | none => true) &&
    (match q.cProto with | some v => cproto == some v | none => true)
  -- `SetOrUpdate(key, isIPv4, bytesRcvdValues[i], …)`: the model indexes the unpacked counters
  -- whether or not the condition holds (the code only when it holds)
  (Outcome.idx br i).bind fun vbr =>
  (Outcome.idx bs i).bind fun vbs =>
  (Outcome.idx pr i).bind fun vpr =>
  (Outcome.idx ps i).bind fun vps =>
  let key : Key := ⟨isV4, if q.aTime then some ts else none, ksip, kdip, kdport, kproto⟩
  .ok (if sat then some (key, ⟨vbr, vbs, vpr, vps⟩) else none)

/-- the scan loop `for i := startEntry; i < numEntries; i++` (`fuel` = remaining iterations) -/
def scan (q : Q) (ts : Int) (numV4 : Nat) (blk : Blocks) (br bs pr ps : List Nat) :
    Nat → Nat → Bool → Bool → Agg → Outcome Agg
  | 0, _, _, _, agg => .ok agg
  | fuel + 1, i, isV4, condV4, agg =>
    -- `if i == numV4Entries { if hasAttrSIP || hasAttrDIP { key = v6Key; isIPv4 = false }; condIsIPv4 = false }`
    let isV4' := if i = numV4 ∧ (q.aSip || q.aDip) then false else isV4
    let condV4' := if i = numV4 then false else condV4
    (entryAt q ts numV4 blk br bs pr ps i isV4' condV4').bind fun e =>
    scan q ts numV4 blk br bs pr ps fuel (i + 1) isV4' condV4'
      (match e with | some kc => agg.add kc.1 kc.2 | none => agg)

/-- statistics of `workload.Stats` -/
structure Stats where
  loaded : Nat
  decomp : Nat
  processed : Nat
  corrupted : Nat
  dirs : Nat
  workloads : Nat
  deriving Repr, DecidableEq, Inhabited

def Stats.zero : Stats := ⟨0, 0, 0, 0, 0, 0⟩

def Stats.add (a b : Stats) : Stats :=
  ⟨a.loaded + b.loaded, a.decomp + b.decomp, a.processed + b.processed, a.corrupted + b.corrupted, a.dirs + b.dirs, a.workloads + b.workloads⟩

/-- state of the eight column files of the day being read -/
abbrev ColSt := Nat → FileSt

def ColSt.set (s : ColSt) (c : Nat) (v : FileSt) : ColSt := fun c' => if c' = c then v else s c'
def Blocks.set (b : Blocks) (c : Nat) (v : Bytes) : Blocks := fun c' => if c' = c then v else b c'

/-- `for _, colIdx := range w.query.columnIndices { blocks[colIdx], err = workDir.ReadBlockAtIndex(colIdx, b); if err != nil { break } }`
    result: broken?, file states, blocks -/
def readCols (dec : Dec) (day : Day) (m : Meta) (j : Nat) : List Nat → ColSt → Blocks → Outcome (Bool × ColSt × Blocks)
  | [], st, blk => .ok (false, st, blk)
  | c :: cs, st, blk =>
    (Outcome.idx m.cols c).bind fun col =>                        -- `d.BlockMetadata[colIdx]`
    (Outcome.idx col.descs j).bind fun d =>                       -- `g.header.BlockList[idx]`
    (readBlock dec ((day.cols[c]?).join) d (offsetOf col.descs j) (st c)).bind fun r =>
    match r.1 with
    | none => .ok (true, st.set c r.2, blk)
    | some data => readCols dec day m j cs (st.set c r.2) (blk.set c data)

/-- one sanity check of `for _, colIdx := range w.query.columnIndices { … }`: does column `c` fail?
    counters (4…7): empty or a different number of entries; sip / dip (0, 1): not exactly the bytes of
    the announced IPv4 and IPv6 entries; proto (2): one byte per entry; dport (3): two bytes per entry -/
def colBad (numEntries numV4 : Nat) (blk : Blocks) (c : Nat) : Bool :=
  let l := (blk c).length
  if c ≥ 4 then l = 0 || bpLen (blk c) ≠ numEntries
  else if c ≤ 1 then l ≠ (numEntries - numV4) * 16 + numV4 * 4
  else if c = 2 then l ≠ numEntries
  else l / 2 ≠ numEntries || l % 2 ≠ 0

/-- the sanity checks in column order, stopping at the first failure:
    returns (bytes counted as decompressed, broken?) -/
def checkCols (numEntries numV4 : Nat) (blk : Blocks) : List Nat → Nat → Nat × Bool
  | [], acc => (acc, false)
  | c :: cs, acc =>
    if colBad numEntries numV4 blk c then (acc + (blk c).length, true)
    else checkCols numEntries numV4 blk cs (acc + (blk c).length)

/-- result of one block: the map and the statistics after it -/
def evalBlock (q : Q) (dec : Dec) (day : Day) (m : Meta) (j : Nat) (st : ColSt) (agg : Agg) (s : Stats) :
    Outcome (ColSt × Agg × Stats) :=
  (Outcome.idx m.ts j).bind fun ts =>
  if ts < q.first ∨ ts > q.last then .ok (st, agg, s) else
  (Outcome.idx m.cols 0).bind fun col0 =>
  (Outcome.idx col0.descs j).bind fun d0 =>
  let s := { s with loaded := s.loaded + d0.len }
  (readCols dec day m j q.cols st (fun _ => [])).bind fun r =>
  let st := r.2.1
  let blk := r.2.2
  let s := { s with processed := s.processed + 1 }
  if r.1 then .ok (st, agg, { s with corrupted := s.corrupted + 1 }) else
  (Outcome.idx m.traffic j).bind fun tr =>                         -- `d.BlockTraffic[blockIdx]`
  let numV4 := tr.v4
  let numEntries := bpLen (blk 4)
  if numV4 > numEntries then .ok (st, agg, { s with corrupted := s.corrupted + 1 }) else
  let ck := checkCols numEntries numV4 blk q.cols 0
  let s := { s with decomp := s.decomp + ck.1 }
  if ck.2 then .ok (st, agg, { s with corrupted := s.corrupted + 1 }) else
  (unpack (blk 4)).bind fun br =>
  (unpack (blk 5)).bind fun bs =>
  (unpack (blk 6)).bind fun pr =>
  (unpack (blk 7)).bind fun ps =>
  let start := if q.ipVer = .v6 then numV4 else 0
  let stop := if q.ipVer = .v4 then numV4 else numEntries
  (scan q ts numV4 blk br bs pr ps (stop - start) start true true agg).bind fun agg' =>
  .ok (st, agg', s)

/-- `for b, block := range workDir.BlockMetadata[0].Blocks()` -/
def evalBlocks (q : Q) (dec : Dec) (day : Day) (m : Meta) : Nat → Nat → ColSt → Agg → Stats → Outcome (Agg × Stats)
  | 0, _, _, agg, s => .ok (agg, s)
  | n + 1, j, st, agg, s =>
    (evalBlock q dec day m j st agg s).bind fun r => evalBlocks q dec day m n (j + 1) r.1 r.2.1 r.2.2

/-- `readBlocksAndEvaluate` for one day: the worker's map after the day, and the day's statistics -/
def processDay (q : Q) (dec : Dec) (day : Day) (agg : Agg) : Outcome (Agg × Stats) :=
  match day.bmeta with
  | none => .err "metadata-io"                                     -- not reached: the walk skips such days
  | some bytes =>
    match C03.unmarshal bytes with
    | .panic w => .panic w
    | .err _ => .ok (agg, { Stats.zero with dirs := 1, corrupted := 1 })
    | .ok m =>
      (Outcome.idx m.cols 0).bind fun col0 =>                      -- `workDir.BlockMetadata[0].Blocks()`
      evalBlocks q dec day m col0.descs.length 0 (fun _ => FileSt.zero) agg { Stats.zero with dirs := 1 }

/-- the walk: days (in directory order) that overlap the range and hold a metadata file -/
def selected (q : Q) (days : List Day) : List Day :=
  days.filter fun d => q.first < d.ts + 86400 && d.ts < q.last + 300 && d.bmeta.isSome

/-- `NewDirReader` + `Open` + `TimeRange` of the first / last selected day (the covered interval is
    reported only; what matters here is that the probe survives any metadata) -/
def probe (day : Day) : Outcome Unit :=
  match day.bmeta with
  | none => .err "metadata-io"
  | some bytes =>
    match C03.unmarshal bytes with
    | .panic w => .panic w
    | .err _ => .ok ()                                             -- damaged: left to the worker
    | .ok m =>
      (Outcome.idx m.cols 0).bind fun col0 =>
      if col0.descs.length > 0 then                                -- `NBlocks() > 0`
        (Outcome.idx m.ts 0).bind fun _ =>                         -- `Blocks()[0].Timestamp`
        (Outcome.idx m.ts (col0.descs.length - 1)).bind fun _ => .ok ()
      else .ok ()

/-- `gpfile.NewDirReader` of every selected day decodes the directory suffix (errors are ignored) -/
def newDirReaders : List Day → Outcome Unit
  | [] => .ok ()
  | d :: ds =>
    match suffixDecode d.suffix with
    | .panic w => .panic w
    | _ => newDirReaders ds

def createWorkerJobs (q : Q) (days : List Day) : Outcome Unit :=
  (newDirReaders (selected q days)).bind fun _ =>
  match selected q days with
  | [] => .ok ()
  | d :: ds => (probe d).bind fun _ => probe ((d :: ds).getLast?.getD d)

/-- the days of a workload, one after the other, into one map -/
def processDays (q : Q) (dec : Dec) : List Day → Agg → Stats → Outcome (Agg × Stats)
  | [], agg, s => .ok (agg, s)
  | d :: ds, agg, s => (processDay q dec d agg).bind fun r => processDays q dec ds r.1 (s.add r.2)

def runQuery (q : Q) (dec : Dec) (days : List Day) : Outcome (Agg × Stats) :=
  (createWorkerJobs q days).bind fun _ =>
  let sel := selected q days
  (processDays q dec sel [] Stats.zero).bind fun r =>
  .ok (r.1, { r.2 with workloads := (sel.length + 31) / 32 })

/-! ### rendering (harness/c06.go `c06Render`) -/

/-- `types.RawIPToAddr`: sixteen bytes whose last twelve are zero are shown as the first four -/
def ipShown (ip : Bytes) : Bytes :=
  if ip.length = 16 ∧ (ip.drop 4).all (· = 0) then ip.take 4 else ip

def renderKey (q : Q) (k : Key) : String :=
  ":".intercalate ((match k.ts with | some t => [toString t] | none => []) ++
    (if q.aSip then [Wire.bytesToHex (ipShown k.sip)] else []) ++
    (if q.aDip then [Wire.bytesToHex (ipShown k.dip)] else []) ++
    (if q.aDport then [toString (C03.beVal k.dport)] else []) ++
    (match k.proto with | some p => [toString p] | none => []))

def render (q : Q) (r : Agg × Stats) : String :=
  let rows := DB.sortStrs (r.1.map fun kc => renderKey q kc.1 ++ "/" ++ kc.2.show)
  let tot := r.1.foldl (fun a kc => a.add kc.2) Cnt.zero
  let s := r.2
  "rows=" ++ Wire.showList rows ++ "|totals=" ++ tot.show ++ "|hits=" ++ toString r.1.length ++
  s!"|stats={s.loaded}:{s.decomp}:{s.processed}:{s.corrupted}:{s.dirs}:{s.workloads}"

/-! ### wire -/

def parseFile (s : String) : Option (Option Bytes) :=
  if s == "x" then some none else (Wire.hexToBytes s).map some

def parseDay (s : String) : Option Day :=
  match s.splitOn "|" with
  | ts :: sfx :: bm :: cols => do
    some { ts := (← Wire.parseInt ts), suffix := (Wire.unescape sfx).toList.map (·.toNat),
           bmeta := (← parseFile bm), cols := (← cols.mapM parseFile) }
  | _ => none

def toQ (q : Query) : Option Q := do
  let hexv (c : Cond) : Option Bytes := Wire.hexToBytes c.val
  let base : Q := ⟨q.sip, q.dip, q.dport, q.proto, q.time, none, none, none, none, q.first, q.last⟩
  match q.cond with
  | none => some base
  | some c =>
    if c.attr == "sip" then some { base with cSip := some (← hexv c) }
    else if c.attr == "dip" then some { base with cDip := some (← hexv c) }
    else if c.attr == "dport" then do
      let n ← Wire.parseNat c.val
      some { base with cDport := some [n / 256 % 256, n % 256] }
    else do
      let n ← Wire.parseNat c.val
      some { base with cProto := some (n % 256) }

/-- decoder answers on the wire: `<enc>/<src hex>/<raw>/<e | hex>` -/
def parseOracle (s : String) : Option (List ((Nat × Bytes × Nat) × Option Bytes)) :=
  (Wire.listField s).mapM fun e =>
    match e.splitOn "/" with
    | [enc, src, raw, res] => do
      let r ← if res == "e" then some none else (Wire.hexToBytes res).map some
      some ((← Wire.parseNat enc, ← Wire.hexToBytes src, ← Wire.parseNat raw), r)
    | _ => none

def decOf (tbl : List ((Nat × Bytes × Nat) × Option Bytes)) (dflt : Nat → Option Bytes) : Dec :=
  fun enc src raw =>
    match tbl.find? (fun e => e.1 == (enc, src, raw)) with
    | some e => e.2
    | none => dflt raw

def showResult (q : Q) : Outcome (Agg × Stats) → String
  | .ok r => render q r
  | .err e => if e == "oom" then "oom" else "err:" ++ e
  | .panic _ => "panic"

/-- case fields: attrs time cond first last history damaged big days oracle [ops] -/
def handle : List String → String
  | attrs :: time :: cond :: first :: last :: _hist :: _damaged :: _big :: days :: oracle :: _ =>
    match (parseQuery attrs time cond first last).bind toQ, (Wire.semiField days).mapM parseDay, parseOracle oracle with
    | some q, some ds, some tbl =>
      -- a decoder answer the harness did not supply must not matter: run with two defaults
      let a := showResult q (runQuery q (decOf tbl fun _ => none) ds)
      let b := showResult q (runQuery q (decOf tbl fun raw => some (List.replicate raw 0)) ds)
      -- the listing (`ReadMetadata`) is only required not to crash: the reader process reports `fine`
      -- whenever it survives the query
      if a == b then (if a == "panic" || a == "oom" then a else a ++ " list=fine") else "oracle-missing"
    | _, _, _ => "bad-args"
  | _ => "bad-args"

end C06
