import GoProbeModel.Gen.Querier

/-!
C15 — the querier's fan-out: `APIClientQuerier.Query` / `prepareQueries`
(plugins/querier/apiclient/querier.go) as a small transition system over the goroutines' states.

```go
out := make(chan *results.Result, max(a.MaxConcurrent, 0))
workloads, keepaliveChan := a.prepareQueries(ctx, hosts, args)   // producer goroutine:
                                                                  //   for host in hosts { workloads <- wl(host) }; close(workloads)
numRunners := …                                                   // REGENERATED: Gen.Querier.numRunners
wg.Add(numRunners)
for i := 0; i < numRunners; i++ { go func() { defer wg.Done()
    for { wl, open := <-workloads; if !open { return }            // (ctx is never cancelled here)
          qr := run(wl); out <- qr } }() }
go func() { wg.Wait(); close(out) }()
```

What is modelled by hand (and pinned statement by statement by the facts `c15_querier_*`): the
unbuffered `workloads` channel (a hand-over is a rendezvous between the producer and one idle
runner), the runner loop (idle → busy → idle … → done once the channel is closed), the result
channel with capacity `cap` (a send goes into the buffer when there is room, or straight to the
waiting consumer when the buffer is empty — both are Go's channel semantics; the consumer is
`aggregateResults`, which takes results until the channel is closed), `wg.Wait(); close(out)`.
A workload and the result produced from it are identified (`α`): the result is a function of the
host's reply alone. What is regenerated from the source: the number of runners.

Not modelled: cancellation of `ctx` (both `select`s then have a second exit), the keep-alive
channel, `MaxConcurrent` beyond the range of `int`.
-/
namespace C15
namespace Fan

/-- the number of runner goroutines `Query` starts for `n` hosts — the computation regenerated
    from the source (a Go `int`, used as the `wg.Add` count and the loop bound: a value ≤ 0 starts
    no goroutine) -/
def numRunners (n : Nat) (mc : Int) : Nat := (Gen.Querier.numRunners (n : Int) mc).toNat

/-- capacity of the result channel: `make(chan *results.Result, max(a.MaxConcurrent, 0))` -/
def outCap (mc : Int) : Nat := (max mc 0).toNat

inductive Runner (α : Type) where
  | idle            -- blocked in `<-workloads`
  | busy (w : α)    -- took workload `w`: running it, or blocked in `out <- qr`
  | done            -- saw the closed channel, returned (`wg.Done()`)
  deriving DecidableEq, Repr

structure St (α : Type) where
  pending : List α            -- workloads the producer has not handed over yet (it offers the head)
  wclosed : Bool              -- `close(workloads)` happened
  runners : List (Runner α)
  buf : List α                -- results sitting in the buffer of `out`
  closed : Bool               -- `close(out)` happened
  recvd : List α              -- results the consumer has taken from `out`, in order
  deriving Repr

def init {α : Type} (hosts : List α) (k : Nat) : St α :=
  { pending := hosts, wclosed := false, runners := List.replicate k .idle, buf := [], closed := false, recvd := [] }

/-- the workloads runners currently hold -/
def busyOf {α : Type} : List (Runner α) → List α
  | [] => []
  | .busy w :: rs => w :: busyOf rs
  | _ :: rs => busyOf rs

/-- one atomic step of some goroutine; a runner is addressed by splitting the runner list -/
inductive Step {α : Type} (cap : Nat) : St α → St α → Prop where
  /-- producer and an idle runner meet on the unbuffered `workloads` channel -/
  | hand (s : St α) (w : α) (rest : List α) (pre post : List (Runner α)) :
      s.pending = w :: rest → s.runners = pre ++ .idle :: post →
      Step cap s { s with pending := rest, runners := pre ++ .busy w :: post }
  /-- the producer has sent everything: `close(workloads)` -/
  | closeW (s : St α) : s.pending = [] → s.wclosed = false → Step cap s { s with wclosed := true }
  /-- an idle runner receives from the closed channel and returns -/
  | exit (s : St α) (pre post : List (Runner α)) :
      s.wclosed = true → s.runners = pre ++ .idle :: post →
      Step cap s { s with runners := pre ++ .done :: post }
  /-- `out <- qr` into the buffer -/
  | sendBuf (s : St α) (w : α) (pre post : List (Runner α)) :
      s.runners = pre ++ .busy w :: post → s.buf.length < cap →
      Step cap s { s with runners := pre ++ .idle :: post, buf := s.buf ++ [w] }
  /-- `out <- qr` handed straight to the consumer waiting on the empty channel -/
  | sendDirect (s : St α) (w : α) (pre post : List (Runner α)) :
      s.runners = pre ++ .busy w :: post → s.buf = [] →
      Step cap s { s with runners := pre ++ .idle :: post, recvd := s.recvd ++ [w] }
  /-- the consumer takes the oldest buffered result -/
  | recv (s : St α) (w : α) (rest : List α) :
      s.buf = w :: rest → Step cap s { s with buf := rest, recvd := s.recvd ++ [w] }
  /-- `wg.Wait()` returned: `close(out)` -/
  | closeOut (s : St α) : (∀ r ∈ s.runners, r = .done) → s.closed = false →
      Step cap s { s with closed := true }

/-- finite executions -/
inductive Steps {α : Type} (cap : Nat) : St α → St α → Prop where
  | refl (s : St α) : Steps cap s s
  | tail {s t u : St α} : Steps cap s t → Step cap t u → Steps cap s u

/-- the consumer has seen the closed, drained channel: `aggregateResults` returns -/
def Final {α : Type} (s : St α) : Prop := s.closed = true ∧ s.buf = []

/-! ### one concrete scheduler (executable): what the model driver runs

Priority: drain the buffer; else hand the next workload to the FIRST idle runner; else let the LAST
busy runner send (straight to the consumer); else close / exit — so with `k` runners the first `k`
results arrive in reverse order of the host list. Every step it takes is a `Step` (proved in Props). -/

def splitAtFirst {α : Type} (p : α → Bool) : List α → Option (List α × α × List α)
  | [] => none
  | a :: as =>
    if p a then some ([], a, as) else
    match splitAtFirst p as with
    | some (pre, x, post) => some (a :: pre, x, post)
    | none => none

def splitAtLast {α : Type} (p : α → Bool) : List α → Option (List α × α × List α)
  | [] => none
  | a :: as =>
    match splitAtLast p as with
    | some (pre, x, post) => some (a :: pre, x, post)
    | none => if p a then some ([], a, as) else none

def Runner.isIdle {α : Type} : Runner α → Bool
  | .idle => true
  | _ => false

def Runner.isBusy {α : Type} : Runner α → Bool
  | .busy _ => true
  | _ => false

/-- hand the next workload to the first idle runner, if there is one of each -/
def handFirst? {α : Type} (s : St α) : Option (St α) :=
  match s.pending, splitAtFirst Runner.isIdle s.runners with
  | w :: rest, some (pre, _, post) => some { s with pending := rest, runners := pre ++ .busy w :: post }
  | _, _ => none

def next? {α : Type} (s : St α) : Option (St α) :=
  match s.buf with
  | w :: rest => some { s with buf := rest, recvd := s.recvd ++ [w] }
  | [] =>
    match handFirst? s with
    | some t => some t
    | none =>
    match splitAtLast Runner.isBusy s.runners with
    | some (pre, .busy w, post) => some { s with runners := pre ++ .idle :: post, recvd := s.recvd ++ [w] }
    | some _ => none   -- unreachable: the split element satisfies `isBusy`
    | none =>
      match splitAtFirst Runner.isIdle s.runners with
      | some (pre, _, post) =>
        match s.pending with
        | w :: rest => some { s with pending := rest, runners := pre ++ .busy w :: post }
        | [] =>
          if s.wclosed then some { s with runners := pre ++ .done :: post }
          else some { s with wclosed := true }
      | none => if s.closed then none else some { s with closed := true }

/-- every step strictly decreases this: no schedule is longer than `measure (init …)` -/
def runnerWeight {α : Type} : Runner α → Nat
  | .idle => 1
  | .busy _ => 3
  | .done => 0

def measure {α : Type} (s : St α) : Nat :=
  4 * s.pending.length + (if s.wclosed then 0 else 1) + (s.runners.map runnerWeight).sum +
  s.buf.length + (if s.closed then 0 else 1)

def runFuel {α : Type} : Nat → St α → St α
  | 0, s => s
  | n + 1, s =>
    match next? s with
    | some s' => runFuel n s'
    | none => s

/-- the state the concrete scheduler ends in -/
def runSched {α : Type} (hosts : List α) (mc : Int) : St α :=
  let s := init hosts (numRunners hosts.length mc)
  runFuel (measure s) s

/-- the order in which the results of `hosts` reach the consumer under the concrete scheduler -/
def arrival {α : Type} (hosts : List α) (mc : Int) : List α := (runSched hosts mc).recvd

end Fan
end C15
