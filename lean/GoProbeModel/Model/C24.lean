import GoProbeModel.Spec.C24
import GoProbeModel.Gen.Merge

/-!
C24 — executable model of `pkg/goDB/merge.go` AS WRITTEN, over the definitions regenerated from
the source (`Gen/Merge.lean`: `planDayMerge`, the arithmetic tail of `isDayComplete`,
`defaultCompleteTolerance`, `DirTimestamp`, the action constants).

What is transcribed by hand (and pinned by the facts `c24_*` of extract/targets_c24.go):
* `MergeDatabases`: tolerance default, source check, destination creation (not in a dry run),
  interface listing / selection, per interface: source days (sorted), destination days listed ONCE
  before the day loop, `InterfacesProcessed++`, per day: classification of both sides, plan,
  skip / dry-run counting / copy / rebuild + commit and the summary counters;
* `selectInterfaces` (trim, skip blanks, unknown name = error, de-duplicate, sort);
* `readDaySnapshots` (a Go map keyed by block timestamp: a later block with the same timestamp
  replaces an earlier one) and `mergeSnapshots` (sorted union of the keys, per key the
  destination's snapshot unless overwrite);
* the file system level (staging, backup, rename) is abstracted to "the destination day is
  replaced by the staged day": that protocol is property C25's subject.

Go maps are modelled as association lists with unique keys; `sort.Slice`/`sort.Strings` on
duplicate-free keys as insertion sort.
-/
namespace C24

open Gen.Merge

/-- both databases: the merge only ever writes through `setDstDay` -/
structure World where
  src : DB
  dst : DB
  deriving Repr, DecidableEq, Inhabited

/-! ### association-list updates (first match) -/

def setDayIn (ds : Days) (t : Int) (d : Day) : Days :=
  match ds with
  | [] => [(t, d)]
  | (t', d') :: rest => if t' == t then (t, d) :: rest else (t', d') :: setDayIn rest t d

def setDay (db : Ifaces) (i : String) (t : Int) (d : Day) : Ifaces :=
  match db with
  | [] => [(i, [(t, d)])]
  | (i', ds) :: rest => if i' == i then (i, setDayIn ds t d) :: rest else (i', ds) :: setDay rest i t d

/-! ### isDayComplete -/

def descr (t : Int) (complete : Bool) : dayDescriptor :=
  { Timestamp := t, Suffix := "", DirName := "", Path := "", Complete := complete }

/-- `isDayComplete`: `NBlocks() == 0` → false; `TimeRange()` = first and last block; the rest is
    the regenerated tail of the function -/
def isDayComplete (t : Int) (d : Day) (tolerance : Int) : Bool :=
  let n := d.length
  if n == 0 then false else
  let first := (d.head?.map (·.ts)).getD 0
  let last := (d.getLast?.map (·.ts)).getD 0
  let tsPrev := (d[n - 2]?.map (·.ts)).getD 0
  isDayCompleteTail (n : Int) last tsPrev (descr t false) tolerance first last

/-! ### snapshots -/

/-- `snapshots[block.Timestamp] = …` on a Go map -/
def mapSet (m : List Block) (b : Block) : List Block :=
  match m with
  | [] => [b]
  | x :: xs => if x.ts == b.ts then b :: xs else x :: mapSet xs b

def mapGet (m : List Block) (t : Int) : Option Block := m.find? (·.ts == t)

def readDaySnapshots (d : Day) : List Block := d.foldl mapSet []

/-- the timestamp set of both maps, sorted increasingly -/
def sortedKeys (S D : List Block) : List Int := sortInts (S.map (·.ts) ++ D.map (·.ts))

structure Merged where
  blocks : List Block := []
  cDst : Nat := 0
  cSrc : Nat := 0
  deriving Repr, DecidableEq, Inhabited

def mergeStep (S D : List Block) (overwrite : Bool) (m : Merged) (t : Int) : Merged :=
  match mapGet S t, mapGet D t with
  | some s, some d =>
    if overwrite then { m with blocks := m.blocks ++ [s], cSrc := m.cSrc + 1 }
    else { m with blocks := m.blocks ++ [d], cDst := m.cDst + 1 }
  | some s, none => { m with blocks := m.blocks ++ [s] }
  | none, some d => { m with blocks := m.blocks ++ [d] }
  | none, none => m

def mergeSnapshots (S D : List Block) (overwrite : Bool) : Merged :=
  (sortedKeys S D).foldl (mergeStep S D overwrite) {}

/-! ### one day -/

structure State where
  dst : Ifaces
  sum : Summary
  deriving Repr, DecidableEq, Inhabited

/-- body of the day loop. `dstDays` is the listing of the destination interface taken before the loop -/
def dayStep (o : Opts) (tolerance : Int) (i : String) (dstDays : Days) (st : State) (t : Int) (s : Day) : State :=
  let srcDay := descr t (isDayComplete t s tolerance)
  let dOpt := lookupDay dstDays t
  let hasDst := dOpt.isSome
  let dstDay := match dOpt with
    | some d => descr t (isDayComplete t d tolerance)
    | none => descr 0 false
  let plan := planDayMerge srcDay hasDst dstDay o.overwrite
  if plan.Action = mergeDayActionSkip then { st with sum := { st.sum with skipped := st.sum.skipped + 1 } }
  else if o.dry then
    if plan.Action = mergeDayActionCopy then { st with sum := { st.sum with copied := st.sum.copied + 1 } }
    else if plan.Action = mergeDayActionRebuild then { st with sum := { st.sum with rebuilt := st.sum.rebuilt + 1 } }
    else st
  else if plan.Action = mergeDayActionCopy then
    { dst := setDay st.dst i t s, sum := { st.sum with copied := st.sum.copied + 1 } }
  else if plan.Action = mergeDayActionRebuild then
    let S := if plan.UseSource then readDaySnapshots s else []
    let D := if plan.UseDest then readDaySnapshots (dOpt.getD []) else []
    let m := mergeSnapshots S D o.overwrite
    { dst := setDay st.dst i t m.blocks,
      sum := { st.sum with rebuilt := st.sum.rebuilt + 1, cDst := st.sum.cDst + m.cDst, cSrc := st.sum.cSrc + m.cSrc } }
  else st

/-- `mapKeysSorted(srcDays)` + `srcDays[dayTimestamp]` -/
def sortedDays (sd : Days) : Days :=
  (sortInts (dayKeys sd)).filterMap fun t => (lookupDay sd t).map fun d => (t, d)

def ifaceStep (o : Opts) (tolerance : Int) (src : Ifaces) (st : State) (i : String) : State :=
  let srcDays := ifaceDays src i
  if srcDays.isEmpty then st else
  let dstDays := ifaceDays st.dst i
  (sortedDays srcDays).foldl (fun st (p : Int × Day) => dayStep o tolerance i dstDays st p.1 p.2)
    { st with sum := { st.sum with ifaces := st.sum.ifaces + 1 } }

/-! ### interface selection -/

def listSourceInterfaces (src : Ifaces) : List String := sortNames (src.map (·.1))

/-- `selectInterfaces` (`none` = "requested interface not found in source") -/
def selectLoop (available : List String) : List String → List String → Option (List String)
  | [], selected => some selected
  | r :: rest, selected =>
    let iface := trimSpace r
    if iface = "" then selectLoop available rest selected
    else if !available.contains iface then none
    else if selected.contains iface then selectLoop available rest selected
    else selectLoop available rest (selected ++ [iface])

def selectInterfaces (available requested : List String) : Option (List String) :=
  if requested.isEmpty then some available else
  (selectLoop available requested []).map sortNames

/-! ### MergeDatabases -/

inductive Res where
  | ok (s : Summary)
  | err (kind : String)
  deriving Repr, DecidableEq, Inhabited

def effTolerance (o : Opts) : Int := if o.tol ≤ 0 then defaultCompleteTolerance else o.tol

def mergeDatabases (o : Opts) (w : World) : Res × World :=
  if w.src.missing then (.err "source", w) else
  -- os.MkdirAll(destinationPath) unless dry-run
  let w := if o.dry then w else { w with dst := { w.dst with missing := false } }
  match selectInterfaces (listSourceInterfaces w.src.ifaces) o.requested with
  | none => (.err "iface-not-found", w)
  | some selected =>
    let st := selected.foldl (ifaceStep o (effTolerance o) w.src.ifaces) { dst := w.dst.ifaces, sum := {} }
    (.ok st.sum, { w with dst := { w.dst with ifaces := st.dst } })

def showR (r : Res) (dry : Bool) : String :=
  match r with
  | .ok s => showRes (some s) "" dry
  | .err k => showRes none k dry

def handle (args : List String) : String :=
  match parseCase args with
  | none => "bad-case"
  | some c =>
    let (r1, w1) := mergeDatabases c.opts { src := c.src, dst := c.dst }
    let (r2, w2) := mergeDatabases c.opts w1
    showOutput (showR r1 c.opts.dry) w1.dst (showR r2 c.opts.dry) w2.dst c.opts.dry

end C24
