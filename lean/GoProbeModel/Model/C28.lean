import GoProbeModel.Spec.C28
import GoProbeModel.Gen.TimeArgs

/-!
C28 — executable model of `pkg/query/time.go` as written: `ParseTimeArgument` (relative branch,
epoch-seconds branch, try-the-layouts-in-order loop over `timeFormatsDefault ++ timeFormatsCustom`,
both regenerated from the source into `Gen/TimeArgs.lean`), `parseRelativeTime`, `ParseTimeRange`.

The Go `time` package is a *parameter* of goProbe; what the code needs from it is modelled here
for exactly the layout elements the supported layouts use:

* `tokenize`      — `time.nextStdChunk`: how a layout string splits into literals and elements
                    (every element of the Go table is recognised; the ones no supported layout
                    uses map to `Std.unsupported`, on which the model refuses to answer);
* `fmtToks`       — `Time.Format` (the text that denotes an instant under a layout);
* `parseToks`     — `time.parse` (`skip`, `getnum`, `lookup`, `atoi`, range checks, the
                    fractional-second special case, day-of-month validation);
* `dateLocal`     — the zone lookup of `time.Date` over a piecewise-constant local zone that the
                    harness reads from the implementation's zone database and passes in;
* `daysFromCivil` / `civilFromDays` — the proleptic Gregorian calendar;
* `parseInt64`    — `strconv.ParseInt(s, 10, 64)`;  `parseDuration` — `time.ParseDuration`.

Texts are lists of characters standing for bytes (code points < 256 on the wire).
-/
namespace C28

/-! ## proleptic Gregorian calendar (days since 1970-01-01) -/

/-- days since 1970-01-01 of the civil date y-m-d (m in 1..12); March-based year arithmetic -/
def daysFromCivil (y m d : Int) : Int :=
  let y' := if m ≤ 2 then y - 1 else y
  let mp := if m ≤ 2 then m + 9 else m - 3
  365 * y' + y' / 4 - y' / 100 + y' / 400 + (153 * mp + 2) / 5 + d - 1 - 719468

/-- civil date (year, month, day) of a day number -/
def civilFromDays (z : Int) : Int × Int × Int :=
  let z := z + 719468
  let era := z / 146097
  let doe := z % 146097
  let c := (4 * doe + 3) / 146097
  let r := doe - 146097 * c / 4
  let yc := (4 * r + 3) / 1461
  let doy := r - 1461 * yc / 4
  let y' := 400 * era + 100 * c + yc
  let mp := (5 * doy + 2) / 153
  let d := doy - (153 * mp + 2) / 5 + 1
  let m := if mp < 10 then mp + 3 else mp - 9
  (if m ≤ 2 then y' + 1 else y', m, d)

def isLeap (y : Int) : Bool := y % 4 == 0 && (y % 100 != 0 || y % 400 == 0)

/-- `time.daysIn` -/
def daysIn (m y : Int) : Int :=
  if m == 2 then (if isLeap y then 29 else 28)
  else if m == 4 || m == 6 || m == 9 || m == 11 then 30 else 31

/-- broken-down local time -/
structure Civil where
  y : Nat
  m : Nat
  d : Nat
  hh : Nat
  mm : Nat
  ss : Nat
  wd : Nat     -- 0 = Sunday
  deriving Repr, DecidableEq, Inhabited

/-- fields of the wall-clock reading `loc` (= Unix seconds + zone offset) -/
def civilOf (loc : Int) : Civil :=
  let days := loc / 86400
  let sod := loc % 86400
  let (y, m, d) := civilFromDays days
  { y := y.toNat, m := m.toNat, d := d.toNat,
    hh := (sod / 3600).toNat, mm := (sod % 3600 / 60).toNat, ss := (sod % 60).toNat,
    wd := ((days + 4) % 7).toNat }

/-! ## layout elements and `nextStdChunk` -/

inductive Std where
  | year2        -- 06
  | year4        -- 2006
  | monthName    -- Jan
  | monthNum     -- 1
  | monthZero    -- 01
  | wdayName     -- Mon
  | day          -- 2
  | dayUnder     -- _2
  | dayZero      -- 02
  | hour         -- 15
  | minZero      -- 04
  | secZero      -- 05
  | tzNum        -- -0700
  | tzIsoColon   -- Z07:00
  | unsupported  -- any other element of Go's table (January, Monday, MST, 3, 03, 4, 5, PM, .000, …)
  deriving Repr, DecidableEq, Inhabited

inductive Tok where
  | lit (cs : Text)
  | std (s : Std)
  deriving Repr, DecidableEq, Inhabited

def startsWithLower : Text → Bool
  | c :: _ => 'a' ≤ c && c ≤ 'z'
  | [] => false

def dropRun (ch : Char) : Text → Text
  | c :: r => if c == ch then dropRun ch r else c :: r
  | [] => []

/-- does a layout element start at the head of `l`? Returns (literal to add to the prefix,
    element, rest). Mirrors the `switch` of `nextStdChunk`, case by case. -/
def stdAt (l : Text) : Option (Text × Std × Text) :=
  match l with
  | 'J' :: 'a' :: 'n' :: r =>
    (match r with
     | 'u' :: 'a' :: 'r' :: 'y' :: r' => some ([], .unsupported, r')
     | _ => if !startsWithLower r then some ([], .monthName, r) else none)
  | 'M' :: 'o' :: 'n' :: r =>
    (match r with
     | 'd' :: 'a' :: 'y' :: r' => some ([], .unsupported, r')
     | _ => if !startsWithLower r then some ([], .wdayName, r) else none)
  | 'M' :: 'S' :: 'T' :: r => some ([], .unsupported, r)
  | '0' :: '1' :: r => some ([], .monthZero, r)
  | '0' :: '2' :: r => some ([], .dayZero, r)
  | '0' :: '3' :: r => some ([], .unsupported, r)
  | '0' :: '4' :: r => some ([], .minZero, r)
  | '0' :: '5' :: r => some ([], .secZero, r)
  | '0' :: '6' :: r => some ([], .year2, r)
  | '0' :: '0' :: '2' :: r => some ([], .unsupported, r)
  | '1' :: '5' :: r => some ([], .hour, r)
  | '1' :: r => some ([], .monthNum, r)
  | '2' :: '0' :: '0' :: '6' :: r => some ([], .year4, r)
  | '2' :: r => some ([], .day, r)
  | '_' :: '2' :: '0' :: '0' :: '6' :: r => some (['_'], .year4, r)
  | '_' :: '2' :: r => some ([], .dayUnder, r)
  | '_' :: '_' :: '2' :: r => some ([], .unsupported, r)
  | '3' :: r => some ([], .unsupported, r)
  | '4' :: r => some ([], .unsupported, r)
  | '5' :: r => some ([], .unsupported, r)
  | 'P' :: 'M' :: r => some ([], .unsupported, r)
  | 'p' :: 'm' :: r => some ([], .unsupported, r)
  | '-' :: '0' :: '7' :: '0' :: '0' :: '0' :: '0' :: r => some ([], .unsupported, r)
  | '-' :: '0' :: '7' :: ':' :: '0' :: '0' :: ':' :: '0' :: '0' :: r => some ([], .unsupported, r)
  | '-' :: '0' :: '7' :: '0' :: '0' :: r => some ([], .tzNum, r)
  | '-' :: '0' :: '7' :: ':' :: '0' :: '0' :: r => some ([], .unsupported, r)
  | '-' :: '0' :: '7' :: r => some ([], .unsupported, r)
  | 'Z' :: '0' :: '7' :: '0' :: '0' :: '0' :: '0' :: r => some ([], .unsupported, r)
  | 'Z' :: '0' :: '7' :: ':' :: '0' :: '0' :: ':' :: '0' :: '0' :: r => some ([], .unsupported, r)
  | 'Z' :: '0' :: '7' :: '0' :: '0' :: r => some ([], .unsupported, r)
  | 'Z' :: '0' :: '7' :: ':' :: '0' :: '0' :: r => some ([], .tzIsoColon, r)
  | 'Z' :: '0' :: '7' :: r => some ([], .unsupported, r)
  | c :: d :: r =>
    -- ".000" / ",999": a run of 0s or 9s after '.' or ',' that is not followed by a digit
    if (c == '.' || c == ',') && (d == '0' || d == '9') then
      (match dropRun d r with
       | e :: _ => if isDigit e then none else some ([], .unsupported, dropRun d r)
       | [] => some ([], .unsupported, []))
    else none
  | _ => none

/-- `nextStdChunk` iterated: the whole layout as a token list. `fuel` ≥ length of the layout. -/
def tokenizeAux : Nat → Text → Text → List Tok
  | 0, _, acc => if acc.isEmpty then [] else [.lit acc.reverse]
  | _ + 1, [], acc => if acc.isEmpty then [] else [.lit acc.reverse]
  | fuel + 1, c :: rest, acc =>
    match stdAt (c :: rest) with
    | some (pre, s, suffix) =>
      let p := acc.reverse ++ pre
      (if p.isEmpty then [] else [.lit p]) ++ .std s :: tokenizeAux fuel suffix []
    | none => tokenizeAux fuel rest (c :: acc)

def tokenize (layout : Text) : List Tok := tokenizeAux (layout.length + 1) layout []

/-! ## `Time.Format` for these elements -/

def digit (n : Nat) : Char := Char.ofNat (48 + n)

/-- `appendInt(b, n, 0)` -/
def dec (n : Nat) : Text := Nat.toDigits 10 n

/-- `appendInt(b, n, 2)` -/
def pad2 (n : Nat) : Text := if n < 100 then [digit (n / 10), digit (n % 10)] else dec n

/-- `appendInt(b, n, 4)` -/
def pad4 (n : Nat) : Text :=
  if n < 10000 then [digit (n / 1000), digit (n / 100 % 10), digit (n / 10 % 10), digit (n % 10)] else dec n

def monthNames : List Text :=
  ["Jan", "Feb", "Mar", "Apr", "May", "Jun", "Jul", "Aug", "Sep", "Oct", "Nov", "Dec"].map String.toList

def dayNames : List Text :=
  ["Sun", "Mon", "Tue", "Wed", "Thu", "Fri", "Sat"].map String.toList

/-- numeric zone: sign, hours, [colon], minutes of `offset / 60` (Go's truncated division) -/
def fmtZone (colon : Bool) (off : Int) : Text :=
  let zone := Int.tdiv off 60
  let z := zone.natAbs
  (if zone < 0 then '-' else '+') :: (pad2 (z / 60) ++ (if colon then [':'] else []) ++ pad2 (z % 60))

def fmtStd (s : Std) (c : Civil) (off : Int) : Text :=
  match s with
  | .year2 => pad2 (c.y % 100)
  | .year4 => pad4 c.y
  | .monthName => monthNames.getD (c.m - 1) []
  | .monthNum => dec c.m
  | .monthZero => pad2 c.m
  | .wdayName => dayNames.getD c.wd []
  | .day => dec c.d
  | .dayUnder => if c.d < 10 then ' ' :: dec c.d else dec c.d
  | .dayZero => pad2 c.d
  | .hour => pad2 c.hh
  | .minZero => pad2 c.mm
  | .secZero => pad2 c.ss
  | .tzNum => fmtZone false off
  | .tzIsoColon => if off == 0 then ['Z'] else fmtZone true off
  | .unsupported => []

def fmtToks (toks : List Tok) (c : Civil) (off : Int) : Text :=
  match toks with
  | [] => []
  | .lit p :: r => p ++ fmtToks r c off
  | .std s :: r => fmtStd s c off ++ fmtToks r c off

/-- the text that denotes Unix second `t` under the layout `toks` in a zone whose offset is `off` -/
def formatAt (toks : List Tok) (t off : Int) : Text := fmtToks toks (civilOf (t + off)) off

/-! ## `time.parse` for these elements -/

/-- fields under construction (`month`/`day` = -1 and `zoneOffset` = -1 mean "not seen", as in Go) -/
structure PS where
  year : Int := 0
  month : Int := -1
  day : Int := -1
  hour : Int := 0
  min : Int := 0
  sec : Int := 0
  utc : Bool := false
  zoneOffset : Int := -1
  deriving Repr, DecidableEq, Inhabited

def cutspace : Text → Text
  | c :: r => if c == ' ' then cutspace r else c :: r
  | [] => []

/-- `skip(value, prefix)`: literal text must match; a run of spaces in the layout matches any run
    of spaces (also none at the end of the value). `run` = inside a space run of the prefix. -/
def skipAux : Text → Bool → Text → Option Text
  | [], _, v => some v
  | c :: p, run, v =>
    if c == ' ' then
      (if run then skipAux p true v
       else match v with
         | d :: _ => if d != ' ' then none else skipAux p true (cutspace v)
         | [] => skipAux p true [])
    else
      (match v with
       | d :: v' => if d == c then skipAux p false v' else none
       | [] => none)

def skip (pre v : Text) : Option Text := skipAux pre false v

/-- `getnum(s, fixed)` -/
def getnum (fixed : Bool) : Text → Option (Nat × Text)
  | a :: b :: r =>
    if isDigit a then
      (if isDigit b then some (digitVal a * 10 + digitVal b, r)
       else if fixed then none else some (digitVal a, b :: r))
    else none
  | [a] => if isDigit a && !fixed then some (digitVal a, []) else none
  | [] => none

def lowerByte (c : Char) : Char := Char.ofNat (c.toNat ||| 32)

/-- `match(s1, s2)` on one byte: equal, or equal letters ignoring case -/
def matchCI (a b : Char) : Bool :=
  a == b || (lowerByte a == lowerByte b && 'a' ≤ lowerByte a && lowerByte a ≤ 'z')

def matchName : Text → Text → Bool
  | [], [] => true
  | a :: r, b :: s => matchCI a b && matchName r s
  | _, _ => false

/-- `lookup(tab, val)` for tables of three-letter names -/
def lookupAux : List Text → Nat → Text → Option (Nat × Text)
  | [], _, _ => none
  | n :: tab, i, v =>
    if v.length ≥ n.length && matchName (v.take n.length) n then some (i, v.drop n.length)
    else lookupAux tab (i + 1) v

def lookup (tab : List Text) (v : Text) : Option (Nat × Text) := lookupAux tab 0 v

/-- `atoi` on the two bytes taken for a two-digit year: `dd`, `+d` or `-d` -/
def atoi2 (a b : Char) : Option Int :=
  if a == '+' then (if isDigit b then some (digitVal b) else none)
  else if a == '-' then (if isDigit b then some (-(digitVal b : Int)) else none)
  else if isDigit a && isDigit b then some ((digitVal a * 10 + digitVal b : Nat) : Int)
  else none

def commaOrPeriod (c : Char) : Bool := c == '.' || c == ','

/-- numeric zone `±hhmm` / `±hh:mm` (hour ≤ 24 and minute ≤ 60 are let through, as in Go) -/
def parseZone (colon : Bool) (v : Text) : Option (Int × Text) :=
  let go (sg h1 h2 m1 m2 : Char) (rest : Text) : Option (Int × Text) :=
    if isDigit h1 && isDigit h2 && isDigit m1 && isDigit m2 then
      let hr := digitVal h1 * 10 + digitVal h2
      let mm := digitVal m1 * 10 + digitVal m2
      if hr > 24 || mm > 60 then none
      else
        let o : Int := ((hr * 60 + mm) * 60 : Nat)
        if sg == '+' then some (o, rest) else if sg == '-' then some (-o, rest) else none
    else none
  if colon then
    match v with
    | sg :: h1 :: h2 :: c :: m1 :: m2 :: rest => if c == ':' then go sg h1 h2 m1 m2 rest else none
    | _ => none
  else
    match v with
    | sg :: h1 :: h2 :: m1 :: m2 :: rest => go sg h1 h2 m1 m2 rest
    | _ => none

/-- one element of the `switch` in `parse`; `none` = the value does not fit (any error) -/
def parseStd (s : Std) (st : PS) (v : Text) : Option (PS × Text) :=
  match s with
  | .year2 =>
    (match v with
     | a :: b :: r =>
       (atoi2 a b).map fun y => ({ st with year := if y ≥ 69 then y + 1900 else y + 2000 }, r)
     | _ => none)
  | .year4 =>
    (match v with
     | a :: b :: c :: d :: r =>
       if isDigit a && isDigit b && isDigit c && isDigit d then
         some ({ st with year := ((digitVal a * 1000 + digitVal b * 100 + digitVal c * 10 + digitVal d : Nat) : Int) }, r)
       else none
     | _ => none)
  | .monthName => (lookup monthNames v).map fun (i, r) => ({ st with month := ((i + 1 : Nat) : Int) }, r)
  | .monthNum =>
    (getnum false v).bind fun (n, r) => if n = 0 || 12 < n then none else some ({ st with month := (n : Int) }, r)
  | .monthZero =>
    (getnum true v).bind fun (n, r) => if n = 0 || 12 < n then none else some ({ st with month := (n : Int) }, r)
  | .wdayName => (lookup dayNames v).map fun (_, r) => (st, r)
  | .day => (getnum false v).map fun (n, r) => ({ st with day := (n : Int) }, r)
  | .dayUnder =>
    let v' := match v with
      | ch :: r => if ch == ' ' then r else v
      | [] => v
    (getnum false v').map fun (n, r) => ({ st with day := (n : Int) }, r)
  | .dayZero => (getnum true v).map fun (n, r) => ({ st with day := (n : Int) }, r)
  | .hour => (getnum false v).bind fun (n, r) => if 24 ≤ n then none else some ({ st with hour := (n : Int) }, r)
  | .minZero => (getnum true v).bind fun (n, r) => if 60 ≤ n then none else some ({ st with min := (n : Int) }, r)
  | .secZero =>
    (getnum true v).bind fun (n, r) =>
      if 60 ≤ n then none
      else
        -- a fractional second in the value although the layout has none: digits are consumed
        let r' := match r with
          | c :: d :: q => if commaOrPeriod c && isDigit d then (d :: q).dropWhile isDigit else r
          | _ => r
        some ({ st with sec := (n : Int) }, r')
  | .tzNum => (parseZone false v).map fun (o, r) => ({ st with zoneOffset := o }, r)
  | .tzIsoColon =>
    (match v with
     | ch :: r =>
       if ch == 'Z' then some ({ st with utc := true }, r)
       else (parseZone true v).map fun (o, r) => ({ st with zoneOffset := o }, r)
     | [] => none)
  | .unsupported => none

def parseToks : List Tok → PS → Text → Option PS
  | [], st, v => if v.isEmpty then some st else none
  | .lit p :: toks, st, v => (skip p v).bind fun v' => parseToks toks st v'
  | .std s :: toks, st, v => (parseStd s st v).bind fun (st', v') => parseToks toks st' v'

/-! ## local zone and `time.Date` -/

/-- a piecewise-constant zone: segments (start, end, offset), `start ≤ t < end` -/
abbrev Zone := List (Int × Int × Int)

/-- `start ≤ t < end`, where Go's sentinels `alpha` = -2^63 and `omega` = 2^63-1 stand for ∓∞ -/
def inSeg (s e t : Int) : Bool := (s == -(2 ^ 63) || decide (s ≤ t)) && (e == 2 ^ 63 - 1 || decide (t < e))

def Zone.lookup (z : Zone) (t : Int) : Option (Int × Int × Int) :=
  z.find? fun (s, e, _) => inSeg s e t

def fixedZone (off : Int) : Zone := [(-(2 ^ 63), 2 ^ 63 - 1, off)]

inductive Res (α : Type) where
  | ok (a : α)
  | err              -- the Go call returns an error
  | panic            -- the Go call panics
  | miss             -- the zone table handed in does not cover the lookup (harness problem)
  | unsupported      -- a layout uses an element outside the modelled set
  deriving Repr, DecidableEq, Inhabited

/-- the tail of `time.Date`: wall-clock seconds to Unix seconds in the local zone, as written
    (first guess: the wall-clock reading taken as UTC; corrected when it falls outside the segment) -/
def dateLocal (z : Zone) (unix : Int) : Res Int :=
  match z.lookup unix with
  | none => .miss
  | some (start, stop, offset) =>
    if offset != 0 then
      let utc := unix - offset
      if !inSeg start stop utc then
        match z.lookup utc with
        | none => .miss
        | some (_, _, offset') => .ok (unix - offset')
      else .ok (unix - offset)
    else .ok unix

/-- wall-clock seconds of the parsed fields (`dateToAbsDays` + clock) -/
def wallSecs (st : PS) (month day : Int) : Int :=
  daysFromCivil st.year month day * 86400 + st.hour * 3600 + st.min * 60 + st.sec

/-- the end of `parse`: defaults, day-of-month validation, zone resolution; result = `t.Unix()` -/
def finish (z : Zone) (st : PS) : Res Int :=
  let month := if st.month < 0 then 1 else st.month
  let day := if st.day < 0 then 1 else st.day
  if day < 1 || day > daysIn month st.year then .err
  else if st.utc then .ok (wallSecs st month day)
  else if st.zoneOffset != -1 then .ok (wallSecs st month day - st.zoneOffset)
  else dateLocal z (wallSecs st month day)

def hasUnsupported (toks : List Tok) : Bool := toks.contains (.std .unsupported)

/-- `time.ParseInLocation(layout, value, loc).Unix()` -/
def parseInLocation (toks : List Tok) (z : Zone) (v : Text) : Res Int :=
  if hasUnsupported toks then .unsupported
  else match parseToks toks {} v with
    | none => .err
    | some st => finish z st

/-! ## `strconv.ParseInt(s, 10, 64)` -/

/-- the digits after the optional sign: non-empty, decimal, within the int64 range -/
def parseDigits (neg : Bool) (ds : Text) : Option Int :=
  if ds.isEmpty || !ds.all isDigit then none
  else
    let n := decVal ds
    if neg then (if n > 2 ^ 63 then none else some (-(n : Int)))
    else (if n ≥ 2 ^ 63 then none else some (n : Int))

def parseInt64 (s : Text) : Option Int :=
  match s with
  | [] => none
  | c :: r =>
    if c == '+' then parseDigits false r
    else if c == '-' then parseDigits true r
    else parseDigits false s

/-! ## `time.ParseDuration` and `Duration.Seconds` -/

/-- two's-complement wrap of an int64 result -/
def wrap64 (x : Int) : Int := (x + 2 ^ 63) % 2 ^ 64 - 2 ^ 63

/-- `leadingInt`: value, rest; `none` on overflow (> 2^63) -/
def leadingInt : Text → Nat → Option (Nat × Text)
  | c :: r, x =>
    if isDigit c then
      (if x > 2 ^ 63 / 10 then none
       else
         let x' := x * 10 + digitVal c
         if x' > 2 ^ 63 then none else leadingInt r x')
    else some (x, c :: r)
  | [], x => some (x, [])

/-- `leadingFraction`: value, scale (a power of ten as float64), rest; stops accumulating on overflow -/
def leadingFraction : Text → Nat → Float → Bool → (Nat × Float × Text)
  | c :: r, x, scale, ovf =>
    if isDigit c then
      (if ovf then leadingFraction r x scale true
       else if x > (2 ^ 63 - 1) / 10 then leadingFraction r x scale true
       else
         let y := x * 10 + digitVal c
         if y > 2 ^ 63 then leadingFraction r x scale true
         else leadingFraction r y (scale * 10) false)
    else (x, scale, c :: r)
  | [], x, scale, _ => (x, scale, [])

/-- `unitMap` (keys as bytes; "µs" = C2 B5 73, "μs" = CE BC 73) -/
def unitOf (u : Text) : Option Nat :=
  if u == ['n', 's'] then some 1
  else if u == ['u', 's'] then some 1000
  else if u == [Char.ofNat 0xC2, Char.ofNat 0xB5, 's'] then some 1000
  else if u == [Char.ofNat 0xCE, Char.ofNat 0xBC, 's'] then some 1000
  else if u == ['m', 's'] then some 1000000
  else if u == ['s'] then some 1000000000
  else if u == ['m'] then some 60000000000
  else if u == ['h'] then some 3600000000000
  else none

def unitChar (c : Char) : Bool := !(c == '.' || isDigit c)

/-- the optional `.digits` after the integer part: fraction value, its scale, rest, "digits seen" -/
def fracPart (s1 : Text) : Nat × Float × Text × Bool :=
  match s1 with
  | c1 :: q =>
    if c1 == '.' then
      let r := leadingFraction q 0 1.0 false
      (r.1, r.2.1, r.2.2, r.2.2.length != q.length)
    else (0, 1.0, s1, false)
  | [] => (0, 1.0, [], false)

/-- one iteration of the loop of `ParseDuration`: one `[0-9]*(\.[0-9]*)?[a-zµμ]+` group; `d` =
    nanoseconds so far (uint64). Result: rest of the text and the new sum; `none` = error. -/
def durStep (s : Text) (d : Nat) : Option (Text × Nat) :=
  match s with
  | [] => none
  | c0 :: _ =>
    if !(c0 == '.' || isDigit c0) then none
    else match leadingInt s 0 with
      | none => none
      | some (v, s1) =>
        let pre := s1.length != s.length
        let fp := fracPart s1
        let f := fp.1
        let scale := fp.2.1
        let s2 := fp.2.2.1
        let post := fp.2.2.2
        if !pre && !post then none
        else
          let u := s2.takeWhile unitChar
          let s3 := s2.dropWhile unitChar
          if u.isEmpty then none
          else match unitOf u with
            | none => none
            | some unit =>
              if v > 2 ^ 63 / unit then none
              else
                let v1 := v * unit
                let v2 := if f > 0 then
                    v1 + (f.toUInt64.toFloat * (unit.toUInt64.toFloat / scale)).toUInt64.toNat
                  else v1
                if f > 0 && v2 > 2 ^ 63 then none
                else
                  let d' := (d + v2) % 2 ^ 64
                  if d' > 2 ^ 63 then none else some (s3, d')

/-- the loop of `ParseDuration`. `fuel` ≥ length of the text + 1. -/
def durLoop : Nat → Text → Nat → Option Nat
  | 0, _, _ => none
  | fuel + 1, s, d =>
    if s.isEmpty then some d
    else match durStep s d with
      | none => none
      | some (s', d') => durLoop fuel s' d'

/-- `ParseDuration` after the optional sign -/
def parseDurationBody (neg : Bool) (s' : Text) : Option Int :=
  if s' == ['0'] then some 0
  else if s'.isEmpty then none
  else match durLoop (s'.length + 1) s' 0 with
    | none => none
    | some d =>
      if neg then some (wrap64 (-(d : Int)))
      else if d > 2 ^ 63 - 1 then none else some (d : Int)

/-- `time.ParseDuration`: nanoseconds as int64 -/
def parseDuration (s : Text) : Option Int :=
  match s with
  | [] => none
  | c :: r =>
    if c == '-' then parseDurationBody true r
    else if c == '+' then parseDurationBody false r
    else parseDurationBody false s

/-- `int64(d.Seconds())`: exact when `d` is a whole number of seconds (|sec| < 2^53); otherwise the
    float64 sum `float64(sec) + float64(nsec)/1e9`, truncated -/
def durSeconds (d : Int) : Int :=
  if Int.tmod d 1000000000 == 0 then Int.tdiv d 1000000000
  else (Float.ofInt (Int.tdiv d 1000000000) + Float.ofInt (Int.tmod d 1000000000) / 1000000000.0).toInt64.toInt

/-! ## `parseRelativeTime` -/

def splitOnChar (sep : Char) : Text → List Text
  | [] => [[]]
  | c :: r =>
    if c == sep then [] :: splitOnChar sep r
    else match splitOnChar sep r with
      | h :: t => (c :: h) :: t
      | [] => [[c]]

/-- the colon branch: every chunk is `<int><unit>` with unit d/h/m/s; `sb` = seconds backwards -/
def relChunks : List Text → Int → Option Int
  | [], sb => some sb
  | chunk :: rest, sb =>
    match chunk.getLast? with
    | none => none
    | some u =>
      let k : Option Int :=
        if u == 'd' then some 86400 else if u == 'h' then some 3600
        else if u == 'm' then some 60 else if u == 's' then some 1 else none
      match k with
      | none => none
      | some k =>
        match parseInt64 chunk.dropLast with
        | none => none
        | some num => relChunks rest (wrap64 (sb + wrap64 (k * num)))

/-- `parseRelativeTime` up to the clock: the number of seconds that is subtracted from
    `time.Now().Unix()` (int64 arithmetic wraps, as in Go) -/
def parseRelative (t : Text) : Option Int :=
  match t with
  | '-' :: rtime =>
    if !rtime.contains ':' then
      if rtime.contains 'd' then
        match splitOnChar 'd' rtime with
        | s0 :: rest =>
          if s0.isEmpty then none
          else match parseInt64 s0 with
            | none => none
            | some num =>
              let sb := wrap64 (86400 * num)
              let ds := rest.flatten
              if ds.isEmpty then some sb
              else (parseDuration ds).map fun d => wrap64 (sb + durSeconds d)
        | [] => none
      else (parseDuration rtime).map durSeconds
    else relChunks (splitOnChar ':' rtime) 0
  | _ => none

/-- what `parseRelativeTime` returns when the clock reads `now` -/
def relResult (now sb : Int) : Int := wrap64 (now - sb)

/-! ## `ParseTimeArgument`, `ParseTimeRange` -/

/-- the supported layouts, in the order the code tries them -/
def layoutStrings : List String :=
  (Gen.TimeArgs.timeFormatsDefault ++ Gen.TimeArgs.timeFormatsCustom).map (·.Format)

def layouts : List (List Tok) := layoutStrings.map fun s => tokenize s.toList

/-- the loop over the layouts: the first one that accepts wins -/
def tryLayouts : List (List Tok) → Zone → Text → Res Int
  | [], _, _ => .err
  | l :: ls, z, v =>
    match parseInLocation l z v with
    | .ok t => .ok t
    | .err => tryLayouts ls z v
    | r => r

def parseTimeArgumentWith (ls : List (List Tok)) (z : Zone) (s : Text) : Res Val :=
  match s with
  | [] => .panic            -- timeString[0] on the empty string
  | c :: _ =>
    if c == '-' then
      match parseRelative s with
      | some sb => .ok (.rel sb)
      | none => .err
    else match parseInt64 s with
      | some i => .ok (.abs i)
      | none =>
        match tryLayouts ls z s with
        | .ok t => .ok (.abs t)
        | .err => .err
        | .panic => .panic
        | .miss => .miss
        | .unsupported => .unsupported

def parseTimeArgument (z : Zone) (s : Text) : Res Val := parseTimeArgumentWith layouts z s

/-- the int64 a value stands for when the clock reads `now` -/
def Val.go (now : Int) : Val → Int
  | .abs i => i
  | .rel sb => relResult now sb

inductive RangeOut where
  | ok (first last : Val)
  | errFirst
  | errLast
  | errInterval
  | other (what : String)
  deriving Repr, DecidableEq, Inhabited

def parseTimeRange (z : Zone) (now : Int) (a b : Text) : RangeOut :=
  let first : Res Val := if a.isEmpty then .ok (.abs 0) else parseTimeArgument z a
  match first with
  | .err => .errFirst
  | .panic => .other "panic"
  | .miss => .other "zone-miss"
  | .unsupported => .other "unsupported-layout"
  | .ok f =>
    let last : Res Val := if b.isEmpty then .ok (.rel 0) else parseTimeArgument z b
    match last with
    | .err => .errLast
    | .panic => .other "panic"
    | .miss => .other "zone-miss"
    | .unsupported => .other "unsupported-layout"
    | .ok l => if f.go now > l.go now then .errInterval else .ok f l

/-- `ParseTimeRangeCollectErrors`: nothing returns early; a bound that does not parse stays 0 and
    the comparison is made all the same. Result: the two bounds and the kinds of the details. -/
inductive CollectOut where
  | res (first last : Val) (kinds : List String)
  | other (what : String)
  deriving Repr, DecidableEq, Inhabited

def parseTimeRangeCollect (z : Zone) (now : Int) (a b : Text) : CollectOut :=
  let first : Res Val := if a.isEmpty then .ok (.abs 0) else parseTimeArgument z a
  let last : Res Val := if b.isEmpty then .ok (.rel 0) else parseTimeArgument z b
  let bound (r : Res Val) : Option (Val × Bool) :=
    match r with
    | .ok v => some (v, false)
    | .err => some (.abs 0, true)
    | _ => none
  match bound first, bound last, first, last with
  | some (f, ef), some (l, el), _, _ =>
    .res f l ((if ef then ["first"] else []) ++ (if el then ["last"] else []) ++
      (if f.go now > l.go now then ["interval"] else []))
  | _, _, .panic, _ => .other "panic"
  | _, _, _, .panic => .other "panic"
  | _, _, .miss, _ => .other "zone-miss"
  | _, _, _, .miss => .other "zone-miss"
  | _, _, _, _ => .other "unsupported-layout"

/-! ## wire -/

def parseZoneTable (s : String) : Option Zone :=
  (Wire.listField s).mapM fun seg =>
    match seg.splitOn ":" with
    | [a, b, c] => do
      let a ← Wire.parseInt a; let b ← Wire.parseInt b; let c ← Wire.parseInt c
      some (a, b, c)
    | _ => none

def textOut (t : Text) : String := Wire.escape (String.ofList t)

def showRes : Res Val → String
  | .ok v => "ok:" ++ showVal v
  | .err => "err"
  | .panic => "panic"
  | .miss => "zone-miss"
  | .unsupported => "unsupported-layout"

def showRange : RangeOut → String
  | .ok f l => "ok:" ++ showVal f ++ ":" ++ showVal l
  | .errFirst => "err:first"
  | .errLast => "err:last"
  | .errInterval => "err:interval"
  | .other w => w

def showCollect : CollectOut → String
  | .res f l [] => "ok:" ++ showVal f ++ ":" ++ showVal l
  | .res _ _ kinds => "err:" ++ "+".intercalate kinds
  | .other w => w

/-- canonical output line for a case (see `C28.judge` for the case formats) -/
def handle : List String → String
  | ["abs", _, zt, text, _, _, _, _, _] =>
    match parseZoneTable zt with
    | some z => showRes (parseTimeArgument z (unText text))
    | none => "bad-args"
  | ["mal", _, zt, text] =>
    match parseZoneTable zt with
    | some z => showRes (parseTimeArgument z (unText text))
    | none => "bad-args"
  | ["rel", _, text] => showRes (parseTimeArgument [] (unText text))
  | ["rng", _, zt, now, ta, tb, _, _] =>
    match parseZoneTable zt, Wire.parseInt now with
    | some z, some now => showRange (parseTimeRange z now (unText ta) (unText tb))
    | _, _ => "bad-args"
  | ["rngc", _, zt, now, ta, tb, _, _] =>
    match parseZoneTable zt, Wire.parseInt now with
    | some z, some now => showCollect (parseTimeRangeCollect z now (unText ta) (unText tb))
    | _, _ => "bad-args"
  | ["fmt", li, t, off] =>
    match Wire.parseNat li, Wire.parseInt t, Wire.parseInt off with
    | some li, some t, some off =>
      match layouts[li]? with
      | some toks => if hasUnsupported toks then "unsupported-layout" else textOut (formatAt toks t off)
      | none => "bad-layout-index"
    | _, _, _ => "bad-args"
  | _ => "bad-op"

end C28
