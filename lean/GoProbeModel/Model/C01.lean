import GoProbeModel.Spec.C01

/-!
C01 — executable model of the write / read path of one day directory:
`GPDir.WriteBlocks` → `GPFile.writeBlock` (pkg/goDB/storage/gpfile/gpfile.go) through a
`bufio.Writer` of 4096 bytes, the compressed-size fallback to the null encoder, lazy `open()`
with seek to `CurrentOffset`, metadata committed at `Close`, and `ReadBlockAtIndex`.

Modelled as written (after the `fix:` that seeks back to `CurrentOffset` before re-encoding);
`Marshal`/`Unmarshal` of the metadata are the identity here (they are property C03's subject; the
correspondence harness goes through the real ones).
-/
namespace C01

/-- `bufio.defaultBufSize` (Go standard library; recorded in the trusted base) -/
def bufSize : Nat := 4096

structure Blk where
  ts : Int
  off : Nat
  len : Nat
  rawLen : Nat
  enc : Nat            -- 0 = null encoder, otherwise the directory's default encoder type
  deriving Repr, DecidableEq

/-- one column file as seen by a writer session -/
structure Col where
  file : Bytes          -- bytes on disk (changes are immediate)
  hdr : List Blk        -- block header (in memory during a session, persisted at Close)
  cur : Nat             -- `CurrentOffset`
  pos : Option Nat      -- file position if the file was opened in this session
  deriving Repr

/-- `pwrite`-like effect of a sequential `write` at position `p` (zero-fills a gap, as a sparse file) -/
def writeAt (f : Bytes) (p : Nat) (b : Bytes) : Bytes :=
  (f.take p ++ List.replicate (p - f.length) 0) ++ b ++ f.drop (p + b.length)

/-- one `bufio.Writer.Write` on an EMPTY buffer followed (later) by Flush or Reset:
    returns (file, position, buffered bytes) -/
def bufWrite (f : Bytes) (p : Nat) (b : Bytes) : Bytes × Nat × Bytes :=
  if b.length > bufSize then (writeAt f p b, p + b.length, []) else (f, p, b)

/-- `GPFile.writeBlock` for one column. `dflt` = default encoder type of the directory. -/
def writeBlock (dflt : Nat) (c : Col) (ts : Int) (data comp : Bytes) : Option Col :=
  if c.hdr.any (·.ts == ts) then none                        -- "timestamp already present"
  else if data.length = 0 then
    some { c with hdr := c.hdr ++ [{ ts := ts, off := c.cur, len := 0, rawLen := 0, enc := 0 }] }
  else
    let p0 := c.pos.getD c.cur                               -- lazy open(): seek to CurrentOffset
    -- Compress: exactly one Write of the encoder output
    let (f1, p1, buf1) := bufWrite c.file p0 comp
    if comp.length > data.length then
      -- fallback: Reset discards the buffered bytes (not what was already written through),
      -- the fix seeks back to CurrentOffset, then the raw bytes are written
      let (f2, p2, buf2) := bufWrite f1 c.cur data
      let f3 := writeAt f2 p2 buf2                            -- Flush
      some { file := f3, cur := c.cur + data.length, pos := some (p2 + buf2.length),
             hdr := c.hdr ++ [{ ts := ts, off := c.cur, len := data.length, rawLen := data.length, enc := 0 }] }
    else
      let f3 := writeAt f1 p1 buf1                            -- Flush
      some { file := f3, cur := c.cur + comp.length, pos := some (p1 + buf1.length),
             hdr := c.hdr ++ [{ ts := ts, off := c.cur, len := comp.length, rawLen := data.length, enc := dflt }] }

/-- persistent state of a day directory -/
structure Day where
  cols : List Col                                  -- 8 columns, `pos = none` between sessions
  traffic : List (Nat × Nat × Nat)                 -- per-block traffic metadata
  tot : (Nat × Nat × Nat) × (Nat × Nat × Nat × Nat)
  deriving Repr

def Day.empty : Day :=
  { cols := List.replicate 8 { file := [], hdr := [], cur := 0, pos := none }, traffic := [], tot := ((0,0,0),(0,0,0,0)) }

/-- `GPDir.WriteBlocks`: columns in order; the first failing column aborts (file changes stay) -/
def writeCols (dflt : Nat) (ts : Int) : List Col → List (Bytes × Bytes) → List Col × Bool
  | c :: cs, (d, z) :: ds =>
    match writeBlock dflt c ts d z with
    | none => (c :: cs, false)
    | some c' => let (r, ok) := writeCols dflt ts cs ds; (c' :: r, ok)
  | cs, _ => (cs, true)

def writeBlocks (dflt : Nat) (d : Day) (w : Write) : Day × Bool :=
  let (cols, ok) := writeCols dflt w.ts d.cols w.cols
  if ok then ({ cols := cols, traffic := d.traffic ++ [w.tm], tot := (add3 d.tot.1 w.tm, add4 d.tot.2 w.cnt) }, true)
  else ({ d with cols := cols }, false)

/-- a session: a failing write abandons the session WITHOUT Close (as `DBWriter.Write` does):
    only the file bytes written so far survive, the metadata stays as it was -/
def runSession (dflt : Nat) (d : Day) (s : Session) : Day :=
  let rec go (cur : Day) : List Write → Day × Bool
    | [] => (cur, true)
    | w :: ws => match writeBlocks dflt cur w with
      | (d', true) => go d' ws
      | (d', false) => (d', false)
  let (d', ok) := go d s
  if ok then { d' with cols := d'.cols.map fun c => { c with pos := none } }
  else { d with cols := (d.cols.zip d'.cols).map fun (o, n) => { o with file := n.file, pos := none } }

def runSessions (dflt : Nat) (ss : List Session) : Day := ss.foldl (runSession dflt) Day.empty

/-- sessions tagged with the default encoder type their writer was configured with -/
def runTagged (ses : List (Nat × Session)) : Day := ses.foldl (fun d p => runSession p.1 d p.2) Day.empty

/-! ### reader -/

/-- `ReadBlockAtIndex` for one block; `dec e` is the decoder of encoder type `e`: the reader picks it
    by the type stored with the block (sessions of one day may have used different encoders) -/
def readBlock (dec : Nat → Bytes → Option Bytes) (file : Bytes) (b : Blk) : Option Bytes :=
  if b.rawLen = 0 then some []
  else if b.enc = 0 then
    let bytes := (file.drop b.off).take b.rawLen
    if bytes.length = b.rawLen then some bytes else none
  else
    let comp := (file.drop b.off).take b.len
    if comp.length ≠ b.len then none
    else match dec b.enc comp with
      | some d => if d.length = b.rawLen then some d else none
      | none => none

/-- block `i` of every column, for `i = 0 … n-1` (a missing entry reads as an error) -/
def transposeBlocks : List (List (Option Bytes)) → Nat → List (List (Option Bytes))
  | _, 0 => []
  | cols, n + 1 => (cols.map fun c => (c.head?).getD none) :: transposeBlocks (cols.map List.tail) n

def view (dec : Nat → Bytes → Option Bytes) (d : Day) : View :=
  let percol := d.cols.map fun c => c.hdr.map (readBlock dec c.file)
  let tss := (d.cols.head?.map (·.hdr.map (·.ts))).getD []
  let rows := transposeBlocks percol tss.length
  { blocks := (tss.zip (d.traffic.zip rows)).map fun (ts, tm, r) => { ts := ts, tm := tm, cols := r },
    totals := d.tot }

def encId (s : String) : Nat := if s == "null" then 0 else if s == "lz4" then 1 else 2

/-- decoder table of a case: the real decoder of each type is assumed to invert the real encoder of
    that type on the (raw, encoded) pairs the harness observed in the sessions written with it -/
def decTable (ses : List (Nat × Session)) : Nat → Bytes → Option Bytes :=
  fun e comp =>
    let pairs := (ses.filter (·.1 == e)).flatMap fun p => p.2.flatMap fun w => w.cols
    (pairs.find? (·.2 == comp)).map (·.1)

/-- session `i` uses encoder `i mod n` of the `+`-separated list -/
def tagSessions (encs : List String) (ss : List Session) : List (Nat × Session) :=
  ss.mapIdx fun i s => (encId (encs.getD (i % encs.length) "null"), s)

/-- wire: `<encoder[+encoder…]> <level[+level…]> <sessions>` → `files=<hex|…> blocks=… totals=…` -/
def handle : List String → String
  | [enc, _lvl, sess] =>
    match parseSessions sess with
    | some ss =>
      let ses := tagSessions (enc.splitOn "+") ss
      let d := runTagged ses
      "files=" ++ "|".intercalate (d.cols.map fun c => Wire.bytesToHex c.file) ++ " " ++ showView (view (decTable ses) d)
    | none => "bad-args"
  | _ => "bad-op"

end C01
