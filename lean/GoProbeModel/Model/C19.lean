import GoProbeModel.Spec.C19
import GoProbeModel.Base.Outcome
import GoProbeModel.Gen.Parse
import GoProbeModel.Gen.Facts

/-!
C19 — model of `ParsePacketV4` / `ParsePacketV6` (pkg/capture/flow.go) as written, statement by
statement (the statement skeleton of both functions is pinned by the facts
`c19_parse_v4_skeleton` / `c19_parse_v6_skeleton`), over byte strings `List Nat`.

* every index expression `ipLayer[i]` is `Outcome.idx` (panics when `i ≥ len`);
* every slice expression `ipLayer[lo:hi]` is `slice` (panics when `hi > len`; Go only panics when
  `hi > cap`, so the model panics at least whenever Go does);
* `copy(epHash[a:b], src)` is `copyInto` (copies `min (b-a) (len src)` bytes, like the translator);
* `isCommonPort` is the *generated* function, called through `isCommonPortChecked`, which adds the
  bounds checks of `port[0]`, `port[1]` and of the three table indices against the dimensions of
  `commonPorts` regenerated as facts;
* all offsets, limits, protocol numbers and hash positions are the *generated* constants.

`dispatch` models the choice of parser in the capture loops (`Capture.process` / `bufferPackets`,
shape pinned by the facts `c19_dispatch_*`) including slimcap's `IPLayer.Type()` (`i[0] >> 4`).
-/
namespace C19
open Gen.Parse Outcome

/-- a Go byte slice value: length and content -/
structure Sl where
  len : Nat
  get : Nat → Nat

/-- Go `p[lo:hi]` -/
def slice (p : List Nat) (lo hi : Nat) : Outcome Sl :=
  if lo ≤ hi ∧ hi ≤ p.length then .ok ⟨hi - lo, fun i => p.getD (lo + i) 0⟩
  else .panic "slice bounds out of range"

/-- Go `copy(key[dlo:dhi], src)` -/
def copyInto (key : Nat → Nat) (dlo dhi : Nat) (src : Sl) : Nat → Nat :=
  fun j => if dlo ≤ j ∧ j < dlo + min (dhi - dlo) src.len then src.get (j - dlo) else key j

def dim0 : Nat := Gen.Facts.c19_commonPorts_dim0.toNat
def dim1 : Nat := Gen.Facts.c19_commonPorts_dim1.toNat
def dim2 : Nat := Gen.Facts.c19_commonPorts_dim2.toNat

/-- `isCommonPort(port, proto)` with every index checked; the value is the generated function's -/
def isCommonPortChecked (port : Sl) (proto : Nat) : Outcome Bool :=
  if port.len = 0 then .panic "index out of range [0]"
  else if port.get 0 > commonPortsMaxTrackedFirstByte ∨ proto > UDP then .ok false
  else if port.len ≤ 1 then .panic "index out of range [1]"
  else if proto < dim0 ∧ port.get 0 < dim1 ∧ port.get 1 < dim2 then .ok (isCommonPort port.get proto)
  else .panic "index out of range (commonPorts)"

/-- the constants of one parser -/
structure Layout where
  boundsLimit : Nat
  protoPos : Nat
  sipStart : Nat
  sipEnd : Nat
  dipStart : Nat
  dipEnd : Nat
  sportStart : Nat
  sportEnd : Nat
  dportStart : Nat
  dportEnd : Nat
  tcpFlagsPos : Nat
  tcpLimit : Nat
  udpLimit : Nat
  icmpLimit : Nat
  icmpTypePos : Nat
  icmpProto : Nat
  frag : Option (Nat × Nat)   -- fragment check (IPv4 only): positions of the two offset bytes
  hSipStart : Nat
  hSipEnd : Nat
  hSPortStart : Nat
  hSPortEnd : Nat
  hDipStart : Nat
  hDipEnd : Nat
  hDPortStart : Nat
  hDPortEnd : Nat
  hProtoPos : Nat
  hSize : Nat

def layoutV4 : Layout := {
  boundsLimit := ipLayerV4BoundsLimit, protoPos := ipLayerV4ProtoPos,
  sipStart := ipLayerV4SipStart, sipEnd := ipLayerV4SipEnd, dipStart := ipLayerV4DipStart, dipEnd := ipLayerV4DipEnd,
  sportStart := ipLayerV4SPortStart, sportEnd := ipLayerV4SPortEnd, dportStart := ipLayerV4DPortStart, dportEnd := ipLayerV4DPortEnd,
  tcpFlagsPos := ipLayerV4TCPFlagsPos, tcpLimit := ipLayerV4TCPLimit, udpLimit := ipLayerV4UDPLimit, icmpLimit := ipLayerV4ICMPLimit,
  icmpTypePos := ipLayerV4SPortStart,  -- `ipLayer[ipv4.HeaderLen]`; ipLayerV4SPortStart is defined as ipv4.HeaderLen
  icmpProto := ICMP,
  frag := some (ipLayerV4FragFlagFirstByte, ipLayerV4FragFlagLastByte),
  hSipStart := EPHashV4SipStart, hSipEnd := EPHashV4SipEnd, hSPortStart := EPHashV4SPortStart, hSPortEnd := EPHashV4SPortEnd,
  hDipStart := EPHashV4DipStart, hDipEnd := EPHashV4DipEnd, hDPortStart := EPHashV4DPortStart, hDPortEnd := EPHashV4DPortEnd,
  hProtoPos := EPHashV4ProtocolPos, hSize := EPHashSizeV4 }

def layoutV6 : Layout := {
  boundsLimit := ipLayerV6BoundsLimit, protoPos := ipLayerV6ProtoPos,
  sipStart := ipLayerV6SipStart, sipEnd := ipLayerV6SipEnd, dipStart := ipLayerV6DipStart, dipEnd := ipLayerV6DipEnd,
  sportStart := ipLayerV6SPortStart, sportEnd := ipLayerV6SPortEnd, dportStart := ipLayerV6DPortStart, dportEnd := ipLayerV6DPortEnd,
  tcpFlagsPos := ipLayerV6TCPFlagsPos, tcpLimit := ipLayerV6TCPLimit, udpLimit := ipLayerV6UDPLimit, icmpLimit := ipLayerV6ICMPLimit,
  icmpTypePos := ipLayerV6SPortStart,  -- `ipLayer[ipv6.HeaderLen]`
  icmpProto := ICMPv6,
  frag := none,
  hSipStart := EPHashV6SipStart, hSipEnd := EPHashV6SipEnd, hSPortStart := EPHashV6SPortStart, hSPortEnd := EPHashV6SPortEnd,
  hDipStart := EPHashV6DipStart, hDipEnd := EPHashV6DipEnd, hDPortStart := EPHashV6DPortStart, hDPortEnd := EPHashV6DPortEnd,
  hProtoPos := EPHashV6ProtocolPos, hSize := EPHashSizeV6 }

def toList (n : Nat) (f : Nat → Nat) : List Nat := (List.range n).map f

/-- label `finalize:` -/
def finalize (L : Layout) (k : Nat → Nat) (protocol aux : Nat) : Outcome Res :=
  let k : Nat → Nat := fun j => if j = L.hProtoPos then protocol else k j
  .ok (.key (toList L.hSize k) aux)

/-- label `ports:` -/
def ports (L : Layout) (p : List Nat) (k : Nat → Nat) (protocol aux : Nat) : Outcome Res :=
  slice p L.dportStart L.dportEnd >>= fun dport =>
  slice p L.sportStart L.sportEnd >>= fun sport =>
  isCommonPortChecked dport protocol >>= fun cd =>
  let k := if !cd then copyInto k L.hSPortStart L.hSPortEnd sport else k
  isCommonPortChecked sport protocol >>= fun cs =>
  let k := if !cs then copyInto k L.hDPortStart L.hDPortEnd dport else k
  finalize L k protocol aux

/-- `fragOffset != 0` with `fragOffset := (uint16(0x1f&b6) << 8) | uint16(b7)` -/
def fragCheck (L : Layout) (p : List Nat) (protocol : Nat) : Outcome Bool :=
  match L.frag with
  | none => .ok false
  | some (first, last) =>
    if protocol ≠ ESP then
      idx p first >>= fun b6 =>
      idx p last >>= fun b7 =>
      .ok (decide ((((0x1f &&& b6) <<< 8) % 2 ^ 16) ||| b7 ≠ 0))
    else .ok false

/-- `ParsePacketV4` / `ParsePacketV6`. `guarded = false` is the code before the fix (no length guard
    in front of the bounds-check hint `_ = ipLayer[boundsLimit]`). -/
def parseWith (L : Layout) (guarded : Bool) (p : List Nat) : Outcome Res :=
  if guarded ∧ p.length ≤ L.boundsLimit then .ok .truncated else
  idx p L.boundsLimit >>= fun _ =>
  idx p L.protoPos >>= fun protocol =>
  fragCheck L p protocol >>= fun isFrag =>
  if isFrag then .ok .fragment else
  slice p L.sipStart L.sipEnd >>= fun sip =>
  let k := copyInto (fun _ => 0) L.hSipStart L.hSipEnd sip
  slice p L.dipStart L.dipEnd >>= fun dip =>
  let k := copyInto k L.hDipStart L.hDipEnd dip
  if protocol = TCP then
    if p.length < L.tcpLimit then .ok .truncated else
    idx p L.tcpFlagsPos >>= fun aux => ports L p k protocol aux
  else if protocol = UDP then
    if p.length < L.udpLimit then .ok .truncated else ports L p k protocol 0
  else if protocol = L.icmpProto then
    if p.length < L.icmpLimit then .ok .truncated else
    idx p L.icmpTypePos >>= fun aux => finalize L k protocol aux
  else finalize L k protocol 0

def parseV4 : List Nat → Outcome Res := parseWith layoutV4 true
def parseV6 : List Nat → Outcome Res := parseWith layoutV6 true

/-! ## dispatch in the capture loops -/

inductive Disp where
  | empty
  | v4 (r : Res)
  | v6 (r : Res)
  | invalid
  deriving Repr, DecidableEq

/-- slimcap `IPLayer.Type()`: `i[0] >> 4` -/
def layerType (p : List Nat) : Outcome Nat := idx p 0 >>= fun b0 => .ok (b0 >>> 4)

/-- `guarded = false`: the loops before the fix (no `len(ipLayer) == 0` test) -/
def dispatchWith (guarded : Bool) (p : List Nat) : Outcome Disp :=
  if guarded ∧ p.length = 0 then .ok .empty else
  layerType p >>= fun t =>
  if t = ipLayerTypeV4 then parseWith layoutV4 guarded p >>= fun r => .ok (.v4 r)
  else if t = ipLayerTypeV6 then parseWith layoutV6 guarded p >>= fun r => .ok (.v6 r)
  else .ok .invalid

def dispatch : List Nat → Outcome Disp := dispatchWith true

/-- counters of `Capture.process` after one layer: `updateParsingErrorCounters` counts the errno
    and counts the packet as processed iff `errno ≥ ErrnoInvalidIPHeader`; a key is processed and
    logged as one flow -/
def counters : Disp → Counters
  | .empty => ⟨1, 0, 0, 1, 0, 0⟩
  | .invalid => ⟨1, 0, 1, 0, 0, 0⟩
  | .v4 .fragment | .v6 .fragment => ⟨0, 1, 0, 0, 0, 0⟩
  | .v4 .truncated | .v6 .truncated => ⟨1, 0, 0, 1, 0, 0⟩
  | .v4 (.key _ _) => ⟨1, 0, 0, 0, 1, 0⟩
  | .v6 (.key _ _) => ⟨1, 0, 0, 0, 0, 1⟩

def ofList (k : List Nat) : Nat → Nat := fun i => k.getD i 0

/-- the implementation's `Reverse()` (generated) of the key, "-" when there is no key -/
def showReverse (v6 : Bool) : Outcome Res → String
  | .ok (.key k _) =>
    Wire.bytesToHex (if v6 then toList EPHashSizeV6 (EPHashV6_Reverse (ofList k)) else toList EPHashSizeV4 (EPHashV4_Reverse (ofList k)))
  | _ => "-"

def showOutcome : Outcome Res → String
  | .ok r => r.show
  | .err e => "err:" ++ e
  | .panic _ => "panic"

/-- wire: `v4|v6 <layer p> <layer q>` -> `<result p> | <result q> | <Reverse() of the key of p, or ->`;
    `ip <layer>` -> counters of the capture loop fed with that single layer -/
def handle : List String → String
  | ["ip", p] =>
    match Wire.hexToBytes p with
    | some p =>
      match dispatch p with
      | .ok d => (counters d).show
      | _ => "panic"
    | none => "bad-args"
  | [fam, p, q] =>
    match Wire.hexToBytes p, Wire.hexToBytes q with
    | some p, some q =>
      if fam == "v4" then showOutcome (parseV4 p) ++ " | " ++ showOutcome (parseV4 q) ++ " | " ++ showReverse false (parseV4 p)
      else if fam == "v6" then showOutcome (parseV6 p) ++ " | " ++ showOutcome (parseV6 q) ++ " | " ++ showReverse true (parseV6 p)
      else "bad-op"
    | _, _ => "bad-args"
  | _ => "bad-op"

end C19
