import GoProbeModel.Base.Outcome
import GoProbeModel.Spec.C09
import GoProbeModel.Gen.CondNode

/-!
C09 — hand-written model of the condition code *as written* (after the `fix:` commit), from the
AST on (tokenising / parsing text is C10's subject):

* `pkg/goDB/conditions/node/node.go`: the node types, `transform`, `Evaluate` (short-circuit `&&`
  / `||`), `negationNormalForm` (with its depth limit) and the pipeline of `ParseAndInstrument`
  (desugar → resolve → negationNormalForm → instrument); `transformComparator` and the depth limit
  are *regenerated from the source* (`Gen/CondNode.lean`).
* `desugar.go`: `desugarConditionNode` (aliases, host / net).
* `instrument.go`: `conditionBytesAndNetmask`, `generateCompareValue`, `inNetwork`.
* `pkg/types/keyval.go`: `Key.IsIPv4`, `GetSIP`, `GetDIP`, `GetDport`, `GetProto`, with the layout
  constants regenerated from the source.

A key is its bytes. Every Go index / slice expression is a *checked* operation (`Outcome.panic`);
slice bounds are checked against the **length**, which is stricter than Go's check against the
capacity, so "the model never panics" (`eval_total`) implies the same for a key of any capacity,
and the result cannot depend on bytes beyond the key. A comparison closure is a function from the
key memory to a result **and the key memory afterwards**, so that "evaluation does not change the
flow" is a statement (`eval_pure`) rather than an artefact of the modelling language.

`resolve` (DNS) is the identity on conditions whose address values are IP addresses, the only ones
considered here. Attribute and comparator are Go strings; values are carried in parsed form
(`types.IPStringToBytes` yields 4 bytes for dotted text, 16 otherwise; the harness renders IPv6
values without an embedded dotted quad).

`Orig` at the end is a faithful model of the network comparison *before* the fix (views into the
key memory with length and capacity, `ip[index] &= mask` in place), kept as a regression example:
it reproduces the replayed witnesses.
-/
namespace C09

open Gen.CondNode

/-! ### node.go: the AST -/

/-- `conditionNode` (its attribute, comparator, value), `notNode`, `andNode`, `orNode` -/
inductive Node where
  | cond (attrName comparator : String) (value : Val)
  | not (n : Node)
  | and (l r : Node)
  | or (l r : Node)
  deriving Repr, DecidableEq, Inhabited

/-- what `parseConditional` builds for the (fully parenthesised) text of a condition tree -/
def toNode : Cond → Node
  | .leaf a c v => .cond a.name c.sym v
  | .not x => .not (toNode x)
  | .and l r => .and (toNode l) (toNode r)
  | .or l r => .or (toNode l) (toNode r)

/-- `Node.transform`: replace every leaf, left to right, first error wins -/
def Node.transform (t : String → String → Val → Outcome Node) : Node → Outcome Node
  | .cond a c v => t a c v
  | .not n => (n.transform t).bind fun n' => .ok (.not n')
  | .and l r => (l.transform t).bind fun l' => (r.transform t).bind fun r' => .ok (.and l' r')
  | .or l r => (l.transform t).bind fun l' => (r.transform t).bind fun r' => .ok (.or l' r')

/-! ### desugar.go -/

/-- the closure `helper` of `desugarConditionNode` -/
def desugarHelper (src dst comparator : String) (value : Val) : Outcome Node :=
  if comparator ≠ "=" ∧ comparator ≠ "!=" then .err "comparator"
  else
    let result := Node.or (.cond src "=" value) (.cond dst "=" value)
    if comparator = "!=" then .ok (.not result) else .ok result

def desugarConditionNode (attrName comparator : String) (value : Val) : Outcome Node :=
  if attrName = "src" then .ok (.cond SIPName comparator value)
  else if attrName = "dst" then .ok (.cond DIPName comparator value)
  else if attrName = "port" then .ok (.cond DportName comparator value)
  else if attrName = "ipproto" ∨ attrName = "protocol" then .ok (.cond ProtoName comparator value)
  else if attrName = "host" then desugarHelper SIPName DIPName comparator value
  else if attrName = "net" then desugarHelper "snet" "dnet" comparator value
  else .ok (.cond attrName comparator value)

def desugar (n : Node) : Outcome Node := n.transform desugarConditionNode

/-! ### node.go: negation normal form -/

/-- the recursive closure `helper` of `negationNormalForm` -/
def nnfHelper : Node → Bool → Nat → Outcome Node
  | .cond a c v, negate, depth =>
    if depth > maxNegationNormalFormDepth then .err "other"
    else if !negate then .ok (.cond a c v)
    else
      match transformComparator c with
      | (c', false) => .ok (.cond a c' v)
      | (_, true) => .err "other"
  | .and l r, negate, depth =>
    if depth > maxNegationNormalFormDepth then .err "other"
    else (nnfHelper l negate (depth + 1)).bind fun l' => (nnfHelper r negate (depth + 1)).bind fun r' =>
      .ok (if negate then .or l' r' else .and l' r')
  | .or l r, negate, depth =>
    if depth > maxNegationNormalFormDepth then .err "other"
    else (nnfHelper l negate (depth + 1)).bind fun l' => (nnfHelper r negate (depth + 1)).bind fun r' =>
      .ok (if negate then .and l' r' else .or l' r')
  | .not n, negate, depth =>
    if depth > maxNegationNormalFormDepth then .err "other"
    else nnfHelper n (!negate) (depth + 1)

def negationNormalForm (n : Node) : Outcome Node := nnfHelper n false 0

/-! ### pkg/types/keyval.go: views of a key -/

abbrev Key := List Nat

/-- Go `s[i]` -/
def index (s : List Nat) (i : Nat) : Outcome Nat :=
  if h : i < s.length then .ok s[i] else .panic "index out of range"

/-- Go `s[lo:hi]`, bounds checked against the length -/
def slice (s : List Nat) (lo hi : Nat) : Outcome (List Nat) :=
  if lo ≤ hi ∧ hi ≤ s.length then .ok ((s.take hi).drop lo) else .panic "slice bounds out of range"

/-- `Key.IsIPv4` -/
def isIPv4 (k : Key) : Outcome Bool :=
  if k.length = KeyWidthIPv4.toNat then .ok true
  else if k.length = KeyWidthIPv6.toNat then .ok false
  else .panic "key is neither ipv4 nor ipv6"

def getSIP (k : Key) : Outcome (List Nat) :=
  (isIPv4 k).bind fun v4 =>
    if v4 then slice k sipPos (sipPos + IPv4Width.toNat) else slice k sipPos (sipPos + IPv6Width.toNat)

def getDIP (k : Key) : Outcome (List Nat) :=
  (isIPv4 k).bind fun v4 =>
    if v4 then slice k dipPosIPv4.toNat (dipPosIPv4.toNat + IPv4Width.toNat)
    else slice k dipPosIPv6.toNat (dipPosIPv6.toNat + IPv6Width.toNat)

def getDport (k : Key) : Outcome (List Nat) :=
  (isIPv4 k).bind fun v4 =>
    if v4 then slice k dportPosIPv4.toNat (dportPosIPv4.toNat + DPortWidth.toNat)
    else slice k dportPosIPv6.toNat (dportPosIPv6.toNat + DPortWidth.toNat)

def getProto (k : Key) : Outcome Nat :=
  (isIPv4 k).bind fun v4 => if v4 then index k protoPosIPv4.toNat else index k protoPosIPv6.toNat

/-! ### instrument.go -/

/-- Go `s[i] = b` -/
def setByte (s : List Nat) (i b : Nat) : Outcome (List Nat) :=
  if i < s.length then .ok (s.set i b) else .panic "index out of range"

/-- `for i := from; i < width; i++ { s[i] = 0 }` in closed form: a no-op when `from ≥ width`, a
    panic when some index `< width` lies beyond the slice, otherwise zeros at `from … width-1` -/
def zeroFrom (s : List Nat) (frm width : Nat) : Outcome (List Nat) :=
  if frm < width ∧ s.length < width then .panic "index out of range"
  else if frm < width then .ok (s.take frm ++ List.replicate (width - frm) 0 ++ s.drop width)
  else .ok s

/-- `uint8(0xFF) << uint8(8 - netmask%8)` -/
def maskByte (netmask : Nat) : Nat := (0xFF <<< (8 - netmask % 8)) % 256

/-- the result of `types.IPStringToBytes`: 4 or 16 bytes, or an error -/
def ipBytes (b : List Nat) : Outcome (List Nat) :=
  if (b.length = 4 ∨ b.length = 16) ∧ b.all (· < 256) then .ok b else .err "other"

/-- `conditionBytesAndNetmask`: value bytes and netmask (the IP version it also returns only
    feeds `Attributes()`, which is not part of evaluation) -/
def conditionBytesAndNetmask (attrName comparator : String) (value : Val) : Outcome (List Nat × Nat) :=
  if comparator = "=" ∨ comparator = "!=" ∨ comparator = "<" ∨ comparator = ">" ∨ comparator = "<=" ∨ comparator = ">=" then
    if attrName = DIPName ∨ attrName = SIPName then
      match value with
      | .addr b => (ipBytes b).bind fun cb => .ok (cb, 0)
      | _ => .err "other"
    else if attrName = "dnet" ∨ attrName = "snet" then
      match value with
      | .net b netmask =>
        -- strings.Contains(cidr[0], ":")
        let isIPv6Address := decide (b.length = 16)
        if isIPv6Address ∧ netmask > 128 then .err "netmask"
        else if ¬ isIPv6Address ∧ netmask > 32 then .err "netmask"
        else
          (ipBytes b).bind fun cb =>
          let maskWidth := if isIPv6Address then 16 else 4
          (zeroFrom cb ((netmask + 7) / 8) maskWidth).bind fun cb =>
          if netmask / 8 < maskWidth then
            (index cb (netmask / 8)).bind fun x =>
            (setByte cb (netmask / 8) (x &&& maskByte netmask)).bind fun cb => .ok (cb, netmask)
          else .ok (cb, netmask)
      | _ => .err "other"
    else if attrName = ProtoName then
      match value with
      | .num n => if n < 256 then .ok ([n &&& 0xff], 0) else .err "other"
      | _ => .err "other"
    else if attrName = DportName then
      match value with
      | .num n => if n < 65536 then .ok ([(n >>> 8) % 256, n &&& 0xff], 0) else .err "other"
      | _ => .err "other"
    else .err "other"
  else .err "other"

/-- a comparison closure: key memory ↦ result and key memory afterwards -/
abbrev Closure := Key → Outcome (Bool × Key)

/-- `inNetwork` (the fixed code) -/
def inNetwork (ip network : List Nat) (idx netmaskByte : Nat) : Outcome Bool :=
  if ip.length ≠ network.length then .ok false
  else
    (slice ip 0 idx).bind fun a => (slice network 0 idx).bind fun b =>
    if a ≠ b then .ok false
    else if netmaskByte = 0 then .ok true
    else (index ip idx).bind fun x => (index network idx).bind fun y => .ok (x &&& netmaskByte == y)

/-- `bytes.Compare` -/
def bytesCompare : List Nat → List Nat → Ordering
  | [], [] => .eq
  | [], _ :: _ => .lt
  | _ :: _, [] => .gt
  | a :: as, b :: bs => if a < b then .lt else if a > b then .gt else bytesCompare as bs

/-- closures of the `sip` / `dip` cases -/
def ipClosure (get : Key → Outcome (List Nat)) (comparator : String) (value : List Nat) : Outcome Closure :=
  if comparator = "=" then .ok fun k => (get k).bind fun ip => .ok (ip == value, k)
  else if comparator = "!=" then .ok fun k => (get k).bind fun ip => .ok (!(ip == value), k)
  else .err "comparator"

/-- closures of the `snet` / `dnet` cases -/
def netClosure (get : Key → Outcome (List Nat)) (comparator : String) (value : List Nat) (netmask : Nat) : Outcome Closure :=
  let idx := netmask / 8
  let toShift := (8 - netmask % 8) % 256
  if toShift ≠ 8 then
    let netmaskByte := (0xff <<< toShift) % 256
    if comparator = "=" then
      .ok fun k => (get k).bind fun ip => (inNetwork ip value idx netmaskByte).bind fun b => .ok (b, k)
    else if comparator = "!=" then
      .ok fun k => (get k).bind fun ip => (inNetwork ip value idx netmaskByte).bind fun b => .ok (!b, k)
    else .err "comparator"
  else
    if comparator = "=" then
      .ok fun k => (get k).bind fun ip => (inNetwork ip value idx 0).bind fun b => .ok (b, k)
    else if comparator = "!=" then
      .ok fun k => (get k).bind fun ip => (inNetwork ip value idx 0).bind fun b => .ok (!b, k)
    else .err "comparator"

/-- closures of the `dport` case: `value[:types.DportSizeof]` is evaluated on every call -/
def dportClosure (comparator : String) (value : List Nat) : Outcome Closure :=
  let run (test : Ordering → Bool) : Closure := fun k =>
    (getDport k).bind fun d => (slice value 0 DportSizeof.toNat).bind fun v => .ok (test (bytesCompare d v), k)
  if comparator = "=" then
    .ok fun k => (getDport k).bind fun d => (slice value 0 DportSizeof.toNat).bind fun v => .ok (d == v, k)
  else if comparator = "!=" then
    .ok fun k => (getDport k).bind fun d => (slice value 0 DportSizeof.toNat).bind fun v => .ok (!(d == v), k)
  else if comparator = "<" then .ok (run fun o => o == .lt)
  else if comparator = ">" then .ok (run fun o => o == .gt)
  else if comparator = "<=" then .ok (run fun o => o != .gt)
  else if comparator = ">=" then .ok (run fun o => o != .lt)
  else .err "comparator"

/-- closures of the `proto` case -/
def protoClosure (comparator : String) (value : List Nat) : Outcome Closure :=
  let run (test : Nat → Nat → Bool) : Closure := fun k =>
    (getProto k).bind fun p => (index value 0).bind fun v => .ok (test p v, k)
  if comparator = "=" then .ok (run fun p v => p == v)
  else if comparator = "!=" then .ok (run fun p v => p != v)
  else if comparator = "<" then .ok (run fun p v => decide (p < v))
  else if comparator = ">" then .ok (run fun p v => decide (p > v))
  else if comparator = "<=" then .ok (run fun p v => decide (p ≤ v))
  else if comparator = ">=" then .ok (run fun p v => decide (p ≥ v))
  else .err "comparator"

/-- `generateCompareValue` -/
def generateCompareValue (attrName comparator : String) (value : Val) : Outcome Closure :=
  (conditionBytesAndNetmask attrName comparator value).bind fun (cb, netmask) =>
    if attrName = SIPName then ipClosure getSIP comparator cb
    else if attrName = DIPName then ipClosure getDIP comparator cb
    else if attrName = "snet" then netClosure getSIP comparator cb netmask
    else if attrName = "dnet" then netClosure getDIP comparator cb netmask
    else if attrName = DportName then dportClosure comparator cb
    else if attrName = ProtoName then protoClosure comparator cb
    else .err "other"

/-- an instrumented tree: every leaf carries its closure -/
inductive INode where
  | cond (compareValue : Closure)
  | not (n : INode)
  | and (l r : INode)
  | or (l r : INode)

/-- `instrument`: `transform` with `generateCompareValue` -/
def instrument : Node → Outcome INode
  | .cond a c v => (generateCompareValue a c v).bind fun f => .ok (.cond f)
  | .not n => (instrument n).bind fun n' => .ok (.not n')
  | .and l r => (instrument l).bind fun l' => (instrument r).bind fun r' => .ok (.and l' r')
  | .or l r => (instrument l).bind fun l' => (instrument r).bind fun r' => .ok (.or l' r')

/-- `Evaluate`: Go's `&&` / `||` short-circuit -/
def INode.eval : INode → Key → Outcome (Bool × Key)
  | .cond f, k => f k
  | .not n, k => (n.eval k).bind fun r => .ok (!r.1, r.2)
  | .and l r, k => (l.eval k).bind fun a => if a.1 then r.eval a.2 else .ok (false, a.2)
  | .or l r, k => (l.eval k).bind fun a => if a.1 then .ok (true, a.2) else r.eval a.2

/-- `resolve` on trees without hostnames -/
def resolve (n : Node) : Outcome Node := .ok n

/-- `ParseAndInstrument` from the parsed tree on -/
def compile (n : Node) : Outcome INode :=
  (desugar n).bind fun d => (resolve d).bind fun r => (negationNormalForm r).bind instrument

/-! ### the network comparison before the fix (regression example) -/
namespace Orig

/-- key memory: the bytes from the start of the key to the end of its backing array; the key is
    the first `len` of them -/
structure Mem where
  bytes : List Nat
  len : Nat
  deriving Repr, DecidableEq

/-- a view `k[off : off+len]`: its capacity reaches to the end of the backing array -/
structure View where
  off : Nat
  len : Nat

def View.cap (m : Mem) (v : View) : Nat := m.bytes.length - v.off

/-- `GetSIP` / `GetDIP` on a key of 11 or 35 bytes -/
def getIP (m : Mem) (src : Bool) : Outcome View :=
  if m.len = 11 then .ok ⟨if src then 0 else 4, 4⟩
  else if m.len = 35 then .ok ⟨if src then 0 else 16, 16⟩
  else .panic "key is neither ipv4 nor ipv6"

/-- `ip[index] = ip[index] & netmaskByte`: index checked against the view's length -/
def maskInPlace (m : Mem) (v : View) (idx netmaskByte : Nat) : Outcome Mem :=
  if idx < v.len then .ok { m with bytes := m.bytes.set (v.off + idx) (m.bytes.getD (v.off + idx) 0 &&& netmaskByte) }
  else .panic "index out of range"

/-- `ip[:n]`: bound checked against the view's capacity -/
def sliceTo (m : Mem) (v : View) (n : Nat) : Outcome (List Nat) :=
  if n ≤ v.cap m then .ok ((m.bytes.drop v.off).take n) else .panic "slice bounds out of range"

/-- the `snet` / `dnet` closures of the original `generateCompareValue` (`neg` for `!=`) -/
def netClosure (src neg : Bool) (value : List Nat) (netmask : Nat) (m : Mem) : Outcome (Bool × Mem) :=
  let idx := netmask / 8
  let toShift := (8 - netmask % 8) % 256
  if toShift ≠ 8 then
    (getIP m src).bind fun ip =>
    (maskInPlace m ip idx ((0xff <<< toShift) % 256)).bind fun m' =>
    (sliceTo m' ip (idx + 1)).bind fun a => (slice value 0 (idx + 1)).bind fun b => .ok ((a == b) != neg, m')
  else
    (getIP m src).bind fun ip =>
    (sliceTo m ip idx).bind fun a => (slice value 0 idx).bind fun b => .ok ((a == b) != neg, m)

/-- the `sip` / `dip` closures -/
def ipClosure (src neg : Bool) (value : List Nat) (m : Mem) : Outcome (Bool × Mem) :=
  (getIP m src).bind fun ip => .ok ((((m.bytes.drop ip.off).take ip.len) == value) != neg, m)

/-- `a || b` -/
def orElse (a b : Mem → Outcome (Bool × Mem)) (m : Mem) : Outcome (Bool × Mem) :=
  (a m).bind fun r => if r.1 then .ok r else b r.2

end Orig

/-! ### wire -/

def showBool (b : Bool) : String := if b then "1" else "0"

/-- wire op `<mode> <key> <cond>` (see `Spec/C09.lean`); the mode (capacity of the key) does not
    enter the model of the fixed code -/
def handle : List String → String
  | [_mode, key, cond] =>
    match Wire.hexToBytes key, parseCond cond with
    | some k, some c =>
      match compile (toNode c) with
      | .ok n =>
        match n.eval k with
        | .ok (b, k') => showBool b ++ " " ++ Wire.bytesToHex k'
        | .err e => "err:" ++ e
        | .panic _ => "panic"
      | .err e => "err:" ++ e
      | .panic _ => "panic"
    | _, _ => "bad-args"
  | _ => "bad-op"

end C09
