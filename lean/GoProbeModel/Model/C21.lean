import GoProbeModel.Spec.C21
import GoProbeModel.Base.Outcome
import GoProbeModel.Model.C19
import GoProbeModel.Model.C23
import GoProbeModel.Gen.Classify
import GoProbeModel.Gen.Pause
import GoProbeModel.Gen.Facts

/-!
C21 — model of the capture loop `(*Capture).process` / `bufferPackets` (pkg/capture/capture.go) as
written, as a state machine over the events the loop can observe.

* modes: `proc` (main loop), `buffering` (inside `bufferPackets`, before an unlock request was seen),
  `blocked` (after a refused `buf.Add`: `captureErrors <- ErrLocalBufferOverflow`, then the loop sits in
  `ConsumeUnlockRequest()` and fetches nothing);
* the local buffer is the byte-array model of C23 (`C23.Buf`, `C23.add`, `C23.next`, `C23.cycle`);
* the IP-version dispatch and the two parsers are the model of C19 (`C19.dispatch`);
* the **isIPv4 argument of the two `buf.Add` calls is regenerated from the source** on every run
  (`addIsV4Flag`, facts `c21_add_isv4_v4` / `c21_add_isv4_v6`);
* errnos, `ParsingFailed`, `DirectionReverts` come from `Gen/Pause.lean`, the classifiers,
  `Reverse` and `IsProbablyReverse` from `Gen/Classify.lean`; the statement skeletons of every
  transcribed function are pinned by the facts `c21_*_skeleton`;
* the third-party three-point lock is modelled as its protocol (assumed): a request is seen by the
  loop only at the top of the main loop (`HasLockRequest`), confirmed at once, the holder acts while
  the loop is inside `bufferPackets`, an unlock request is seen at the top of the buffering loop or
  ends the wait after an overflow; the request channel holds one waiting request;
* the machine is generic in the flow log (`FlowOps`: insertion of one packet, rotation), so that
  the theorems of Props/C21.lean hold for every flow-log implementation; `cOps` is the transcription
  of `addToFlowLogV4/V6` and `FlowLog.transferAndAggregate` used by the driver.
-/
namespace C21
open Gen.Pause Outcome

/-- the literal `isIPv4` argument of `buf.Add` in the IPv4 (`v6 = false`) / IPv6 (`v6 = true`) branch
    of `bufferPackets`, regenerated from the source -/
def addIsV4Flag (v6 : Bool) : Bool :=
  if v6 then Gen.Facts.c21_add_isv4_v6 else Gen.Facts.c21_add_isv4_v4

/-- what the capture loop needs from a flow log -/
structure FlowOps (FL : Type) where
  /-- `addToFlowLogV4` (`isV4 = true`) / `addToFlowLogV6`: epHash, pktType, pktSize, auxInfo -/
  add : Bool → List Nat → Nat → Nat → Nat → FL → FL
  /-- `FlowLog.Rotate` -/
  rotate : FL → FL

inductive Mode where
  | proc | buffering | blocked
  deriving Repr, DecidableEq, Inhabited

structure St (FL : Type) where
  log : FL
  cnt : Cnt           -- c.stats.Processed and c.stats.ParsingErrors
  buf : C23.Buf       -- localBuf
  mode : Mode
  pend : Option Holder   -- a lock request waiting in the request channel
  ovf : Nat              -- ErrLocalBufferOverflow errors sent so far

/-- what happened to one packet of the schedule -/
inductive Fate where
  | direct       -- fetched and processed by the main loop
  | buffered     -- fetched inside bufferPackets and stored in the local buffer
  | skipped      -- fetched inside bufferPackets, not IP (empty / unknown version): not tracked
  | refused      -- fetched inside bufferPackets, refused by the full buffer, overflow reported
  | notOffered   -- the loop was waiting for the unlock after an overflow: not fetched
  deriving Repr, DecidableEq, Inhabited

/-- what a lock holder did / saw (`FL`: the flow log at that moment) -/
inductive Act (FL : Type) where
  | status (c : Cnt)
  | query (l : FL)
  | writeout (c : Cnt) (l : FL)

inductive Tok (FL : Type) where
  | fetched (f : Fate)
  | granted (a : Act FL)
  | waiting
  | ignored
  | unlocked (g : Option (Act FL))
  | unblocked

/-! ### counters -/

/-- `c.stats.ParsingErrors[errno]++` (an array of `NumParsingErrors` counters) -/
def bumpErr (c : Cnt) (e : Int) : Outcome Cnt :=
  if e < 0 ∨ e ≥ NumParsingErrors then .panic "index out of range"
  else if e = ErrnoPacketFragmentIgnore then .ok { c with frag := c.frag + 1 }
  else if e = ErrnoInvalidIPHeader then .ok { c with inv := c.inv + 1 }
  else if e = ErrnoPacketTruncated then .ok { c with trunc := c.trunc + 1 }
  else .ok c

/-- `updateParsingErrorCounters(errno)` -/
def updateParsingErrorCounters (c : Cnt) (e : Int) : Outcome Cnt :=
  bumpErr c e >>= fun c => .ok (if ParsingErrno_ParsingFailed e then { c with proc := c.proc + 1 } else c)

/-- the tail shared by the main loop and the drain loop: `if errno > ErrnoOK { update…; continue }`,
    `c.stats.Processed++`, `addToFlowLogV4 / V6` -/
def account {FL : Type} (ops : FlowOps FL) (lc : FL × Cnt) (isV4 : Bool) (key : List Nat) (ptype size aux : Nat)
    (errno : Int) : Outcome (FL × Cnt) :=
  if errno > ErrnoOK then updateParsingErrorCounters lc.2 errno >>= fun c => .ok (lc.1, c)
  else .ok (ops.add isV4 key ptype size aux lc.1, { lc.2 with proc := lc.2.proc + 1 })

/-- `epHash`, `auxInfo`, `errno` as returned by `ParsePacketV4/V6` (`n` = size of the hash). On an
    error return the hash is partly filled in the code; it is never looked at again, zeros here. -/
def resFields (n : Nat) : C19.Res → List Nat × Nat × Int
  | .key k aux => (k, aux, ErrnoOK)
  | .fragment => (List.replicate n 0, 0, ErrnoPacketFragmentIgnore)
  | .truncated => (List.replicate n 0, 0, ErrnoPacketTruncated)

/-! ### main loop: one fetched packet -/

def procPkt {FL : Type} (ops : FlowOps FL) (lc : FL × Cnt) (p : Pkt) : Outcome (FL × Cnt) :=
  C19.dispatch p.layer >>= fun d =>
  match d with
  | .empty => updateParsingErrorCounters lc.2 ErrnoPacketTruncated >>= fun c => .ok (lc.1, c)
  | .v4 r =>
    let f := resFields Gen.Parse.EPHashSizeV4 r
    account ops lc true f.1 p.ptype p.size f.2.1 f.2.2
  | .v6 r =>
    let f := resFields Gen.Parse.EPHashSizeV6 r
    account ops lc false f.1 p.ptype p.size f.2.1 f.2.2
  | .invalid => bumpErr { lc.2 with proc := lc.2.proc + 1 } ErrnoInvalidIPHeader >>= fun c => .ok (lc.1, c)

/-! ### bufferPackets: one fetched packet, the drain loop -/

/-- `buf.Add(epHash[:], pktType, pktSize, <literal>, auxInfo, errno)` and the overflow branch -/
def addItem {FL : Type} (s : St FL) (v6 : Bool) (n : Nat) (r : C19.Res) (p : Pkt) : Outcome (St FL × Fate) :=
  let f := resFields n r
  let it : C23.Item := { v4 := addIsV4Flag v6, key := f.1, ptype := p.ptype, size := p.size, aux := f.2.1, errno := f.2.2 }
  C23.add s.buf it >>= fun r =>
  if r.2 then .ok ({ s with buf := r.1 }, .buffered)
  else .ok ({ s with buf := r.1, mode := .blocked, ovf := s.ovf + 1 }, .refused)

def bufPkt {FL : Type} (s : St FL) (p : Pkt) : Outcome (St FL × Fate) :=
  C19.dispatch p.layer >>= fun d =>
  match d with
  | .empty => .ok (s, .skipped)
  | .invalid => .ok (s, .skipped)
  | .v4 r => addItem s false Gen.Parse.EPHashSizeV4 r p
  | .v6 r => addItem s true Gen.Parse.EPHashSizeV6 r p

/-- "Drain the buffer": `buf.Next()` until it reports nothing (`fuel` ≥ number of records) -/
def drain {FL : Type} (ops : FlowOps FL) : Nat → C23.Buf → FL × Cnt → Outcome (C23.Buf × (FL × Cnt))
  | 0, b, lc => .ok (b, lc)
  | fuel + 1, b, lc =>
    C23.next b >>= fun r =>
    match r.2 with
    | none => .ok (r.1, lc)
    | some it => account ops lc it.v4 it.key it.ptype it.size it.aux it.errno >>= fun lc' => drain ops fuel r.1 lc'

/-! ### lock holders -/

/-- what the holder does between `Lock()` and `Unlock()`: `status()` reports and resets the counters,
    `flowMap()` reads the flow log, a write-out does `status()` and `rotate()` -/
def act {FL : Type} (ops : FlowOps FL) (h : Holder) (lc : FL × Cnt) : (FL × Cnt) × Act FL :=
  match h with
  | .status => ((lc.1, {}), .status lc.2)
  | .query => (lc, .query lc.1)
  | .writeout => ((ops.rotate lc.1, {}), .writeout lc.2 lc.1)

/-- top of the main loop with a request present: `ConfirmLockRequest()` (the holder acts from here
    on; the loop does not touch flow log or counters until it has seen the unlock request),
    `localBuf.Assign(ConsumeLockRequest())` with the slice `Lock()` took from the pool -/
def grantTo {FL : Type} (ops : FlowOps FL) (s : St FL) (h : Holder) : Outcome (St FL × Act FL) :=
  let r := act ops h (s.log, s.cnt)
  C23.cycle s.buf s.buf.page >>= fun b =>
  .ok ({ s with log := r.1.1, cnt := r.1.2, buf := b, mode := .buffering }, r.2)

/-! ### the machine -/

def step {FL : Type} (ops : FlowOps FL) (s : St FL) : Ev → Outcome (St FL × Tok FL)
  | .pkt p =>
    match s.mode with
    | .proc => procPkt ops (s.log, s.cnt) p >>= fun lc => .ok ({ s with log := lc.1, cnt := lc.2 }, .fetched .direct)
    | .buffering => bufPkt s p >>= fun r => .ok (r.1, .fetched r.2)
    | .blocked => .ok (s, .fetched .notOffered)
  | .lock h =>
    match s.mode with
    | .proc => grantTo ops s h >>= fun r => .ok (r.1, .granted r.2)
    | _ =>
      match s.pend with
      | none => .ok ({ s with pend := some h }, .waiting)
      | some _ => .ok (s, .ignored)
  | .unlock =>
    match s.mode with
    | .proc => .ok (s, .ignored)
    | _ =>
      drain ops (s.buf.w + 1) s.buf (s.log, s.cnt) >>= fun r =>
      let s1 : St FL := { s with log := r.2.1, cnt := r.2.2, buf := C23.reset r.1, mode := .proc }
      match s.pend with
      | none => .ok (s1, .unlocked none)
      | some h => grantTo ops { s1 with pend := none } h >>= fun g => .ok (g.1, .unlocked (some g.2))
  | .unblock => .ok (s, .unblocked)

def run {FL : Type} (ops : FlowOps FL) : St FL → List Ev → Outcome (St FL × List (Tok FL))
  | s, [] => .ok (s, [])
  | s, e :: es => step ops s e >>= fun r => run ops r.1 es >>= fun q => .ok (q.1, r.2 :: q.2)

def init {FL : Type} (empty : FL) (page limit : Nat) : Outcome (St FL) :=
  C23.mkBuf page limit page >>= fun b => .ok { log := empty, cnt := {}, buf := b, mode := .proc, pend := none, ovf := 0 }

/-! ### the flow log of the code (driver instance) -/

open Gen.Classify in
/-- `addToFlowLogV4` / `addToFlowLogV6` over an association list (one Go map per IP version) -/
def cAdd (v4 : Bool) (key : List Nat) (ptype size aux : Nat) (log : List Entry) : List Entry :=
  let out := Gen.Facts.c21_packet_outgoing.toNat
  let bumpE (e : Entry) : Entry :=   -- NewFlow / UpdateFlow
    if ptype = out then { e with bs := e.bs + size, ps := e.ps + 1 } else { e with br := e.br + size, pr := e.pr + 1 }
  let h := C19.ofList key
  let n := if v4 then Gen.Parse.EPHashSizeV4 else Gen.Parse.EPHashSizeV6
  let rev := C19.toList n (if v4 then EPHashV4_Reverse h else EPHashV6_Reverse h)
  let probablyReverse := if v4 then EPHashV4_IsProbablyReverse h else EPHashV6_IsProbablyReverse h
  let direction := if v4 then ClassifyPacketDirectionV4 h aux else ClassifyPacketDirectionV6 h aux
  let has (k : List Nat) : Bool := log.any (same v4 k)
  let update (k : List Nat) : List Entry := log.map fun e => if same v4 k e then bumpE e else e
  let insert : List Entry :=
    if direction = DirectionReverts then log ++ [bumpE { v4 := v4, key := rev }] else log ++ [bumpE { v4 := v4, key := key }]
  if probablyReverse then
    if has rev then update rev else if has key then update key else insert
  else
    if has key then update key else if has rev then update rev else insert

/-- `FlowLog.transferAndAggregate`: flows with packets are reset and kept, the others deleted -/
def cRotate (log : List Entry) : List Entry :=
  (log.filter fun e => decide (e.pr > 0) || decide (e.ps > 0)).map fun e => { e with br := 0, bs := 0, pr := 0, ps := 0 }

def cOps : FlowOps (List Entry) := { add := cAdd, rotate := cRotate }

/-- `types.Key.PutV4String` / `PutV6String`: the aggregation key has no source port -/
def aggKey (e : Entry) : List Nat :=
  if e.v4 then e.key.take 4 ++ (e.key.drop 6).take 7 else e.key.take 16 ++ (e.key.drop 18).take 19

/-- `FlowLog.Aggregate` / the map returned by `Rotate`: flows with packets, merged per aggregation key;
    nothing at all when the flow log is empty (`Len() == 0`: the callers return nil) -/
def aggOf (log : List Entry) : List Entry :=
  ((log.filter fun e => e.pr != 0 || e.ps != 0).map fun e => { e with key := aggKey e }).foldl mergeInto []

/-! ### driver -/

def showAct : Act (List Entry) → Obs
  | .status c => .status c
  | .query l => .query l (aggOf l)
  | .writeout c l => .writeout c l (aggOf l)

def isFetched : Tok (List Entry) → Bool
  | .fetched .notOffered => false
  | _ => true

def isRefused : Tok (List Entry) → Bool
  | .fetched .refused => true
  | _ => false

def convTok : Tok (List Entry) → OTok
  | .fetched _ => .fetched 1 false
  | .granted a => .granted (showAct a)
  | .waiting => .waiting
  | .ignored => .ignored
  | .unlocked g => .unlocked (g.map showAct)
  | .unblocked => .unblocked

/-- run the wire events; a packet group yields one token -/
def runWire : St (List Entry) → List WEv → List OTok → Outcome (St (List Entry) × List OTok)
  | s, [], acc => .ok (s, acc.reverse)
  | s, .pkts ps :: es, acc =>
    run cOps s (ps.map .pkt) >>= fun r =>
    runWire r.1 es (.fetched (r.2.filter isFetched).length (r.2.any isRefused) :: acc)
  | s, .lock h :: es, acc => step cOps s (.lock h) >>= fun r => runWire r.1 es (convTok r.2 :: acc)
  | s, .unlock :: es, acc => step cOps s .unlock >>= fun r => runWire r.1 es (convTok r.2 :: acc)
  | s, .unblock :: es, acc => step cOps s .unblock >>= fun r => runWire r.1 es (convTok r.2 :: acc)

def runCase (page limit : Nat) (evs : List WEv) : String :=
  match init ([] : List Entry) page limit >>= fun s => runWire s evs [] with
  | .ok (s, toks) => showToks (toks ++ [.fin s.cnt s.log s.ovf 0])
  | _ => "panic"

def handle : List String → String
  | [page, limit, pkts, events] =>
    match Wire.parseNat page, Wire.parseNat limit, parsePkts pkts with
    | some page, some limit, some pk =>
      match parseEvents pk events with
      | some evs => runCase page limit evs
      | none => "bad-args"
    | _, _, _ => "bad-args"
  | _ => "bad-op"

end C21
