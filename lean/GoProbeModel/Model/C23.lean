import GoProbeModel.Spec.C23
import GoProbeModel.Base.Outcome
import GoProbeModel.Gen.Buffer

/-!
C23 — hand-written model of `LocalBuffer` (pkg/capture/buffer.go, as fixed by
"fix: local packet buffer record size and room check after growing") over a byte array.

* `Buf.mem` is the backing array of `l.data` (its size is `cap(l.data)`), `Buf.len` is `len(l.data)`,
  `w`/`r` are `writeBufPos`/`readBufPos`, `limit` is `memPool.MaxBufferSize`, `page` is
  `initialBufferSize`.
* every Go index expression is checked against `len`, every slice expression against `cap`
  (Go semantics), the `unsafe` 4-byte load/store additionally against `cap` — anything else is
  `Outcome.panic`. "Never panics / never writes past the slice" is then a theorem.
* the record-layout constants come from `Gen/Buffer.lean` (regenerated from the source); the
  statement lists of Add/Next/grow/Reset/Assign are pinned by the facts `c23_stmts_*`.
* `resize` / `poolGet` transcribe `MemPoolLimitUnique.Resize` / `Put`+`Get` of
  github.com/fako1024/gotools/concurrency for a pool with one tracked element.
Bytes are `Nat` (< 256 for well-formed items); the host is taken to be little-endian (only the
internal position of the four size bytes depends on it).
-/
namespace C23
open Gen.Buffer

structure Buf where
  mem : Array Nat
  len : Nat
  w : Nat
  r : Nat
  limit : Nat
  page : Nat
  deriving Repr

/-! ### byte-array primitives -/

def rd (m : Array Nat) (i : Nat) : Nat := (m[i]?).getD 0

/-- write a list of bytes at consecutive positions -/
def storeList : Array Nat → Nat → List Nat → Array Nat
  | m, _, [] => m
  | m, i, x :: xs => storeList (m.setIfInBounds i x) (i + 1) xs

def readList (m : Array Nat) (p n : Nat) : List Nat := (List.range n).map fun j => rd m (p + j)

def le32 (v : Nat) : List Nat := [v % 256, v / 256 % 256, v / 65536 % 256, v / 16777216 % 256]

def fromLE32 : List Nat → Nat
  | [a, b, c, d] => a + 256 * b + 65536 * c + 16777216 * d
  | _ => 0

/-- `int8(errno)` stored into a byte -/
def errnoByte (e : Int) : Nat := (e % 256).toNat
/-- a byte read back through `*int8` -/
def toInt8 (b : Nat) : Int := if b < 128 then (b : Int) else (b : Int) - 256

/-! ### checked Go operations on `l.data` -/

/-- `l.data[i]` (read) -/
def getIdx (b : Buf) (i : Nat) : Outcome Nat :=
  if i < b.len then .ok (rd b.mem i) else .panic "index out of range"

/-- `l.data[i] = v` -/
def setIdx (b : Buf) (i v : Nat) : Outcome Buf :=
  if i < b.len then .ok { b with mem := b.mem.setIfInBounds i v } else .panic "index out of range"

/-- `copy(l.data[lo:hi], src)` -/
def copyTo (b : Buf) (lo hi : Nat) (src : List Nat) : Outcome Buf :=
  if lo ≤ hi ∧ hi ≤ b.mem.size then .ok { b with mem := storeList b.mem lo (src.take (hi - lo)) }
  else .panic "slice bounds out of range"

/-- `l.data[lo:hi]` (read) -/
def sliceOf (b : Buf) (lo hi : Nat) : Outcome (List Nat) :=
  if lo ≤ hi ∧ hi ≤ b.mem.size then .ok (readList b.mem lo (hi - lo)) else .panic "slice bounds out of range"

/-- `*(*uint32)(unsafe.Pointer(&l.data[i])) = v`: the index is checked, the 4-byte store is not —
    a store reaching past the backing array is modelled as a panic (it is memory corruption) -/
def setU32 (b : Buf) (i v : Nat) : Outcome Buf :=
  if i < b.len then
    if i + 4 ≤ b.mem.size then .ok { b with mem := storeList b.mem i (le32 v) }
    else .panic "unchecked 4-byte store past the backing array"
  else .panic "index out of range"

/-- `*(*uint32)(unsafe.Pointer(&l.data[i]))` -/
def getU32 (b : Buf) (i : Nat) : Outcome Nat :=
  if i < b.len then
    if i + 4 ≤ b.mem.size then .ok (fromLE32 (readList b.mem i 4))
    else .panic "unchecked 4-byte load past the backing array"
  else .panic "index out of range"

/-! ### the memory pool (one tracked element) -/

/-- `MemPoolLimitUnique.Resize(l.data, size)`: `slicePtr` takes `&elem[0]`, so an empty slice panics -/
def resize (b : Buf) (size : Nat) : Outcome Buf :=
  if b.len = 0 then .panic "index out of range"
  else if b.mem.size < size then
    .ok { b with mem := b.mem.extract 0 b.len ++ Array.replicate (size - b.len) 0, len := size }
  else .ok { b with len := size }

/-- `Put(data)` (length back to capacity) followed by `Get(size)`: backing array and length -/
def poolGet (mem : Array Nat) (size : Nat) : Array Nat × Nat :=
  if mem.size < size then (Array.replicate (2 * size) 0, size) else (mem, size)

/-! ### LocalBuffer -/

/-- `Assign(data)` -/
def assign (b : Buf) (mem : Array Nat) (len : Nat) : Outcome Buf :=
  let b1 := { b with mem := mem, len := len }
  if len < b.page then resize b1 b.page else .ok b1

/-- `Reset()` -/
def reset (b : Buf) : Buf := { b with w := 0, r := 0 }

/-- the element transfer of `Add` (both branches; `n` is EPHashSizeV4 / EPHashSizeV6) -/
def writeRec (b : Buf) (it : Item) : Outcome Buf := do
  let n := if it.v4 then EPHashSizeV4 else EPHashSizeV6
  let w := b.w
  let b ← setIdx b w (if it.v4 then 0 else 1)
  let b ← copyTo b (w + 1) (w + n + 1) it.key
  let b ← setIdx b (w + n + 1) it.ptype
  let b ← setIdx b (w + n + 2) it.aux
  let b ← setIdx b (w + n + 3) (errnoByte it.errno)
  let b ← setU32 b (w + n + 4) it.size
  pure { b with w := w + (n + bufElementAddSize) }

/-- `Add(epHash, pktType, pktSize, isIPv4, auxInfo, errno)` -/
def add (b : Buf) (it : Item) : Outcome (Buf × Bool) :=
  let requiredSize := b.w + it.key.length + bufElementAddSize
  if requiredSize > b.len then
    let newSize := min b.limit (2 * b.len)
    if requiredSize > newSize then .ok (b, false)
    else do
      let b1 ← resize b newSize   -- grow
      let b2 ← writeRec b1 it
      pure (b2, true)
  else do
    let b2 ← writeRec b it
    pure (b2, true)

/-- `Next()` -/
def next (b : Buf) : Outcome (Buf × Option Item) :=
  if b.r ≥ b.w then .ok (b, none)
  else do
    let pos := b.r
    let flag ← getIdx b pos
    let n := if flag = 0 then EPHashSizeV4 else EPHashSizeV6
    let key ← sliceOf b (pos + 1) (pos + 1 + n)
    let pt ← getIdx b (pos + 1 + n)
    let sz ← getU32 b (pos + n + 4)
    let aux ← getIdx b (pos + n + 2)
    let en ← getIdx b (pos + n + 3)
    pure ({ b with r := b.r + (n + bufElementAddSize) },
          some { v4 := decide (flag = 0), key := key, ptype := pt, size := sz, aux := aux, errno := toInt8 en })

/-- `Reset()`, `Release(buf.data)` (= pool `Put`), pool `Get(size)`, `Assign` -/
def cycle (b : Buf) (size : Nat) : Outcome Buf :=
  let b1 := reset b
  let p := poolGet b1.mem size
  assign b1 p.1 p.2

/-- a fresh pool (one zeroed element of `page` bytes), `Get(get)`, `NewLocalBuffer`, `Assign` -/
def mkBuf (page limit get : Nat) : Outcome Buf :=
  let p := poolGet (Array.replicate page 0) get
  assign { mem := #[], len := 0, w := 0, r := 0, limit := limit, page := page } p.1 p.2

/-! ### runs -/

def step (b : Buf) : Op → Outcome (Buf × Tok)
  | .add it => do let (b', ok) ← add b it; pure (b', .added ok b'.w)
  | .next => do let (b', o) ← next b; pure (b', .got o)
  | .reset => let b' := reset b; .ok (b', .rst b'.w)
  | .cycle n => do let b' ← cycle b n; pure (b', .cyc b'.w b'.len b'.mem.size)

def finTok (b : Buf) : Tok := .fin b.w b.r b.len b.mem.size

/-- the tokens of a run: one per op, the final state; a panic ends the run -/
def run : Buf → List Op → List Tok
  | b, [] => [finTok b]
  | b, op :: ops =>
    match step b op with
    | .ok (b', t) => t :: run b' ops
    | _ => [.panic]

/-- tail-recursive `run` (what the driver executes; `runTR_eq` in Props) -/
def runTR : Buf → List Op → List Tok → List Tok
  | b, [], acc => (finTok b :: acc).reverse
  | b, op :: ops, acc =>
    match step b op with
    | .ok (b', t) => runTR b' ops (t :: acc)
    | _ => (Tok.panic :: acc).reverse

def runCase (page limit get : Nat) (ops : List Op) : List Tok :=
  match mkBuf page limit get with
  | .ok b => runTR b ops []
  | _ => [.panic]

def handle : List String → String
  | [page, limit, get, ops] =>
    match Wire.parseNat page, Wire.parseNat limit, Wire.parseNat get, parseOps ops with
    | some page, some limit, some get, some ops => showToks (runCase page limit get ops)
    | _, _, _, _ => "bad-args"
  | _ => "bad-op"

end C23
