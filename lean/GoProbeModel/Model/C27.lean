import GoProbeModel.Spec.C27
import GoProbeModel.Gen.CaptureCfg
import GoProbeModel.Gen.Facts

/-!
C27 — executable model of the capture manager's reconfiguration **as the code is written**
(`pkg/capture/capture_manager.go`: `Update`, `updateSelected`, `update`, `filterMatchingIfaces`,
`autodetectIfaces`, `performWriteout`/`rotate`, `Close`; `cmd/goProbe/config/config.go`: `validate`,
`Matcher`, `FindMatch`, `Equals`, `IsRegexpInterfaceMatcher`), after the repairs listed in
checks/config/C27.json. The statement lists / call sequences of these functions are pinned as facts
(extract/targets_c27.go), so that an edit breaks the tie until this file is re-examined.

State of the manager = the captures it holds (name, the parameters the capture was created with, its
flow log since the last rotation) + `lastAppliedConfig`. A capture starts iff the interface exists
(the scripted source of the harness refuses other names, like the kernel would).
-/
namespace C27

/-- one running capture -/
structure Cap where
  name : Name
  /-- `Capture.config` -/
  params : Params
  /-- `Capture.flowLog`: packets per flow since the last rotation -/
  pending : Flows
deriving DecidableEq, Repr

structure St where
  /-- `cm.captures` -/
  caps : List Cap := []
  /-- `cm.lastAppliedConfig` -/
  last : Entries := []
  /-- the host link lister fails -/
  linkErr : Bool := false
deriving Repr

/-! ### config.go -/

/-- `(*RingBufferConfig).Equals` -/
def ringEquals (r cfg : Option (Int × Int)) : Bool :=
  match r, cfg with
  | some (a, b), some (c, d) => a == c && b == d
  | none, none => true
  | _, _ => false

/-- `CaptureConfig.Equals` -/
def equals (c cfg : Params) : Bool :=
  c.vlan == cfg.vlan && c.promisc == cfg.promisc && c.disable == cfg.disable &&
  ringEquals c.ring cfg.ring && c.bpf == cfg.bpf

/-- `CaptureConfig.validate` (with `RingBufferConfig.validate`) -/
def cfgValidate (c : Params) : Bool :=
  if c.disable then
    !(c.ring.isSome || c.bpf > 0 || c.promisc || c.vlan)
  else
    match c.ring with
    | none => false
    | some (bs, nb) => !(decide (bs ≤ 0)) && !(decide (nb ≤ 0))

/-- `Ifaces.validate` -/
def ifacesValidate (es : Entries) : Bool := !es.isEmpty && es.all fun e => cfgValidate e.2

/-- `IfaceMatcher`: the two Go maps built by `Ifaces.Matcher()` -/
structure Matcher where
  /-- `m.ifaces` -/
  direct : Entries
  /-- `m.regexpMatchers`: pattern ↦ configuration (a Go map: iterated in arbitrary order) -/
  res : List (String × Params)

def matcherOf (es : Entries) : Matcher :=
  ⟨es.filter (fun e => !isRe e.1), (es.filter (fun e => isRe e.1)).map fun e => (pat e.1, e.2)⟩

/-- one iteration of the loop over `m.regexpMatchers` in `FindMatch` -/
def pickRe (rx : Rx) (n : Name) (best : Option (String × Params)) (e : String × Params) :
    Option (String × Params) :=
  if rx.hit e.1 n && (match best with
                       | none => true
                       | some b => decide (e.1 < b.1)) then some e else best

/-- `FindMatch`, the regexp map being iterated in the order `order` -/
def findMatchOrd (rx : Rx) (direct : Entries) (order : List (String × Params)) (n : Name) :
    Option Params :=
  match direct.find? (fun e => e.1 == n) with
  | some e => some e.2
  | none => (order.foldl (pickRe rx n) none).map (·.2)

def findMatch (rx : Rx) (es : Entries) (n : Name) : Option Params :=
  let m := matcherOf es
  findMatchOrd rx m.direct m.res n

/-- the ORIGINAL `FindMatch` (first matching regexp in map iteration order), kept to exhibit the
    defect that was repaired -/
def findMatchOrig (rx : Rx) (direct : Entries) (order : List (String × Params)) (n : Name) :
    Option Params :=
  match direct.find? (fun e => e.1 == n) with
  | some e => some e.2
  | none => (order.find? fun e => rx.hit e.1 n).map (·.2)

/-- `found` of `ExcludeMatcher().FindMatch` -/
def exclFound (rx : Rx) (ex : List String) (n : Name) : Bool :=
  (ex.filter fun k => !isRe k).contains n || (ex.filter isRe).any fun k => rx.hit (pat k) n

/-- `DefaultCaptureConfig()` over the regenerated constants -/
def modelDefault : Params :=
  { ring := some (Gen.CaptureCfg.DefaultRingBufferBlockSize, Gen.CaptureCfg.DefaultRingBufferNumBlocks) }

/-! ### capture_manager.go -/

def isRunning (st : St) (n : Name) : Bool := st.caps.any fun c => c.name == n

/-- `cm.lastAppliedConfig[iface]` (zero value when absent) -/
def lastOf (es : Entries) (n : Name) : Params :=
  match es.find? (fun e => e.1 == n) with
  | some e => e.2
  | none => {}

/-- the interfaces `Update` hands to `updateSelected`, or the kind of error it returns -/
def ifacesOf (rx : Rx) (links : List Name) (st : St) : Config → Except String Entries
  | .auto ex =>
    if ex.any (fun k => isRe k && !rx.valid (pat k)) then .error "regexp"
    else if st.linkErr then .error "links"
    else .ok (links.foldl (fun acc l => if exclFound rx ex l then acc else upsert acc l modelDefault) [])
  | .ifaces es =>
    if !ifacesValidate es then .error "config"
    else if es.any (fun e => isRe e.1 && !rx.valid (pat e.1)) then .error "regexp"
    else if es.any (fun e => isRe e.1) then
      if st.linkErr then .error "links"
      else .ok (links.foldl (fun acc l =>
        match findMatch rx es l with
        | some c => upsert acc l c
        | none => acc) [])
    else .ok es

/-- `performWriteout(…, names…)` → `rotate`: every named capture that exists hands over its flow
    log and starts a new one -/
def rotate (caps : List Cap) (names : List Name) : List Cap × List (Name × Flows) :=
  (caps.map fun c => if names.contains c.name then { c with pending := [] } else c,
   names.filterMap fun n => (caps.find? fun c => c.name == n).map fun c => (n, c.pending))

/-- packets recorded by the capture on `i` -/
def record (caps : List Cap) (i : Name) (f n : Nat) : List Cap :=
  caps.map fun c => if c.name == i then { c with pending := addFlow c.pending f n } else c

/-- the final write-out at the beginning of `update` (`if len(disable) > 0 { performWriteout(…) }`) -/
def finalWriteout (caps : List Cap) (disable : List Name) : List Cap × List (Name × Flows) :=
  if disable.isEmpty then (caps, []) else rotate caps disable

/-- packets arriving on an interface right after the final write-out was handed over (they only
    arrive if the interface was part of that write-out): recorded by the still running capture -/
def lateArrival (caps : List Cap) (wo : List (Name × Flows)) : Option (Name × Nat × Nat) → List Cap × Bool
  | none => (caps, false)
  | some (i, f, n) => if wo.any (fun e => e.1 == i) then (record caps i f n, true) else (caps, false)

/-- `update`: final write-out of the captures in `disable`, THEN close them, then start `enable`.
    Returns the new state, the write-out and whether late packets were recorded. -/
def update (links : List Name) (st : St) (ifaces : Entries) (enable disable : List Name)
    (late : Option (Name × Nat × Nat)) : St × List (Name × Flows) × Bool :=
  let w := finalWriteout st.caps disable
  let l := lateArrival w.1 w.2 late
  let caps3 := l.1.filter fun c => !disable.contains c.name
  let started := (enable.filter fun n => links.contains n).map fun n => (⟨n, lastOf ifaces n, []⟩ : Cap)
  ({ st with caps := caps3 ++ started, last := ifaces }, w.2, l.2)

/-- `updateSelected` -/
def updateSelected (links : List Name) (st : St) (ifaces0 : Entries)
    (late : Option (Name × Nat × Nat)) : St × UpdOut :=
  let ifaces := ifaces0.filter fun e => !e.2.disable
  let en := (ifaces.filter fun e => !isRunning st e.1).map (·.1)
  let up := (ifaces.filter fun e => isRunning st e.1 && !equals e.2 (lastOf st.last e.1)).map (·.1)
  let dis := (st.caps.filter fun c => !ifaces.any fun e => e.1 == c.name).map (·.name)
  let r := update links st ifaces (en ++ up) (dis ++ up) late
  (r.1, { en := en, up := up, dis := dis,
          run := r.1.caps.map fun c => (c.name, c.params, (r.1.last.find? fun e => e.1 == c.name).map (·.2)),
          wo := r.2.1, late := late.map fun _ => r.2.2 })

/-- `Manager.Update` -/
def doUpdate (rx : Rx) (links : List Name) (st : St) (cfg : Config)
    (late : Option (Name × Nat × Nat)) : Except String (St × UpdOut) :=
  match ifacesOf rx links st cfg with
  | .error k => .error k
  | .ok ifaces => .ok (updateSelected links st ifaces late)

/-- `Manager.Close()` -/
def doClose (links : List Name) (st : St) : St × List (Name × Flows) :=
  if st.caps.isEmpty then (st, [])
  else
    let r := update links st [] [] (st.caps.map (·.name)) none
    (r.1, r.2.1)

/-- the scheduled write-out (`performWriteout` without names: all captures) -/
def doRotate (st : St) : St × List (Name × Flows) :=
  let r := rotate st.caps (st.caps.map (·.name))
  ({ st with caps := r.1 }, r.2)

def showState (st : St) : String :=
  showRun (st.caps.map fun c => (c.name, c.params, (st.last.find? fun e => e.1 == c.name).map (·.2)))

/-- one operation: new state and the result the harness prints -/
def step (rx : Rx) (links : List Name) (st : St) : Op → St × String
  | .upd cfg late =>
    match doUpdate rx links st cfg late with
    | .error k => (st, "err:" ++ k)
    | .ok (st', o) => (st', showUpd o)
  | .pkt i f n =>
    if isRunning st i then ({ st with caps := record st.caps i f n }, "ok") else (st, "none")
  | .rot =>
    let (st', wo) := doRotate st
    (st', "wo=" ++ showWO wo)
  | .linkErr b => ({ st with linkErr := b }, "ok")
  | .close =>
    let (st', wo) := doClose links st
    (st', "wo=" ++ showWO wo ++ " run=" ++ showState st')

def runOps (rx : Rx) (links : List Name) : St → List Op → St × List String
  | st, [] => (st, [])
  | st, op :: ops =>
    let (st', r) := step rx links st op
    let (st'', rs) := runOps rx links st' ops
    (st'', r :: rs)

def handle (args : List String) : String :=
  match parseCase args with
  | none => "err:bad-case"
  | some (links, ops) => " | ".intercalate (runOps rxGo links {} ops).2

end C27
