import GoProbeModel.Spec.C31
import GoProbeModel.Gen.Facts

/-!
C31 — model of the code as written: a small-step system of any number of queries running
`(*QueryRunner).run` against one semaphore.

* The *program* every query executes is the list of abstract steps regenerated from the source
  (`Gen.Facts.c31_engine_run_steps`, `Gen.Facts.c31_dist_run_steps`: one entry per top-level statement
  of `run`, classified by extract/targets_c31.go).
* The semaphore (`concurrency.Semaphore`, a `chan struct{}`) is the counter `sem` (= `len(chan)`)
  bounded by the capacity. `TryAddFor`: `select { case l <- struct{}{}: return func(){ <-l }, nil;
  case <-ctx.Done(): return nil, ErrNoSlotAvailable }` — the send is possible iff `sem < cap`
  (event `got`), the timer branch is an event that may fire at any time (`timeout`; Go's select
  chooses arbitrarily when both are ready).
* `holding` = the query owns the release closure returned by `TryAddFor` and has not called it;
  `deferred` = `defer smeDone()` has been executed; returning from `run` runs the deferred release.
* The harness' own tokens (slots it pre-fills to play "queries already running") are `ext`.
-/
namespace C31

inductive Step | work | mayReturn | acquire | reject | deferRelease | deferOther | ret | unknown
  deriving DecidableEq, Repr

def Step.parse (s : String) : Step :=
  if s = "work" then .work else if s = "mayReturn" then .mayReturn
  else if s = "acquire" then .acquire else if s = "reject429" then .reject
  else if s = "deferRelease" then .deferRelease else if s = "defer" then .deferOther
  else if s = "return" then .ret else .unknown

abbrev Prog := List Step

/-- `engine.(*QueryRunner).run`, regenerated -/
def engineProg : Prog := Gen.Facts.c31_engine_run_steps.map Step.parse
/-- `distributed.(*QueryRunner).run` (cmd/global-query), regenerated -/
def distProg : Prog := Gen.Facts.c31_dist_run_steps.map Step.parse

/-- how a query ended -/
inductive Status | finished | failed | cancelled | tooMany | nilDeferPanic
  deriving DecidableEq, Repr

structure Proc where
  pc : Nat := 0
  /-- `err` after `checkSemaphore`: no slot within the timeout -/
  err : Bool := false
  /-- owns a slot: the closure `func() { <-l }` exists and has not been called -/
  holding : Bool := false
  /-- `defer smeDone()` executed -/
  deferred : Bool := false
  done : Option Status := none
  deriving DecidableEq, Repr

structure State where
  sem : Nat := 0
  ext : Nat := 0
  procs : List Proc := []
  deriving DecidableEq, Repr

inductive Ev
  | spawn                      -- a new query calls Run
  | step (i : Nat)             -- the statement at pc completes and falls through
  | fail (i : Nat)             -- the statement at pc (a mayReturn) takes its early return
  | got (i : Nat)              -- checkSemaphore: the send into the channel succeeded
  | timeout (i : Nat)          -- checkSemaphore: the timer fired first
  | finish (i : Nat) (o : Status)  -- the final return statement (RunStatement …) completes
  | extAcq | extRel            -- the environment takes / gives back a token of the channel
  deriving Repr

/-- returning from `run`: the deferred call (if registered) runs. `defer smeDone()` with a nil
    `smeDone` would panic; with a live closure it receives from the channel. -/
def retire (p : Proc) (st : Status) : Proc × Nat :=
  if p.deferred then
    if p.holding then ({ p with done := some st, holding := false }, 1)
    else ({ p with done := some .nilDeferPanic }, 0)
  else ({ p with done := some st }, 0)

def advance (p : Proc) : Proc := { p with pc := p.pc + 1 }

/-- one transition of query `p` (not yet returned); result: new proc, tokens taken, tokens released -/
def procStep (prog : Prog) (cap sem : Nat) (p : Proc) : Ev → Option (Proc × Nat × Nat)
  | .step _ =>
    match prog[p.pc]? with
    | some .work | some .deferOther | some .mayReturn => some (advance p, 0, 0)
    | some .deferRelease => some ({ advance p with deferred := true }, 0, 0)
    | some .reject =>
      if p.err then let (q, r) := retire p .tooMany; some (q, 0, r) else some (advance p, 0, 0)
    | _ => none
  | .fail _ =>
    match prog[p.pc]? with
    | some .mayReturn => let (q, r) := retire p .failed; some (q, 0, r)
    | _ => none
  | .got _ =>
    match prog[p.pc]? with
    | some .acquire => if sem < cap then some ({ advance p with err := false, holding := true }, 1, 0) else none
    | _ => none
  | .timeout _ =>
    match prog[p.pc]? with
    | some .acquire => some ({ advance p with err := true }, 0, 0)
    | _ => none
  | .finish _ o =>
    match prog[p.pc]? with
    | some .ret =>
      if o = .finished ∨ o = .failed ∨ o = .cancelled then let (q, r) := retire p o; some (q, 0, r) else none
    | _ => none
  | _ => none

def Ev.proc? : Ev → Option Nat
  | .step i | .fail i | .got i | .timeout i | .finish i _ => some i
  | _ => none

def next (prog : Prog) (cap : Nat) (s : State) (e : Ev) : Option State :=
  match e with
  | .spawn => some { s with procs := s.procs ++ [{}] }
  | .extAcq => if s.sem < cap then some { s with sem := s.sem + 1, ext := s.ext + 1 } else none
  | .extRel => if 0 < s.ext ∧ 0 < s.sem then some { s with sem := s.sem - 1, ext := s.ext - 1 } else none
  | e =>
    match e.proc? with
    | none => none
    | some i =>
      match s.procs[i]? with
      | none => none
      | some p =>
        if p.done.isSome then none else
        match procStep prog cap s.sem p e with
        | none => none
        | some (q, take, give) =>
          if give ≤ s.sem + take then
            some { s with sem := s.sem + take - give, procs := s.procs.set i q }
          else none

/-- run a list of events, stopping at the first one that is not enabled -/
def runEvents (prog : Prog) (cap : Nat) : State → List Ev → Option State
  | s, [] => some s
  | s, e :: es => (next prog cap s e).bind (runEvents prog cap · es)

/-! ### what the theorems of Props/C31.lean talk about -/

/-- reachable from the empty system (no query, no token taken) -/
def Reachable (prog : Prog) (cap : Nat) (s : State) : Prop :=
  ∃ es, runEvents prog cap {} es = some s

/-- statements without effect on the semaphore (may return early or not) -/
def Step.plain : Step → Bool
  | .work | .mayReturn | .deferOther | .ret => true
  | _ => false

/-- position of the acquisition in the step list -/
def acqIdx (prog : Prog) : Nat := prog.idxOf .acquire

/-- decidable shape check: `acquire; reject429; deferRelease` are consecutive and everything
    else is plain (in particular: nothing that can return sits between the acquisition and the
    `defer`, there is one acquisition, one rejection, one deferred release). -/
def wfCheck (prog : Prog) : Bool :=
  let a := acqIdx prog
  prog[a]? == some .acquire && prog[a + 1]? == some .reject && prog[a + 2]? == some .deferRelease &&
  (List.range prog.length).all fun j =>
    j == a || j == a + 1 || j == a + 2 || (prog.getD j .unknown).plain

/-- the query is past the limit check and has not returned: its execution phase -/
def executing (a : Nat) (p : Proc) : Bool := p.done.isNone && decide (a + 2 ≤ p.pc)

/-- between a successful acquisition and the return from `run` -/
def inSection (a : Nat) (p : Proc) : Bool := p.done.isNone && decide (a + 1 ≤ p.pc) && !p.err

/-- the query's acquisition timed out -/
def timedOut (a : Nat) (p : Proc) : Bool := p.err && decide (a + 1 ≤ p.pc)

/-! ### the harness' schedule (deterministic), used by `handle` -/

/-- the resolution of a query's nondeterminism by its kind: the ordinal of the `mayReturn`
    statement that takes its early return (if any) and the outcome of the final return. -/
def Kind.failAt : Runner → Kind → Option Nat
  | .eng, .pr => some 0     -- args.Prepare fails
  | .eng, .nd => some 1     -- interface listing fails
  | .dist, .nh => some 0    -- no hosts
  | .dist, .nr => some 1    -- resolver type unknown
  | .dist, .pr => some 2    -- Prepare fails
  | .dist, .rf => some 4    -- prepareHostList fails (resolver error)
  | .dist, .an => some 4    -- prepareHostList fails (querier cannot list all hosts)
  | _, _ => none

def Kind.outcome : Kind → Status
  | .ok => .finished
  | .cx | .cy => .cancelled
  | _ => .failed

def Status.cls : Status → String
  | .finished | .cancelled => "ok"
  | .failed => "err"
  | .tooMany => "tmr"
  | .nilDeferPanic => "panic"

def progOf : Runner → Prog
  | .eng => engineProg
  | .dist => distProg

/-- number of `mayReturn` steps strictly before position `pc` -/
def mayReturnOrdinal (prog : Prog) (pc : Nat) : Nat :=
  ((prog.take pc).filter (· == .mayReturn)).length

structure Sched where
  runner : Runner
  cap : Nat
  gatesOpen : Bool

/-- the event query `i` takes next under the harness' schedule, if it can move -/
def pickEvent (c : Sched) (s : State) (i : Nat) (q : Query) : Option Ev :=
  match s.procs[i]? with
  | none => none
  | some p =>
    if p.done.isSome then none else
    match (progOf c.runner)[p.pc]? with
    | some .mayReturn =>
      if Kind.failAt c.runner q.kind = some (mayReturnOrdinal (progOf c.runner) p.pc) then some (.fail i) else some (.step i)
    | some .acquire =>
      if s.sem < c.cap then some (.got i) else if q.patient then none else some (.timeout i)
    | some .ret =>
      if q.kind.parks && !c.gatesOpen then none else some (.finish i q.kind.outcome)
    | some _ => some (.step i)
    | none => none

/-- drive query `i` until it returns, blocks on the semaphore or is parked -/
def drive (c : Sched) (i : Nat) (q : Query) : Nat → State → State
  | 0, s => s
  | fuel + 1, s =>
    match pickEvent c s i q with
    | none => s
    | some e =>
      match next (progOf c.runner) c.cap s e with
      | none => s
      | some s' => drive c i q fuel s'

def driveAll (c : Sched) (qs : List (Nat × Query)) (s : State) : State :=
  qs.foldl (fun s (i, q) => drive c i q 64 s) s

def iterate (f : State → State) : Nat → State → State
  | 0, s => s
  | n + 1, s => iterate f n (f s)

def applyN (prog : Prog) (cap : Nat) (e : Ev) : Nat → State → State
  | 0, s => s
  | n + 1, s => applyN prog cap e n ((next prog cap s e).getD s)

/-- queries parked in their execution phase: at the final return statement, not returned -/
def parked (prog : Prog) (s : State) : Nat :=
  s.procs.countP fun p => p.done.isNone && prog[p.pc]? == some .ret

/-- what the harness observes of one burst: the state when the impatient queries have been
    answered (`s1`), when the newly admitted queries are parked (`s3`) and at the end (`sf`) -/
structure SimOut where
  s1 : State
  s3 : State
  sf : State

def simRun (b : Burst) : SimOut :=
  let prog := progOf b.runner
  let idx := (List.range b.qs.length).zip b.qs
  let pat := idx.filter (·.2.patient)
  let imp := idx.filter (!·.2.patient)
  let closed : Sched := ⟨b.runner, b.cap, !b.gated⟩
  let opened : Sched := ⟨b.runner, b.cap, true⟩
  let s := applyN prog b.cap .spawn b.qs.length {}
  let s := applyN prog b.cap .extAcq b.held s
  -- stage 1: patient queries; stage 2: impatient queries
  let s := driveAll closed pat s
  let s1 := driveAll closed imp s
  -- stage 3: give back `rel` slots, let the waiting ones in, then open the gates
  let s := applyN prog b.cap .extRel b.rel s1
  let s3 := driveAll closed pat s
  let sf := iterate (driveAll opened idx) (b.qs.length + 1) s3
  ⟨s1, s3, sf⟩

/-- queries answered "too many requests" that nevertheless got past the limit check -/
def rejectedButExecuted (s : State) : Nat :=
  s.procs.countP fun p => p.done == some .tooMany && p.deferred

def simulate (b : Burst) : String :=
  let prog := progOf b.runner
  let o := simRun b
  if o.sf.procs.any (·.done.isNone) then "stall:3" else
  let classes := o.sf.procs.map fun p => match p.done with | some st => st.cls | none => "?"
  Wire.showList classes ++ " p1=" ++ toString (if b.gated then parked prog o.s1 else 0) ++
    " p3=" ++ toString (if b.gated then parked prog o.s3 else 0) ++
    " final=" ++ toString o.sf.sem ++ " rejx=" ++ toString (rejectedButExecuted o.sf)

def handle (args : List String) : String :=
  match parseBurst args with
  | none => "bad-case"
  | some b => if b.valid then simulate b else "bad-case"

end C31
