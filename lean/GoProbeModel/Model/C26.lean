import GoProbeModel.Spec.C26
import GoProbeModel.Gen.CsvImport

/-!
C26 — executable model of `cmd/gpdb/pkg/csvimport/import.go` (after the `fix:` commit that replaces
`Map.Set` by `AggFlowMap.SetOrUpdate`) and of the per-field parsers of `pkg/goDB/StringParser.go`,
as written:

* `parseSchema`: the loop over the comma-separated names (trim, lower-case; `iface`, `sip`, `dip`
  handled by the importer itself, everything else through `goDB.NewStringKeyParser` /
  `NewStringValParser`), `parseableFields`, `minFields`, `hasTime`, and the two stable sorts;
* `parseRow` / `parseKey` / `applyKeyParsers`: interface check, the IPv4 attempt and the IPv6 retry
  on `errRowIPVersionMismatch`, the value parsers;
* `Import`: the read loop with `MaxRows`, the three skip reasons, the regression check, the
  `pending` map, `flushBeforeTimestamp`, `flushAll`, the `Summary` counters.

Representation choices (documented in the trusted base): keys are records of their fields rather
than byte strings; `map[iface]map[ts]*AggFlowMap` is one finite map (association list) keyed by
(iface, ts, flow key); the destination database is the list of stored flows plus the log of
(iface, ts) block writes, and `GPDir.WriteBlocks`' refusal of a non-increasing timestamp inside a
day directory is `storageAccepts`.  Column names, key widths and the protocol table come from the
translator (`Gen/CsvImport.lean`).
-/
namespace C26
namespace Model

open Gen.CsvImport (TimeName IfaceName SIPName DIPName DportName ProtoName IPProtocolIDs)

/-! ### parseSchema -/

structure KeyParserItem where
  index : Nat
  priority : Nat
  kind : Kind
  deriving DecidableEq, Repr

structure ValParserItem where
  index : Nat
  kind : Kind
  deriving DecidableEq, Repr

structure Schema where
  ifaceIndex : Option Nat      -- Go: -1 = absent
  minFields : Nat
  hasTime : Bool
  keyParsers : List KeyParserItem
  valParsers : List ValParserItem
  deriving DecidableEq, Repr

/-- `goDB.NewStringKeyParser`; `none` = `NOPStringParser` -/
def newStringKeyParser (kind : String) : Option Kind :=
  if kind = SIPName then some .sip
  else if kind = DIPName then some .dip
  else if kind = DportName then some .dport
  else if kind = ProtoName then some .proto
  else if kind = "time" then some .time
  else none

/-- `goDB.NewStringValParser`; `none` = `NOPStringParser` -/
def newStringValParser (kind : String) : Option Kind :=
  if kind = "packets sent" then some .ps
  else if kind = "data vol. sent" then some .bs
  else if kind = "packets received" then some .pr
  else if kind = "data vol. received" then some .br
  else none

/-- `max(def.minFields, index+1)` with the repo's own `max` -/
def bumpMin (m index : Nat) : Nat := (Gen.CsvImport.max (Int.ofNat m) (Int.ofNat index + 1)).toNat

/-- one iteration of the loop over `fields`; the state is (`def`, `parseableFields`) -/
def schemaStep (acc : Schema × Nat) (index : Nat) (field : String) : Schema × Nat :=
  let (d, n) := acc
  let t := toLower (trimSpace field)
  if t = "" then acc
  else if t = IfaceName then
    ({ d with ifaceIndex := some index, minFields := bumpMin d.minFields index }, n + 1)
  else if t = SIPName then
    ({ d with keyParsers := d.keyParsers ++ [⟨index, 0, .sip⟩], minFields := bumpMin d.minFields index }, n + 1)
  else if t = DIPName then
    ({ d with keyParsers := d.keyParsers ++ [⟨index, 0, .dip⟩], minFields := bumpMin d.minFields index }, n + 1)
  else match newStringKeyParser t with
    | some k =>
      ({ d with keyParsers := d.keyParsers ++ [⟨index, 1, k⟩], minFields := bumpMin d.minFields index,
                hasTime := d.hasTime || decide (t = TimeName) }, n + 1)
    | none =>
      match newStringValParser t with
      | some k =>
        ({ d with valParsers := d.valParsers ++ [⟨index, k⟩], minFields := bumpMin d.minFields index }, n + 1)
      | none => acc

def schemaLoop : Nat → List String → Schema × Nat → Schema × Nat
  | _, [], acc => acc
  | i, f :: fs, acc => schemaLoop (i + 1) fs (schemaStep acc i f)

/-- stable insertion sort (`sort.SliceStable` is a library parameter; this is an instance) -/
def insertBy {α : Type} (lt : α → α → Bool) (x : α) : List α → List α
  | [] => [x]
  | y :: ys => if lt y x then y :: insertBy lt x ys else x :: y :: ys

def stableSort {α : Type} (lt : α → α → Bool) (l : List α) : List α := l.foldr (insertBy lt) []

/-- the `less` function given to `sort.SliceStable(def.keyParsers, …)` -/
def keyLess (a b : KeyParserItem) : Bool :=
  if a.priority = b.priority then decide (a.index < b.index) else decide (a.priority < b.priority)

def valLess (a b : ValParserItem) : Bool := decide (a.index < b.index)

def parseSchema (schema : String) : Except SchemaErr Schema :=
  let fields := schema.splitOn ","
  let (d, parseable) := schemaLoop 0 fields (⟨none, 0, false, [], []⟩, 0)
  if parseable = 0 then .error .nofields
  else if !d.hasTime then .error .notime
  else .ok { d with keyParsers := stableSort keyLess d.keyParsers, valParsers := stableSort valLess d.valParsers }

/-! ### parseRow -/

/-- `types.ExtendedKey`: the key fields plus the optional time extension -/
structure EKey where
  v4 : Bool
  sip : List Nat
  dip : List Nat
  dport : Nat
  proto : Nat
  time : Option Int
  deriving DecidableEq, Repr

/-- `types.NewEmptyV4Key().ExtendEmpty()` / `NewEmptyV6Key().ExtendEmpty()` -/
def baseKey (v4 : Bool) : EKey := ⟨v4, zeroIP v4, zeroIP v4, 0, 0, none⟩

inductive KErr where
  | mismatch        -- errRowIPVersionMismatch
  | other
  deriving DecidableEq, Repr

/-- `protocols.IPProtocolIDs` as regenerated from the source -/
def protoIDs : List (String × Nat) := IPProtocolIDs.map fun p => (p.1, p.2.toNat)

/-- `ParseKey` of the parser selected for a column kind -/
def parseKeyStep (k : Kind) (element : String) (key : EKey) : Except KErr EKey :=
  match k with
  | .sip =>      -- csvimport.sipStringParser
    match ipStringToBytes element with
    | none => .error .other
    | some (isV4, bytes) => if isV4 ≠ key.v4 then .error .mismatch else .ok { key with sip := bytes }
  | .dip =>      -- csvimport.dipStringParser
    match ipStringToBytes element with
    | none => .error .other
    | some (isV4, bytes) => if isV4 ≠ key.v4 then .error .mismatch else .ok { key with dip := bytes }
  | .dport =>    -- goDB.DportStringParser: ParseUint(element, 10, 16)
    match parseUint 16 element with
    | none => .error .other
    | some n => .ok { key with dport := n }
  | .proto =>    -- goDB.ProtoStringParser: ParseUint(element, 10, 8), else GetIPProtoID(ToLower(element)); num & 0xff
    match parseUint 8 element with
    | some n => .ok { key with proto := n % 256 }
    | none =>
      match protoIDs.lookup (toLower element) with
      | some n => .ok { key with proto := n % 256 }
      | none => .error .other
  | .time =>     -- goDB.TimeStringParser: ParseInt(element, 10, 64); Key.Extend(num) keeps no time for num ≤ 0
    match parseInt64 element with
    | none => .error .other
    | some n => .ok { key with time := if n ≤ 0 then none else some n }
  | _ => .ok key

def applyKeyParsers (row : List String) : List KeyParserItem → EKey → Except KErr EKey
  | [], key => .ok key
  | p :: ps, key =>
    match parseKeyStep p.kind (fieldAt row p.index) key with
    | .ok key' => applyKeyParsers row ps key'
    | .error e => .error e

/-- IPv4 attempt, IPv6 retry only after a version mismatch -/
def parseKey (row : List String) (parsers : List KeyParserItem) : Option EKey :=
  match applyKeyParsers row parsers (baseKey true) with
  | .ok key => some key
  | .error .other => none
  | .error .mismatch =>
    match applyKeyParsers row parsers (baseKey false) with
    | .ok key => some key
    | .error _ => none

/-- `ParseVal` of the parser selected for a counter column -/
def parseValStep (k : Kind) (element : String) (c : Counters) : Option Counters :=
  match parseUint 64 element with
  | none => none
  | some n =>
    match k with
    | .br => some { c with br := n }
    | .bs => some { c with bs := n }
    | .pr => some { c with pr := n }
    | .ps => some { c with ps := n }
    | _ => some c

def applyValParsers (row : List String) : List ValParserItem → Counters → Option Counters
  | [], c => some c
  | p :: ps, c =>
    match parseValStep p.kind (fieldAt row p.index) c with
    | some c' => applyValParsers row ps c'
    | none => none

def ifaceOK (iface : String) : Bool :=
  !(iface = "" || iface.toList.contains '/' || iface.toList.contains '\\' || iface = "." || iface = "..")

/-- the interface a row belongs to: the `iface` column if the schema has one, else the option -/
def rowIface (schema : Schema) (row : List String) (defaultIface : String) : String :=
  match schema.ifaceIndex with
  | some i => fieldAt row i
  | none => defaultIface

def parseRow (schema : Schema) (row : List String) (defaultIface : String) : Option (String × EKey × Counters) :=
  let iface := rowIface schema row defaultIface
  if !ifaceOK iface then none else
  match parseKey row schema.keyParsers with
  | none => none
  | some key =>
    match applyValParsers row schema.valParsers Counters.zero with
    | none => none
    | some c => some (iface, key, c)

/-- what one `reader.Read()` result amounts to for the loop of `Import` -/
def classify (schema : Schema) (defaultIface : String) : Rec → Ev
  | .bad => .bad
  | .fields row =>
    if row.length < schema.minFields then .skip
    else match parseRow schema row defaultIface with
      | none => .skip
      | some (iface, key, c) =>
        match key.time with          -- key.AttrTime()
        | none => .skip
        | some ts => .row ⟨iface, ts, ⟨key.v4, key.sip, key.dip, key.dport, key.proto⟩, c⟩

/-! ### Import -/

/-- `AggFlowMap.SetOrUpdate` on the flattened pending map -/
def setOrUpdate : List Row → Row → List Row
  | [], r => [r]
  | f :: fs, r =>
    if f.id = r.id then { f with c := ⟨f.c.br + r.c.br, f.c.bs + r.c.bs, f.c.pr + r.c.pr, f.c.ps + r.c.ps⟩ } :: fs
    else f :: setOrUpdate fs r

/-- `Map.Set` (the code before the fix): the later row replaces the counters -/
def setOverwrite : List Row → Row → List Row
  | [], r => [r]
  | f :: fs, r => if f.id = r.id then { f with c := r.c } :: fs else f :: setOverwrite fs r

structure St where
  read : Nat := 0
  imported : Nat := 0
  skipped : Nat := 0
  ifaces : Nat := 0
  blocks : Nat := 0
  pending : List Row := []
  db : List Row := []                    -- flows stored in the destination
  written : List (String × Int) := []    -- (iface, ts) of the blocks written, in order
  cur : Int := 0
  seen : Bool := false   -- haveTimestamp
  deriving Repr

inductive Status where
  | ok
  | err (cls : String)
  deriving DecidableEq, Repr

def dayOf (ts : Int) : Int := ts / 86400

/-- `GPDir.WriteBlocks` accepts a block unless the same interface's day directory already holds a
    block that is not older -/
def storageAccepts (written : List (String × Int)) (id : String × Int) : Bool :=
  written.all fun w => w.1 ≠ id.1 || dayOf w.2 ≠ dayOf id.2 || decide (w.2 < id.2)

def blockId (r : Row) : String × Int := (r.iface, r.ts)

/-- write the pending flows `out` (per interface in ascending time, one block per (iface, ts)) -/
def writeBlocks (st : St) (out keep : List Row) : Option St :=
  let ids := (out.map blockId).eraseDups
  if ids.all (storageAccepts st.written) then
    some { st with pending := keep, db := st.db ++ out, written := st.written ++ ids, blocks := st.blocks + ids.length }
  else none

def flushBeforeTimestamp (cutoff : Int) (st : St) : Option St :=
  writeBlocks st (st.pending.filter fun f => decide (f.ts < cutoff)) (st.pending.filter fun f => !decide (f.ts < cutoff))

def flushAll (st : St) : Option St := writeBlocks st st.pending st.pending

/-- after the loop: `flushAll`, `summary.Interfaces = len(writers)` -/
def finish (st : St) : St × Status :=
  match flushAll st with
  | none => (st, .err "write")
  | some st' => ({ st' with ifaces := (st'.written.map (·.1)).eraseDups.length }, .ok)

/-- the read loop; `store` is the pending-map update (`setOrUpdate` in the fixed code) -/
def loop (store : List Row → Row → List Row) (maxRows : Nat) : List Ev → St → St × Status
  | [], st => finish st
  | e :: es, st =>
    if maxRows ≠ 0 ∧ maxRows ≤ st.read then finish st       -- `for opts.MaxRows == 0 || summary.RowsRead < opts.MaxRows`
    else match e with
    | .bad => (st, .err "csv")
    | .skip => loop store maxRows es { st with read := st.read + 1, skipped := st.skipped + 1 }
    | .row r =>
      let st := { st with read := st.read + 1 }
      if st.seen ∧ r.ts < st.cur then (st, .err "regression")
      else
        match (if st.seen ∧ r.ts > st.cur then flushBeforeTimestamp r.ts st else some st) with
        | none => (st, .err "write")
        | some st =>
          loop store maxRows es { st with seen := true, cur := r.ts, pending := store st.pending r, imported := st.imported + 1 }

structure Result where
  st : St
  status : Status

/-- `initCSVReader` + the checks of `Import` before the loop -/
def setup (c : Case) : Except String (Schema × String × List Rec) :=
  if c.maxRows < 0 then .error "maxrows" else
  let withSchema (s : String) (data : List Rec) : Except String (Schema × String × List Rec) :=
    match parseSchema s with
    | .error e => .error (schemaErrClass e)
    | .ok sch =>
      if sch.ifaceIndex.isNone && trimSpace c.iface = "" then .error "noiface"
      else .ok (sch, trimSpace c.iface, data)
  if trimSpace c.schema ≠ "" then withSchema c.schema c.recs
  else match c.recs with
    | [] => .error "empty"
    | .bad :: _ => .error "csv-header"
    | .fields h :: data => withSchema (",".intercalate h) data

def importWith (store : List Row → Row → List Row) (c : Case) : Result :=
  match setup c with
  | .error cls => ⟨{}, .err cls⟩
  | .ok (sch, defIface, data) =>
    let (st, s) := loop store c.maxRows.toNat (data.map (classify sch defIface)) {}
    ⟨st, s⟩

/-- **the model of `csvimport.Import`** into an empty destination -/
def importCSV (c : Case) : Result := importWith setOrUpdate c

def showStatus : Status → String
  | .ok => "ok"
  | .err c => "err:" ++ c

def showResult (r : Result) : String :=
  showStatus r.status ++ "|read=" ++ toString r.st.read ++ "|imp=" ++ toString r.st.imported ++
    "|skip=" ++ toString r.st.skipped ++ "|ifaces=" ++ toString r.st.ifaces ++ "|blocks=" ++ toString r.st.blocks ++
    "|db=" ++ renderDB r.st.db

end Model

def handle (args : List String) : String :=
  match parseCase args with
  | none => "bad-op"
  | some c => Model.showResult (Model.importCSV c)

end C26
