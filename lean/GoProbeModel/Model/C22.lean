import GoProbeModel.Spec.C22
import GoProbeModel.Gen.Classify

/-!
C22 — model: the key under which `addToFlowLogV4/V6` (pkg/capture/capture.go) inserts a flow for
a first packet: the packet's hash, or its `Reverse()` when the *generated* classifier says
`DirectionReverts` (= 2).
-/
namespace C22
open Gen.Classify

def storeKeyV4 (h : Nat → Nat) (aux : Nat) : Nat → Nat :=
  if ClassifyPacketDirectionV4 h aux = 2 then EPHashV4_Reverse h else h

def storeKeyV6 (h : Nat → Nat) (aux : Nat) : Nat → Nat :=
  if ClassifyPacketDirectionV6 h aux = 2 then EPHashV6_Reverse h else h

def ofList (bs : List Nat) : Nat → Nat := fun i => bs.getD i 0
def toList (n : Nat) (f : Nat → Nat) : List Nat := (List.range n).map f

/-- wire: `v4|v6 <hash hex> <aux> <aux of mirrored packet>` -> `<stored key> <stored key of mirror>` -/
def handle : List String → String
  | [fam, h, aux, auxm] =>
    match Wire.hexToBytes h, Wire.parseNat aux, Wire.parseNat auxm with
    | some bs, some aux, some auxm =>
      if fam == "v4" then
        let f := ofList bs
        Wire.bytesToHex (toList 13 (storeKeyV4 f aux)) ++ " " ++
        Wire.bytesToHex (toList 13 (storeKeyV4 (EPHashV4_Reverse f) auxm))
      else
        let f := ofList bs
        Wire.bytesToHex (toList 37 (storeKeyV6 f aux)) ++ " " ++
        Wire.bytesToHex (toList 37 (storeKeyV6 (EPHashV6_Reverse f) auxm))
    | _, _, _ => "bad-args"
  | _ => "bad-op"

end C22
