import GoProbeModel.Spec.C15
import GoProbeModel.Gen.TimeBin
import GoProbeModel.Gen.Distributed
import GoProbeModel.Gen.Facts
import GoProbeModel.Model.C15Querier

/-!
C15 — hand-written model of the code AS WRITTEN (after the three `fix:` commits):
`aggregateResults` / `aggregateSingleResult` / `finalizeResult` (cmd/global-query/pkg/distributed/query.go),
`Result.End`, `RowsMap.MergeRows`, `HostsStatuses.SetErr` (pkg/results/result.go),
`Statement.PostProcess` (pkg/query/query.go), `TimeBinner.BinTime` (pkg/results/time_bin.go), the
comparators of `results.By` (pkg/results/sort.go) restricted to the key fields the harness varies.

Regenerated from the source on every run and used here: `Gen.Distributed.maxLimitStreaming`,
`Gen.TimeBin.BinTimestamp`, `Gen.TimeBin.DefaultTimeResolution`, and the field-wise `+=` programs
of `workload.Stats.Add` / `types.Counters.Add` (`Gen.Facts.c15_*_add_{lhs,rhs}`) which are
*interpreted* by `statsAdd` / `ctrAdd`.

The querier's fan-out in front of the aggregation (`APIClientQuerier.Query`, cases `fan` / `run`) is
the transition system of `Model/C15Querier.lean` (runner count regenerated: `Gen.Querier.numRunners`);
`handle` runs its concrete scheduler `Fan.arrival` to obtain one arrival order of the hosts' replies.

Go maps are association lists in insertion order; whatever the code reads out of a map is sorted
by the code itself (`ToRowsSortedTo`, `sort.Strings`) or by `observe` (host statuses, which stay a
map in the result). `sort.Sort` is modelled by insertion sort `insSort` (any correct sort gives the same
list: the comparators are strict total orders on rows with distinct keys — proved in Props).
-/
namespace C15

/-! ### Go maps -/

def alGet {κ ν} [DecidableEq κ] : List (κ × ν) → κ → Option ν
  | [], _ => none
  | (k', v) :: rest, k => if k' = k then some v else alGet rest k

/-- `m[k] = f(m[k])` -/
def alUpsert {κ ν} [DecidableEq κ] : List (κ × ν) → κ → (Option ν → ν) → List (κ × ν)
  | [], k, f => [(k, f none)]
  | (k', v) :: rest, k, f =>
    if k' = k then (k', f (some v)) :: rest else (k', v) :: alUpsert rest k f

/-! ### `Counters.Add`, `Stats.Add`: interpreters of the extracted `recv.X += arg.Y` programs -/

def ctrGet (c : Ctr) : String → Nat
  | "BytesRcvd" => c.br
  | "BytesSent" => c.bs
  | "PacketsRcvd" => c.pr
  | "PacketsSent" => c.ps
  | _ => 0

def ctrSet (c : Ctr) (f : String) (v : Nat) : Ctr :=
  match f with
  | "BytesRcvd" => { c with br := v }
  | "BytesSent" => { c with bs := v }
  | "PacketsRcvd" => { c with pr := v }
  | "PacketsSent" => { c with ps := v }
  | _ => c

def ctrAddProg (prog : List (String × String)) (c c2 : Ctr) : Ctr :=
  prog.foldl (fun acc p => ctrSet acc p.1 (ctrGet acc p.1 + ctrGet c2 p.2)) c

/-- `(*Counters).Add` as the source spells it now -/
def ctrAdd (c c2 : Ctr) : Ctr :=
  ctrAddProg (Gen.Facts.c15_counters_add_lhs.zip Gen.Facts.c15_counters_add_rhs) c c2

def statsGet (s : Stats) : String → Nat
  | "BytesLoaded" => s.bl
  | "BytesDecompressed" => s.bd
  | "BlocksProcessed" => s.bp
  | "BlocksCorrupted" => s.bc
  | "DirectoriesProcessed" => s.dp
  | "Workloads" => s.wl
  | _ => 0

def statsSet (s : Stats) (f : String) (v : Nat) : Stats :=
  match f with
  | "BytesLoaded" => { s with bl := v }
  | "BytesDecompressed" => { s with bd := v }
  | "BlocksProcessed" => { s with bp := v }
  | "BlocksCorrupted" => { s with bc := v }
  | "DirectoriesProcessed" => { s with dp := v }
  | "Workloads" => { s with wl := v }
  | _ => s

def statsAddProg (prog : List (String × String)) (s s2 : Stats) : Stats :=
  prog.foldl (fun acc p => statsSet acc p.1 (statsGet acc p.1 + statsGet s2 p.2)) s

/-- `(*Stats).Add` as the source spells it now (the `nil` guard is in `aggregateSingle`) -/
def statsAdd (s s2 : Stats) : Stats :=
  statsAddProg (Gen.Facts.c15_stats_add_lhs.zip Gen.Facts.c15_stats_add_rhs) s s2

/-! ### `RowsMap.MergeRow(s)` -/

def mergeVal (c : Ctr) : Option Ctr → Ctr
  | some old => ctrAdd old c
  | none => c

/-- returns the new map and whether the row met an existing entry -/
def mergeRow (m : List Row) (r : Row) : List Row × Bool :=
  (alUpsert m r.1 (mergeVal r.2), (alGet m r.1).isSome)

def mergeRows (m : List Row) (rows : List Row) : List Row × Nat :=
  rows.foldl (fun acc r => let x := mergeRow acc.1 r; (x.1, if x.2 then acc.2 + 1 else acc.2)) (m, 0)

/-! ### comparators (`results.By`, `Row.Less`, `Labels.Less`, `Attributes.Less`) -/

/-- `a.Before(b)`; Go's zero time precedes every instant the harness produces -/
def tsBefore : Option Int → Option Int → Bool
  | none, none => false
  | none, some _ => true
  | some _, none => false
  | some x, some y => x < y

/-- `Row.Less`: attributes (dport) first; equal attributes: labels (timestamp, then interface) -/
def rowLess (a b : Row) : Bool :=
  if a.1.dport = b.1.dport then
    if a.1.ts ≠ b.1.ts then tsBefore a.1.ts b.1.ts else a.1.iface < b.1.iface
  else a.1.dport < b.1.dport

def sortVal (cfg : Cfg) (r : Row) : Nat :=
  match cfg.sortBy, cfg.dir with
  | .packets, .inn => r.2.pr
  | .packets, .out => r.2.ps
  | .packets, _ => r.2.ps + r.2.pr
  | _, .inn => r.2.br
  | _, .out => r.2.bs
  | _, _ => r.2.bs + r.2.br

/-- the closure returned by `results.By(sortBy, direction, ascending)` -/
def byLess (cfg : Cfg) (e1 e2 : Row) : Bool :=
  match cfg.sortBy with
  | .time =>
    if cfg.asc then
      if e1.1.ts = e2.1.ts then rowLess e1 e2 else tsBefore e1.1.ts e2.1.ts
    else
      if e1.1.ts = e2.1.ts then rowLess e2 e1 else tsBefore e2.1.ts e1.1.ts
  | _ =>
    if cfg.asc then
      if sortVal cfg e1 = sortVal cfg e2 then rowLess e1 e2 else sortVal cfg e1 < sortVal cfg e2
    else
      if sortVal cfg e1 = sortVal cfg e2 then rowLess e2 e1 else sortVal cfg e1 > sortVal cfg e2

/-- `by.Sort`: the unique arrangement in which no later row is `less` than an earlier one -/
def sortRows (cfg : Cfg) (rows : List Row) : List Row :=
  insSort (fun a b => !byLess cfg b a) rows

/-! ### state -/

structure St where
  rowMap : List Row
  ifaceMap : List Nat
  res : Result          -- `finalResult`; `hosts` is the Go map `HostsStatuses` in insertion order

/-- `results.New()` + `Start()` -/
def init : St :=
  { rowMap := [], ifaceMap := [],
    res := { status := ("ok", "-"), hosts := [], ifaces := [], first := none, last := none,
             totals := Ctr.zero, stats := Stats.zero, hitsTotal := 0, displayed := 0, rows := [] } }

/-! ### `Result.End`, `BinTime`, `PostProcess`, `finalizeResult` -/

/-- `Result.End()`. `Summary.DataAvailable` is never set on the aggregated result, so an empty
    result always ends as "missing data". -/
def resultEnd (res : Result) : Result :=
  { res with
    displayed := res.rows.length
    ifaces := insSort natLe res.ifaces
    status := if res.rows.length ≠ 0 then res.status else ("missing", "nodata") }

def binRow (binNs : Int) (r : Row) : Row :=
  ({ r.1 with ts := r.1.ts.map fun t => Gen.TimeBin.BinTimestamp t binNs }, r.2)

/-- `(*TimeBinner).BinTime` -/
def binTime (binNs : Int) (res : Result) : Result :=
  if res.rows.length = 0 then res else
  let rowsMap := (res.rows.map (binRow binNs)).foldl (fun m r => (mergeRow m r).1) []
  let rows := sortRows { sortBy := .time, dir := .sum, asc := true, limit := 0, tsLabel := false, binSecs := 0 } rowsMap
  { res with rows := rows, hitsTotal := rows.length, displayed := rows.length }

def binNs (cfg : Cfg) : Int := cfg.binSecs * 1000000000

/-- the condition under which `PostProcess` bins -/
def binOn (cfg : Cfg) : Bool := cfg.tsLabel && binNs cfg != Gen.TimeBin.DefaultTimeResolution

/-- `if s.NumResults != 0 && s.NumResults < len(rows) { rows = rows[:s.NumResults] }` -/
def pruneRows (limit : Nat) (rows : List Row) : List Row :=
  if limit ≠ 0 ∧ limit < rows.length then rows.take limit else rows

/-- `if limit < len(rows) { rows = rows[:limit] }` -/
def capRows (limit : Nat) (rows : List Row) : List Row :=
  if limit < rows.length then rows.take limit else rows

/-- `(*Statement).PostProcess` -/
def postProcess (cfg : Cfg) (res : Result) : Result :=
  let res := if binOn cfg then binTime (binNs cfg) res else res
  { res with rows := pruneRows cfg.limit res.rows, displayed := (pruneRows cfg.limit res.rows).length }

/-- `finalizeResult(ctx, res, stmt, rowMap, limitUpperBound)` -/
def finalize (cfg : Cfg) (bound : Nat) (s : St) : St :=
  let res := { s.res with status := ("ok", "-") }
  if s.rowMap.length = 0 then { s with res := resultEnd res } else
  let res := postProcess cfg { res with rows := sortRows cfg s.rowMap }
  { s with res := resultEnd { res with rows := capRows (min cfg.limit bound) res.rows } }

/-! ### `aggregateSingleResult`, `aggregateResults` -/

def setHost (m : List (Nat × HStatus)) (e : Nat × HStatus) : List (Nat × HStatus) :=
  alUpsert m e.1 fun _ => e.2

def addIface (m : List Nat) (i : Nat) : List Nat := if i ∈ m then m else m ++ [i]

def stepFirst (cur f : Option Int) : Option Int :=
  if f ≠ none ∧ (cur = none ∨ tsBefore f cur) then f else cur

def stepLast (cur la : Option Int) : Option Int :=
  if tsBefore cur la then la else cur

/-- one reply; in streaming mode also the partial result handed to the sender -/
def aggregateSingle (cfg : Cfg) (streaming : Bool) (s : St) (r : Reply) : St × Option Result :=
  match r with
  | .err h msg _ =>
    -- `SetErr(qr.Hostname, errors.Unwrap(err) or err)`; nothing else, no partial result
    ({ s with res := { s.res with hosts := setHost s.res.hosts (h, ("error", msg)) } }, none)
  | .ok _ sts ifs f la tot st hits rows =>
    let hosts := sts.foldl setHost s.res.hosts                       -- maps.Copy
    let mr := mergeRows s.rowMap rows
    let ifaceMap := ifs.foldl addIface s.ifaceMap
    let res := { s.res with
      hosts := hosts
      ifaces := ifaceMap
      first := stepFirst s.res.first f
      last := stepLast s.res.last la
      totals := ctrAdd s.res.totals tot
      stats := match st with | some st => statsAdd s.res.stats st | none => s.res.stats
      hitsTotal := s.res.hitsTotal + (hits - (mr.2 : Int)) }
    let s' : St := { rowMap := mr.1, ifaceMap := ifaceMap, res := res }
    if streaming then
      let s'' := finalize cfg Gen.Distributed.maxLimitStreaming s'
      (s'', some s''.res)
    else (s', none)

/-- what the caller sees of `finalResult`: the host-status map read out in host order -/
def observe (res : Result) : Result := { res with hosts := insSort hostLe res.hosts }

def foldBatch (cfg : Cfg) (l : List Reply) : St :=
  l.foldl (fun s r => (aggregateSingle cfg false s r).1) init

/-- `aggregateResults(ctx, stmt, ch, nil)` with the replies arriving in the order of `l` -/
def runBatch (cfg : Cfg) (l : List Reply) : Result :=
  observe (finalize cfg cfg.limit (foldBatch cfg l)).res

def streamStep (cfg : Cfg) (acc : St × List Result) (r : Reply) : St × List Result :=
  let x := aggregateSingle cfg true acc.1 r
  (x.1, match x.2 with | some p => acc.2 ++ [p] | none => acc.2)

def foldStream (cfg : Cfg) (l : List Reply) : St × List Result :=
  l.foldl (streamStep cfg) (init, [])

/-- `aggregateResults(ctx, stmt, ch, send)`: final result and the partial results sent -/
def runStream (cfg : Cfg) (l : List Reply) : Result × List Result :=
  let x := foldStream cfg l
  (observe (finalize cfg cfg.limit x.1).res, x.2)

/-! ### wire -/

def showPartial (p : Result) : String :=
  toString p.rows.length ++ ":" ++ toString p.hitsTotal ++ ":" ++ toString p.displayed ++ ":" ++ p.status.1

def handlePerms (cfg : Cfg) (l : List Reply) (perms : List (List Nat)) : String :=
  let outs := perms.map fun p =>
    let a := arrange l p
    let st := runStream cfg a
    (showResult (runBatch cfg a), showResult st.1, Wire.showList (st.2.map showPartial))
  match outs with
  | [] => "-"
  | (b0, _, _) :: _ =>
    "|".intercalate <| (List.range outs.length).zip outs |>.map fun (i, b, s, p) =>
      "B" ++ (if i ≠ 0 ∧ b == b0 then "=" else b) ++ "#S" ++ (if s == b then "=" else s) ++ "#P" ++ p

/-! ### the querier in front of the aggregation (`fan`, `run`) -/

/-- `default`: `apiclient.New` sets `2 * runtime.NumCPU()` (pinned by the fact
    `c15_querier_default_mc`), a machine-dependent value ≥ 2; the model runs with 2 — by
    `Fan.arrival_perm` / `distributed_result_determined` the observable output is the same for
    every value -/
def mcValue : Option Int → Int
  | some v => v
  | none => 2

/-- `Query(ctx, hosts, args)` drained by a consumer: `closed;<sorted entries>` -/
def handleFan (mc : Option Int) (l : List Reply) : String :=
  let s := Fan.runSched l (mcValue mc)
  (if s.closed && s.buf.isEmpty then "closed;" else "hang;") ++
    Wire.showList (insSort strLe (s.recvd.map fanEntry))

def replyHostLe (a b : Reply) : Bool := decide (a.host ≤ b.host)

/-- `QueryRunner.Run`: the string resolver sorts the host names (`h00` < `h01` < …: the order of
    the ids), `Args.Prepare` builds the statement — without a time label it never takes over
    `Args.SortAscending`, the order is descending —, `Query` fans out, `aggregateResults` merges
    what arrives -/
def handleRun (mc : Option Int) (cfg : Cfg) (l : List Reply) : String :=
  if ¬ (l.map Reply.host).Nodup then "bad-args" else
  if l.isEmpty then "err:no-hosts" else      -- `run` refuses an empty `QueryHosts` before anything else
  let hosts := insSort replyHostLe l
  showResult (runBatch { cfg with asc := false } (Fan.arrival hosts (mcValue mc)))

def handle : List String → String
  | ["fan", mc, replies] =>
    match parseMc mc, parseReplies replies with
    | some mc, some l => handleFan mc l
    | _, _ => "bad-args"
  | ["run", mc, cfg, replies] =>
    match parseMc mc, parseCfg cfg, parseReplies replies with
    | some mc, some cfg, some l => handleRun mc cfg l
    | _, _, _ => "bad-args"
  | ["agg", cfg, replies, perms] =>
    match parseCfg cfg, parseReplies replies, parsePerms perms with
    | some cfg, some l, some perms => handlePerms cfg l perms
    | _, _, _ => "bad-args"
  | _ => "bad-op"

end C15
