import GoProbeModel.Spec.C05
import GoProbeModel.Model.C04

/-!
C05 — model: write-out `k` whose `n`-th file operation fails. The operations before it take
effect, the failing one does not, and the writer follows its error path as written:
`WriteBlocks`/`Open` errors return from `DBWriter.Write` at once (no `Close`); errors inside
`writeMetadataAtomic` after the temporary file exists remove that file (deferred `os.Remove`);
an error of the directory rename is returned although the metadata is already in place.
-/
namespace C05
open DB WO C04

/-- operations of the error path after operation `op` failed -/
def errorPath : Op → List String
  | .writetmp => ["unlink:ok"]
  | .chmod => ["unlink:ok"]
  | .renamemeta => ["unlink:ok"]
  | .renamedir => ["unlink:ENOENT", "unlink:ENOENT"]
  | _ => []

def renderFailed (op : Op) (errno : String) : String :=
  let s := op.render
  -- drop the result field and mark the failure
  let parts := s.splitOn ":"
  let base := match op with
    | .mkdir _ => s
    | _ => ":".intercalate (parts.take (parts.length - 1))
  base ++ "!" ++ errno

/-- state after write-out `k` ran with its `n`-th operation failing -/
def runFault (hist : List WriteOut) (fs : Fs) (k n : Nat) : Fs :=
  match (program hist fs k)[n]? with
  | none => runWriteOut hist fs k 1000
  | some _ => runWriteOut hist fs k n   -- (the error path only removes the temporary file again)

def runHistoryF (hist : List WriteOut) (k n : Nat) (upto : Nat) : Fs :=
  (List.range upto).foldl (fun fs i => if i = k then runFault hist fs i n else runWriteOut hist fs i 1000) Fs.empty

/-- does the writer report an error? (a failing cleanup `unlink` is ignored by the code) -/
def reportsError (op : Op) : Bool := match op with | .unlink => false | _ => true

def handle : List String → String
  | [h, c, errno] =>
    match parseHistory h, parseCrash c with
    | some hist, some (some (k, n)) =>
      let pre := runHistoryF hist k n k
      let ops := program hist pre k
      let post := runFault hist pre k n
      let final := runHistoryF hist k n hist.length
      let (opsS, st) := match ops[n]? with
        | none => (ops.map Op.render, "ok")
        | some op => ((ops.take n).map Op.render ++ [renderFailed op errno] ++
                        (if reportsError op then errorPath op else (ops.drop (n + 1)).map Op.render),
                      if reportsError op then "err" else "ok")
      "ops=" ++ Wire.showList opsS ++ " st=" ++ st ++
      " q1=" ++ queryView hist post ++ " l1=" ++ listView hist post ++
      " q2=" ++ queryView hist final ++ " l2=" ++ listView hist final
    | _, _ => "bad-args"
  | _ => "bad-op"

end C05
