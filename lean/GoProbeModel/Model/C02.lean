import GoProbeModel.Spec.C02
import GoProbeModel.Model.C01
import GoProbeModel.Model.C07

/-!
C02 — model of "a database written by one build, read by another".

* the storage layer is C01's model (`C01.runSessions`, `C01.view`): the encoder output is an input
  of every write, the decoder a parameter of the reader, the encoder type is stored per block;
* the encoders are C07's models of the four build-tag selected wrappers; which wrapper a build
  configuration compiles is `Config.variant`, written from the `//go:build` lines of the four
  files (pinned by the `c02_build_*` facts):
    lz4_cgo.go     `cgo && !goprobe_noliblz4`      lz4_native.go  `!cgo || goprobe_noliblz4`
    zstd_cgo.go    `cgo && !goprobe_nolibzstd`     zstd_native.go `!cgo || goprobe_nolibzstd`
* the four third-party codecs are parameters (`Libs`).
-/
namespace C02

/-- a build configuration: CGO_ENABLED and the two opt-out tags -/
structure Config where
  cgo : Bool
  noLibLz4 : Bool
  noLibZstd : Bool
  deriving Repr, DecidableEq

def Config.ofName (s : String) : Option Config :=
  if s == "cgo" then some ⟨true, false, false⟩
  else if s == "nocgo" then some ⟨false, false, false⟩
  else if s == "noliblz4" then some ⟨true, true, false⟩
  else if s == "nolibzstd" then some ⟨true, false, true⟩
  else none

/-- encoder type of a directory as C01 numbers it: 0 = null, 1 = lz4, otherwise zstd -/
def Config.variant (c : Config) (encId : Nat) : C07.Variant :=
  match encId with
  | 0 => .null
  | 1 => if c.cgo && !c.noLibLz4 then .lz4Cgo else .lz4Native
  | _ => if c.cgo && !c.noLibZstd then .zstdCgo else .zstdNative

/-- the four third-party codecs: system liblz4 / libzstd and the pure-Go implementations -/
structure Libs where
  sysLz4 : C07.Lib
  goLz4 : C07.Lib
  sysZstd : C07.Lib
  goZstd : C07.Lib

/-- the null encoder uses no library (any value does) -/
def noLib : C07.Lib := ⟨fun n => n, fun _ x => x, some⟩

def Libs.of (L : Libs) : C07.Variant → C07.Lib
  | .null => noLib
  | .lz4Cgo => L.sysLz4
  | .lz4Native => L.goLz4
  | .zstdCgo => L.sysZstd
  | .zstdNative => L.goZstd

/-- the library a build uses for the blocks of a directory with default encoder `encId` -/
def libFor (c : Config) (L : Libs) (encId : Nat) : C07.Lib := L.of (c.variant encId)

/-- what the reader build's decoder makes of a stored block:
    the decoder a reader build uses for blocks of a database written with encoder `encId` (C01's reader
    picks the decoder by the type stored with the block; C02's databases use one encoder throughout) -/
def decFor (r : Config) (L : Libs) (encId : Nat) : Nat → C01.Bytes → Option C01.Bytes := fun _ => (libFor r L encId).dec

/-- one `WriteBlocks` call as performed by build `w`: eight columns, and every stored encoder
    output is what `w`'s Compress wrapper wrote for the raw bytes — with SOME scratch buffer (GPFile
    passes its own `blockData`, whose length, capacity and content depend on the history) -/
def WrittenBy (w : Config) (L : Libs) (encId lvl : Nat) (wr : C01.Write) : Prop :=
  wr.cols.length = 8 ∧
  ∀ p ∈ wr.cols, ∃ scratch : C07.Slice,
    C07.compress (w.variant encId) (libFor w L encId) lvl p.1 scratch .buffer = .ok ⟨p.2, p.2.length, none⟩

/-- `GPFile.ReadBlockAtIndex` for a block stored with a library encoder, as build `r` executes it:
    `blockData = blockData[:Len]`, `uncompData = uncompData[:RawLen]` (whatever these buffers held),
    seek to the block offset, `Decompress(blockData, uncompData, file)`, then `nRead != RawLen` is an
    error -/
def readStored (v : C07.Variant) (lib : C07.Lib) (file : C01.Bytes) (b : C01.Blk) (blockData uncompData : C01.Bytes) :
    Option C01.Bytes :=
  match C07.decompress v lib ⟨blockData, b.len⟩ ⟨uncompData, b.rawLen⟩ (file.drop b.off) with
  | .ok ⟨n, restored, none⟩ => if n = b.rawLen then some restored else none
  | _ => none

/-- wire: `<writer> <reader> <encoder> <level> <sessions>` → C01's canonical output (the encoder
    outputs of the case were produced by the writer build; the decoder table inverts them) -/
def handle : List String → String
  | [w, r, enc, lvl, sess] =>
    match Config.ofName w, Config.ofName r with
    | some _, some _ => C01.handle [enc, lvl, sess]
    | _, _ => "bad-config"
  | _ => "bad-op"

end C02
