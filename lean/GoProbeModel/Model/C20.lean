import GoProbeModel.Spec.C20
import GoProbeModel.Gen.Classify
import GoProbeModel.Gen.FlowLog

/-!
C20 — executable model of the code as written:

* `addTo` / `addV4` / `addV6` — `Capture.addToFlowLogV4/V6` (pkg/capture/capture.go): the lookup of
  the packet's hash and of its `Reverse()` in the order chosen by `IsProbablyReverse()`, the update
  of the flow found, otherwise the insertion under the orientation chosen by
  `ClassifyPacketDirectionV4/V6`. The classifiers, `Reverse`, `IsProbablyReverse` are the
  regenerated functions of `Gen/Classify.lean`; `NewFlow`, `Flow.UpdateFlow`, `Flow.Reset`,
  `Counters.Add` and the key layout constants are those of `Gen/FlowLog.lean`.
* `rotStep` / `rotate` — `FlowLog.transferAndAggregate` (pkg/capture/flow.go): one pass over each of
  the two maps; a flow with packets is added to the totals, converted to its DB key in the *reused*
  key buffer (`PutV4String` / `PutV6String`, pkg/types/keyval.go), merged into the aggregate map
  with `SetOrUpdate` and reset; a flow without packets is deleted.
* `aggregate` — `FlowLog.Aggregate` (the live view; nothing is reset or deleted).
* a block of the database is the rotated map, sorted (`dbData` flattens and sorts the two maps; the
  storage below is property C01/C03's subject and is validated end-to-end by the harness).

The flow maps are association lists; Go's map iteration order is arbitrary, every output is sorted.
-/
namespace C20
open Gen.Classify Gen.FlowLog

abbrev Key := List Nat
abbrev FMap := List (Key × Flow)

def ofList (bs : List Nat) : Nat → Nat := fun i => bs.getD i 0
def toList (n : Nat) (f : Nat → Nat) : List Nat := (List.range n).map f

/-- `EPHashV4.Reverse()` on byte lists -/
def revV4 (h : Key) : Key := toList EPHashSizeV4 (EPHashV4_Reverse (ofList h))
/-- `EPHashV6.Reverse()` on byte lists -/
def revV6 (h : Key) : Key := toList EPHashSizeV6 (EPHashV6_Reverse (ofList h))

/-! ## the flow map -/

def has (m : FMap) (k : Key) : Bool := m.any fun e => e.1 == k

/-- `flowToUpdate.UpdateFlow(pktType, pktSize)` on the flow stored under `k` -/
def upd (m : FMap) (k : Key) (pt sz : Nat) : FMap :=
  m.map fun e => if e.1 = k then (e.1, Flow_UpdateFlow e.2 pt sz) else e

/-- `flowMap[k] = NewFlow(...)` for a key that is not in the map -/
def ins (m : FMap) (k : Key) (f : Flow) : FMap := (k, f) :: m

/-- `addToFlowLogV4/V6`: `probRev` = `epHash.IsProbablyReverse()`, `hr` = `epHash.Reverse()`,
    `reverts` = the classifier says `DirectionReverts` -/
def addTo (probRev : Bool) (hr : Key) (reverts : Bool) (m : FMap) (h : Key) (pt sz : Nat) : FMap :=
  if probRev then
    if has m hr then upd m hr pt sz
    else if has m h then upd m h pt sz
    else if reverts then ins m hr (NewFlow pt sz)
    else ins m h (NewFlow pt sz)
  else
    if has m h then upd m h pt sz
    else if has m hr then upd m hr pt sz
    else if reverts then ins m hr (NewFlow pt sz)
    else ins m h (NewFlow pt sz)

def addV4 (m : FMap) (p : Pkt) : FMap :=
  addTo (EPHashV4_IsProbablyReverse (ofList p.h)) (revV4 p.h)
    (decide (ClassifyPacketDirectionV4 (ofList p.h) p.aux = DirectionReverts)) m p.h p.ptype p.size

def addV6 (m : FMap) (p : Pkt) : FMap :=
  addTo (EPHashV6_IsProbablyReverse (ofList p.h)) (revV6 p.h)
    (decide (ClassifyPacketDirectionV6 (ofList p.h) p.aux = DirectionReverts)) m p.h p.ptype p.size

structure St where
  v4 : FMap
  v6 : FMap
  deriving Repr, DecidableEq

def St.init : St := ⟨[], []⟩

/-- the dispatch on the IP version in the capture loop -/
def addPkt (st : St) (p : Pkt) : St :=
  if p.v6 then { st with v6 := addV6 st.v6 p } else { st with v4 := addV4 st.v4 p }

/-! ## DB keys -/

def slice (s : List Nat) (lo hi : Nat) : List Nat := (s.drop lo).take (hi - lo)

/-- Go `copy(dst[lo:hi], src)`: the first `min (hi-lo) (len src)` bytes of `src` land at `lo` -/
def copyInto (dst : List Nat) (lo hi : Nat) (src : List Nat) : List Nat :=
  let n := min (hi - lo) src.length
  dst.take lo ++ src.take n ++ dst.drop (lo + n)

/-- `Key.PutV4String` -/
def putV4 (k : Key) (h : Key) : Key :=
  let k := copyInto k sipPos (sipPos + IPv4Width.toNat) (slice h 0 4)
  copyInto k dipPosIPv4.toNat (dipPosIPv4.toNat + dipDportProtoIPv4Width.toNat) (slice h 6 13)

/-- `Key.PutV6String` -/
def putV6 (k : Key) (h : Key) : Key :=
  let k := copyInto k sipPos (sipPos + IPv6Width.toNat) (slice h 0 16)
  copyInto k dipPosIPv6.toNat (dipPosIPv6.toNat + dipDportProtoIPv6Width.toNat) (slice h 18 37)

def emptyV4Key : Key := List.replicate KeyWidthIPv4.toNat 0
def emptyV6Key : Key := List.replicate KeyWidthIPv6.toNat 0

/-! ## rotation -/

abbrev Agg := List (Key × Counters)

/-- `hashmap.Map.SetOrUpdate` (the key is copied on insertion) -/
def setOrUpdate (agg : Agg) (k : Key) (a b c d : Nat) : Agg :=
  if agg.any (fun e => e.1 == k) then
    agg.map fun e => if e.1 = k then (e.1, Counters_Add e.2 ⟨a, b, c, d⟩) else e
  else agg ++ [(k, ⟨a, b, c, d⟩)]

def toCounters (f : Flow) : Counters := ⟨f.BytesRcvd, f.BytesSent, f.PacketsRcvd, f.PacketsSent⟩

structure RotSt where
  buf : Key          -- the reusable key conversion buffer
  agg : Agg
  totals : Counters
  kept : FMap        -- the flows that stay in the map (reset)

/-- one iteration of the loop of `transferAndAggregate` -/
def rotStep (put : Key → Key → Key) (s : RotSt) (e : Key × Flow) : RotSt :=
  if decide (e.2.PacketsRcvd > 0) || decide (e.2.PacketsSent > 0) then
    let buf := put s.buf e.1
    { buf := buf
      totals := Counters_Add s.totals (toCounters e.2)
      agg := setOrUpdate s.agg buf e.2.BytesRcvd e.2.BytesSent e.2.PacketsRcvd e.2.PacketsSent
      kept := s.kept ++ [(e.1, Flow_Reset e.2)] }
  else s

structure Block where
  agg4 : Agg
  agg6 : Agg
  totals : Counters

/-- `FlowLog.Rotate` = `transferAndAggregate` -/
def rotate (st : St) : Block × St :=
  let s4 := st.v4.foldl (rotStep putV4) { buf := emptyV4Key, agg := [], totals := ⟨0, 0, 0, 0⟩, kept := [] }
  let s6 := st.v6.foldl (rotStep putV6) { buf := emptyV6Key, agg := [], totals := s4.totals, kept := [] }
  ({ agg4 := s4.agg, agg6 := s6.agg, totals := s6.totals }, { v4 := s4.kept, v6 := s6.kept })

/-- one iteration of the loops of `FlowLog.Aggregate` -/
def aggStep (put : Key → Key → Key) (s : Key × Agg) (e : Key × Flow) : Key × Agg :=
  if decide (e.2.PacketsRcvd ≠ 0) || decide (e.2.PacketsSent ≠ 0) then
    let buf := put s.1 e.1
    (buf, setOrUpdate s.2 buf e.2.BytesRcvd e.2.BytesSent e.2.PacketsRcvd e.2.PacketsSent)
  else s

/-- `FlowLog.Aggregate` (primary and secondary map) -/
def aggregate (st : St) : Agg × Agg :=
  ((st.v4.foldl (aggStep putV4) (emptyV4Key, [])).2, (st.v6.foldl (aggStep putV6) (emptyV6Key, [])).2)

/-! ## runs -/

/-- the flow log driven by packets and rotations: the blocks emitted and the final state -/
def run : St → List Op → List Block × St
  | st, [] => ([], st)
  | st, .pkt p :: ops => run (addPkt st p) ops
  | st, .rot :: ops =>
    let r := rotate st
    let rest := run r.2 ops
    (r.1 :: rest.1, rest.2)

/-! ## observation (exactly what harness/c20.go prints) -/

def cntOfFlow (f : Flow) : Cnt := ⟨f.BytesRcvd, f.BytesSent, f.PacketsRcvd, f.PacketsSent⟩
def cntOfCounters (c : Counters) : Cnt := ⟨c.BytesRcvd, c.BytesSent, c.PacketsRcvd, c.PacketsSent⟩

def logRecs (st : St) : List Rec := (st.v4 ++ st.v6).map fun e => (e.1, cntOfFlow e.2)
def aggRecs (a4 a6 : Agg) : List Rec := (a4 ++ a6).map fun e => (e.1, cntOfCounters e.2)
def Block.recs (b : Block) : List Rec := aggRecs b.agg4 b.agg6

def digestMod : Nat := 2147483647
def mix (d x : Nat) : Nat := (d * 1000003 + x % digestMod) % digestMod

def entryDigest (e : Key × Flow) : Nat :=
  mix (mix (mix (mix (e.1.foldl mix 7) e.2.BytesRcvd) e.2.BytesSent) e.2.PacketsRcvd) e.2.PacketsSent

/-- order-independent digest of the flow log -/
def stateDigest (st : St) : Nat :=
  ((st.v4 ++ st.v6).foldl (fun acc e => acc + entryDigest e) 0) % digestMod

structure Acc where
  st : St
  chain : Nat
  pre : List (List Rec)
  blocks : List Block
  live : List Bool

/-- the driver's step: `run` plus the observations (digest chain after every operation, the log
    before a rotation, whether `Aggregate` agrees with what the rotation emits) -/
def stepD (a : Acc) : Op → Acc
  | .pkt p =>
    let st := addPkt a.st p
    { a with st := st, chain := mix a.chain (stateDigest st) }
  | .rot =>
    let lv := aggregate a.st
    let r := rotate a.st
    { st := r.2, chain := mix a.chain (stateDigest r.2), pre := a.pre ++ [logRecs a.st],
      blocks := a.blocks ++ [r.1],
      live := a.live ++ [sortRecs (aggRecs lv.1 lv.2) == sortRecs r.1.recs] }

def render (a : Acc) : String :=
  "chain=" ++ toString a.chain ++
  " live=" ++ renderTerm (a.live.map Wire.boolStr) ++
  " pre=" ++ renderTerm (a.pre.map renderRecs) ++
  " agg=" ++ renderTerm (a.blocks.map fun b => renderRecs b.recs) ++
  " tot=" ++ renderTerm (a.blocks.map fun b => (cntOfCounters b.totals).render) ++
  " mem=" ++ renderRecs (logRecs a.st) ++
  " db=" ++ renderDB (a.blocks.map (·.recs))

/-- wire: `<op>,<op>,…` with `R` = rotation and `4|6:<hash hex>:<ptype>:<size>:<aux>` = packet -/
def handle : List String → String
  | [ops] =>
    match parseOps ops with
    | some ops => render (ops.foldl stepD { st := St.init, chain := 1, pre := [], blocks := [], live := [] })
    | none => "bad-args"
  | _ => "bad-op"

end C20
