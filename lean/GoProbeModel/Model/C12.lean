import GoProbeModel.Spec.C12
import GoProbeModel.Gen.ListMeta

/-!
C12 — executable model **of the code as written** (after the `fix:` commit) of

* `DBWriter.Write` / `GPDir.WriteBlocks` as far as the summary is concerned: a day directory keeps
  its block list and the running totals `Metadata.Stats` (stored in `.blockmeta` and in the
  directory-name suffix `MarshalString`), updated with `TrafficMetadata.Add` / `Counters.Add`;
* `(*DBWorkManager).ReadMetadata` / `walkDB` / `readMetadataAndEvaluate`
  (pkg/goDB/DBWorkManager.go) with `BlocksBefore` / `BlocksAfter` (pkg/goDB/storage/storage.go);
* the block selection of a query (`CreateWorkerJobs` + the timestamp filter of
  `readBlocksAndEvaluate`), restricted to the packet / byte totals.

`TrafficMetadata.Add/Sub`, `DirTimestamp`, `EpochDay`, `DBWriteInterval` are the definitions the
translator regenerates from the source (`Gen/ListMeta.lean`); unsigned subtraction wraps modulo
2^64 there, and the hand-written `Counters.sub` does the same.

Abstractions (validated by the correspondence harness, listed in the trusted base): the bytes on
disk (column files, bit-packing, `.blockmeta`, base-62 suffix) are represented by the values they
encode; directory listing order = increasing day; year/month pruning in `walkDB` is implied by the
day test (UTC, theorem `prune_sound` in Props); First/Last of the result are not modelled.
-/
namespace C12
open Gen.ListMeta

/-- `types.Counters` -/
structure Counters where
  br : Nat
  bs : Nat
  pr : Nat
  ps : Nat
  deriving Repr, DecidableEq

/-- `(*Counters).Add` (source text pinned by fact `c12_counters_add_sub`) -/
def Counters.add (c c2 : Counters) : Counters :=
  ⟨c.br + c2.br, c.bs + c2.bs, c.pr + c2.pr, c.ps + c2.ps⟩

/-- `(*Counters).Sub`: uint64 subtraction wraps -/
def Counters.sub (c c2 : Counters) : Counters :=
  ⟨(c.br + 2^64 - c2.br) % 2^64, (c.bs + 2^64 - c2.bs) % 2^64,
   (c.pr + 2^64 - c2.pr) % 2^64, (c.ps + 2^64 - c2.ps) % 2^64⟩

/-- `gpfile.Stats` -/
structure Stats where
  counts  : Counters
  traffic : TrafficMetadata
  deriving Repr, DecidableEq

def Stats.zero : Stats := ⟨⟨0, 0, 0, 0⟩, ⟨0, 0, 0⟩⟩

/-- `Stats.Add` -/
def Stats.add (s s2 : Stats) : Stats := ⟨s.counts.add s2.counts, TrafficMetadata_Add s.traffic s2.traffic⟩

/-- `Stats.Sub` -/
def Stats.sub (s s2 : Stats) : Stats := ⟨s.counts.sub s2.counts, TrafficMetadata_Sub s.traffic s2.traffic⟩

def Stats.toSum (s : Stats) : Sum :=
  ⟨s.traffic.NumV4Entries, s.traffic.NumV6Entries, s.traffic.NumDrops,
   s.counts.br, s.counts.bs, s.counts.pr, s.counts.ps⟩

/-! ### writer -/

/-- `dbData`: `summUpdate.Counts` -/
def blockCounts (b : Block) : Counters :=
  b.flows.foldl (fun c f => c.add ⟨f.br, f.bs, f.pr, f.ps⟩) ⟨0, 0, 0, 0⟩

/-- the `TrafficMetadata` handed to `WriteBlocks` (flow counts by family from `dbData`,
    `captureStats.Dropped`) -/
def blockTraffic (b : Block) : TrafficMetadata :=
  ⟨(b.flows.filter (·.v4)).length, (b.flows.filter (fun f => !f.v4)).length, b.drops⟩

/-- what `readMetadataAndEvaluate` collects for one block: flow counts (and, since the fix, drops)
    from `BlockTraffic[ind]`, counters unpacked from the four counter columns -/
def blockStats (b : Block) : Stats := ⟨blockCounts b, blockTraffic b⟩

/-- one day directory -/
structure Day where
  day    : Int          -- directory timestamp
  total  : Stats        -- `Metadata.Stats` (`.blockmeta` header and directory-name suffix)
  blocks : List Block   -- `BlockList` / `BlockTraffic` / column data, in write order
  deriving Repr

/-- `GPDir.WriteBlocks` + `Close` -/
def writeDay (d : Day) (b : Block) : Day :=
  { d with
    total := ⟨d.total.counts.add (blockCounts b), TrafficMetadata_Add d.total.traffic (blockTraffic b)⟩
    blocks := d.blocks ++ [b] }

def emptyDay (k : Int) : Day := ⟨k, Stats.zero, []⟩

/-- `DBWriter.Write`: the block goes to the directory `DirTimestamp ts` (created if missing);
    the list is kept in directory-listing order (increasing day). -/
def write : List Day → Block → List Day
  | [], b => [writeDay (emptyDay (DirTimestamp b.ts)) b]
  | d :: ds, b =>
    if DirTimestamp b.ts = d.day then writeDay d b :: ds
    else if DirTimestamp b.ts < d.day then writeDay (emptyDay (DirTimestamp b.ts)) b :: d :: ds
    else d :: write ds b

/-- the database after a write history -/
def build (bs : List Block) : List Day := bs.foldl write []

/-! ### reader -/

/-- directory test of `walkDB` -/
def selected (tfirst tlast : Int) (d : Day) : Bool :=
  decide (tfirst < d.day + EpochDay) && decide (d.day < tlast + DBWriteInterval)

/-- year / month pruning of `walkDB` for a day directory stored under `<year>/<month>/`, where
    `ym t` stands for `(time.Unix(t,0).Year(), time.Unix(t,0).Month())` (a parameter: Go's `time`
    package is not modelled). `true` = the directory is never looked at. -/
def pruned (ym : Int → Nat × Nat) (tfirst tlast day : Int) : Bool :=
  let y := (ym day).1
  let m := (ym day).2
  let yf := (ym tfirst).1
  let mf := (ym tfirst).2
  let yl := (ym (tlast + DBWriteInterval)).1
  let ml := (ym (tlast + DBWriteInterval)).2
  (decide (y < yf) || decide (y > yl)) || ((y == yf && decide (m < mf)) || (y == yl && decide (m > ml)))

/-- `GPDir.TimeRange` (`none` = index-out-of-range panic on an empty block list) -/
def timeRange (d : Day) : Option (Int × Int) :=
  match d.blocks.head?, d.blocks.getLast? with
  | some f, some l => some (f.ts, l.ts)
  | _, _ => none

/-- loop of `BlocksBefore`: index of the first block with `Timestamp >= ts` (length if none) -/
def idxGE (ts : Int) : List Block → Nat
  | [] => 0
  | b :: bs => if b.ts ≥ ts then 0 else idxGE ts bs + 1

/-- loop of `BlocksAfter` (fixed): index of the first block with `Timestamp > ts` -/
def idxGT? (ts : Int) : List Block → Option Nat
  | [] => none
  | b :: bs => if b.ts > ts then some 0 else (idxGT? ts bs).map (· + 1)

/-- `BlocksBefore`: (number of blocks returned, index of the first one) -/
def blocksBefore (ts : Int) (all : List Block) : Nat × Nat := (idxGE ts all, 0)

/-- `BlocksAfter` -/
def blocksAfter (ts : Int) (all : List Block) : Nat × Nat :=
  match idxGT? ts all with
  | some i => (all.length - i, i)
  | none => (0, 0)

/-- `readMetadataAndEvaluate` with `statsOpFunc = metadata.Stats.Sub`: for `b` in `0..n-1` the
    block at index `b + offset` is read and subtracted (`none` = index panic) -/
def evalSub (all : List Block) : Nat → Nat → Stats → Option Stats
  | 0, _, agg => some agg
  | n + 1, ind, agg =>
    match all[ind]? with
    | none => none
    | some blk => evalSub all n (ind + 1) (agg.sub (blockStats blk))

/-- `walkFunc` of `ReadMetadata` on one directory selected by `walkDB`;
    state = (aggMetadata.Stats, curDir) -/
def visit (tfirst tlast : Int) (numDirs : Nat) (st : Stats × Option Day) (d : Day) : Option (Stats × Option Day) :=
  if d.day > tlast then some st
  else
    let agg := st.1.add d.total
    if numDirs = 0 then
      match timeRange d with
      | none => none
      | some (dirFirst, _) =>
        if tfirst ≥ dirFirst then
          let (n, off) := blocksBefore tfirst d.blocks
          (evalSub d.blocks n off agg).map (fun a => (a, some d))
        else some (agg, some d)
    else some (agg, some d)

def walk (tfirst tlast : Int) : List Day → Nat → Stats × Option Day → Option (Stats × Option Day)
  | [], _, st => some st
  | d :: ds, n, st =>
    match visit tfirst tlast n st d with
    | none => none
    | some st' => walk tfirst tlast ds (n + 1) st'

/-- tail of `ReadMetadata`: the last visited directory (`curDir`) is re-opened and the blocks after
    `tlast` are subtracted -/
def lastDay (tlast : Int) (agg : Stats) (d : Day) : Option Stats :=
  match timeRange d with
  | none => none
  | some (_, dirLast) =>
    if tlast ≤ dirLast then
      let (n, off) := blocksAfter tlast d.blocks
      evalSub d.blocks n off agg
    else some agg

/-- `ReadMetadata` (counts only; `none` = panic) -/
def readMetadata (tfirst tlast : Int) (db : List Day) : Option Stats :=
  match walk tfirst tlast (db.filter (selected tfirst tlast)) 0 (Stats.zero, none) with
  | none => none
  | some (agg, none) => some agg
  | some (agg, some d) => lastDay tlast agg d

/-! ### query (totals only) -/

def addT (a b : Totals) : Totals := (a.1 + b.1, a.2.1 + b.2.1, a.2.2.1 + b.2.2.1, a.2.2.2 + b.2.2.2)

def blockTotals (b : Block) : Totals :=
  b.flows.foldl (fun a f => addT a (f.br, f.bs, f.pr, f.ps)) (0, 0, 0, 0)

/-- `CreateWorkerJobs` (covered interval) + `readBlocksAndEvaluate` (timestamp filter), summed over
    all flows of the selected blocks -/
def queryTotals (tfirst tlast : Int) (db : List Day) : Option Totals :=
  let sel := db.filter (selected tfirst tlast)
  match sel.head?, sel.getLast? with
  | some d0, some dl =>
    match timeRange d0, timeRange dl with
    | some (dirFirst, _), some (_, dirLast) =>
      let tFirstCovered := if tfirst < dirFirst then dirFirst else tfirst
      let tLastCovered := if tlast > dirLast then dirLast else tlast
      some (sel.foldl (fun a d => d.blocks.foldl (fun a b =>
        if b.ts < tFirstCovered ∨ b.ts > tLastCovered then a else addT a (blockTotals b)) a) (0, 0, 0, 0))
    | _, _ => none
  | _, _ => some (0, 0, 0, 0)

/-! ### driver -/

def showIface (first last : Int) (name : String) (bs : List Block) : String :=
  let db := build bs
  match readMetadata first last db, queryTotals first last db with
  | some s, some q => name ++ ":" ++ showSum s.toSum ++ ":" ++ showTotals q
  | _, _ => "panic"

/-- wire op `list <enc> <first> <last> <ifaces>` -> `name:<summary>:<query totals>|…` -/
def handle : List String → String
  | ["list", _enc, first, last, ifs] =>
    match Wire.parseInt first, Wire.parseInt last, parseIfaces ifs with
    | some first, some last, some ifs =>
      let outs := ifs.map fun i => showIface first last i.1 i.2
      if outs.contains "panic" then "panic" else "|".intercalate outs
    | _, _, _ => "bad-args"
  | _ => "bad-op"

end C12
