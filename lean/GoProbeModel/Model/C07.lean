import GoProbeModel.Spec.C07
import GoProbeModel.Base.Outcome

/-!
C07 — executable model of the five `encoder.Encoder` implementations of pkg/goDB/encoder
(`null/null.go`, `lz4/lz4_cgo.go`, `lz4/lz4_native.go`, `zstd/zstd_cgo.go`, `zstd/zstd_native.go`),
as written (after the `fix:` that makes the native zstd wrapper encode into `buf[:0]`).

What is modelled is the repository's OWN code: the handling of the caller's scratch buffer `buf`
(a Go slice = backing array + length; capacity = length of the array), the re-allocation when its
capacity is below the library's bound, the slice expressions (checked: a Go slice expression out
of range is `.panic`), `&buf[0]` / `&in[0]` (index panics), the result checks, the optional writer,
the reported count `n`, and `src.Read` with its length check.

What is NOT modelled is the LZ4 / zstd ALGORITHM: the third-party library is the parameter `Lib`
(`enc`, `dec`, `bound`). The theorems of Props/C07 hold for every such triple; the round-trip ones
assume the library contract `LibOK` (decoding inverts encoding, an encoded block is never empty
and never longer than the library's own bound). The correspondence harness validates that
contract on every generated input, in the cgo and in the pure-Go build.
-/
namespace C07

/-! ### Go slices -/

/-- a Go `[]byte`: the backing array from the slice's first element on, and the length.
    `cap = arr.length`; the nil slice is `⟨[], 0⟩`. Well-formed when `len ≤ arr.length`. -/
structure Slice where
  arr : Bytes
  len : Nat
  deriving Repr, DecidableEq

namespace Slice

def cap (s : Slice) : Nat := s.arr.length
def nil : Slice := ⟨[], 0⟩
/-- `make([]byte, len, cap)` -/
def make (len cap : Nat) : Slice := ⟨List.replicate cap 0, len⟩
/-- the bytes a reader of the slice sees: `s[0:len]` -/
def toBytes (s : Slice) : Bytes := s.arr.take s.len
/-- `s[:k]` — allowed up to the capacity, panics beyond -/
def upTo (s : Slice) (k : Nat) : Outcome Slice :=
  if k ≤ s.cap then .ok ⟨s.arr, k⟩ else .panic "slice bounds out of range"
/-- a callee that is handed `&s[0]` (or `s` itself) stores `b` at the front of the array -/
def store (s : Slice) (b : Bytes) : Slice := ⟨b ++ s.arr.drop b.length, s.len⟩
/-- Go `append(s, b...)`: in place when the capacity suffices, otherwise a new array -/
def append (s : Slice) (b : Bytes) : Slice :=
  if s.len + b.length ≤ s.cap then
    ⟨s.arr.take s.len ++ b ++ s.arr.drop (s.len + b.length), s.len + b.length⟩
  else ⟨s.arr.take s.len ++ b, s.len + b.length⟩

end Slice

/-! ### the third-party library (parameter) -/

structure Lib where
  /-- `LZ4_compressBound` / `lz4.CompressBlockBound` / `ZSTD_compressBound` -/
  bound : Nat → Nat
  /-- level → input → compressed block / frame (what the library emits when the destination is
      large enough) -/
  enc : Nat → Bytes → Bytes
  /-- compressed → decoded (`none` = rejected as malformed) -/
  dec : Bytes → Option Bytes

/-- a library compression call with a destination of `c` bytes: fails when the result does not fit -/
def Lib.compressInto (lib : Lib) (lvl : Nat) (x : Bytes) (c : Nat) : Option Bytes :=
  if (lib.enc lvl x).length ≤ c then some (lib.enc lvl x) else none

/-- a "safe" library decompression call with a destination of `c` bytes -/
def Lib.decompressInto (lib : Lib) (z : Bytes) (c : Nat) : Option Bytes :=
  match lib.dec z with
  | some x => if x.length ≤ c then some x else none
  | none => none

/-! ### Compress -/

/-- result of `Compress`: the bytes that reached the writer, the reported count, the error -/
structure CRes where
  emitted : Bytes
  n : Nat
  err : Option String
  deriving Repr, DecidableEq

/-- `dst.Write(b)`: a nil interface panics; a failing writer accepts `k` bytes and reports them -/
def writeTo (dst : Dst) (b : Bytes) : Outcome CRes :=
  match dst with
  | .nil => .panic "nil pointer dereference"
  | .buffer => .ok ⟨b, b.length, none⟩
  | .limited k => if b.length ≤ k then .ok ⟨b, b.length, none⟩ else .ok ⟨b.take k, k, some "write"⟩

/-- `if dst != nil { if n, err = dst.Write(b); err != nil { return n, err } }; return n, nil` -/
def writeIfProvided (dst : Dst) (b : Bytes) : Outcome CRes :=
  if dst = .nil then .ok ⟨[], 0, none⟩ else writeTo dst b

def failed (kind : String) : Outcome CRes := .ok ⟨[], 0, some kind⟩

/-- null.Encoder.Compress: `return dst.Write(data)` -/
def nullCompress (data : Bytes) (_buf : Slice) (dst : Dst) : Outcome CRes := writeTo dst data

/-- the common head of the three bound-based wrappers:
    `if cap(buf) < dstCapacity { buf = make([]byte, 0, 2*dstCapacity) }; buf = buf[:dstCapacity]` -/
def sizeScratch (buf : Slice) (c : Nat) : Outcome Slice :=
  (if buf.cap < c then Slice.make 0 (2 * c) else buf).upTo c

/-- lz4/lz4_cgo.go `Encoder.Compress` -/
def lz4CgoCompress (lib : Lib) (lvl : Nat) (data : Bytes) (buf : Slice) (dst : Dst) : Outcome CRes := do
  let c := lib.bound data.length
  let buf ← sizeScratch buf c
  if buf.len = 0 then .panic "index out of range [0] with length 0" else       -- &buf[0]
  match lib.compressInto lvl data c with
  | none => failed "compress"                                                  -- compLen <= 0
  | some z =>
    if z.length = 0 then failed "compress" else                                -- compLen <= 0
    let buf := buf.store z
    if buf.len < z.length then failed "compress" else                          -- ErrBufferSizeMismatch
    let out ← buf.upTo z.length                                                -- buf[:compLen]
    writeIfProvided dst out.toBytes

/-- lz4/lz4_native.go `Encoder.Compress` -/
def lz4NativeCompress (lib : Lib) (lvl : Nat) (data : Bytes) (buf : Slice) (dst : Dst) : Outcome CRes := do
  let c := lib.bound data.length
  let buf ← sizeScratch buf c
  match lib.compressInto lvl data buf.len with                                 -- CompressBlockHC(data, buf, …)
  | none => failed "compress"
  | some z =>
    let buf := buf.store z
    if buf.len < z.length then failed "compress" else
    let out ← buf.upTo z.length
    writeIfProvided dst out.toBytes

/-- zstd/zstd_cgo.go `Encoder.Compress` -/
def zstdCgoCompress (lib : Lib) (lvl : Nat) (data : Bytes) (buf : Slice) (dst : Dst) : Outcome CRes := do
  let c := lib.bound data.length
  let buf ← sizeScratch buf c
  if buf.len = 0 then .panic "index out of range [0] with length 0" else       -- &buf[0]
  match lib.compressInto lvl data c with
  | none => failed "compress"                                                  -- compLen < 0
  | some z =>
    let buf := buf.store z
    if buf.len < z.length then failed "compress" else
    let out ← buf.upTo z.length
    writeIfProvided dst out.toBytes

/-- zstd/zstd_native.go `Encoder.Compress` (fixed): `encData := EncodeAll(data, buf[:0])` -/
def zstdNativeCompress (lib : Lib) (lvl : Nat) (data : Bytes) (buf : Slice) (dst : Dst) : Outcome CRes := do
  let b0 ← buf.upTo 0
  let encData := b0.append (lib.enc lvl data)
  writeIfProvided dst encData.toBytes

/-- zstd/zstd_native.go `Encoder.Compress` AS IT WAS before the fix: `EncodeAll(data, buf)`
    appends to the caller's scratch buffer (kept to exhibit the defect, see Props/C07) -/
def zstdNativeCompressOrig (lib : Lib) (lvl : Nat) (data : Bytes) (buf : Slice) (dst : Dst) : Outcome CRes :=
  writeIfProvided dst (buf.append (lib.enc lvl data)).toBytes

inductive Variant where
  | null | lz4Cgo | lz4Native | zstdCgo | zstdNative
  deriving Repr, DecidableEq

def compress (v : Variant) (lib : Lib) (lvl : Nat) (data : Bytes) (buf : Slice) (dst : Dst) : Outcome CRes :=
  match v with
  | .null => nullCompress data buf dst
  | .lz4Cgo => lz4CgoCompress lib lvl data buf dst
  | .lz4Native => lz4NativeCompress lib lvl data buf dst
  | .zstdCgo => zstdCgoCompress lib lvl data buf dst
  | .zstdNative => zstdNativeCompress lib lvl data buf dst

/-! ### Decompress -/

/-- result of `Decompress`: the reported count, the bytes the caller finds in `out[:n]`
    (empty when `n` exceeds `len(out)` or on error), the error -/
structure DRes where
  n : Nat
  restored : Bytes
  err : Option String
  deriving Repr, DecidableEq

/-- `src.Read(p)` on a file-like reader positioned in front of `src`: (count, p afterwards, error) -/
def readInto (src : Bytes) (p : Slice) : Nat × Slice × Option String :=
  if p.len = 0 then (0, p, none)
  else if src.isEmpty then (0, p, some "eof")
  else (min p.len src.length, p.store (src.take (min p.len src.length)), none)

def dfailed (kind : String) : Outcome DRes := .ok ⟨0, [], some kind⟩

/-- null.Encoder.Decompress: `src.Read(out)`, then `n != len(out)` is an error -/
def nullDecompress (_inp out : Slice) (src : Bytes) : Outcome DRes :=
  match readInto src out with
  | (_, _, some e) => dfailed e
  | (k, out', none) => if k ≠ out.len then dfailed "short-read" else .ok ⟨k, out'.toBytes.take k, none⟩

/-- the common head of the four library wrappers: read `len(in)` bytes into `in` -/
def readCompressed (inp : Slice) (src : Bytes) : Except String Slice :=
  match readInto src inp with
  | (_, _, some e) => .error e
  | (k, inp', none) => if k ≠ inp.len then .error "short-read" else .ok inp'

/-- decode with a bounded destination (`LZ4_decompress_safe`, `lz4.UncompressBlock`,
    `ZSTD_decompressDCtx`): the decoded bytes are stored at the front of `out` -/
def decodeBounded (lib : Lib) (inp out : Slice) : Outcome DRes :=
  match lib.decompressInto inp.toBytes out.len with
  | none => dfailed "decompress"
  | some x => .ok ⟨x.length, (out.store x).toBytes.take x.length, none⟩

/-- lz4_cgo.go / zstd_cgo.go `Encoder.Decompress` (`&in[0]` panics on an empty `in`) -/
def cgoDecompress (lib : Lib) (inp out : Slice) (src : Bytes) : Outcome DRes :=
  match readCompressed inp src with
  | .error e => dfailed e
  | .ok inp' => if inp'.len = 0 then .panic "index out of range [0] with length 0" else decodeBounded lib inp' out

/-- lz4_native.go `Encoder.Decompress` -/
def lz4NativeDecompress (lib : Lib) (inp out : Slice) (src : Bytes) : Outcome DRes :=
  match readCompressed inp src with
  | .error e => dfailed e
  | .ok inp' => decodeBounded lib inp' out

/-- zstd_native.go `Encoder.Decompress`: `out = out[:0]; decData, err := DecodeAll(in, out)`;
    the count is `len(decData)` whether or not it fits the caller's `out` -/
def zstdNativeDecompress (lib : Lib) (inp out : Slice) (src : Bytes) : Outcome DRes :=
  match readCompressed inp src with
  | .error e => dfailed e
  | .ok inp' => do
    let o0 ← out.upTo 0
    match lib.dec inp'.toBytes with
    | none => dfailed "decompress"
    | some x =>
      let decData := o0.append x
      -- the caller still holds `out` (same array when nothing was re-allocated)
      .ok ⟨decData.len, if x.length ≤ out.len then (Slice.mk decData.arr out.len).toBytes.take x.length else [], none⟩

def decompress (v : Variant) (lib : Lib) (inp out : Slice) (src : Bytes) : Outcome DRes :=
  match v with
  | .null => nullDecompress inp out src
  | .lz4Cgo => cgoDecompress lib inp out src
  | .lz4Native => lz4NativeDecompress lib inp out src
  | .zstdCgo => cgoDecompress lib inp out src
  | .zstdNative => zstdNativeDecompress lib inp out src

/-! ### driver -/

def variantOf (cgo : Bool) (enc : String) : Variant :=
  if enc == "null" then .null
  else if enc == "lz4" then (if cgo then .lz4Cgo else .lz4Native)
  else (if cgo then .zstdCgo else .zstdNative)

/-- the libraries' published bound formulas (lz4.h `LZ4_COMPRESSBOUND`, zstd.h `ZSTD_COMPRESSBOUND`);
    they only steer the re-allocation branch of the executable model -/
def boundOf (enc : String) (n : Nat) : Nat :=
  if enc == "lz4" then n + n / 255 + 16
  else n + n / 256 + (if n < 131072 then (131072 - n) / 2048 else 0)

/-- the library of a case: the harness observed `ref` as the library's output for `data` -/
def libOfCase (cs : Case) : Lib :=
  { bound := boundOf cs.enc,
    enc := fun _ x => if x == cs.data then cs.ref else [],
    dec := fun z => if z == cs.ref then some cs.data else none }

def scratchOf (cs : Case) : Slice :=
  ⟨(List.range cs.bufCap).map fun i => (cs.bufFill + i) % 256, cs.bufLen⟩

def filled (n b : Nat) : Slice := ⟨List.replicate n b, n⟩

def runCase (cs : Case) : Obs :=
  let v := variantOf cs.cgo cs.enc
  let lib := libOfCase cs
  match compress v lib cs.level cs.data (scratchOf cs) cs.dst with
  | .panic _ => { c := "panic", n := 0, emitted := [], d := none, dn := 0, out := [] }
  | .err e => { c := "err:" ++ e, n := 0, emitted := [], d := none, dn := 0, out := [] }
  | .ok r =>
    let c := match r.err with | none => "ok" | some e => "err:" ++ e
    if cs.dst ≠ .buffer ∨ r.err.isSome then { c := c, n := r.n, emitted := r.emitted, d := none, dn := 0, out := [] } else
    let src := r.emitted ++ List.replicate cs.trail 171
    let inLen := match cs.inMode with | .exact => r.emitted.length | .longer k => src.length + k | .empty => 0
    let outLen := match cs.outMode with | .exact => cs.data.length | .greater k => cs.data.length + k | .shorter k => cs.data.length - k
    match decompress v lib (filled inLen 0) (filled outLen 238) src with
    | .panic _ => { c := c, n := r.n, emitted := r.emitted, d := some "panic", dn := 0, out := [] }
    | .err e => { c := c, n := r.n, emitted := r.emitted, d := some ("err:" ++ e), dn := 0, out := [] }
    | .ok dr =>
      match dr.err with
      | some e => { c := c, n := r.n, emitted := r.emitted, d := some ("err:" ++ e), dn := 0, out := [] }
      | none => { c := c, n := r.n, emitted := r.emitted, d := some "ok", dn := dr.n, out := dr.restored }

def handle (args : List String) : String :=
  match parseCase args with
  | some cs => showObs (runCase cs)
  | none => "bad-args"

end C07
