import GoProbeModel.Spec.DB

/-!
Executable model of the on-disk write-out protocol (`DBWriter.Write` → `GPDir.Open` /
`WriteBlocks` / `Close` → `writeMetadataAtomic`, pkg/goDB/db_writer.go and
pkg/goDB/storage/gpfile/gpdir.go) at the level of file-system operations, and of the readers
(`walkDB`, `GPDir.Open`, the query scan, `ReadMetadata`) — layer L0/L1 of DESIGN.md.

Abstraction (justified by property C01's theorem `read_after_sessions`: bytes beyond the committed
offset are irrelevant and committed blocks stay readable): a column file is the list of write-out
ids whose payload it physically holds; stray `.tmp-metadata-*` files of interrupted writers are not
represented (no reader or writer ever looks at them); `.blockmeta` is the list of committed write-out ids; the
directory-name suffix is the seven summary numbers it encodes. A write-out is identified by its
index in the history.
-/
namespace WO
open DB

/-- the eight column files in `types.ColIdx…` order (names as in `types.ColumnFileNames`) -/
def colNames : List String := ["sip", "dip", "proto", "dport", "bytes_rcvd", "bytes_sent", "pkts_rcvd", "pkts_sent"]

structure DayFs where
  iface : String
  day : Int
  named : Option Totals          -- summary encoded in the directory name (none = plain `<day>` name)
  metaIds : Option (List Nat)    -- ids listed in `.blockmeta` (none = no such file)
  cols : List (List Nat)         -- per column: ids physically stored, in file order
  deriving Repr, DecidableEq

structure Fs where
  dirs : List String             -- existing ancestor directories: "eth0", "eth0/2023", "eth0/2023/11"
  ifaces : List String           -- interface directories (the entries of `dirs` without a '/'), in creation order
  days : List DayFs
  deriving Repr, DecidableEq

def Fs.empty : Fs := { dirs := [], ifaces := [], days := [] }

def Fs.day? (fs : Fs) (iface : String) (day : Int) : Option DayFs :=
  fs.days.find? fun d => d.iface == iface && d.day == day

def Fs.setDay (fs : Fs) (d : DayFs) : Fs :=
  if fs.days.any (fun x => x.iface == d.iface && x.day == d.day)
  then { fs with days := fs.days.map fun x => if x.iface == d.iface && x.day == d.day then d else x }
  else { fs with days := fs.days ++ [d] }

inductive Op where
  | readdir (ok : Bool)
  | mkdir (rel : String)         -- path below the interface directory ("" = the interface directory)
  | openmeta (ok : Bool)
  | opencol (c : Nat)
  | writecol (c : Nat)
  | opentmp
  | writetmp
  | chmod
  | renamemeta
  | renamedir
  | unlink
  deriving Repr, DecidableEq

def Op.render : Op → String
  | .readdir ok => "readdir:" ++ (if ok then "ok" else "ENOENT")
  | .mkdir r => "mkdir:" ++ r
  | .openmeta ok => "openmeta:" ++ (if ok then "ok" else "ENOENT")
  | .opencol c => "opencol:" ++ colNames.getD c "?" ++ ":ok"
  | .writecol c => "write:col:" ++ colNames.getD c "?" ++ ":ok"
  | .opentmp => "opentmp:ok"
  | .writetmp => "write:tmp:ok"
  | .chmod => "chmod:ok"
  | .renamemeta => "renamemeta:ok"
  | .renamedir => "renamedir:ok"
  | .unlink => "unlink:ENOENT"

/-- totals of the committed ids w.r.t. the history -/
def totalsIds (hist : List WriteOut) (ids : List Nat) : Totals :=
  totalsOf (ids.filterMap fun i => hist[i]?)

/-- attribute columns (0–3) are empty for an empty flow map; the counter columns always hold at
    least the bit-packing header byte -/
def colNonEmpty (w : WriteOut) (c : Nat) : Bool := c ≥ 4 || !w.flows.isEmpty

/-- number of payloads in column `c` that belong to committed blocks `ids` (= the committed offset) -/
def keepLen (hist : List WriteOut) (ids : List Nat) (c : Nat) : Nat :=
  (ids.filter fun i => match hist[i]? with | some w => colNonEmpty w c | none => false).length

def freshDay (iface : String) (day : Int) : DayFs :=
  { iface := iface, day := day, named := none, metaIds := none, cols := List.replicate 8 [] }

/-- operations before the commit point: directory creation, column appends, temp metadata file -/
def preOps (hist : List WriteOut) (fs : Fs) (k : Nat) : List Op :=
  match hist[k]? with
  | none => []
  | some w =>
    let day := dayOf w.ts
    let (y, ym) := yearMonth w.ts
    let existing := fs.day? w.iface day
    let monthOk := fs.dirs.contains (w.iface ++ "/" ++ ym)
    let mk (p rel : String) : List Op := if fs.dirs.contains p then [] else [.mkdir rel]
    let mkdirs : List Op :=
      match existing with
      | some _ => []
      | none => mk w.iface "" ++ mk (w.iface ++ "/" ++ y) y ++ mk (w.iface ++ "/" ++ ym) ym ++ [.mkdir (ym ++ "/" ++ toString day)]
    [.readdir monthOk] ++ mkdirs ++ [.openmeta (existing.bind (·.metaIds)).isSome] ++
    ((List.range 8).filter (colNonEmpty w)).flatMap (fun c => [.opencol c, .writecol c]) ++
    [.opentmp, .writetmp, .chmod]

/-- operations after the commit point (`renamemeta`): directory rename if the summary changed, cleanup -/
def postOps (hist : List WriteOut) (fs : Fs) (k : Nat) : List Op :=
  match hist[k]? with
  | none => []
  | some w =>
    let existing := fs.day? w.iface (dayOf w.ts)
    let committed := (existing.bind (·.metaIds)).getD []
    let newTotals := totalsIds hist (committed ++ [k])
    (if (existing.bind (·.named)) = some newTotals then [] else [.renamedir]) ++ [.unlink, .unlink]

/-- the file operations of write-out `k` of `hist` when it starts in state `fs` (no fault) -/
def program (hist : List WriteOut) (fs : Fs) (k : Nat) : List Op :=
  match hist[k]? with
  | none => []
  | some _ => preOps hist fs k ++ [.renamemeta] ++ postOps hist fs k

/-- effect of one operation of write-out `k` on its day directory;
    `base` = ids committed when the writer opened the day -/
def applyDay (hist : List WriteOut) (k : Nat) (base : List Nat) (d : DayFs) : Op → DayFs
  | .writecol c =>
    -- the writer seeks to the committed offset: whatever a crashed predecessor left there is overwritten
    { d with cols := d.cols.mapIdx fun i ids => if i = c then ids.take (keepLen hist base c) ++ [k] else ids }
  | .renamemeta => { d with metaIds := some (base ++ [k]) }
  | .renamedir => { d with named := some (totalsIds hist (d.metaIds.getD [])) }
  | _ => d

def runDay (hist : List WriteOut) (k : Nat) (base : List Nat) (d : DayFs) (ops : List Op) : DayFs :=
  ops.foldl (applyDay hist k base) d

/-- ancestor directories created by the executed operations -/
def newDirs (iface dayRel : String) (ops : List Op) : List String :=
  ops.filterMap fun
    | .mkdir rel => if rel == dayRel then none else some (if rel == "" then iface else iface ++ "/" ++ rel)
    | _ => none

def baseOf (hist : List WriteOut) (fs : Fs) (k : Nat) : List Nat :=
  match hist[k]? with
  | none => []
  | some w => ((fs.day? w.iface (dayOf w.ts)).bind (·.metaIds)).getD []

/-- run write-out `k`, killed before its `n`-th operation (`n ≥` number of ops = runs to completion) -/
def runWriteOut (hist : List WriteOut) (fs : Fs) (k : Nat) (n : Nat) : Fs :=
  match hist[k]? with
  | none => fs
  | some w =>
    let day := dayOf w.ts
    let dayRel := (yearMonth w.ts).2 ++ "/" ++ toString day
    let ops := (program hist fs k).take n
    let existing := fs.day? w.iface day
    let created := existing.isSome || ops.contains (.mkdir dayRel)
    let fs1 := { fs with dirs := fs.dirs ++ newDirs w.iface dayRel ops,
                         ifaces := if ops.contains (.mkdir "") then fs.ifaces ++ [w.iface] else fs.ifaces }
    if created then fs1.setDay (runDay hist k (baseOf hist fs k) (existing.getD (freshDay w.iface day)) ops) else fs1

/-! ### readers -/

def ifacesOf (fs : Fs) : List String := fs.ifaces

/-- block number `i` of a day is readable iff every column that holds data for it stores that
    write-out's payload at the block's position -/
def blockReadable (hist : List WriteOut) (d : DayFs) (ids : List Nat) (i : Nat) : Bool :=
  match ids[i]? with
  | none => false
  | some id =>
    match hist[id]? with
    | none => false
    | some w => (List.range 8).all fun c =>
        !colNonEmpty w c || ((d.cols.getD c [])[keepLen hist (ids.take i) c]? == some id)

/-- blocks a query over the whole time range returns: the readable blocks of every day that has
    metadata (a day directory without `.blockmeta` is skipped by `walkDB`; an unreadable block is
    skipped and counted as corrupt) -/
def dayQueryIds (hist : List WriteOut) (d : DayFs) : List Nat :=
  match d.metaIds with
  | none => []
  | some ids => (List.range ids.length).filterMap fun i => if blockReadable hist d ids i then ids[i]? else none

def queryIds (hist : List WriteOut) (fs : Fs) : List Nat := fs.days.flatMap (dayQueryIds hist)

def queryView (hist : List WriteOut) (fs : Fs) : String :=
  -- without any interface directory the engine refuses the query ("no interfaces")
  if (ifacesOf fs).isEmpty then "err:iface" else
  renderQuery ((queryIds hist fs).filterMap fun i => hist[i]?)

/-- `ReadMetadata` over the whole range: a day's totals come from the directory name when it carries
    a summary, from `.blockmeta` otherwise -/
def listTotals (hist : List WriteOut) (fs : Fs) : List (String × Totals) :=
  (ifacesOf fs).map fun i =>
    (i, (fs.days.filter (·.iface == i)).foldl (fun acc d =>
      match d.metaIds with
      | none => acc
      | some ids => addTotals acc (d.named.getD (totalsIds hist ids))) zeroTotals)

def listView (hist : List WriteOut) (fs : Fs) : String := renderList (listTotals hist fs)

end WO
