import GoProbeModel.Spec.C18
import GoProbeModel.Gen.HashMap

/-!
C18 — executable model of `pkg/types/hashmap` as written (hashmap.go, iterator.go).

* A bucket with its overflow chain is flattened to a `List` of cells whose length is a multiple of
  `bucketCnt` (block `j` of the chain = cells `8j … 8j+7`); bucket arrays are `Array`s of chains.
  `nextOverflow` / the pre-allocated overflow area only decide *where* an overflow bucket lives and
  are dropped; `nOverflow` is kept because it triggers same-size growth.
* The hash function is a parameter `hash : κ → Nat` of every operation (the driver passes the
  real `xxh3.HashSeed` values observed through the hook; the theorems hold for every function).
* Constants and the pure helpers `topHash`, `isEmpty`, `loadFactor`, `tooManyOverflowBuckets`
  are the definitions regenerated from the source (`Gen/HashMap.lean`).
* A Go panic (`panic("bad map state")`, an out-of-range bucket index) sets the sticky flag `bad`.
* Cells hold key *values*: the key bytes are copied into the map's arena at insertion
  (`KeyStore` below models exactly these statements on an explicit heap; `key_copied`).
-/
namespace C18
open Gen.HashMap

structure Cell (κ : Type) where
  top : Nat
  key : κ
  val : Val
  deriving Repr

abbrev Chain (κ : Type) := List (Cell κ)

/-- the zero value of a cell of a freshly allocated bucket -/
def emptyCell {κ : Type} [Inhabited κ] : Cell κ := ⟨emptyRest, default, Val.zero⟩

/-- `bucket{}`: eight zeroed cells, no overflow -/
def newChain {κ : Type} [Inhabited κ] : Chain κ := List.replicate bucketCnt emptyCell

structure HMap (κ : Type) where
  count : Nat := 0
  /-- `flags & sameSizeGrow != 0` -/
  sameSize : Bool := false
  nOverflow : Nat := 0
  /-- `m.buckets` (size 0 = nil) -/
  buckets : Array (Chain κ) := #[]
  /-- `m.oldBuckets != nil` -/
  growing : Bool := false
  /-- `*m.oldBuckets` -/
  old : Array (Chain κ) := #[]
  nEvacuate : Nat := 0
  /-- a Go panic happened -/
  bad : Bool := false

section
variable {κ : Type} [DecidableEq κ] [Inhabited κ]

/-- `makeBucketArray` (the spare overflow area is not modelled) -/
def makeBucketArray (n : Nat) : Array (Chain κ) := Array.replicate n newChain

/-- the `for loadFactor(hint, nBuckets) { nBuckets *= 2 }` loop of `NewHint` -/
def hintBuckets (hint : Int) : Nat → Nat → Nat
  | 0, nb => nb
  | fuel + 1, nb => if loadFactor hint nb then hintBuckets hint fuel (nb * 2) else nb

/-- `NewHint` -/
def newHint (hint : Int) : HMap κ :=
  if hint ≤ 0 then {} else { buckets := makeBucketArray (hintBuckets hint 64 1) }

/-- `evacuated(b)` -/
def evacuated (c : Chain κ) : Bool :=
  match c with
  | [] => false
  | h :: _ => decide (h.top > emptyOne ∧ h.top < minTopHash)

def bucketMask (m : HMap κ) : Nat := m.buckets.size - 1
def oldBucketMask (m : HMap κ) : Nat := m.old.size - 1

/-- `m.buckets[i] = c`. (Equal to `{ m with buckets := m.buckets.setIfInBounds i c }`; written
    this way so that the compiled driver updates the array in place instead of copying it.) -/
def HMap.setBucket (m : HMap κ) (i : Nat) (c : Chain κ) : HMap κ :=
  let b := m.buckets
  let m := { m with buckets := #[] }
  { m with buckets := b.setIfInBounds i c }

/-- `(*m.oldBuckets)[i] = c` (same remark) -/
def HMap.setOld (m : HMap κ) (i : Nat) (c : Chain κ) : HMap κ :=
  let b := m.old
  let m := { m with old := #[] }
  { m with old := b.setIfInBounds i c }

/-- the bucket loop of `mapaccessK` over a flattened chain -/
def lookupChain (top : Nat) (k : κ) : Chain κ → Option (Cell κ)
  | [] => none
  | c :: cs =>
    if c.top ≠ top then
      if c.top = emptyRest then none else lookupChain top k cs
    else if k = c.key then some c
    else lookupChain top k cs

/-- `mapaccessK` -/
def lookup (hash : κ → Nat) (m : HMap κ) (k : κ) : Option (κ × Val) :=
  if m.count = 0 then none else
  let h := hash k
  let mask := bucketMask m
  let b := m.buckets.getD (h &&& mask) []
  let b :=
    if m.growing then
      let mask := if !m.sameSize then mask >>> 1 else mask
      let oldb := m.old.getD (h &&& mask) []
      if !evacuated oldb then oldb else b
    else b
  (lookupChain (topHash h) k b).map fun c => (c.key, c.val)

/-- `Get` -/
def get (hash : κ → Nat) (m : HMap κ) (k : κ) : Option Val := (lookup hash m k).map (·.2)

/-- `Len` -/
def len (m : HMap κ) : Nat := m.count

/-! ### Growth -/

/-- `hashGrow` -/
def hashGrow (m : HMap κ) : HMap κ :=
  let n := m.buckets.size
  let double := loadFactor (m.count + 1) n
  { m with
    sameSize := if double then m.sameSize else true
    old := m.buckets
    growing := true
    buckets := makeBucketArray (if double then n * 2 else n)
    nEvacuate := 0
    nOverflow := 0 }

/-- one evacuation destination (`evacDst`): the chain of `x.b`'s bucket and the number of cells
    written so far (`8·blocks + dst.i`) -/
structure Dst (κ : Type) where
  chain : Chain κ
  n : Nat

/-- the write into `dst` (with `newoverflow` when the current block is full); returns the new
    destination and the number of overflow buckets allocated -/
def Dst.put (d : Dst κ) (c : Cell κ) : Dst κ × Nat :=
  if d.n > 0 ∧ d.n % bucketCnt = 0 then
    (⟨d.chain.take d.n ++ (c :: List.replicate (bucketCnt - 1) emptyCell), d.n + 1⟩, 1)
  else
    (⟨d.chain.set d.n c, d.n + 1⟩, 0)

structure EvacSt (κ : Type) where
  x : Dst κ
  y : Dst κ
  nOverflow : Nat
  bad : Bool
  /-- the cells of the old chain processed so far, with their evacuation marks (reversed) -/
  marked : List (Cell κ)

/-- the body of the two loops of `evacuate` for one cell of the old chain -/
def evacCell (hash : κ → Nat) (sameSize : Bool) (newBit : Nat) (st : EvacSt κ) (c : Cell κ) : EvacSt κ :=
  if isEmpty c.top then
    { st with marked := { c with top := evacuatedEmpty } :: st.marked }
  else if c.top < minTopHash then
    { st with bad := true, marked := c :: st.marked }
  else
    let useY : Bool := !sameSize && (hash c.key &&& newBit != 0)
    let mark : Cell κ := { c with top := evacuatedX + (if useY then 1 else 0) }
    if useY then
      let (y, o) := st.y.put c
      { st with y := y, nOverflow := st.nOverflow + o, marked := mark :: st.marked }
    else
      let (x, o) := st.x.put c
      { st with x := x, nOverflow := st.nOverflow + o, marked := mark :: st.marked }

/-- `bucketEvacuated` -/
def bucketEvacuated (m : HMap κ) (b : Nat) : Bool := evacuated (m.old.getD b [])

/-- the `for` loop of `advanceEvacuationMark` -/
def advanceLoop (m : HMap κ) (stop : Nat) : Nat → Nat → Nat
  | 0, ne => ne
  | fuel + 1, ne => if ne ≠ stop ∧ bucketEvacuated m ne then advanceLoop m stop fuel (ne + 1) else ne

/-- `advanceEvacuationMark` -/
def advanceEvacuationMark (m : HMap κ) (newBit : Nat) : HMap κ :=
  let ne := m.nEvacuate + 1
  let stop := if ne + 1024 > newBit then newBit else ne + 1024
  let ne := advanceLoop m stop 1024 ne
  if ne = newBit then
    { m with nEvacuate := ne, growing := false, old := #[], sameSize := false }
  else
    { m with nEvacuate := ne }

/-- the body of `if !evacuated(b) { … }` in `evacuate`: move the cells of old bucket `oldBucket`
    to `buckets[oldBucket]` (X) and `buckets[oldBucket+newBit]` (Y) and mark the old cells -/
def evacBucket (hash : κ → Nat) (m : HMap κ) (oldBucket : Nat) : HMap κ :=
  let newBit := m.old.size
  if oldBucket ≥ m.buckets.size ∨ (!m.sameSize ∧ oldBucket + newBit ≥ m.buckets.size) then
    { m with bad := true }
  else
  let st0 : EvacSt κ :=
    { x := ⟨m.buckets.getD oldBucket [], 0⟩, y := ⟨m.buckets.getD (oldBucket + newBit) [], 0⟩,
      nOverflow := m.nOverflow, bad := m.bad, marked := [] }
  let st := (m.old.getD oldBucket []).foldl (evacCell hash m.sameSize newBit) st0
  let m := m.setBucket oldBucket st.x.chain
  let m := if !m.sameSize then m.setBucket (oldBucket + newBit) st.y.chain else m
  let m := m.setOld oldBucket st.marked.reverse
  { m with nOverflow := st.nOverflow, bad := st.bad }

/-- `evacuate` -/
def evacuate (hash : κ → Nat) (m : HMap κ) (oldBucket : Nat) : HMap κ :=
  let newBit := m.old.size
  if oldBucket ≥ m.old.size then { m with bad := true } else
  let m := if !evacuated (m.old.getD oldBucket []) then evacBucket hash m oldBucket else m
  if oldBucket = m.nEvacuate then advanceEvacuationMark m newBit else m

/-- `growWork` -/
def growWork (hash : κ → Nat) (m : HMap κ) (bucket : Nat) : HMap κ :=
  let m := evacuate hash m (bucket &&& oldBucketMask m)
  if m.growing then evacuate hash m m.nEvacuate else m

/-! ### Set / SetOrUpdate -/

inductive Scan where
  /-- key found at flat position `pos` -/
  | found (pos : Nat)
  /-- not found; `slot` = first empty cell seen (`insertI`) -/
  | miss (slot : Option Nat)
  deriving Repr, DecidableEq

/-- the `bucketloop` of `Set` / `SetOrUpdate` over a flattened chain -/
def scanChain (top : Nat) (k : κ) : Nat → Option Nat → Chain κ → Scan
  | _, ins, [] => .miss ins
  | p, ins, c :: cs =>
    if c.top ≠ top then
      let ins := if isEmpty c.top ∧ ins.isNone then some p else ins
      if c.top = emptyRest then .miss ins else scanChain top k (p + 1) ins cs
    else if k ≠ c.key then scanChain top k (p + 1) ins cs
    else .found p

/-- the insertion tail of `Set` / `SetOrUpdate` (after the growth check) -/
def insertAt (m : HMap κ) (bi : Nat) (slot : Option Nat) (c : Cell κ) : HMap κ :=
  let chain := m.buckets.getD bi []
  match slot with
  | some p => { m.setBucket bi (chain.set p c) with count := m.count + 1 }
  | none =>
    { m.setBucket bi (chain ++ (c :: List.replicate (bucketCnt - 1) emptyCell)) with
      nOverflow := m.nOverflow + 1, count := m.count + 1 }

/-- The common body of `Set` and `SetOrUpdate` from the label `again:` on. `upd` is what happens
    to the value of an existing entry, `ins` the value of a new entry. `fuel` bounds the number of
    `goto again` rounds: when it runs out the entry is inserted without a further growth check.
    A round repeats only after `hashGrow`, and the next round then finds the map growing unless
    the old table had at most two buckets, so the Go loop runs two (for tiny tables at most a few)
    rounds; this is argued, not proved. The bound is unobservable at the abstract level for every
    value (`again_rounds_partial` in `Props`), and the growth-stage probe of the harness compares
    the concrete outcome with the implementation. -/
def assignLoop (hash : κ → Nat) (k : κ) (upd : Val → Val) (ins : Val) : Nat → HMap κ → HMap κ
  | fuel, m =>
    let h := hash k
    let bucket := h &&& bucketMask m
    let m := if m.growing then growWork hash m bucket else m
    let bi := h &&& bucketMask m
    let top := topHash h
    let chain := m.buckets.getD bi []
    match scanChain top k 0 none chain with
    | .found p =>
      let c := chain.getD p emptyCell
      m.setBucket bi (chain.set p { c with val := upd c.val })
    | .miss slot =>
      match fuel with
      | fuel + 1 =>
        if !m.growing ∧ (loadFactor (m.count + 1) m.buckets.size ∨ tooManyOverflowBuckets m.nOverflow m.buckets.size) then
          assignLoop hash k upd ins fuel (hashGrow m)
        else insertAt m bi slot ⟨top, k, ins⟩
      | 0 => insertAt m bi slot ⟨top, k, ins⟩

def againFuel : Nat := 64

def assign (hash : κ → Nat) (m : HMap κ) (k : κ) (upd : Val → Val) (ins : Val) : HMap κ :=
  let m := if m.buckets.size = 0 then { m with buckets := #[newChain] } else m
  assignLoop hash k upd ins againFuel m

/-- `Set` -/
def set (hash : κ → Nat) (m : HMap κ) (k : κ) (v : Val) : HMap κ := assign hash m k (fun _ => v) v

/-- `SetOrUpdate` -/
def setOrUpdate (hash : κ → Nat) (m : HMap κ) (k : κ) (v : Val) : HMap κ := assign hash m k (·.add v) v

/-! ### Iteration -/

/-- the iterator's running state (the locals of `Next` and the fields they are saved to) -/
structure Iter (κ : Type) where
  /-- `it.m != nil` -/
  active : Bool := false
  /-- `len(it.buckets)` -/
  snapLen : Nat := 0
  startBucket : Nat := 0
  offset : Nat := 0
  wrapped : Bool := false
  i : Nat := 0
  bucket : Nat := 0
  checkBucket : Int := 0
  /-- `bucketPtr`: `none` = nil, `some rest` = the block `rest.take 8`, its overflow chain = `rest.drop 8` -/
  bptr : Option (Chain κ) := none

/-- `(*Map).iter` -/
def iterInit (m : HMap κ) : Iter κ :=
  if m.count = 0 then {} else
  let r : Nat := 1
  let start := r &&& bucketMask m
  { active := true, snapLen := m.buckets.size, startBucket := start, bucket := start,
    offset := (r >>> (64 - bucketCntBits)) % 256 }

/-- the body of the `for ; i < bucketCnt; i++` loop of `Next` for the cell at `offi`:
    `none` = `continue`, `some e` = the entry stored into `it.key` / `it.val` before `return true` -/
def nextCell (hash : κ → Nat) (m : HMap κ) (check : Int) (c : Cell κ) : Option (κ × Val) :=
  if isEmpty c.top ∨ c.top = evacuatedEmpty then none
  else if check ≠ noBucket ∧ !m.sameSize ∧ ((hash c.key &&& bucketMask m : Nat) : Int) ≠ check then none
  else if c.top ≠ evacuatedX ∧ c.top ≠ evacuatedY then some (c.key, c.val)
  else lookup hash m c.key

/-- the `for ; i < bucketCnt; i++` loop of `Next` on one block; `some (i, k, v)` = the entry it returns at index `i` -/
def scanBlock (hash : κ → Nat) (m : HMap κ) (offset : Nat) (check : Int) (block : Chain κ) :
    Nat → Nat → Option (Nat × κ × Val)
  | 0, _ => none
  | fuel + 1, i =>
    if i ≥ bucketCnt then none else
    let offi := (i + offset) &&& (bucketCnt - 1)
    match nextCell hash m check (block.getD offi emptyCell) with
    | none => scanBlock hash m offset check block fuel (i + 1)
    | some (k, v) => some (i, k, v)

inductive StepR (κ : Type) where
  | done
  | yield (k : κ) (v : Val) (it : Iter κ)
  | more (it : Iter κ)

/-- the part of one round of `Next` after a bucket has been chosen: scan the current block from
    `it.i`; either return an entry or move on to the overflow bucket (`b = b.overflow; i = 0; goto next`) -/
def iterScan (hash : κ → Nat) (m : HMap κ) (it : Iter κ) (rest : Chain κ) : StepR κ :=
  match scanBlock hash m it.offset it.checkBucket (rest.take bucketCnt) bucketCnt it.i with
  | some (i, k, v) => .yield k v { it with i := i + 1 }
  | none =>
    let r := rest.drop bucketCnt
    .more { it with bptr := if r.isEmpty then none else some r, i := 0 }

/-- the chain and the `checkBucket` value `Next` picks when it enters bucket index `b` -/
def chooseBucket (m : HMap κ) (snapLen b : Nat) : Chain κ × Int :=
  if m.growing ∧ snapLen = m.buckets.size then
    let oldb := m.old.getD (b &&& oldBucketMask m) []
    if !evacuated oldb then (oldb, (b : Int)) else (m.buckets.getD b [], noBucket)
  else (m.buckets.getD b [], noBucket)

/-- one round of `Next` from the label `next:` to `return` / `goto next` -/
def iterStep (hash : κ → Nat) (m : HMap κ) (it : Iter κ) : StepR κ :=
  match it.bptr with
  | some rest => iterScan hash m it rest
  | none =>
    if it.bucket = it.startBucket ∧ it.wrapped then .done else
    let bc := chooseBucket m it.snapLen it.bucket
    let bucket := it.bucket + 1
    let it := if bucket = it.snapLen then { it with bucket := 0, wrapped := true } else { it with bucket := bucket }
    iterScan hash m { it with i := 0, checkBucket := bc.2, bptr := some bc.1 } bc.1

/-- repeated `Next()` until it returns false: the entries in the order they are produced -/
def iterLoop (hash : κ → Nat) (m : HMap κ) : Nat → Iter κ → List (κ × Val) → List (κ × Val)
  | 0, _, acc => acc.reverse
  | fuel + 1, it, acc =>
    if !it.active then acc.reverse else
    match iterStep hash m it with
    | .done => acc.reverse
    | .yield k v it => iterLoop hash m fuel it ((k, v) :: acc)
    | .more it => iterLoop hash m fuel it acc

def totalCells (a : Array (Chain κ)) : Nat := (a.toList.map List.length).sum

/-- more rounds than any iteration needs: per bucket at most two per cell of its chain plus a few -/
def iterFuel (m : HMap κ) : Nat :=
  m.buckets.size * (2 * (totalCells m.buckets + totalCells m.old) + 10) + 1

/-- `for it := m.Iter(); it.Next(); { … }` -/
def iterate (hash : κ → Nat) (m : HMap κ) : List (κ × Val) := iterLoop hash m (iterFuel m) (iterInit m) []

/-- `Merge` (src and dst distinct maps): the inlined iteration over `src` with `SetOrUpdate` into `dst` -/
def merge (hashDst hashSrc : κ → Nat) (dst src : HMap κ) : HMap κ :=
  if len src = 0 then dst else
  (iterate hashSrc src).foldl (fun d e => setOrUpdate hashDst d e.1 e.2) dst

end

/-! ### The key arena on an explicit heap (`key_copied`)

The statements of the insertion tail of `Set` / `SetOrUpdate`

    if m.keyDataPos+len(key) > len(m.keyData) { m.keyData = append(m.keyData, make([]byte, len(m.keyData))...) }
    *insertK = m.keyData[m.keyDataPos : m.keyDataPos+len(key)]
    m.keyDataPos += len(key)
    copy(*insertK, key)

on a heap of byte arrays. A slice is (object, offset, length). The caller's key is a slice of a
caller-owned object. -/
namespace KeyStore

abbrev Bytes := List Nat

structure Slice where
  obj : Nat
  off : Nat
  len : Nat
  deriving Repr, DecidableEq

structure Heap where
  objs : List Bytes
  deriving Repr

def Heap.read (h : Heap) (s : Slice) : Bytes := ((h.objs.getD s.obj []).drop s.off).take s.len

/-- write `bs` at offset `off` of a byte array (Go `copy` into an existing slice: no growth) -/
def writeAt (a : Bytes) (off : Nat) (bs : Bytes) : Bytes :=
  a.take off ++ (bs.take (a.length - off)) ++ a.drop (off + bs.length)

def Heap.write (h : Heap) (obj off : Nat) (bs : Bytes) : Heap :=
  ⟨h.objs.set obj (writeAt (h.objs.getD obj []) off bs)⟩

structure Arena where
  /-- heap object currently backing `m.keyData` -/
  obj : Nat
  /-- `m.keyDataPos` -/
  pos : Nat
  deriving Repr

/-- the four statements above; returns the slice stored in the cell (`*insertK`) -/
def insertKey (h : Heap) (a : Arena) (key : Slice) : Heap × Arena × Slice :=
  let kb := h.read key
  let cur := h.objs.getD a.obj []
  let (h, a) :=
    if a.pos + key.len > cur.length then
      -- append reallocates: a new object holding the old bytes followed by len(old) zeroes
      (⟨h.objs ++ [cur ++ List.replicate cur.length 0]⟩, { a with obj := h.objs.length })
    else (h, a)
  let stored : Slice := ⟨a.obj, a.pos, key.len⟩
  (h.write a.obj a.pos kb, { a with pos := a.pos + key.len }, stored)

end KeyStore

/-! ### Driver: the canonical output line of harness/c18.go -/

structure Slot where
  m : HMap String := {}
  /-- the observed hash values of this map's seed -/
  hashes : Std.HashMap String Nat := {}

def Slot.hash (s : Slot) : String → Nat := fun k => s.hashes.getD k 0

def probeStr (m : HMap String) : String :=
  ",".intercalate [toString m.count, Wire.boolStr m.growing, Wire.boolStr m.sameSize,
    toString m.buckets.size, toString m.old.size, toString m.nEvacuate, toString m.nOverflow]

structure DState where
  slots : Array Slot
  out : Array String := #[]
  bad : Bool := false

def takeSlot (st : DState) (i : Nat) : Slot × DState :=
  match st with
  | ⟨slots, out, bad⟩ =>
    let s := slots.getD i {}
    (s, ⟨slots.setIfInBounds i {}, out, bad⟩)

def putSlot (st : DState) (i : Nat) (s : Slot) : DState :=
  match st with
  | ⟨slots, out, bad⟩ => ⟨slots.setIfInBounds i s, out, bad || s.m.bad⟩

def dstep (st : DState) (tok : String) : DState :=
  match parseOp tok with
  | none => { st with out := st.out.push "bad-case" }
  | some op =>
    match op with
    | .new s hint => putSlot st s { m := newHint hint }
    | .set s k h v =>
      match takeSlot st s with
      | (⟨m, hashes⟩, st) =>
        let hashes := hashes.insert k h
        let m := set (fun x => hashes.getD x 0) m k v
        putSlot st s { m := m, hashes := hashes }
    | .upd s k h v =>
      match takeSlot st s with
      | (⟨m, hashes⟩, st) =>
        let hashes := hashes.insert k h
        let m := setOrUpdate (fun x => hashes.getD x 0) m k v
        putSlot st s { m := m, hashes := hashes }
    | .get s k h =>
      let sl := st.slots.getD s {}
      let r := match get (fun x => if x = k then h else sl.hashes.getD x 0) sl.m k with | some v => v.str | none => "-"
      { st with out := st.out.push r }
    | .merge d s hs =>
      let src := st.slots.getD s {}
      match takeSlot st d with
      | (⟨m, hashes⟩, st) =>
        let hashes := hs.foldl (fun t e => t.insert e.1 e.2) hashes
        let m := merge (fun x => hashes.getD x 0) src.hash m src.m
        putSlot st d { m := m, hashes := hashes }
    | .len s => { st with out := st.out.push (toString (len (st.slots.getD s {}).m)) }
    | .iter s =>
      let sl := st.slots.getD s {}
      { st with out := st.out.push (showEntries (iterate sl.hash sl.m)) }
    | .digest s =>
      let sl := st.slots.getD s {}
      let d := (iterate sl.hash sl.m).foldl (fun d e => d.push e.1 e.2) ({} : Dig)
      { st with out := st.out.push d.str }
    | .probe s => { st with out := st.out.push (probeStr (st.slots.getD s {}).m) }

def handle (args : List String) : String :=
  let st := args.foldl dstep { slots := Array.replicate numSlots {} }
  if st.bad then "panic" else " ".intercalate st.out.toList

end C18
