import GoProbeModel.Spec.C17
import GoProbeModel.Gen.EnumJSON
import GoProbeModel.Gen.Facts

/-!
C17 — executable model of the JSON codec of `query.Args`, `query.Statement` and `results.Result`
**as the code is written**:

* the enum <-> name functions are the *regenerated* `Gen.EnumJSON.*`;
* every struct is encoded / decoded through its *regenerated* field table
  (`Gen.Facts.c17_fields_*`: Go name, JSON key, omitempty, Go type; embedded structs spliced in);
* `Labels.MarshalJSON` / `Attributes.MarshalJSON` encode through the *regenerated* tables of their
  aux structs (`Gen.Facts.c17_aux_*`), a pointer field being nil iff the timestamp `IsZero()` /
  the address is not `IsValid()` (hand-transcribed from the bodies pinned by `c17_src_*`); there is
  no custom decoder, so decoding uses the struct tags;
* JSON primitives (number / string text, RFC 3339, address text) are abstract tagged leaves —
  assumed faithful, except for what `time.Time.MarshalJSON` does with years outside 0..9999, zone
  hours ≥ 24 (error) and sub-minute zone offsets (truncated), which is modelled.

The codec is generic in the schema (`Schema`), so that the theorems of `Props/C17.lean` are stated
for every schema with duplicate-free, agreeing key tables and then instantiated with the
regenerated one.
-/
namespace C17

inductive Ty where
  | str | int | bool | time | addr | dir | sort
  | struct (name : String)
  | slice (t : Ty)
  | map (t : Ty)
  | ptr (t : Ty)
  | unknown (s : String)
  deriving Repr, DecidableEq, Inhabited

/-- abstract JSON document -/
inductive J where
  | null
  | bool (b : Bool)
  | num (i : Int)
  | str (s : String)
  | tstr (localSec nsec offMin : Int)   -- RFC 3339 text: local wall clock, fraction, zone in minutes
  | astr (s : String)                   -- address text
  | arr (xs : List J)
  | obj (kvs : List (String × J))
  deriving Inhabited

structure Field where
  name : String
  key : String
  omitEmpty : Bool
  ty : Ty
  deriving Repr, DecidableEq

structure StructInfo where
  /-- struct tags of the type: the decoder's table and the default encoder's table -/
  tags : List Field
  /-- table of the aux struct of a custom `MarshalJSON`, if the type has one -/
  aux : Option (List Field)

structure Schema where
  structs : List (String × StructInfo)

def Schema.info (S : Schema) (n : String) : StructInfo := (S.structs.lookup n).getD ⟨[], none⟩
def Schema.tags (S : Schema) (n : String) : List Field := (S.info n).tags
/-- the table the encoder walks: the aux struct's if there is a custom marshaller -/
def Schema.encTable (S : Schema) (n : String) : List Field :=
  match (S.info n).aux with
  | some t => t
  | none => (S.info n).tags

/-! ### Go type text -> codec kind (hand-written; anything unknown makes the model refuse) -/

def tyOfText (s : String) : Ty :=
  if s == "string" ∨ s == "types.Status" then .str
  else if s == "int" ∨ s == "uint" ∨ s == "uint8" ∨ s == "uint16" ∨ s == "uint64" ∨ s == "int64" ∨ s == "time.Duration" then .int
  else if s == "bool" then .bool
  else if s == "time.Time" then .time
  else if s == "*time.Time" then .ptr .time
  else if s == "netip.Addr" then .addr
  else if s == "*netip.Addr" then .ptr .addr
  else if s == "types.Direction" then .dir
  else if s == "results.SortOrder" then .sort
  else if s == "[]string" ∨ s == "Interfaces" then .slice .str
  else if s == "Rows" then .slice (.struct "Row")
  else if s == "HostsStatuses" then .map (.struct "Status")
  else if s == "*workload.Stats" then .ptr (.struct "Stats")
  else if s == "DNSResolution" ∨ s == "Status" ∨ s == "Summary" ∨ s == "TimeRange" ∨ s == "Timings" ∨ s == "Hits"
       ∨ s == "Query" ∨ s == "Labels" ∨ s == "Attributes" then .struct s
  else if s == "types.LabelSelector" then .struct "LabelSelector"
  else if s == "types.Counters" then .struct "Counters"
  else .unknown s

/-- regenerated rows of a struct type -/
def rowsOf (name : String) : List (List String) :=
  if name == "Args" then Gen.Facts.c17_fields_Args
  else if name == "DNSResolution" then Gen.Facts.c17_fields_DNSResolution
  else if name == "Statement" then Gen.Facts.c17_fields_Statement
  else if name == "LabelSelector" then Gen.Facts.c17_fields_LabelSelector
  else if name == "Counters" then Gen.Facts.c17_fields_Counters
  else if name == "Stats" then Gen.Facts.c17_fields_Stats
  else if name == "Result" then Gen.Facts.c17_fields_Result
  else if name == "Status" then Gen.Facts.c17_fields_Status
  else if name == "Summary" then Gen.Facts.c17_fields_Summary
  else if name == "TimeRange" then Gen.Facts.c17_fields_TimeRange
  else if name == "Timings" then Gen.Facts.c17_fields_Timings
  else if name == "Hits" then Gen.Facts.c17_fields_Hits
  else if name == "Query" then Gen.Facts.c17_fields_Query
  else if name == "Row" then Gen.Facts.c17_fields_Row
  else if name == "Labels" then Gen.Facts.c17_fields_Labels
  else if name == "Attributes" then Gen.Facts.c17_fields_Attributes
  else []

def structNames : List String :=
  ["Args", "DNSResolution", "Statement", "LabelSelector", "Counters", "Stats", "Result", "Status", "Summary",
   "TimeRange", "Timings", "Hits", "Query", "Row", "Labels", "Attributes"]

def fieldOfRow : List String → Field
  | [n, k, o, t] => { name := n, key := k, omitEmpty := o == "omitempty", ty := tyOfText t }
  | _ => { name := "?", key := "?", omitEmpty := false, ty := .unknown "bad-row" }

def isEmbeddedRow (r : List String) : Bool := r.getD 2 "" == "embedded"

/-- fields of a struct without its embedded structs -/
def plainFields (rows : List (List String)) : List Field :=
  (rows.filter fun r => !isEmbeddedRow r).map fieldOfRow

/-- rows -> fields; the fields of an embedded struct are promoted (spliced in, as encoding/json
    does; one level, an embedded struct of an unknown type contributes nothing) -/
def fieldsOfRows (rows : List (List String)) : List Field :=
  rows.flatMap fun r =>
    if isEmbeddedRow r then
      match tyOfText (r.getD 3 "") with
      | .struct s => plainFields (rowsOf s)
      | _ => []
    else [fieldOfRow r]

/-- the schema regenerated from the current source -/
def genSchema : Schema where
  structs := structNames.map fun n =>
    (n, { tags := fieldsOfRows (rowsOf n),
          aux := if n == "Labels" then some (fieldsOfRows Gen.Facts.c17_aux_Labels)
                 else if n == "Attributes" then some (fieldsOfRows Gen.Facts.c17_aux_Attributes)
                 else none })

/-! ### encoder -/

def zeroSec : Int := -62135596800   -- 0001-01-01T00:00:00Z, `time.Time{}`

/-- Go's `isEmptyValue` (encoding/json) / jsoniter's `IsEmpty` for the kinds that occur -/
def isEmptyVal : Val → Bool
  | .str s => s == "-"
  | .int i => i == 0
  | .bool b => !b
  | .nil => true
  | .list xs => xs.isEmpty
  | .map kvs => kvs.isEmpty
  | _ => false

/-- the aux structs hold `*time.Time` / `*netip.Addr` where the struct holds the value:
    nil iff `IsZero()` / not `IsValid()` (identity on every other field) -/
def wrapAux : Ty → Val → Val
  | .ptr .time, .time s n o => if s = zeroSec ∧ n = 0 then .nil else .ptr (.time s n o)
  | .ptr .addr, .addr a => if a = "-" then .nil else .ptr (.addr a)
  | _, v => v

/-- `time.Time.MarshalJSON`: RFC 3339 text of the local wall clock with the zone in whole minutes;
    error for years outside 0..9999 and zone hours ≥ 24 -/
def encTime (sec nsec off : Int) : Except String J :=
  if sec + off < -62167219200 ∨ 253402300800 ≤ sec + off ∨ Int.tdiv off 60 ≤ -1440 ∨ 1440 ≤ Int.tdiv off 60 then .error "marshal"
  else .ok (.tstr (sec + off) nsec (Int.tdiv off 60))

/-- walk the encoder's table and the struct's fields in step -/
def encFields (e : Ty → Val → Except String J) : List Field → List (String × Val) → Except String (List (String × J))
  | [], [] => .ok []
  | f :: tbl, (k, v0) :: fs =>
    if k ≠ f.name then .error "model:no-field"
    else if f.omitEmpty && isEmptyVal (wrapAux f.ty v0) then encFields e tbl fs
    else
      match e f.ty (wrapAux f.ty v0) with
      | .error m => .error m
      | .ok j =>
        match encFields e tbl fs with
        | .error m => .error m
        | .ok r => .ok ((f.key, j) :: r)
  | _, _ => .error "model:no-field"

def encList (e : Val → Except String J) : List Val → Except String (List J)
  | [] => .ok []
  | v :: r =>
    match e v with
    | .error m => .error m
    | .ok j =>
      match encList e r with
      | .error m => .error m
      | .ok js => .ok (j :: js)

def encKeyed (e : Val → Except String J) : List (String × Val) → Except String (List (String × J))
  | [] => .ok []
  | (k, v) :: r =>
    match e v with
    | .error m => .error m
    | .ok j =>
      match encKeyed e r with
      | .error m => .error m
      | .ok js => .ok ((k, j) :: js)

def mapOk {α β : Type} (f : α → β) : Except String α → Except String β
  | .ok a => .ok (f a)
  | .error m => .error m

def enc (S : Schema) : Nat → Ty → Val → Except String J
  | 0, _, _ => .error "model:fuel"
  | fuel + 1, ty, v =>
    match ty, v with
    | .str, .str s => .ok (.str s)
    | .int, .int i => .ok (.num i)
    | .bool, .bool b => .ok (.bool b)
    | .time, .time s n o => encTime s n o
    | .addr, .addr a => .ok (.astr a)
    | .dir, .int i => .ok (.str (Gen.EnumJSON.Direction_String i))
    | .sort, .int i => .ok (.str (Gen.EnumJSON.SortOrder_String i))
    | .ptr _, .nil => .ok .null
    | .ptr t, .ptr v => enc S fuel t v
    | .slice _, .nil => .ok .null
    | .slice t, .list xs => mapOk J.arr (encList (enc S fuel t) xs)
    | .map _, .nil => .ok .null
    | .map t, .map kvs => mapOk J.obj (encKeyed (enc S fuel t) kvs)
    | .struct n, .obj n' fs =>
      if n ≠ n' then .error "model:type" else mapOk J.obj (encFields (enc S fuel) (S.encTable n) fs)
    | .unknown s, _ => .error ("model:unknown-type:" ++ s)
    | _, _ => .error "model:type"

/-! ### decoder -/

def zeroVal (S : Schema) : Nat → Ty → Val
  | _, .str => .str "-"
  | _, .int => .int 0
  | _, .dir => .int 0
  | _, .sort => .int 0
  | _, .bool => .bool false
  | _, .time => .time zeroSec 0 0
  | _, .addr => .addr "-"
  | fuel + 1, .struct n => .obj n ((S.tags n).map fun f => (f.name, zeroVal S fuel f.ty))
  | _, _ => .nil

/-- one field of the decoder's table: the value under its key, or the zero value if the key is
    absent or `null` -/
def decField (d : Ty → J → Except String Val) (z : Ty → Val) (f : Field) (kvs : List (String × J)) : Except String Val :=
  match kvs.lookup f.key with
  | none => .ok (z f.ty)
  | some .null => .ok (z f.ty)
  | some j => d f.ty j

def decFields (d : Ty → J → Except String Val) (z : Ty → Val) :
    List Field → List (String × J) → Except String (List (String × Val))
  | [], _ => .ok []
  | f :: tbl, kvs =>
    match decField d z f kvs with
    | .error m => .error m
    | .ok v =>
      match decFields d z tbl kvs with
      | .error m => .error m
      | .ok r => .ok ((f.name, v) :: r)

def decList (d : J → Except String Val) : List J → Except String (List Val)
  | [] => .ok []
  | j :: r =>
    match d j with
    | .error m => .error m
    | .ok v =>
      match decList d r with
      | .error m => .error m
      | .ok vs => .ok (v :: vs)

def decKeyed (d : J → Except String Val) : List (String × J) → Except String (List (String × Val))
  | [] => .ok []
  | (k, j) :: r =>
    match d j with
    | .error m => .error m
    | .ok v =>
      match decKeyed d r with
      | .error m => .error m
      | .ok vs => .ok ((k, v) :: vs)

def dec (S : Schema) : Nat → Ty → J → Except String Val
  | 0, _, _ => .error "model:fuel"
  | fuel + 1, ty, j =>
    match ty, j with
    | .str, .str s => .ok (.str s)
    | .int, .num i => .ok (.int i)
    | .bool, .bool b => .ok (.bool b)
    | .time, .tstr l n m => .ok (.time (l - m * 60) n (m * 60))
    | .addr, .astr a => .ok (.addr a)
    | .dir, .str s => .ok (.int (Gen.EnumJSON.DirectionFromString s))
    | .sort, .str s => .ok (.int (Gen.EnumJSON.SortOrderFromString s))
    | .ptr _, .null => .ok .nil
    | .ptr t, j => mapOk Val.ptr (dec S fuel t j)
    | .slice _, .null => .ok .nil
    | .slice t, .arr xs => mapOk Val.list (decList (dec S fuel t) xs)
    | .map _, .null => .ok .nil
    | .map t, .obj kvs => mapOk Val.map (decKeyed (dec S fuel t) kvs)
    | .struct n, .obj kvs => mapOk (Val.obj n) (decFields (dec S fuel) (zeroVal S fuel) (S.tags n) kvs)
    | .unknown s, _ => .error ("model:unknown-type:" ++ s)
    | _, _ => .error "unmarshal"

/-! ### observable: set of key paths of the document -/

mutual
def paths (p : String) : J → List String
  | .arr xs => pathsList (p ++ "[]") xs
  | .obj kvs => pathsKeyed p kvs
  | _ => []
def pathsList (p : String) : List J → List String
  | [] => []
  | j :: r => paths p j ++ pathsList p r
def pathsKeyed (p : String) : List (String × J) → List String
  | [] => []
  | (k, j) :: r => joinPath p k :: (paths (joinPath p k) j ++ pathsKeyed p r)
end

def insertDedup (s : String) : List String → List String
  | [] => [s]
  | x :: xs => if s = x then x :: xs else if s < x then s :: x :: xs else x :: insertDedup s xs

def showPaths (j : J) : String := Wire.showList ((paths "" j).foldr insertDedup [])

/-! ### wire -/

def enumToString : Kind → Int → String
  | .dir, n => Gen.EnumJSON.Direction_String n
  | .sort, n => Gen.EnumJSON.SortOrder_String n

def enumFromString : Kind → String → Int
  | .dir, s => Gen.EnumJSON.DirectionFromString s
  | .sort, s => Gen.EnumJSON.SortOrderFromString s

def fuelTop : Nat := 12

/-- wire ops:
  `enum <dir|sort> <n>`                       -> `<name> <FromString name>`
  `enumjson <dir|sort> <std|ji> <val|ptr> <n>` -> `<json text> <decoded n>`
  `fromstr <dir|sort> <string>`               -> `<FromString string>`
  `rt <Args|Statement|Result|Row> <std|ji> <val|ptr> <term>` -> `<decoded term> <key paths>` | `err:<marshal|unmarshal>` -/
def handle : List String → String
  | ["enum", kind, n] =>
    match parseKind kind, Wire.parseInt n with
    | some k, some n => Wire.escape (enumToString k n) ++ " " ++ toString (enumFromString k (enumToString k n))
    | _, _ => "bad-args"
  | ["enumjson", kind, _lib, _mode, n] =>
    match parseKind kind, Wire.parseInt n with
    | some k, some n =>
      Wire.escape ("\"" ++ enumToString k n ++ "\"") ++ " " ++ toString (enumFromString k (enumToString k n))
    | _, _ => "bad-args"
  | ["fromstr", kind, s] =>
    match parseKind kind with
    | some k => toString (enumFromString k (Wire.unescape s))
    | none => "bad-args"
  | ["rt", ty, _lib, _mode, term] =>
    match parseTerm term with
    | none => "bad-args"
    | some v =>
      match enc genSchema fuelTop (.struct ty) v with
      | .error e => if e.startsWith "model:" then e else "err:" ++ e
      | .ok j =>
        match dec genSchema fuelTop (.struct ty) j with
        | .error e => if e.startsWith "model:" then e else "err:" ++ e
        | .ok d => showTerm d ++ " " ++ showPaths j
  | _ => "bad-op"

end C17
