import GoProbeModel.Spec.C14
import GoProbeModel.Gen.SortBy

/-!
C14 — executable model of the code as written.
* the comparators are NOT modelled by hand: `Gen.SortBy.By`, `Row_Less`, `Labels_Less`,
  `Attributes_Less` are regenerated from pkg/results/{sort,result}.go on every run;
* `sort.Sort` is a parameter: the model uses insertion sort (`C14.sortBy`) — by `sorted_unique`
  (Props) every correct sort yields the same list on the property's domain;
* the two limit sites are hand models pinned by facts:
  `limitL` = the tail of `(*Statement).PostProcess` (pkg/query/query.go),
  `limitD` = `finalizeResult` (cmd/global-query/pkg/distributed/query.go).
-/
namespace C14
open Gen.SortBy

def toGenAddr (a : Addr) : GoStd.Addr := { bitlen := a.bitlen, val := a.val, zone := a.zone }
def ofGenAddr (a : GoStd.Addr) : Addr := { bitlen := a.bitlen, val := a.val, zone := a.zone }

def toGen (r : Row) : Gen.SortBy.Row :=
  { Labels := { Timestamp := { instant := r.inst, loc := r.loc }, Iface := r.iface, Hostname := r.host, HostID := r.hostId },
    Attributes := { SrcIP := toGenAddr r.sip, DstIP := toGenAddr r.dip, IPProto := r.proto, DstPort := r.dport },
    Counters := { BytesRcvd := r.br, BytesSent := r.bs, PacketsRcvd := r.pr, PacketsSent := r.ps } }

def ofGen (g : Gen.SortBy.Row) : Row :=
  { inst := g.Labels.Timestamp.instant, loc := g.Labels.Timestamp.loc, host := g.Labels.Hostname,
    hostId := g.Labels.HostID, iface := g.Labels.Iface,
    sip := ofGenAddr g.Attributes.SrcIP, dip := ofGenAddr g.Attributes.DstIP,
    dport := g.Attributes.DstPort, proto := g.Attributes.IPProto,
    br := g.Counters.BytesRcvd, bs := g.Counters.BytesSent, pr := g.Counters.PacketsRcvd, ps := g.Counters.PacketsSent }

/-- `if s.NumResults != 0 && s.NumResults < uint64(len(result.Rows)) { result.Rows = result.Rows[:s.NumResults] }` -/
def limitL {α : Type} (n : Nat) (l : List α) : List α :=
  if n ≠ 0 ∧ n < l.length then l.take n else l

/-- `finalizeResult`: PostProcess, then `limit := min(stmt.NumResults, limitUpperBound); if limit < len { rows[:limit] }` -/
def limitD {α : Type} (n ub : Nat) (l : List α) : List α :=
  let l1 := limitL n l
  let m := min n ub
  if m < l1.length then l1.take m else l1

/-- mode `L`: `results.By(sort,dir,asc).Sort(rows)` then `PostProcess`; `none` = `By` panics -/
def runL (sort dir : Int) (asc : Bool) (n : Nat) (rows : List Gen.SortBy.Row) : Option (List Gen.SortBy.Row) :=
  match By sort dir asc with
  | none => none
  | some f => some (limitL n (sortBy f rows))

/-- mode `D`: `finalizeResult` returns before `By` is evaluated when the `RowsMap` is empty -/
def runD (sort dir : Int) (asc : Bool) (n ub : Nat) (rows : List Gen.SortBy.Row) : Option (List Gen.SortBy.Row) :=
  if rows.isEmpty then some [] else
  match By sort dir asc with
  | none => none
  | some f => some (limitD n ub (sortBy f rows))

def run (mode : String) (sort dir : Int) (asc : Bool) (n ub : Nat) (rows : List Gen.SortBy.Row) :
    Option (List Gen.SortBy.Row) :=
  if mode == "D" then runD sort dir asc n ub rows else runL sort dir asc n rows

def handle (args : List String) : String :=
  match parseCase args with
  | none => "bad-case"
  | some c =>
    let big := c.rows.length + 1000
    let outs := c.shuffles.mapM fun sh => do
      let input := sh.map fun i => toGen (c.rows.getD i default)
      let canon := fun (o : List Gen.SortBy.Row) => o.map fun g => canonIdx c.rows (ofGen g)
      let lim ← run c.mode c.sort c.dir c.asc c.limit c.ub input
      let full ← run c.mode c.sort c.dir c.asc big big input
      pure (canon lim, canon full)
    match outs with
    | none => "panic"
    | some outs => showOutput outs

end C14
