import GoProbeModel.Spec.C11
import GoProbeModel.Gen.WorkMgr

/-!
C11 — executable model of the query engine's fan-out / fan-in **as written** (after the `fix:`
commit that sizes the workload queue to the number of workloads):

* `walkDirs`            — `DBWorkManager.walkDB`: the day directories of an interface that intersect the
                           query range (`tfirst < day + EpochDay ∧ day < tlast + DBWriteInterval`), in name order;
* `createWorkerJobs`    — `DBWorkManager.CreateWorkerJobs`: the directories are appended to a bulk, a
                           bulk of `WorkBulkSize` (regenerated constant) directories becomes a workload,
                           the rest is flushed at the end; `firstCovered` / `lastCovered` are the
                           manager's `tFirstCovered` / `tLastCovered`;
* `process`             — the worker loop body of `grabAndProcessWorkload` for one workload: a fresh
                           result map, `readBlocksAndEvaluate` per directory (blocks outside
                           `[tFirstCovered, tLastCovered]` skipped, `SetOrUpdate` per matching flow),
                           statistics of the workload;
* `Proto`               — the channel protocol as a small-step machine: managers are created one after
                           the other (producer sends into the workload channel, blocks when it is full),
                           then each manager's `n` workers receive workloads in ANY interleaving, send
                           their partial result into the bounded map channel, exit when the (closed)
                           workload channel is drained; `wg.Wait`, next manager (Go map order: ANY
                           order); `close(mapChan)`; the aggregator receives concurrently all along;
* `aggregate`           — `QueryRunner.aggregate`: per arriving item the statistics are added to the
                           interface's final map and to the final statistics, an empty item is skipped,
                           otherwise `Merge` (= `SetOrUpdate` of every entry), then the item is released
                           (`Clear` in low-memory mode, `ClearFast` otherwise);
* `renderFinal`         — the part of `RunStatement` after the fan-in: rows of all final maps, totals =
                           sum over the rows, hits = number of rows, statistics = sum over the
                           interfaces (everything dropped when there is no row at all).

`handle` runs the protocol machine under a seeded pseudo-random scheduler once per configuration of
the case and prints what harness/c11.go prints. Outside the model (runtime): fairness of the Go
scheduler and goroutine preemption (every *enabled* step is assumed to be taken eventually), query
cancellation and the memory watchdog, unreadable databases (the error paths of the workers).
-/
namespace C11
open DB

/-! ### directories and workloads -/

structure DayDir where
  iface : String
  day : Int
  blocks : List WriteOut       -- in file order (ascending block time)
  deriving Repr, DecidableEq

/-- consecutive write-outs of the same UTC day form a day directory -/
def groupDays (iface : String) : List WriteOut → List DayDir
  | [] => []
  | w :: ws =>
    match groupDays iface ws with
    | d :: ds => if d.day = dayOf w.ts then { d with blocks := w :: d.blocks } :: ds else ⟨iface, dayOf w.ts, [w]⟩ :: d :: ds
    | [] => [⟨iface, dayOf w.ts, [w]⟩]

/-- `walkDB`: the directories of the interface that intersect `[first, last]` -/
def walkDirs (first last : Int) (iface : String) (hist : List WriteOut) : List DayDir :=
  (groupDays iface (hist.filter (·.iface == iface))).filter fun d =>
    decide (first < d.day + Gen.WorkMgr.EpochDay) && decide (d.day < last + Gen.WorkMgr.DBWriteInterval)

/-- `tFirstCovered` after `CreateWorkerJobs` -/
def firstCovered (first : Int) : List DayDir → Int
  | d :: _ => match d.blocks with
    | b :: _ => if first < b.ts then b.ts else first
    | [] => first
  | [] => first

/-- `tLastCovered` after `CreateWorkerJobs` -/
def lastCovered (last : Int) (dirs : List DayDir) : Int :=
  match dirs.getLast? with
  | some d => match d.blocks.getLast? with
    | some b => if last > b.ts then b.ts else last
    | none => last
  | none => last

/-- the walk function of `CreateWorkerJobs`: append to the bulk, hand the bulk over when it is full -/
def bulkLoop (size : Nat) : List DayDir → List DayDir → List (List DayDir) → List DayDir × List (List DayDir)
  | [], bulk, acc => (bulk, acc)
  | d :: ds, bulk, acc =>
    if (bulk ++ [d]).length = size then bulkLoop size ds [] (acc ++ [bulk ++ [d]])
    else bulkLoop size ds (bulk ++ [d]) acc

/-- `CreateWorkerJobs`: the workloads of one manager -/
def createWorkerJobs (size : Nat) (dirs : List DayDir) : List (List DayDir) :=
  let r := bulkLoop size dirs [] []
  if r.1.length > 0 then r.2 ++ [r.1] else r.2

/-- a workload together with what its manager tells the worker (`w.iface`, `w.tFirstCovered`, `w.tLastCovered`) -/
structure Job where
  iface : String
  tFirst : Int
  tLast : Int
  dirs : List DayDir
  deriving Repr, DecidableEq

structure Stats where
  workloads : Nat
  dirs : Nat
  blocks : Nat
  corrupt : Nat
  deriving Repr, DecidableEq

def Stats.zero : Stats := ⟨0, 0, 0, 0⟩
def Stats.add (a b : Stats) : Stats := ⟨a.workloads + b.workloads, a.dirs + b.dirs, a.blocks + b.blocks, a.corrupt + b.corrupt⟩

/-- what a worker sends over the map channel (`AggFlowMapWithMetadata`) -/
structure Part where
  iface : String
  map : AMap
  stats : Stats
  deriving Repr, DecidableEq

def flowItems (q : Query) (w : WriteOut) : List (Key × Ctr) :=
  (w.flows.filter q.cond.sat).map fun f => (keyOf q.sel w f, ctrOf f)

/-- one block in `readBlocksAndEvaluate` -/
def evalBlock (q : Query) (tF tL : Int) (acc : AMap × Nat) (w : WriteOut) : AMap × Nat :=
  if w.ts < tF || w.ts > tL then acc else (acc.1.addAll (flowItems q w), acc.2 + 1)

def evalDir (q : Query) (tF tL : Int) (acc : AMap × Nat) (d : DayDir) : AMap × Nat :=
  d.blocks.foldl (evalBlock q tF tL) acc

/-- one iteration of `for wl := range workloadChan` -/
def process (q : Query) (j : Job) : Part :=
  let r := j.dirs.foldl (evalDir q j.tFirst j.tLast) ([], 0)
  ⟨j.iface, r.1, ⟨1, j.dirs.length, r.2, 0⟩⟩

/-- the jobs of the manager of one interface -/
def jobsOf (q : Query) (size : Nat) (hist : List WriteOut) (iface : String) : List Job :=
  let dirs := walkDirs q.first q.last iface hist
  (createWorkerJobs size dirs).map fun wl => ⟨iface, firstCovered q.first dirs, lastCovered q.last dirs, wl⟩

/-- the managers `RunStatement` keeps: those that have work to do -/
def managers (q : Query) (size : Nat) (hist : List WriteOut) : List (List Job) :=
  ((q.selected hist).map (jobsOf q size hist)).filter (fun js => !js.isEmpty)

/-! ### fan-in -/

structure Final where
  iface : String
  map : AMap
  stats : Stats
  deriving Repr, DecidableEq

/-- `AggFlowMapWithMetadata.Merge`: `SetOrUpdate` of every entry of the source -/
def mergeMap (dst src : AMap) : AMap := dst.addAll src

/-- releasing a consumed item: both modes leave nothing behind that the result depends on -/
def release (lowMem : Bool) (p : Part) : Part :=
  if lowMem then { p with map := [], stats := Stats.zero } else { p with map := [] }

/-- one iteration of `for item := range mapChan` on the entry of one interface -/
def aggEntry (lowMem : Bool) (item : Part) (e : Final) : Final :=
  if e.iface = item.iface then
    let e1 := { e with stats := e.stats.add item.stats }
    if item.map.length = 0 then e1
    else
      let e2 := { e1 with map := mergeMap e1.map item.map }
      let _released := release lowMem item
      e2
  else e

def aggStep (lowMem : Bool) (fm : List Final) (item : Part) : List Final := fm.map (aggEntry lowMem item)

/-- `QueryRunner.aggregate` on the sequence of items in arrival order -/
def aggregate (lowMem : Bool) (ifaces : List String) (items : List Part) : List Final :=
  items.foldl (aggStep lowMem) (ifaces.map fun i => ⟨i, [], Stats.zero⟩)

def statsStr (s : Stats) : String :=
  toString s.workloads ++ ":" ++ toString s.dirs ++ ":" ++ toString s.blocks ++ ":" ++ toString s.corrupt

def allRows (fm : List Final) : List (Key × Ctr) := fm.flatMap (·.map)

def sumStats (fm : List Final) : Stats := (fm.map (·.stats)).foldl Stats.add Stats.zero

/-- the result `RunStatement` builds from the aggregation result -/
def renderFinal (fm : List Final) : String :=
  -- (the processing statistics are reported whether or not any flow matched)
  renderResult (allRows fm) ++ "|stats=" ++ statsStr (sumStats fm)

/-! ### the channel protocol -/
namespace Proto

inductive WState (J P : Type) where
  | idle
  | busy (j : J)
  | ready (p : P)
  | done
  deriving Repr, DecidableEq

/-- a work manager inside `CreateWorkerJobs` -/
structure Mgr (J : Type) where
  todo : List J        -- workloads still to be handed over
  chan : List J        -- content of its workload channel
  cap : Nat            -- capacity of that channel
  deriving Repr, DecidableEq

structure PState (J P : Type) where
  creating : List (Mgr J)                         -- managers not yet created; the head is inside CreateWorkerJobs
  created : List (List J)                         -- (closed) workload channels of managers waiting for ExecuteWorkerReadJobs
  running : Option (List J × List (WState J P))   -- workload channel and workers of the manager inside ExecuteWorkerReadJobs
  mapChan : List P                                -- content of the map channel
  closed : Bool                                   -- close(mapChan) has happened
  recv : List P                                   -- items the aggregator has consumed, in order
  finished : Bool                                 -- the aggregator has pushed the final result
  deriving Repr, DecidableEq

variable {J P : Type}

/-- one step of one goroutine; `n` workers per manager, map channel of capacity `mapCap` -/
inductive Step (n mapCap : Nat) (proc : J → P) : PState J P → PState J P → Prop
  | produce {j js ch cap ms cr run mc cl rv fin} (h : ch.length < cap) :
      Step n mapCap proc ⟨⟨j :: js, ch, cap⟩ :: ms, cr, run, mc, cl, rv, fin⟩ ⟨⟨js, ch ++ [j], cap⟩ :: ms, cr, run, mc, cl, rv, fin⟩
  | created {ch cap ms cr run mc cl rv fin} :
      Step n mapCap proc ⟨⟨[], ch, cap⟩ :: ms, cr, run, mc, cl, rv, fin⟩ ⟨ms, cr ++ [ch], run, mc, cl, rv, fin⟩
  | start {a ch b mc cl rv fin} :
      Step n mapCap proc ⟨[], a ++ ch :: b, none, mc, cl, rv, fin⟩ ⟨[], a ++ b, some (ch, List.replicate n .idle), mc, cl, rv, fin⟩
  | take {cr j q a b mc cl rv fin} :
      Step n mapCap proc ⟨[], cr, some (j :: q, a ++ .idle :: b), mc, cl, rv, fin⟩ ⟨[], cr, some (q, a ++ .busy j :: b), mc, cl, rv, fin⟩
  | work {cr j q a b mc cl rv fin} :
      Step n mapCap proc ⟨[], cr, some (q, a ++ .busy j :: b), mc, cl, rv, fin⟩ ⟨[], cr, some (q, a ++ .ready (proc j) :: b), mc, cl, rv, fin⟩
  | send {cr p q a b mc cl rv fin} (h : mc.length < mapCap) :
      Step n mapCap proc ⟨[], cr, some (q, a ++ .ready p :: b), mc, cl, rv, fin⟩ ⟨[], cr, some (q, a ++ .idle :: b), mc ++ [p], cl, rv, fin⟩
  | exit {cr a b mc cl rv fin} :
      Step n mapCap proc ⟨[], cr, some ([], a ++ .idle :: b), mc, cl, rv, fin⟩ ⟨[], cr, some ([], a ++ .done :: b), mc, cl, rv, fin⟩
  | join {cr ws mc cl rv fin} (h : ∀ w ∈ ws, w = WState.done) :
      Step n mapCap proc ⟨[], cr, some ([], ws), mc, cl, rv, fin⟩ ⟨[], cr, none, mc, cl, rv, fin⟩
  | close {mc rv fin} :
      Step n mapCap proc ⟨[], [], none, mc, false, rv, fin⟩ ⟨[], [], none, mc, true, rv, fin⟩
  | recv {cg cr run p mc cl rv} :
      Step n mapCap proc ⟨cg, cr, run, p :: mc, cl, rv, false⟩ ⟨cg, cr, run, mc, cl, rv ++ [p], false⟩
  | finish {cg cr run rv} :
      Step n mapCap proc ⟨cg, cr, run, [], true, rv, false⟩ ⟨cg, cr, run, [], true, rv, true⟩

/-- reachability -/
inductive Reach (n mapCap : Nat) (proc : J → P) : PState J P → PState J P → Prop
  | refl (s) : Reach n mapCap proc s s
  | tail {s t u} : Reach n mapCap proc s t → Step n mapCap proc t u → Reach n mapCap proc s u

/-- the state `RunStatement` starts from: no manager created yet -/
def init (mgrs : List (Mgr J)) : PState J P := ⟨mgrs, [], none, [], false, [], false⟩

/-! #### executable successor function -/

/-- all decompositions `l = a ++ x :: b` -/
def splits : List α → List (List α × α × List α)
  | [] => []
  | x :: xs => ([], x, xs) :: (splits xs).map fun (a, y, b) => (x :: a, y, b)

def allDone : List (WState J P) → Bool
  | [] => true
  | .done :: ws => allDone ws
  | _ :: _ => false

/-- every state one step away (the executable counterpart of `Step`) -/
def next (n mapCap : Nat) (proc : J → P) (s : PState J P) : List (PState J P) :=
  (match s.creating with
   | ⟨j :: js, ch, cap⟩ :: ms => if ch.length < cap then [{ s with creating := ⟨js, ch ++ [j], cap⟩ :: ms }] else []
   | ⟨[], ch, _⟩ :: ms => [{ s with creating := ms, created := s.created ++ [ch] }]
   | [] =>
     match s.running with
     | none =>
       if s.created.isEmpty then (if s.closed then [] else [{ s with closed := true }])
       else (splits s.created).map fun (a, ch, b) => { s with created := a ++ b, running := some (ch, List.replicate n .idle) }
     | some (q, ws) =>
       (if q.isEmpty && allDone ws then [{ s with running := none }] else []) ++
       (splits ws).flatMap fun (a, w, b) =>
         match w, q with
         | .idle, j :: q' => [{ s with running := some (q', a ++ .busy j :: b) }]
         | .idle, [] => [{ s with running := some ([], a ++ .done :: b) }]
         | .busy j, _ => [{ s with running := some (q, a ++ .ready (proc j) :: b) }]
         | .ready p, _ => if s.mapChan.length < mapCap then [{ s with running := some (q, a ++ .idle :: b), mapChan := s.mapChan ++ [p] }] else []
         | .done, _ => []) ++
  (match s.mapChan, s.finished with
   | p :: mc, false => [{ s with mapChan := mc, recv := s.recv ++ [p] }]
   | [], false => if s.closed then [{ s with finished := true }] else []
   | _, true => [])

/-- measure: what is still to be done (every step takes exactly one unit) -/
def wWeight : WState J P → Nat
  | .idle => 1
  | .busy _ => 4
  | .ready _ => 3
  | .done => 0

def mu (n : Nat) (s : PState J P) : Nat :=
  (s.creating.map fun m => 5 * m.todo.length + 4 * m.chan.length + n + 3).sum +
  (s.created.map fun ch => 4 * ch.length + n + 2).sum +
  (match s.running with
   | none => 0
   | some (q, ws) => 1 + 4 * q.length + (ws.map wWeight).sum) +
  s.mapChan.length + (if s.closed then 0 else 1) + (if s.finished then 0 else 1)

def lcg (x : Nat) : Nat := (x * 6364136223846793005 + 1442695040888963407) % 18446744073709551616

/-- run under a seeded scheduler that picks one of the enabled steps until none is left -/
def exec (n mapCap : Nat) (proc : J → P) : Nat → Nat → PState J P → PState J P
  | 0, _, s => s
  | fuel + 1, seed, s =>
    match next n mapCap proc s with
    | [] => s
    | t :: ts =>
      let seed' := lcg seed
      exec n mapCap proc fuel seed' (((t :: ts)[(seed' / 65536) % (ts.length + 1)]?).getD t)

end Proto

/-! ### one query under one configuration -/

/-- capacity of the map channel (`make(chan hashmap.AggFlowMapWithMetadata, 1024)`) -/
def mapChanCap : Nat := 1024

/-- the managers as `CreateWorkerJobs` sizes their queues: room for every workload -/
def mgrsOf (jobs : List (List Job)) : List (Proto.Mgr Job) := jobs.map fun js => ⟨js, [], js.length⟩

/-- run the protocol with `n` workers under the scheduler seeded with `seed`; the items in the order the aggregator consumed them -/
def arrivals (q : Query) (n seed : Nat) (jobs : List (List Job)) : List Part :=
  let s0 : Proto.PState Job Part := Proto.init (mgrsOf jobs)
  (Proto.exec n mapChanCap (process q) (Proto.mu n s0 + 1) seed s0).recv

def runQuery (q : Query) (hist : List WriteOut) (n : Nat) (lowMem : Bool) (seed : Nat) : String :=
  renderFinal (aggregate lowMem (q.selected hist)
    (arrivals q n seed (managers q Gen.WorkMgr.WorkBulkSize hist)))

def cfgName (n : Nat) (lm : Bool) : String := "w" ++ toString n ++ "l" ++ Wire.boolStr lm

/-- what harness/c11.go prints for the case -/
def handle (args : List String) : String :=
  match parseCase args with
  | none => "bad-args"
  | some c =>
    let k := c.workers.length * c.lowmem.length
    if c.q.first > c.q.last then "err:prepare|cfgs=" ++ toString k
    else if (c.q.selected c.hist).isEmpty then "err:noiface|cfgs=" ++ toString k
    else
      let cfgs := c.workers.flatMap fun n => c.lowmem.map fun lm => (n, lm)
      let outs := cfgs.map fun (n, lm) => (cfgName n lm, runQuery c.q c.hist n lm (c.sched + 1000 * n + (if lm then 7 else 0)))
      match outs with
      | [] => "bad-args"
      | (c0, o0) :: rest =>
        match rest.find? (fun x => x.2 != o0) with
        | some (c1, o1) => "differ:" ++ c0 ++ "=" ++ o0 ++ ";" ++ c1 ++ "=" ++ o1
        | none => o0 ++ "|cfgs=" ++ toString k

end C11
