import GoProbeModel.Spec.C25

/-!
C25 — executable model of the merge commit protocol of pkg/goDB/merge.go at the level of the
directory operations that change what readers of the destination see, and of the three readers
(`info.GetInterfaces`, `walkDB` behind queries and listings, `listInterfaceDays` of a later merge).

Abstraction (same style as Model/WriteOut.lean): the destination root holds `stages`
`.gpdb-merge-stage-*` directories and the interface directories; a day directory is an `Entry`
(interface, day timestamp, kind `regular` = `<day>_<summary>` or `backup` =
`<day>_<summary>.gpdb-merge-backup-<nanos>`, its blocks, the files still present in it: `m` =
.blockmeta, `0`–`7` = the column files). Staging (`stageCopyDay` / `rebuildDayToStage`) happens
below the stage root and is not represented: whatever it wrote, the day that `commitStagedDay`
renames into place holds the documented per-day result `C24.specDay` (property C24).

Program of one merge (`MergeDatabases` → per planned day `commitStagedDay`):
`mkstage`, then per planned day `mkdir`* (missing interface / year / month directory, `MkdirAll`),
`renbackup` (only if the destination lists the day: `rename(existing, existing.gpdb-merge-backup-N)`),
`renfinal` (`rename(staged, final)`), `unlink`×files + `rmdir` (deferred `RemoveAll(backup)`), and
finally `rmstage` (deferred `RemoveAll(stageRoot)`, also on the error path).
-/
namespace C25
open DB

inductive Kind where
  | regular | backup
  deriving Repr, DecidableEq

def colFiles : List Char := ['0', '1', '2', '3', '4', '5', '6', '7']
def allFiles : List Char := 'm' :: colFiles

structure Entry where
  iface : String
  day : Int
  kind : Kind
  blocks : C24.Day
  files : List Char
  deriving Repr, DecidableEq

structure Fs where
  stages : Nat              -- `.gpdb-merge-stage-*` directories in the root (leftovers and the running merge's)
  ifaces : List String      -- interface directories in the root
  dirs : List String        -- year / month directories, e.g. "eth0/2024", "eth0/2024/01"
  days : List Entry
  deriving Repr, DecidableEq

inductive Op where
  | mkstage
  | rmstage
  | mkdir (path : String)
  | renbackup (iface : String) (day : Int)
  | renfinal (iface : String) (day : Int) (blocks : C24.Day)
  | unlink (iface : String) (day : Int) (file : Char)
  | rmdir (iface : String) (day : Int)
  deriving Repr, DecidableEq

def Op.render : Op → String
  | .mkstage => "mkstage"
  | .rmstage => "rmstage"
  | .mkdir p => "mkdir:" ++ p
  | .renbackup i t => "renbackup:" ++ i ++ "/" ++ toString t
  | .renfinal i t _ => "renfinal:" ++ i ++ "/" ++ toString t
  | .unlink i t _ => "unlink:" ++ i ++ "/" ++ toString t
  | .rmdir i t => "rmdir:" ++ i ++ "/" ++ toString t

def inCell (i : String) (t : Int) (e : Entry) : Bool := e.iface == i && e.day == t

def apply (fs : Fs) : Op → Fs
  | .mkstage => { fs with stages := fs.stages + 1 }
  | .rmstage => { fs with stages := fs.stages - 1 }
  | .mkdir p => if p.contains '/' then { fs with dirs := fs.dirs ++ [p] } else { fs with ifaces := fs.ifaces ++ [p] }
  | .renbackup i t => { fs with days := fs.days.map fun e => if inCell i t e then { e with kind := .backup } else e }
  | .renfinal i t bs => { fs with days := fs.days ++ [{ iface := i, day := t, kind := .regular, blocks := bs, files := allFiles }] }
  | .unlink i t f =>
    let upd (e : Entry) : Entry := if inCell i t e && e.kind == .backup then { e with files := e.files.erase f } else e
    { fs with days := fs.days.map upd }
  | .rmdir i t => { fs with days := fs.days.filter fun e => !(inCell i t e && e.kind == .backup) }

def run (fs : Fs) (ops : List Op) : Fs := ops.foldl apply fs

/-- the day directories of (interface, day) -/
def cellOf (fs : Fs) (i : String) (t : Int) : List Entry := fs.days.filter (inCell i t)

/-- what `listInterfaceDays` + the day reader give the planner for a day that is listed once -/
def cellDay (es : List Entry) : Option C24.Day := es.head?.map (·.blocks)

/-! ### the merge program -/

structure Job where
  iface : String
  day : Int
  blocks : C24.Day            -- the staged day: the documented result
  existing : Option Entry     -- the destination's directory of that day, if listed
  deriving Repr, DecidableEq

/-- `listInterfaceDays` refuses an interface that has two directories with the same day timestamp -/
def dupIface (fs : Fs) (i : String) : Bool := !C24.nodupB ((fs.days.filter (·.iface == i)).map (·.day))

def selOf (src : C24.Ifaces) : List String := C24.sortNames (src.map (·.1))

/-- the interfaces processed before the merge stops (an interface without source days is skipped
    before its destination days are listed) -/
def goodIfaces (src : C24.Ifaces) (fs : Fs) : List String :=
  (selOf src).takeWhile fun i => (C24.ifaceDays src i).isEmpty || !dupIface fs i

def jobsOfIface (ow : Bool) (tol : Int) (src : C24.Ifaces) (fs : Fs) (i : String) : List Job :=
  (C24.sortInts (C24.dayKeys (C24.ifaceDays src i))).filterMap fun t =>
    (C24.getDay src i t).bind fun s =>
      let ex := (cellOf fs i t).head?
      (C24.specDay ow tol t s (ex.map (·.blocks))).newDay.map fun nb =>
        { iface := i, day := t, blocks := nb, existing := ex }

def jobs (ow : Bool) (tol : Int) (src : C24.Ifaces) (fs : Fs) : List Job :=
  (goodIfaces src fs).flatMap (jobsOfIface ow tol src fs)

/-- unlink order of the files present: the observed directory order first, anything else after it -/
def order (rm files : List Char) : List Char := rm.filter (files.contains ·) ++ files.filter (!rm.contains ·)

/-- `commitStagedDay` without the `MkdirAll` -/
def cellOps (rm : List Char) (j : Job) : List Op :=
  match j.existing with
  | none => [.renfinal j.iface j.day j.blocks]
  | some e =>
    [.renbackup j.iface j.day, .renfinal j.iface j.day j.blocks] ++
    (order rm e.files).map (.unlink j.iface j.day) ++ [.rmdir j.iface j.day]

def needDirs (j : Job) : List String :=
  let (y, ym) := yearMonth j.day
  [j.iface, j.iface ++ "/" ++ y, j.iface ++ "/" ++ ym]

def progJobs (rm : List Char) : List Job → List String → List Op
  | [], _ => []
  | j :: js, have_ =>
    let mk := (needDirs j).filter (!have_.contains ·)
    mk.map .mkdir ++ cellOps rm j ++ progJobs rm js (have_ ++ mk)

def program (ow : Bool) (tol : Int) (src : C24.Ifaces) (rm : List Char) (fs : Fs) : List Op :=
  if (selOf src).isEmpty then [] else
  [.mkstage] ++ progJobs rm (jobs ow tol src fs) (fs.ifaces ++ fs.dirs) ++ [.rmstage]

def mergeStatus (src : C24.Ifaces) (fs : Fs) : String :=
  if (goodIfaces src fs).length == (selOf src).length then "ok" else "err:duplicate-day"

/-- a complete (uninterrupted) merge -/
def mergeAll (ow : Bool) (tol : Int) (src : C24.Ifaces) (rm : List Char) (fs : Fs) : Fs × String :=
  (run fs (program ow tol src rm fs), mergeStatus src fs)

/-- a merge killed before its `c`-th event -/
def crash (ow : Bool) (tol : Int) (src : C24.Ifaces) (rm : List Char) (fs : Fs) (c : Nat) : Fs :=
  run fs ((program ow tol src rm fs).take c)

/-! ### readers -/

def stageName (n : Nat) : String := ".gpdb-merge-stage-" ++ toString n

/-- the directories of the destination root -/
def rootNames (fs : Fs) : List String := (List.range fs.stages).map stageName ++ fs.ifaces

/-- `info.GetInterfaces` (with the fix: merge staging directories are skipped) -/
def getInterfaces (fs : Fs) : List String := sortStrs ((rootNames fs).filter (!isHidden ·))

/-- `info.GetInterfaces` before the fix: every directory of the root -/
def getInterfacesUnfixed (fs : Fs) : List String := sortStrs (rootNames fs)

/-- `walkDB` visits a day directory iff it has `.blockmeta` -/
def visible (e : Entry) : Bool := e.files.contains 'm'
/-- a query reads all eight columns of every block -/
def readable (e : Entry) : Bool := colFiles.all (e.files.contains ·)

/-- what a query over the whole day returns for the directories of one (interface, day):
    `none` = the query fails -/
def dayRead (es : List Entry) : Option C24.Day :=
  let vs := es.filter visible
  if vs.all readable then some (vs.flatMap (·.blocks)) else none

/-- the blocks the listing counts for one (interface, day) (metadata only) -/
def dayListed (es : List Entry) : C24.Day := (es.filter visible).flatMap (·.blocks)

def ifaceEntries (fs : Fs) (i : String) : List Entry := fs.days.filter (·.iface == i)

/-! The query engine visits the day directories of an interface in name order (`os.ReadDir`): days
    ascending, and within one day the backup before or after the merged directory depending on the two
    summary suffixes (`ord`, an observed input). Since the C06 fixes the order does not matter any more:
    blocks are selected by the queried range (not by the first block of the first and the last block of
    the last directory visited), and a block whose column file is missing is skipped and counted as
    corrupted instead of failing the whole query. -/

abbrev Ord := List ((String × Int) × Bool)

def rankOf (ord : Ord) (e : Entry) : Nat :=
  match e.kind with
  | .regular => 1
  | .backup => if ((ord.find? (·.1 == (e.iface, e.day))).map (·.2)).getD false then 0 else 2

def entryLe (ord : Ord) (a b : Entry) : Bool :=
  decide (a.day < b.day) || (a.day == b.day && decide (rankOf ord a ≤ rankOf ord b))

def insertEntry (ord : Ord) (e : Entry) : List Entry → List Entry
  | [] => [e]
  | x :: xs => if entryLe ord e x then e :: x :: xs else x :: insertEntry ord e xs

def sortEntries (ord : Ord) (l : List Entry) : List Entry := l.foldr (insertEntry ord) []

/-- the blocks a whole-range query reads from one interface (`none` = the query fails: does not happen
    any more): every block of every visible directory that still holds all its column files -/
def ifaceQuery (ord : Ord) (fs : Fs) (i : String) : Option (List WriteOut) :=
  let es := sortEntries ord ((ifaceEntries fs i).filter visible)
  some (es.flatMap fun e => if readable e then e.blocks.map (woOf i) else [])

def queryView (ord : Ord) (fs : Fs) : String :=
  let ifs := getInterfaces fs
  if ifs.isEmpty then "err:iface" else
  let rs := ifs.map (ifaceQuery ord fs)
  if rs.any (·.isNone) then "err:internal" else renderAgg (rs.flatMap fun r => r.getD [])

def listView (fs : Fs) : String :=
  renderList ((getInterfaces fs).map fun i =>
    (i, totalsOf (((ifaceEntries fs i).filter visible).flatMap fun e => e.blocks.map (woOf i))))

/-! ### driver -/

def yearDirs (i : String) (ts : List Int) : List String :=
  ts.flatMap fun t => let (y, ym) := yearMonth t; [i ++ "/" ++ y, i ++ "/" ++ ym]

/-- the destination as the harness writes it: one regular directory per (interface, day) -/
def initFs (dst : C24.Ifaces) : Fs :=
  let names := C24.sortNames (dst.map (·.1))
  { stages := 0, ifaces := names,
    dirs := names.flatMap fun i => yearDirs i (C24.sortInts (C24.dayKeys (C24.ifaceDays dst i))),
    days := names.flatMap fun i =>
      (C24.sortInts (C24.dayKeys (C24.ifaceDays dst i))).filterMap fun t =>
        (C24.getDay dst i t).map fun d => { iface := i, day := t, kind := .regular, blocks := d, files := allFiles } }

def isUnlink : Op → Bool
  | .unlink .. => true
  | _ => false

def observation (ord : Ord) (fs : Fs) (n : String) : String :=
  "if" ++ n ++ "=" ++ Wire.showList (getInterfaces fs) ++ " q" ++ n ++ "=" ++ queryView ord fs ++ " l" ++ n ++ "=" ++ listView fs

def handle (args : List String) : String :=
  match parseCase args with
  | none => "bad-args"
  | some c =>
    let rm := if c.rm == "-" then [] else c.rm.toList
    let fs0 := initFs c.dst
    let prog := program c.ow c.tol c.src rm fs0
    let at_ := match c.kill with
      | none => prog.length
      | some k => k.c
    let fs1 := run fs0 (prog.take at_)
    let inside := match prog[at_]?, prog[at_ - 1]? with
      | some a, some b => at_ > 0 && isUnlink a && isUnlink b
      | _, _ => false
    let (fs2, m2) := mergeAll c.ow c.tol c.src rm fs1
    let replaced := (jobs c.ow c.tol c.src fs0).filter (·.existing.isSome)
    let ord : Ord := (replaced.zip (if c.ord == "-" then [] else c.ord.toList)).map fun (j, b) => ((j.iface, j.day), b == '1')
    "ops=" ++ Wire.showList (prog.map Op.render) ++ " ord=" ++ c.ord ++ " at=" ++ toString at_ ++
    " crashed=" ++ (if c.kill.isNone then "ok" else "killed") ++
    " rmseen=" ++ (if inside then c.rm else "-") ++ " " ++
    observation ord fs1 "1" ++ " m2=" ++ m2 ++ " " ++ observation ord fs2 "2"

end C25
