import GoProbeModel.Base.Outcome
import GoProbeModel.Spec.C16
import GoProbeModel.Gen.IfaceSel

/-!
C16 — hand-written model of the interface selection code *as written* (after the `fix:` commit):

* `pkg/types/iface.go`: `ValidateIfaceName` (regexp `^!?[a-zA-Z0-9\.:_-]{1,15}$`),
  `ValidateAndSeparateFilters`, `IsIfaceArgumentRegExp`, `ValidateAndExtractRegExp`,
  `ValidateIfaceArgument`; `pkg/types/types.go`: `IsAnySelector`
* `pkg/goDB/engine/query.go`: `parseIfaceListWithCommaSeparatedString`,
  `parseIfaceListWithRegex`, the dispatch in `(*QueryRunner).run` and the emptiness check + sort
  at the start of `RunStatement`.

The string constants (`,`, `/`, `any`) come from `Gen/IfaceSel.lean`, regenerated from the source
on every run. Go strings are lists of characters; `s[1:]` is a *checked* operation (`Outcome.panic` when out of
range). `slices.DeleteFunc` / `slices.Contains` / `strings.Split` are taken by their library
contract; the regular-expression library is a parameter (`compiles`, `m`).

`selectOrig` is a faithful model of the loop *before* the fix (remove-while-ranging on a shared
backing array), kept as a regression example: it reproduces the three witnesses.
-/
namespace C16

/-! ### pkg/types/iface.go -/

/-- the character class `[a-zA-Z0-9\.:_-]` -/
def classChar (c : Char) : Bool :=
  ('a' ≤ c && c ≤ 'z') || ('A' ≤ c && c ≤ 'Z') || ('0' ≤ c && c ≤ '9') ||
  c == '.' || c == ':' || c == '_' || c == '-'

/-- `[a-zA-Z0-9\.:_-]{1,15}$` from the current position -/
def matchBody (s : Name) : Bool := decide (1 ≤ s.length) && decide (s.length ≤ 15) && s.all classChar

/-- `ifaceNameRegexp.MatchString`: `!?` may or may not consume a leading `!` -/
def nameRegexpMatch (t : Name) : Bool :=
  match t with
  | '!' :: r => matchBody r || matchBody t
  | _ => matchBody t

/-- `ValidateIfaceName`: `none` = nil error -/
def validateIfaceName (t : Name) : Option String :=
  if t = [] then some "empty-name"
  else if !nameRegexpMatch t then some "invalid-name"
  else none

/-- `strings.HasPrefix(iface, "!")` -/
def hasPrefixBang (t : Name) : Bool := t.head? == some '!'

/-- Go `s[1:]` -/
def tail1 (s : Name) : Outcome Name :=
  match s with
  | [] => .panic "slice bounds out of range [1:0]"
  | _ :: r => .ok r

/-- the loop of `ValidateAndSeparateFilters` (accumulators `positive`, `negative`) -/
def separate : List Name → List Name → List Name → Outcome (List Name × List Name)
  | [], pos, neg => .ok (pos, neg)
  | t :: ts, pos, neg =>
    match validateIfaceName t with
    | some e => .err e
    | none =>
      if hasPrefixBang t then
        match tail1 t with
        | .ok r => separate ts pos (neg ++ [r])
        | .err e => .err e
        | .panic w => .panic w
      else separate ts (pos ++ [t]) neg

/-- `IsAnySelector`: `strings.EqualFold(input, "any")` (no non-ASCII character folds to a, n or y) -/
def isAnySelector (t : Name) : Bool := t.map Char.toLower == Gen.IfaceSel.AnySelector.toList

/-- `IsIfaceArgumentRegExp` -/
def isIfaceArgumentRegExp (a : Name) : Bool :=
  Gen.IfaceSel.regExpSeparator.toList.isPrefixOf a && Gen.IfaceSel.regExpSeparator.toList.isSuffixOf a &&
  decide (a.length > 2)

/-- `ValidateAndExtractRegExp` up to `regexp.Compile`: the text between the first and the last
    slash (`^/(.*?)/$`; `.` does not match a newline) -/
def extractRegexp (arg : Name) : Outcome Name :=
  if arg = [] then .err "regexp-empty" else
  match arg with
  | '/' :: rest =>
    if rest ≠ [] ∧ rest.getLast? = some '/' ∧ ¬ rest.dropLast.contains '\n' then .ok rest.dropLast
    else .err "regexp-form"
  | _ => .err "regexp-form"

/-! ### pkg/goDB/engine/query.go -/

/-- "add interfaces" loop: `any` replaces the result by all interfaces and breaks -/
def addIfaces (all : List Name) : List Name → List Name → List Name
  | [], acc => acc
  | p :: ps, acc =>
    if isAnySelector p then all
    else if all.contains p then addIfaces all ps (acc ++ [p])
    else addIfaces all ps acc

/-- "remove interfaces" (fixed code): `slices.DeleteFunc(res, v ↦ slices.Contains(negs, v))` -/
def removeIfaces (res negs : List Name) : List Name := res.filter fun v => !negs.contains v

/-- `parseIfaceListWithCommaSeparatedString` after the split (lister assumed not to fail) -/
def selectToks (all toks : List Name) : Outcome (List Name) :=
  match separate toks [] [] with
  | .ok (pos, neg) => .ok (removeIfaces (addIfaces all pos []) neg)
  | .err e => .err e
  | .panic w => .panic w

/-- `strings.Split(ifaceList, ifaceListDelimiter)` -/
def splitList (arg : String) : List Name := (arg.splitOn Gen.IfaceSel.ifaceListDelimiter).map ofStr

/-- `parseIfaceListWithCommaSeparatedString` -/
def selectList (all : List Name) (arg : String) : Outcome (List Name) :=
  if arg = "" then .err "empty-arg" else selectToks all (splitList arg)

/-- filter loop of `parseIfaceListWithRegex` -/
def filterLoop (m : Name → Bool) : List Name → List Name → List Name
  | [], acc => acc
  | x :: xs, acc => if m x then filterLoop m xs (acc ++ [x]) else filterLoop m xs acc

/-- `parseIfaceListWithRegex`; `compiles`/`m` describe `regexp.Compile` of the extracted text -/
def selectRegex (compiles : Bool) (m : Name → Bool) (all : List Name) (arg : Name) : Outcome (List Name) :=
  match extractRegexp arg with
  | .ok _ => if compiles then .ok (filterLoop m all []) else .err "regexp-compile"
  | .err e => .err e
  | .panic w => .panic w

/-- Go string order (bytewise; equals code-point order) -/
def nameLt : Name → Name → Bool
  | _, [] => false
  | [], _ :: _ => true
  | a :: as, b :: bs => a < b || (a == b && nameLt as bs)

def insertSorted (x : Name) : List Name → List Name
  | [] => [x]
  | y :: ys => if nameLt y x then y :: insertSorted x ys else x :: y :: ys

def sortNames (l : List Name) : List Name := l.foldr insertSorted []

/-- `Args.Prepare` (interface part: `ValidateIfaceArgument`) and the dispatch in
    `(*QueryRunner).run`. `compiles` here also covers `ValidateRegExp` of the whole argument. -/
def engineDispatch (compiles : Bool) (m : Name → Bool) (all : List Name) (arg : String) : Outcome (List Name) :=
  if isIfaceArgumentRegExp (ofStr arg) then selectRegex compiles m all (ofStr arg)
  else if (splitList arg).any (fun t => (validateIfaceName t).isSome) then .err "rejected"
  else selectList all arg

/-- what the harness observes: every error of the preparation is reported as `rejected`; head of
    `RunStatement`: an empty selection is the error `no-interfaces`, otherwise
    `Summary.Interfaces` = the sorted selection -/
def engineFinish : Outcome (List Name) → Outcome (List Name)
  | .ok [] => .err "no-interfaces"
  | .ok r => .ok (sortNames r)
  | .err _ => .err "rejected"
  | .panic w => .panic w

/-- `(*QueryRunner).Run` as far as the interface selection is concerned -/
def engineSelect (compiles : Bool) (m : Name → Bool) (all : List Name) (arg : String) : Outcome (List Name) :=
  if arg = "" then .err "rejected" else engineFinish (engineDispatch compiles m all arg)

/-! ### the loop before the fix (regression example) -/

/-- slice = backing array `arr` (its first `len` cells are the slice; cells past `len` keep stale
    values and are still read by a `range` that started with a larger length) -/
structure Sl where
  arr : List Name
  len : Nat
  deriving Repr, DecidableEq

/-- `s = append(s[:i], s[i+1:]...)`: `s[i+1:]` panics when `i+1 > len(s)`; otherwise the cells
    `i+1 … len-1` move one to the left inside the same backing array, the last one stays -/
def removeAt (s : Sl) (i : Nat) : Outcome Sl :=
  if i + 1 > s.len then .panic s!"slice bounds out of range [{i + 1}:{s.len}]"
  else .ok { arr := s.arr.take i ++ (s.arr.drop (i + 1)).take (s.len - (i + 1)) ++ s.arr.drop (s.len - 1),
             len := s.len - 1 }

/-- `for i, v := range s { if v == n { s = append(s[:i], s[i+1:]...) } }` with the range bound
    `len0` fixed at loop entry; `v` is read from the shared backing array at iteration `i` -/
def rangeRemove (n : Name) : Nat → Nat → Sl → Outcome Sl
  | 0, _, s => .ok s
  | fuel + 1, i, s =>
    match s.arr[i]? with
    | none => .panic "index out of range"
    | some v =>
      if v == n then
        match removeAt s i with
        | .ok s' => rangeRemove n fuel (i + 1) s'
        | .err e => .err e
        | .panic w => .panic w
      else rangeRemove n fuel (i + 1) s

def removeOrig : List Name → Sl → Outcome Sl
  | [], s => .ok s
  | n :: ns, s =>
    match rangeRemove n s.len 0 s with
    | .ok s' => removeOrig ns s'
    | .err e => .err e
    | .panic w => .panic w

/-- `parseIfaceListWithCommaSeparatedString` before the fix -/
def selectOrig (all toks : List Name) : Outcome (List Name) :=
  match separate toks [] [] with
  | .ok (pos, neg) =>
    let r := addIfaces all pos []
    match removeOrig neg { arr := r, len := r.length } with
    | .ok s => .ok (s.arr.take s.len)
    | .err e => .err e
    | .panic w => .panic w
  | .err e => .err e
  | .panic w => .panic w

/-! ### wire -/

def showOutcome : Outcome (List Name) → String
  | .ok r => showNames r
  | .err e => "err:" ++ e
  | .panic _ => "panic"

/-- wire ops (see `Spec/C16.lean`, `judge`) -/
def handle : List String → String
  | ["list", ex, a] => showOutcome (selectList (parseNames ex) (decodeArg a))
  | ["regex", ex, a, re] =>
    let existing := parseNames ex
    match parseReInfo re with
    | some .bad => showOutcome (selectRegex false (fun _ => false) existing (ofStr (decodeArg a)))
    | some (.bits bs) => showOutcome (selectRegex true (matchOf existing bs) existing (ofStr (decodeArg a)))
    | some .form =>
      match extractRegexp (ofStr (decodeArg a)) with
      | .ok _ => "bad-args"
      | o => showOutcome (o.bind fun _ => .ok [])
    | none => "bad-args"
  | ["engine", ex, a, re] =>
    let existing := parseNames ex
    match parseReInfo re with
    | some .bad => showOutcome (engineSelect false (fun _ => false) existing (decodeArg a))
    | some (.bits bs) => showOutcome (engineSelect true (matchOf existing bs) existing (decodeArg a))
    | some .form => showOutcome (engineSelect false (fun _ => false) existing (decodeArg a))
    | none => "bad-args"
  | _ => "bad-op"

end C16
