import GoProbeModel.Spec.C29
import GoProbeModel.Model.C08
import GoProbeModel.Model.C09
import GoProbeModel.Model.C20

/-!
C29 — executable model **of the code as written** (after the `fix:` commit that makes the live
filter aggregate by the query attributes) of the live-query path and of what surrounds it:

* the flow log, `addToFlowLogV4/V6`, `FlowLog.Rotate` and `FlowLog.Aggregate` are C20's model
  (`Model/C20.lean`, over the regenerated `NewFlow`, `UpdateFlow`, `Reset`, `Counters.Add`,
  classifiers and key layout). `aggregateSt` is `Aggregate` once more, this time *threading the flow
  map through the loop* (every flow is handed back as the loop body leaves it), so that "the live
  query leaves the flow log alone" is a statement about the model rather than an artefact of a pure
  modelling language; `Capture.flowMap` / `Capture.rotate` add the `Len() == 0` short cuts.
* `Manager.GetFlowMaps` = per interface `flowMap` then the filter; `Manager.rotate` /
  `performWriteout` = per interface `rotate`, the results handed to the write-out handler.
* `goDB.QueryFilter` / `Query.aggregateFlow` (pkg/goDB/filter.go): the condition is evaluated on the
  complete flow key (C09's model of `ParseAndInstrument` / `Evaluate`, `Model/C09.lean`), the
  result key — a reused buffer — receives the selected attributes only, IPv6 flows go to the
  IPv4-shaped key / primary map when no address is selected.
* the stored scan `DBWorkManager.readBlocksAndEvaluate` as far as the comparison needs it: key and
  *comparison value* buffers (the latter populated only with the columns `Node.Attributes()` names,
  flags as computed by `goDB.NewQuery`), the v4/v6 switch, `Extend(timestamp)`.
* `engine.RunStatement`: `aggregate` merges every map received for an interface (stored workloads
  and the live map) into the interface's final map; rows, direction filter, totals, hits as in C08.

A result key is a record of its fields (`KBuf`): a `Put…` is a field update, its byte string
(`KBuf.bytes`) is what the harness prints for the maps handed over by the capture manager.

Abstractions (validated by the correspondence harness, listed in the trusted base): the hash maps
are C08's additive map `AMap` (C18); the IP-version pruning and the day / workload structure of the
stored scan are C08's subject (`pruning_sound`, `query_refines_spec`) — here every entry of every
block is looked at, block by block; blocks are represented by the maps that were written (C01,
C03, C07); a panic inside `Evaluate` (excluded for keys of 11 / 35 bytes by C09 `eval_total`)
would show as a disagreement; counters are natural numbers.
-/
namespace C29

open C20 (St FMap Key Agg)
open Gen.FlowLog (Flow Counters)

abbrev Ctr := C08.Ctr

def ctrOfCounters (c : Counters) : Ctr := ⟨c.BytesRcvd, c.BytesSent, c.PacketsRcvd, c.PacketsSent⟩

/-! ## `FlowLog.Aggregate`, `Capture.flowMap`, `Capture.rotate` -/

/-- loop state of `Aggregate`: key buffer, aggregate so far, the flows already visited (as left behind) -/
structure AggSt where
  buf : Key
  agg : Agg
  seen : FMap

/-- one iteration of the loops of `FlowLog.Aggregate`: the flow `v` is only read -/
def aggStepSt (put : Key → Key → Key) (s : AggSt) (e : Key × Flow) : AggSt :=
  if decide (e.2.PacketsRcvd ≠ 0) || decide (e.2.PacketsSent ≠ 0) then
    let buf := put s.buf e.1
    { buf := buf, agg := C20.setOrUpdate s.agg buf e.2.BytesRcvd e.2.BytesSent e.2.PacketsRcvd e.2.PacketsSent,
      seen := s.seen ++ [e] }
  else { s with seen := s.seen ++ [e] }

/-- `FlowLog.Aggregate`: the aggregate maps and the flow log afterwards -/
def aggregateSt (st : St) : (Agg × Agg) × St :=
  let s4 := st.v4.foldl (aggStepSt C20.putV4) ⟨C20.emptyV4Key, [], []⟩
  let s6 := st.v6.foldl (aggStepSt C20.putV6) ⟨C20.emptyV6Key, [], []⟩
  ((s4.agg, s6.agg), ⟨s4.seen, s6.seen⟩)

def flowLogLen (st : St) : Nat := st.v4.length + st.v6.length

/-- `Capture.flowMap` -/
def flowMap (st : St) : Option (Agg × Agg) × St :=
  if flowLogLen st = 0 then (none, st)
  else let r := aggregateSt st; (some r.1, r.2)

/-- `Capture.rotate` -/
def capRotate (st : St) : Option C20.Block × St :=
  if flowLogLen st = 0 then (none, st)
  else let r := C20.rotate st; (some r.1, r.2)

/-! ## keys -/

def kw4 : Nat := Gen.CondNode.KeyWidthIPv4.toNat
def isV4Key (k : Key) : Bool := k.length == kw4

/-- `Key.GetSIP` -/
def sipOf (k : Key) : List Nat :=
  if isV4Key k then (k.drop Gen.CondNode.sipPos).take Gen.CondNode.IPv4Width.toNat
  else (k.drop Gen.CondNode.sipPos).take Gen.CondNode.IPv6Width.toNat
/-- `Key.GetDIP` -/
def dipOf (k : Key) : List Nat :=
  if isV4Key k then (k.drop Gen.CondNode.dipPosIPv4.toNat).take Gen.CondNode.IPv4Width.toNat
  else (k.drop Gen.CondNode.dipPosIPv6.toNat).take Gen.CondNode.IPv6Width.toNat
/-- `Key.GetDport` -/
def dportOf (k : Key) : List Nat :=
  if isV4Key k then (k.drop Gen.CondNode.dportPosIPv4.toNat).take Gen.CondNode.DPortWidth.toNat
  else (k.drop Gen.CondNode.dportPosIPv6.toNat).take Gen.CondNode.DPortWidth.toNat
/-- `Key.GetProto` -/
def protoOf (k : Key) : Nat :=
  if isV4Key k then k.getD Gen.CondNode.protoPosIPv4.toNat 0 else k.getD Gen.CondNode.protoPosIPv6.toNat 0

/-- a result key / comparison value as its fields; `ts` = the extension of `Key.Extend` -/
structure KBuf where
  sip : List Nat
  dip : List Nat
  dport : List Nat
  proto : Nat
  ts : Option Int
  deriving Repr, DecidableEq

def KBuf.bytes (k : KBuf) : List Nat := k.sip ++ k.dip ++ k.dport ++ [k.proto]

/-- `types.NewEmptyV4Key()` / `NewEmptyV6Key()`, `.Extend(ts)` -/
def emptyBuf (v4 : Bool) (ts : Option Int) : KBuf :=
  let w := if v4 then Gen.CondNode.IPv4Width.toNat else Gen.CondNode.IPv6Width.toNat
  ⟨zeros w, zeros w, zeros Gen.CondNode.DPortWidth.toNat, 0, ts⟩

/-- the `PutSIP` / `PutDIPV` / `PutProtoV` / `PutDportV` calls guarded by four flags -/
def fill (sip dip dport proto : Bool) (b : KBuf) (flow : Key) : KBuf :=
  let b := if sip then { b with sip := sipOf flow } else b
  let b := if dip then { b with dip := dipOf flow } else b
  let b := if proto then { b with proto := protoOf flow } else b
  if dport then { b with dport := dportOf flow } else b

/-! ## the query -/

/-- `hasCondSIP`, `hasCondDIP`, `hasCondDport`, `hasCondProto` -/
structure Flags where
  sip : Bool
  dip : Bool
  dport : Bool
  proto : Bool
  deriving Repr, DecidableEq

def Flags.none : Flags := ⟨false, false, false, false⟩
def Flags.or (a b : Flags) : Flags := ⟨a.sip || b.sip, a.dip || b.dip, a.dport || b.dport, a.proto || b.proto⟩

/-- `conditionalAttributeNameToColumnIndex` + `queryConditionalColumnFlagSetters` for one name -/
def leafFlags (attr : String) : Flags :=
  ⟨decide (attr = Gen.CondNode.SIPName ∨ attr = "snet"), decide (attr = Gen.CondNode.DIPName ∨ attr = "dnet"),
   decide (attr = Gen.CondNode.DportName), decide (attr = Gen.CondNode.ProtoName)⟩

/-- the keys of `Node.Attributes()` as flags -/
def nodeFlags : C09.Node → Flags
  | .cond a _ _ => leafFlags a
  | .not n => nodeFlags n
  | .and l r => (nodeFlags l).or (nodeFlags r)
  | .or l r => (nodeFlags l).or (nodeFlags r)

/-- `ParseAndInstrument` up to the tree that is instrumented (desugar, resolve, negation normal form) -/
def normalise (n : C09.Node) : Outcome C09.Node :=
  (C09.desugar n).bind fun d => (C09.resolve d).bind C09.negationNormalForm

/-- `goDB.Query` as far as the two paths read it -/
structure Plan where
  sel : C08.Sel
  cond : Option C09.INode
  flags : Flags
  dir : Option C08.Dir

/-- `ParseAndInstrument` + `NewQuery` -/
def plan (q : Query) : Outcome Plan :=
  match q.cond with
  | none => .ok ⟨q.sel, none, Flags.none, q.dir⟩
  | some c =>
    (normalise (C09.toNode c)).bind fun n => (C09.instrument n).bind fun i =>
      .ok ⟨q.sel, some i, nodeFlags n, q.dir⟩

/-- `Conditional.Evaluate(key)` -/
def evalNode (i : C09.INode) (k : Key) : Bool :=
  match i.eval k with
  | .ok (b, _) => b
  | _ => false

/-! ## result maps -/

/-- which of the two hash maps (`isIPv4`) and the key -/
abbrev RKey := Bool × KBuf
abbrev RMap := C08.AMap RKey

/-! ## `goDB.QueryFilter` -/

structure FSt where
  v4Key : KBuf
  v6Key : KBuf
  res : RMap

/-- `q.Conditional == nil || q.Conditional.Evaluate(key)` -/
def holds (p : Plan) (k : Key) : Bool :=
  match p.cond with
  | none => true
  | some i => evalNode i k

/-- `Query.aggregateFlow` -/
def aggregateFlow (p : Plan) (flowIsIPv4 : Bool) (s : FSt) (e : Key × Ctr) : FSt :=
  if !holds p e.1 then s
  else
    let useV6 := !flowIsIPv4 && (p.sel.sip || p.sel.dip)
    let key := fill p.sel.sip p.sel.dip p.sel.dport p.sel.proto (if useV6 then s.v6Key else s.v4Key) e.1
    { v4Key := if useV6 then s.v4Key else key, v6Key := if useV6 then key else s.v6Key,
      res := s.res.upd (!useV6, key) e.2 }

def ctrAgg (a : Agg) : List (Key × Ctr) := a.map fun e => (e.1, ctrOfCounters e.2)

/-- the `FilterFn` returned by `QueryFilter(query)` -/
def queryFilter (p : Plan) (m : Agg × Agg) : RMap :=
  let s := (ctrAgg m.1).foldl (aggregateFlow p true) ⟨emptyBuf true none, emptyBuf false none, []⟩
  ((ctrAgg m.2).foldl (aggregateFlow p false) s).res

/-- one interface of `Manager.GetFlowMaps`: what is sent (`none` = nothing) and the flow log afterwards -/
def getFlowMap (p : Plan) (st : St) : Option RMap × St :=
  let r := flowMap st
  (r.1.map (queryFilter p), r.2)

/-! ## the stored scan (`readBlocksAndEvaluate`) -/

structure SSt where
  v4Key : KBuf
  v6Key : KBuf
  v4Cmp : KBuf
  v6Cmp : KBuf
  res : RMap

/-- one loop iteration: populate the key, populate the comparison value, evaluate, `SetOrUpdate` -/
def scanEntry (p : Plan) (flowIsIPv4 : Bool) (s : SSt) (e : Key × Ctr) : SSt :=
  let useV6 := !flowIsIPv4 && (p.sel.sip || p.sel.dip)
  let key := fill p.sel.sip p.sel.dip p.sel.dport p.sel.proto (if useV6 then s.v6Key else s.v4Key) e.1
  let s := { s with v4Key := if useV6 then s.v4Key else key, v6Key := if useV6 then key else s.v6Key }
  match p.cond with
  | none => { s with res := s.res.upd (!useV6, key) e.2 }
  | some i =>
    let cmp := fill p.flags.sip p.flags.dip p.flags.dport p.flags.proto (if flowIsIPv4 then s.v4Cmp else s.v6Cmp) e.1
    let s := { s with v4Cmp := if flowIsIPv4 then cmp else s.v4Cmp, v6Cmp := if flowIsIPv4 then s.v6Cmp else cmp }
    if evalNode i cmp.bytes then { s with res := s.res.upd (!useV6, key) e.2 } else s

/-- a stored block: its time and the two maps that were written -/
structure Blk where
  ts : Int
  agg4 : Agg
  agg6 : Agg

/-- the block time a key carries: `Extend(block.Timestamp)` if `time` is selected -/
def extOf (sel : C08.Sel) (ts : Int) : Option Int := if sel.time then some ts else none

/-- one block with extension `ext` of the keys (`none` = not extended) -/
def scanMaps (p : Plan) (ext : Option Int) (m : Agg × Agg) (res : RMap) : RMap :=
  let s : SSt := ⟨emptyBuf true ext, emptyBuf false ext, emptyBuf true none, emptyBuf false none, res⟩
  let s := (ctrAgg m.1).foldl (scanEntry p true) s
  ((ctrAgg m.2).foldl (scanEntry p false) s).res

def scanBlock (p : Plan) (res : RMap) (b : Blk) : RMap := scanMaps p (extOf p.sel b.ts) (b.agg4, b.agg6) res

/-- the stored part of an interface's final map -/
def storedMap (p : Plan) (blocks : List Blk) : RMap := blocks.foldl (scanBlock p) []

/-! ## the world: two captures, what was written -/

/-- what one write-out handed over, per interface -/
structure WOut where
  a : Option C20.Block
  b : Option C20.Block

structure World where
  a : St
  b : St
  wos : List WOut

def World.init : World := ⟨C20.St.init, C20.St.init, []⟩

def World.log (w : World) (i : Nat) : St := if i = 0 then w.a else w.b
def World.setLog (w : World) (i : Nat) (st : St) : World := if i = 0 then { w with a := st } else { w with b := st }

def WOut.get (o : WOut) (i : Nat) : Option C20.Block := if i = 0 then o.a else o.b

/-- the blocks of interface `i` in the database -/
def blocksOf (wos : List WOut) (i : Nat) : List Blk :=
  (wos.zipIdx).map fun (o, j) =>
    match o.get i with
    | some b => ⟨tsOf j, b.agg4, b.agg6⟩
    | none => ⟨tsOf j, [], []⟩

/-- `Manager.performWriteout`: every capture is rotated, the results go to the handler -/
def writeOut (w : World) : World :=
  let ra := capRotate w.a
  let rb := capRotate w.b
  ⟨ra.2, rb.2, w.wos ++ [⟨ra.1, rb.1⟩]⟩

/-! ## `RunStatement` with live data -/

/-- `GetFlowMaps` over the interfaces of the statement: the maps sent and the world afterwards -/
def getFlowMaps (p : Plan) (ifs : List Nat) (w : World) : List (Nat × Option RMap) × World :=
  ifs.foldl (fun acc i =>
    let r := getFlowMap p (acc.2.log i)
    (acc.1 ++ [(i, r.1)], acc.2.setLog i r.2)) ([], w)

def liveOf (maps : List (Nat × Option RMap)) (i : Nat) : RMap :=
  match maps.find? (·.1 == i) with
  | some (_, some m) => m
  | _ => []

/-- `aggregate`: the final map of interface `i` -/
def finalMap (p : Plan) (wos : List WOut) (live : RMap) (i : Nat) : RMap :=
  (storedMap p (blocksOf wos i)).merge live

def natOfBytes (l : List Nat) : Nat := l.foldl (fun n b => n * 256 + b) 0

/-- labels and attributes of the row of a map entry -/
def rowKeyOfBuf (sel : C08.Sel) (i : Nat) (k : KBuf) : RowKey :=
  { iface := ifaceName i
    ts := if sel.time then (match k.ts with | some t => toString t | none => "live") else "-"
    sip := if sel.sip then some k.sip else none
    dip := if sel.dip then some k.dip else none
    dport := if sel.dport then some (natOfBytes k.dport) else none
    proto := if sel.proto then some k.proto else none }

/-- result preparation: iterate the final maps with the direction filter -/
def rowsOfMaps (p : Plan) (maps : List (Nat × RMap)) : List (RowKey × Ctr) :=
  maps.flatMap fun (i, m) => (m.filter fun e => C08.valFilter p.dir e.2).map fun e => (rowKeyOfBuf p.sel i e.1.2, e.2)

/-- the rows of a query; `live = false`: `stmt.Live` is not set -/
def runStatement (p : Plan) (ifs : List Nat) (w : World) (live : Bool) : List (RowKey × Ctr) × World :=
  let lm := if live then getFlowMaps p ifs w else ([], w)
  (rowsOfMaps p (ifs.map fun i => (i, finalMap p w.wos (liveOf lm.1 i) i)), lm.2)

/-- what `QueryRunner.Run` answers: the interfaces of the query are resolved against the interface
    directories of the database, so before the first write-out (no directory yet) there is no
    interface to query and the call fails (`none`), live data or not -/
def answer (p : Plan) (ifs : List Nat) (w : World) (live : Bool) : Option (List (RowKey × Ctr)) :=
  if w.wos.isEmpty then none else some (runStatement p ifs w live).1

/-! ## histories -/

def step (w : World) : Op → World
  | .pkt i p => w.setLog i (C20.addPkt (w.log i) p)
  | .rot => writeOut w
  | .q qr =>
    match plan qr with
    | .ok p => (runStatement p qr.ifaces w true).2
    | _ => w

def run (w : World) (ops : List Op) : World := ops.foldl step w

def isQuery : Op → Bool
  | .q _ => true
  | _ => false

/-- the history without its live queries -/
def eraseQ (ops : List Op) : List Op := ops.filter fun o => !isQuery o

/-! ## observation (exactly what harness/c29.go prints) -/

def renderLog (st : St) : String := C20.renderRecs (C20.logRecs st)

def renderBlockOpt : Option C20.Block → String
  | none => "nil"
  | some b => C20.renderRecs b.recs

def renderRMap : Option RMap → String
  | none => "nil"
  | some m => C20.renderRecs (m.map fun e => (e.1.2.bytes, cntOfCtr e.2))

def errKind : Outcome Plan → String
  | .err e => "err:" ++ e
  | .panic _ => "panic"
  | .ok _ => "ok"

def digest (s : String) : Nat := s.toList.foldl (fun d c => (d * 1000003 + c.toNat) % 2147483647) 7

/-- `sip,dip,dport,proto,time,iface` over the whole database -/
def renderDB (wos : List WOut) : String × Nat :=
  if wos.isEmpty then ("rows=-|totals=0:0:0:0|hits=0", 0)
  else
    let blocks : List DB.WriteOut := [0, 1].flatMap fun i => (blocksOf wos i).map fun b =>
      { iface := ifaceName i, ts := b.ts, drops := 0, flows := (C20.sortRecs (C20.aggRecs b.agg4 b.agg6)).map C20.recToDB }
    (DB.renderQuery blocks, (blocks.flatMap (·.flows)).length)

structure Acc where
  w : World
  k : Nat
  out : List String

def stepObs (a : Acc) (op : Op) : Acc :=
  match op with
  | .q qr =>
    let k := a.k + 1
    let ks := toString k
    let m := "m" ++ ks ++ "=" ++ renderLog a.w.a ++ "/" ++ renderLog a.w.b
    let pl := plan qr
    let w' := step a.w op
    let ro := "ro" ++ ks ++ "=" ++ Wire.boolStr (decide (w'.a = a.w.a ∧ w'.b = a.w.b))
    match pl with
    | .ok p =>
      let ifs := qr.ifaces
      let fm := (getFlowMaps p ifs a.w).1
      let fOf (i : Nat) : String := match fm.find? (·.1 == i) with | some (_, m) => renderRMap m | none => "nil"
      let f := "f" ++ ks ++ "=" ++ fOf 0 ++ "/" ++ fOf 1
      let res (live : Bool) : String :=
        match answer p ifs a.w live with
        | none => "err:iface"
        | some rows => renderResult rows
      { w := w', k := k, out := a.out ++ [m, f, "s" ++ ks ++ "=" ++ res false, "l" ++ ks ++ "=" ++ res true, ro] }
    | e =>
      { w := w', k := k, out := a.out ++ [m, "f" ++ ks ++ "=" ++ errKind e, "s" ++ ks ++ "=err:prepare", "l" ++ ks ++ "=err:prepare", ro] }
  | _ => { a with w := step a.w op }

def renderWOs (wos : List WOut) : List String :=
  (wos.zipIdx).map fun (o, j) => "w" ++ toString (j + 1) ++ "=" ++ renderBlockOpt o.a ++ "/" ++ renderBlockOpt o.b

def handle (args : List String) : String :=
  match parseOps args with
  | none => "bad-args"
  | some ops =>
    let a := ops.foldl stepObs ⟨World.init, 0, []⟩
    let w2 := run World.init (eraseQ ops)
    let ni := decide (a.w.wos.map (fun o => (o.a.map (·.recs), o.b.map (·.recs))) = w2.wos.map (fun o => (o.a.map (·.recs), o.b.map (·.recs)))
                      ∧ a.w.a = w2.a ∧ a.w.b = w2.b)
    let db := renderDB a.w.wos
    let db2 := renderDB w2.wos
    " ".intercalate (a.out ++ renderWOs a.w.wos ++
      ["mem=" ++ renderLog a.w.a ++ "/" ++ renderLog a.w.b, "ni=" ++ Wire.boolStr ni,
       "db=" ++ toString (digest db.1) ++ ":" ++ toString db.2, "dbni=" ++ Wire.boolStr (db.1 == db2.1)])

end C29
