import GoProbeModel.Spec.C04
import GoProbeModel.Model.WriteOut

/-! C04 — model driver: a history of write-outs, one of them killed before its `n`-th operation. -/
namespace C04
open DB WO

/-- state after the whole history with write-out `k` cut at `n` (if any) -/
def runHistory (hist : List WriteOut) (crash : Option (Nat × Nat)) (upto : Nat) : Fs :=
  (List.range upto).foldl (fun fs i =>
    match crash with
    | some (k, n) => if i = k then runWriteOut hist fs i n else runWriteOut hist fs i 1000
    | none => runWriteOut hist fs i 1000) Fs.empty

def handle : List String → String
  | [h, c] =>
    match parseHistory h, parseCrash c with
    | some hist, some crash =>
      let final := runHistory hist crash hist.length
      let tail := "q2=" ++ queryView hist final ++ " l2=" ++ listView hist final
      match crash with
      | none => tail
      | some (k, n) =>
        let pre := runHistory hist crash k
        let ops := program hist pre k
        let post := runWriteOut hist pre k n
        "ops=" ++ Wire.showList (ops.map Op.render) ++ " dry=ok crashed=" ++ (if n < ops.length then "killed" else "ok") ++
        " q1=" ++ queryView hist post ++ " l1=" ++ listView hist post ++ " " ++ tail
    | _, _ => "bad-args"
  | _ => "bad-op"

end C04
