import GoProbeModel.Base.Outcome
import GoProbeModel.Spec.C03
import GoProbeModel.Gen.MetaLayout
import GoProbeModel.Gen.B62

/-!
C03 — executable model of the code as it is now (after the two `fix:` commits):

* `marshal` / `unmarshal` : `(*GPDir).Marshal` / `(*GPDir).Unmarshal` (pkg/goDB/storage/gpfile/gpdir.go)
  at byte level. Every slice expression / index of `Unmarshal` is a checked operation
  (`slice`, `Outcome.idx`) that yields `.panic`.  Layout constants (`minMetadataFileSize`,
  `metadataPerBlockSize`, `metadataBlockOffsetsPos`, `maxUint32`, `headerVersion`, `ColIdxCount`,
  `EncoderTypeNull`) are the ones regenerated from the source into `Gen/MetaLayout.lean`; the literal
  strides 8 / 9 / 16 / 4 are literals in the Go loops as well.
* `writeBlocks` : `(*GPDir).WriteBlocks` bookkeeping (`checkBlockEncodable`, the duplicate check of
  `GPFile.writeBlock`, `BlockHeader.AddBlock`, running totals), for the null encoder
  (`Len = RawLen = len(data)`).
* `runSession` : `NewDirWriter` / `Open` / `WriteBlocks`* / `Close` (`DBWriter.Write`,
  `DBWriter.WriteBulk`, merge's `rebuildDayToStage`), the `.blockmeta` file being the only state.
* `b62enc` / `b62dec`, `marshalString` : the directory-name suffix (`Metadata.MarshalString`,
  `bitpack.EncodeUint64ToByteBuf` / `DecodeUint64FromString`), tables from `Gen/B62.lean`.

`encoding/binary` big-endian accessors, `append`, and the file system (one file, replaced
atomically) are taken at their documented meaning.
-/
namespace C03
open Gen.MetaLayout

@[simp] theorem obind_ok {α β} (a : α) (f : α → Outcome β) : (Outcome.ok a).bind f = f a := rfl
@[simp] theorem obind_err {α β} (e : String) (f : α → Outcome β) : (Outcome.err e : Outcome α).bind f = .err e := rfl
@[simp] theorem obind_panic {α β} (e : String) (f : α → Outcome β) : (Outcome.panic e : Outcome α).bind f = .panic e := rfl

def ncols : Nat := ColIdxCount.toNat

/-! ### integers -/

/-- `k`-byte big-endian encoding (`binary.BigEndian.PutUint32/64`; the value is taken mod 256^k,
    which is Go's `uint32(x)` truncation) -/
def be : Nat → Nat → List Nat
  | 0, _ => []
  | k + 1, x => be k (x / 256) ++ [x % 256]

/-- `uint64(t)` of an `int64` -/
def toU64 (t : Int) : Nat := (t % (two64 : Int)).toNat
/-- `int64(u)` of a `uint64` -/
def toI64 (u : Nat) : Int := if u < two63 then (u : Int) else (u : Int) - (two64 : Int)
/-- `int64` wrap-around -/
def wrapI64 (t : Int) : Int := toI64 (toU64 t)

/-! ### checked reads -/

/-- Go `data[a:b]` (checked against `len`, which is at most `cap`) -/
def slice (bs : List Nat) (a b : Nat) : Outcome (List Nat) :=
  if a ≤ b ∧ b ≤ bs.length then .ok ((bs.drop a).take (b - a)) else .panic "slice bounds out of range"

def u64At (bs : List Nat) (pos : Nat) : Outcome Nat := (slice bs pos (pos + 8)).bind fun s => .ok (beVal s)
def u32At (bs : List Nat) (pos : Nat) : Outcome Nat := (slice bs pos (pos + 4)).bind fun s => .ok (beVal s)

/-! ### Unmarshal -/

/-- inner loop `for j := range nBlocks` of one column -/
def readDescs (bs : List Nat) : Nat → Nat → Outcome (List Desc × Nat)
  | 0, pos => .ok ([], pos)
  | n + 1, pos =>
    (u32At bs pos).bind fun len =>
    (u32At bs (pos + 4)).bind fun raw =>
    (Outcome.idx bs (pos + 8)).bind fun enc =>
    (readDescs bs n (pos + 9)).bind fun r =>
    .ok (⟨len, raw, enc⟩ :: r.1, r.2)

/-- outer loop `for i := range int(types.ColIdxCount)` -/
def readCols (bs : List Nat) (n : Nat) : Nat → Nat → Outcome (List Col × Nat)
  | 0, pos => .ok ([], pos)
  | k + 1, pos =>
    (u64At bs pos).bind fun cur =>
    (readDescs bs n (pos + 8)).bind fun d =>
    (readCols bs n k d.2).bind fun r =>
    .ok (⟨cur, d.1⟩ :: r.1, r.2)

/-- traffic / timestamp-delta loop -/
def readEntries (bs : List Nat) : Nat → Nat → Int → Outcome (List Traffic × List Int)
  | 0, _, _ => .ok ([], [])
  | n + 1, pos, last =>
    (u32At bs pos).bind fun v4 =>
    (u32At bs (pos + 4)).bind fun v6 =>
    (u32At bs (pos + 8)).bind fun dr =>
    (u32At bs (pos + 12)).bind fun delta =>
    (readEntries bs n (pos + 16) (wrapI64 (last + (delta : Int)))).bind fun r =>
    .ok (⟨v4, v6, dr⟩ :: r.1, wrapI64 (last + (delta : Int)) :: r.2)

def unmarshal (bs : List Nat) : Outcome Meta :=
  if bs.length < minMetadataFileSize then .err "too-small" else
  (Outcome.idx bs (minMetadataFileSize - 1)).bind fun _ =>      -- `_ = data[minMetadataFileSizePos]`
  (u64At bs 0).bind fun version =>
  (u64At bs 8).bind fun n =>
  if n > (bs.length - minMetadataFileSize) / metadataPerBlockSize then .err "too-small" else
  (u64At bs 16).bind fun v4 =>
  (u64At bs 24).bind fun v6 =>
  (u64At bs 32).bind fun dr =>
  (u64At bs 40).bind fun br =>
  (u64At bs 48).bind fun bsn =>
  (u64At bs 56).bind fun pr =>
  (u64At bs 64).bind fun ps =>
  (readCols bs n ncols metadataBlockOffsetsPos).bind fun c =>
  (u64At bs c.2).bind fun t0 =>
  (readEntries bs n (c.2 + 8) (toI64 t0)).bind fun e =>
  .ok { version := version, tot := ⟨v4, v6, dr⟩, cnt := ⟨br, bsn, pr, ps⟩,
        cols := c.1, ts := e.2, traffic := e.1 }

/-! ### Marshal -/

def descBytes (d : Desc) : List Nat := be 4 d.len ++ be 4 d.rawLen ++ [d.enc % 256]
def colBytes (c : Col) : List Nat := be 8 c.cur ++ c.descs.flatMap descBytes
def entryBytes (t : Traffic) (delta : Nat) : List Nat :=
  be 4 t.v4 ++ be 4 t.v6 ++ be 4 t.drops ++ be 4 delta

def headerBytes (m : Meta) : List Nat :=
  be 8 m.version ++ be 8 m.traffic.length ++ be 8 m.tot.v4 ++ be 8 m.tot.v6 ++ be 8 m.tot.drops ++
  be 8 m.cnt.br ++ be 8 m.cnt.bs ++ be 8 m.cnt.pr ++ be 8 m.cnt.ps

/-- the loop `for i := 0; i < len(d.BlockTraffic); i++` (order check, range check, entry);
    `first` is `i == 0`, `last` is `lastTimestamp` -/
def marshalEntries : Bool → Int → List Int → List Traffic → Outcome (List Nat)
  | first, last, t :: ts, tr :: trs =>
    if first = false ∧ t ≤ last then .err "ts-order"
    else if tr.v4 > maxUint32 ∨ tr.v6 > maxUint32 ∨ tr.drops > maxUint32 ∨ toU64 (t - last) > maxUint32 then
      .err "encoding-size"
    else (marshalEntries false t ts trs).bind fun r => .ok (entryBytes tr (toU64 (t - last)) ++ r)
  | _, _, _, _ => .ok []

/-- the shape `Marshal` silently relies on (it sizes the buffer from `len(BlockTraffic)` and then
    ranges over every column's block list): all block lists as long as `BlockTraffic`. Outside of
    it the Go code writes out of step or panics; the model does not describe that. -/
def shapeOk (m : Meta) : Bool :=
  m.cols.length == ncols && m.cols.all (fun c => c.descs.length == m.ts.length) &&
  m.traffic.length == m.ts.length

/-- `Marshal`. With no blocks the Go code has a separate branch that stores the column offsets and
    a zero initial timestamp; it produces exactly what the general branch gives for empty lists, so
    the model has one branch. -/
def marshal (m : Meta) : Outcome (List Nat) :=
  if shapeOk m = false then .err "model-domain" else
  if m.cols.any (fun c => c.descs.any fun d => d.len > maxUint32 ∨ d.rawLen > maxUint32) then
    .err "encoding-size" else
  (marshalEntries true (m.ts.headD 0) m.ts m.traffic).bind fun e =>
  .ok (headerBytes m ++ m.cols.flatMap colBytes ++ be 8 (toU64 (m.ts.headD 0)) ++ e)

/-! ### WriteBlocks -/

/-- `checkBlockEncodable`: `none` = encodable -/
def checkBlockEncodable (m : Meta) (w : Write) : Option String :=
  if w.tr.v4 > maxUint32 ∨ w.tr.v6 > maxUint32 ∨ w.tr.drops > maxUint32 then some "encoding-size"
  else if w.lens.any (fun l => l > maxUint32) then some "encoding-size"
  else match m.ts.getLast? with
    | none => none
    | some last =>
      if w.ts ≤ last then some "ts-order"
      else if toU64 (w.ts - last) > maxUint32 then some "encoding-size"
      else none

/-- bookkeeping of an accepted block: one `AddBlock` per column (null encoder: `Len = RawLen`),
    `CurrentOffset += nWritten`, `BlockTraffic = append(…)`, totals -/
def push (m : Meta) (w : Write) : Meta :=
  { m with
    cols := List.zipWith (fun c l => (⟨add64 c.cur l, c.descs ++ [⟨l, l, EncoderTypeNull⟩]⟩ : Col)) m.cols w.lens
    ts := m.ts ++ [w.ts]
    traffic := m.traffic ++ [w.tr]
    tot := m.tot.add w.tr
    cnt := m.cnt.add w.cn }

def writeBlocks (m : Meta) (w : Write) : Outcome Meta :=
  match checkBlockEncodable m w with
  | some e => .err e
  | none => if w.ts ∈ m.ts then .err "exists" else .ok (push m w)

/-- what the Go types guarantee about the arguments of `WriteBlocks` (`int64`, `uint64`s, one
    `[]byte` per column) -/
def Write.typed (w : Write) : Bool :=
  inI64 w.ts && w.tr.typed && w.cn.typed && w.lens.length == ncols

/-! ### sessions on a day directory (state: the bytes of `.blockmeta`, `none` = no file) -/

def newMetadata : Meta :=
  { version := headerVersion, tot := Traffic.zero, cnt := Counts.zero,
    cols := List.replicate ncols ⟨0, []⟩, ts := [], traffic := [] }

/-- the metadata a history of accepted blocks amounts to -/
def metaOf (ws : List Write) : Meta := ws.foldl push newMetadata

def openWrite : Option (List Nat) → Outcome Meta
  | none => .ok newMetadata
  | some bs => unmarshal bs

/-- the loop over the blocks of one session; stops at the first rejected block.
    Result: metadata in memory, per-attempt results, whether a block was rejected -/
def writeLoop (m : Meta) : List Write → Meta × List String × Bool
  | [] => (m, [], false)
  | w :: ws =>
    match writeBlocks m w with
    | .ok m' => let r := writeLoop m' ws; (r.1, "ok" :: r.2.1, r.2.2)
    | .err e => (m, ["err:" ++ e], true)
    | .panic _ => (m, ["panic"], true)

def runSession (disk : Option (List Nat)) (s : Session) : Option (List Nat) × SessionResult :=
  match openWrite disk with
  | .err e => (disk, ⟨[], "openerr:" ++ e⟩)
  | .panic _ => (disk, ⟨[], "panic"⟩)
  | .ok m =>
    let r := writeLoop m s.writes
    if r.2.2 = true ∧ s.mode = Mode.abort then (disk, ⟨r.2.1, "skipped"⟩)
    else match marshal r.1 with
      | .ok bs => (some bs, ⟨r.2.1, "ok"⟩)
      | .err e => (disk, ⟨r.2.1, "err:" ++ e⟩)
      | .panic _ => (disk, ⟨r.2.1, "panic"⟩)

def runAll (disk : Option (List Nat)) : List Session → Option (List Nat) × List SessionResult
  | [] => (disk, [])
  | s :: ss =>
    let r := runSession disk s
    let rest := runAll r.1 ss
    (rest.1, r.2 :: rest.2)

/-- `NewDirReader(...).Open()` -/
def reopen : Option (List Nat) → Outcome Meta
  | none => .err "not-found"
  | some bs => unmarshal bs

/-! ### base-62 directory suffix -/

/-- `encodeUint64ToByteBuf`: least significant digit first -/
def b62loop (num : Nat) : List Nat :=
  if _h : num > 0 then
    Gen.B62.encodeLookup.getD (num % Gen.B62.stringEncUin64DictLen) 0 :: b62loop (num / Gen.B62.stringEncUin64DictLen)
  else []
termination_by num
decreasing_by
  simp only [Gen.B62.stringEncUin64DictLen]
  exact Nat.div_lt_self _h (by decide)

/-- `EncodeUint64ToByteBuf` -/
def b62enc (num : Nat) : List Nat := if num = 0 then [48] else b62loop num

/-- `DecodeUint64FromString` (`uint64` arithmetic, checked table index) -/
def b62dec (enc : List Nat) : Outcome Nat :=
  enc.foldr (fun c acc => acc.bind fun res =>
    (Outcome.idx Gen.B62.decodeLookup c).bind fun d =>
    .ok ((res * Gen.B62.stringEncUin64DictLen + d) % two64)) (.ok 0)

def suffixFields (m : Meta) : List Nat :=
  [m.tot.v4, m.tot.v6, m.tot.drops, m.cnt.br, m.cnt.bs, m.cnt.pr, m.cnt.ps]

/-- fields joined by `-` (`MarshalString` writes field, delimiter, field, …) -/
def joinDash : List (List Nat) → List Nat
  | [] => []
  | [p] => p
  | p :: q :: rest => p ++ delimDash :: joinDash (q :: rest)

def marshalFields (ns : List Nat) : List Nat := joinDash (ns.map b62enc)

/-- `Metadata.MarshalString` without the leading `_` -/
def marshalString (m : Meta) : List Nat := marshalFields (suffixFields m)

/-- `strings.Split(s, "-")` on bytes -/
def splitOn (d : Nat) : List Nat → List (List Nat)
  | [] => [[]]
  | c :: cs =>
    if c = d then [] :: splitOn d cs
    else match splitOn d cs with
      | [] => [[c]]
      | p :: ps => (c :: p) :: ps

def decodeAll : List (List Nat) → Outcome (List Nat)
  | [] => .ok []
  | f :: fs => (b62dec f).bind fun v => (decodeAll fs).bind fun vs => .ok (v :: vs)

/-- `Metadata.UnmarshalString`: the seven totals, in the order of `suffixFields`; a field with a byte
    beyond 'z' (the end of the decoder's table) is refused (fix of C06) -/
def unmarshalString (s : List Nat) : Outcome (List Nat) :=
  if (splitOn delimDash s).length ≠ 7 then .err "fields" else
  if (splitOn delimDash s).any (fun f => f.any (fun c => c > 122)) then .err "fields" else
  decodeAll (splitOn delimDash s)

def bytesToString (bs : List Nat) : String := String.ofList (bs.map Char.ofNat)

/-! ### wire -/

def showOutcomeErr : Outcome α → String
  | .ok _ => "ok"
  | .err e => "err:" ++ e
  | .panic _ => "panic"

def showDecoded : Outcome Meta → String
  | .ok m => "ok " ++ showMeta m ++ " x=0"
  | .err e => "err:" ++ e
  | .panic _ => "panic"

def showFields : Outcome (List Nat) → String
  | .ok ns => "ok " ++ Wire.showList (ns.map toString)
  | .err e => "err:" ++ e
  | .panic _ => "panic"

/-- wire ops
  `sfx <n1,…,n7>` MarshalString of seven totals, UnmarshalString of it -> `<suffix> ok <n1,…,n7>`
  `sfxd <hex>`    UnmarshalString of arbitrary bytes                    -> `ok <n1,…,n7>` | `err:fields` | `panic`
  `rt <M>`      Marshal, then Unmarshal of the produced bytes -> `ok <hex> ok <M'> x=0` | `err:<kind>`
  `unm <hex>`   Unmarshal of arbitrary bytes                  -> `ok <M> x=0` | `err:<kind>` | `panic`
  `hist <S|S…>` writer sessions on one day, then reopen       -> `<results> <dir suffix> <hex of .blockmeta> <decoded>` -/
def handle : List String → String
  | ["rt", m] =>
    match parseMeta m with
    | none => "bad-args"
    | some mm =>
      match marshal mm with
      | .ok bs => "ok " ++ Wire.bytesToHex bs ++ " " ++ showDecoded (unmarshal bs)
      | .err e => "err:" ++ e
      | .panic _ => "panic"
  | ["unm", hex] =>
    match Wire.hexToBytes hex with
    | none => "bad-args"
    | some bs => showDecoded (unmarshal bs)
  | ["hist", ss] =>
    match parseSessions ss with
    | none => "bad-args"
    | some sessions =>
      let r := runAll none sessions
      let res := showBar (r.2.map showSessionResult)
      match r.1 with
      | none => res ++ " - - err:not-found"
      | some bs =>
        let d := unmarshal bs
        let sfx := match d with
          | .ok m => bytesToString (marshalString m)
          | _ => "?"
        res ++ " " ++ sfx ++ " " ++ Wire.bytesToHex bs ++ " " ++ showDecoded d
  | ["sfx", ns] =>
    match Wire.natList ns with
    | none => "bad-args"
    | some ns =>
      let e := marshalFields ns
      bytesToString e ++ " " ++ showFields (unmarshalString e)
  | ["sfxd", hex] =>
    match Wire.hexToBytes hex with
    | none => "bad-args"
    | some bs => showFields (unmarshalString bs)
  -- `wdmg <n> <keep>`: DBWriter.Write on a day whose metadata was truncated / announces more blocks than it
  -- holds: `Open` fails in `Unmarshal` (`unm` cases, `truncated` in the spec) before anything is written
  | ["wdmg", _, _] => "err,err unchanged"
  | _ => "bad-op"

end C03
