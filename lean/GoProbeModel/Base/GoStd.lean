/-!
Hand-written Lean models of the few Go standard-library *value types* that translated code
(`Gen/*`, emitted by /verif/extract) may mention. Core Lean only. These definitions are part of
the trusted base; they are validated differentially by the correspondence harnesses that use them.

* `GoStd.Time` — `time.Time` without a monotonic reading: an instant (nanoseconds since the Unix
  epoch) and the identity of the `*time.Location` it carries. Go's `==`/`!=` on `time.Time`
  compare the struct (wall, ext, loc pointer), i.e. instant AND location identity, which is Lean's
  structural equality here; `Equal`, `Before`, `After` compare the instant only.
* `GoStd.Addr` — `netip.Addr`: bit length (0 = zero Addr, 32 = IPv4, 128 = IPv6 incl. 4-in-6),
  the 128-bit value and the IPv6 zone. `==` is structural; `Less` is `Compare(..) == -1`, i.e.
  lexicographic on (BitLen, hi, lo, zone). In Go the zone is compared only for `Is6()` addresses;
  every other address has the empty zone, so comparing it always gives the same answer on every
  value Go can construct.
-/
namespace GoStd

structure Time where
  instant : Int
  loc : Nat
  deriving Repr, DecidableEq, Inhabited

def Time.Equal (a b : Time) : Bool := decide (a.instant = b.instant)
def Time.Before (a b : Time) : Bool := decide (a.instant < b.instant)
def Time.After (a b : Time) : Bool := decide (a.instant > b.instant)

structure Addr where
  bitlen : Nat
  val : Nat
  zone : String
  deriving Repr, DecidableEq, Inhabited

def Addr.IsValid (a : Addr) : Bool := decide (a.bitlen ≠ 0)

def Addr.Less (a b : Addr) : Bool :=
  if a.bitlen ≠ b.bitlen then decide (a.bitlen < b.bitlen)
  else if a.val ≠ b.val then decide (a.val < b.val)
  else decide (a.zone < b.zone)

end GoStd
