/-
`Outcome`: result of a modelled Go call. Every Go slice index / slice expression /
explicit panic in modelled code is a *checked* operation yielding `.panic`.
"Never crashes" is then a theorem `f x ≠ .panic _`.
-/
inductive Outcome (α : Type) where
  | ok (a : α)
  | err (e : String)
  | panic (why : String)
  deriving Repr, DecidableEq, Inhabited

namespace Outcome

def bind {α β} (x : Outcome α) (f : α → Outcome β) : Outcome β :=
  match x with
  | ok a => f a
  | err e => err e
  | panic w => panic w

instance : Monad Outcome where
  pure := ok
  bind := bind

def isPanic {α} : Outcome α → Bool
  | panic _ => true
  | _ => false

def isOk {α} : Outcome α → Bool
  | ok _ => true
  | _ => false

def isErr {α} : Outcome α → Bool
  | err _ => true
  | _ => false

/-- checked list index (Go `s[i]`) -/
def idx {α} (l : List α) (i : Nat) : Outcome α :=
  match l[i]? with
  | some a => ok a
  | none => panic "index out of range"

@[simp] theorem bind_ok {α β} (a : α) (f : α → Outcome β) : (ok a >>= f) = f a := rfl
@[simp] theorem bind_err {α β} (e : String) (f : α → Outcome β) : ((err e : Outcome α) >>= f) = err e := rfl
@[simp] theorem bind_panic {α β} (e : String) (f : α → Outcome β) : ((panic e : Outcome α) >>= f) = panic e := rfl

end Outcome
