/-
Line-protocol helpers shared by every model's `handle` function (core Lean only).

Wire conventions (same on the Go side, harness/wire.go):
* one case per line, fields separated by a single space, first field = component id
* ints decimal (optional leading '-'), bytes as lower-case hex (empty = "-"),
  lists comma-separated (empty = "-"), strings %-escaped (space, '%', ',', ';', ':' and
  non-printables as %XX; empty string = "%00" is NOT used, empty = "-")
-/
namespace Wire

def hexDigit (n : Nat) : Char :=
  if n < 10 then Char.ofNat (48 + n) else Char.ofNat (87 + n)

def hexVal (c : Char) : Option Nat :=
  let n := c.toNat
  if 48 ≤ n ∧ n ≤ 57 then some (n - 48)
  else if 97 ≤ n ∧ n ≤ 102 then some (n - 87)
  else if 65 ≤ n ∧ n ≤ 70 then some (n - 55)
  else none

def bytesToHex (bs : List Nat) : String :=
  if bs.isEmpty then "-" else
  String.ofList (bs.flatMap fun b => [hexDigit (b / 16 % 16), hexDigit (b % 16)])

def hexToBytesAux : List Char → List Nat → Option (List Nat)
  | [], acc => some acc.reverse
  | [_], _ => none
  | a :: b :: rest, acc =>
    match hexVal a, hexVal b with
    | some x, some y => hexToBytesAux rest ((x * 16 + y) :: acc)
    | _, _ => none

def hexToBytes (s : String) : Option (List Nat) :=
  if s == "-" then some [] else hexToBytesAux s.toList []

def fields (line : String) : List String :=
  (line.splitOn " ").filter (· ≠ "")

def listField (s : String) : List String :=
  if s == "-" then [] else s.splitOn ","

def semiField (s : String) : List String :=
  if s == "-" then [] else s.splitOn ";"

def parseInt (s : String) : Option Int := s.toInt?
def parseNat (s : String) : Option Nat := s.toNat?

def natList (s : String) : Option (List Nat) :=
  (listField s).mapM parseNat

def intList (s : String) : Option (List Int) :=
  (listField s).mapM parseInt

def showList (xs : List String) : String :=
  if xs.isEmpty then "-" else ",".intercalate xs

def showSemi (xs : List String) : String :=
  if xs.isEmpty then "-" else ";".intercalate xs

/-- %-unescape a wire string. -/
def unescapeAux : List Char → List Char → List Char
  | [], acc => acc.reverse
  | '%' :: a :: b :: rest, acc =>
    match hexVal a, hexVal b with
    | some x, some y => unescapeAux rest (Char.ofNat (x * 16 + y) :: acc)
    | _, _ => unescapeAux (a :: b :: rest) ('%' :: acc)
  | c :: rest, acc => unescapeAux rest (c :: acc)

def unescape (s : String) : String :=
  if s == "-" then "" else String.ofList (unescapeAux s.toList [])

def needsEscape (c : Char) : Bool :=
  c.toNat ≤ 32 || c.toNat ≥ 127 || c == '%' || c == ',' || c == ';' || c == ':' || c == '-' || c == '|'

def escape (s : String) : String :=
  if s.isEmpty then "-" else
  String.ofList (s.toList.flatMap fun c =>
    if needsEscape c then ['%', hexDigit (c.toNat / 16 % 16), hexDigit (c.toNat % 16)] else [c])

def boolStr (b : Bool) : String := if b then "1" else "0"
def parseBool (s : String) : Option Bool :=
  if s == "1" then some true else if s == "0" then some false else none

end Wire
