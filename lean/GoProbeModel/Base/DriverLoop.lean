import GoProbeModel.Base.Wire

/-! stdin/stdout loop shared by the per-property model drivers and the judge -/
namespace DriverLoop

partial def loop (f : String → String) (h : IO.FS.Stream) (out : IO.FS.Stream) : IO Unit := do
  let line ← h.getLine
  if line.isEmpty then return ()
  out.putStrLn (f line.trimAscii.toString)
  loop f h out

/-- model driver for one component: lines `<id> <fields…>` -/
def runModel (id : String) (handle : List String → String) : IO Unit := do
  let out ← IO.getStdout
  loop (fun line =>
    match Wire.fields line with
    | [] => ""
    | c :: rest => if c == id then handle rest else "bad-component:" ++ c) (← IO.getStdin) out
  out.flush

def splitJudge (fs : List String) : List String × String :=
  let (a, b) := fs.span (· ≠ "=>")
  (a, " ".intercalate (b.drop 1))

/-- judge driver: lines `<id> <fields…> => <implementation output>` -/
def runJudge (judges : List (String × (List String → String → String))) : IO Unit := do
  let out ← IO.getStdout
  loop (fun line =>
    match Wire.fields line with
    | [] => ""
    | c :: rest =>
      match judges.find? (·.1 == c) with
      | some (_, j) => let (args, o) := splitJudge rest; j args o
      | none => "bad-component:" ++ c) (← IO.getStdin) out
  out.flush

end DriverLoop
