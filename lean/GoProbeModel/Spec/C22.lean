import GoProbeModel.Base.Wire

/-!
C22 — flow orientation: spec judge. A case is a packet's 5-tuple hash (13 or 37 bytes:
sip, sport, dip, dport, proto), its auxiliary byte (TCP flags / ICMP type) and the auxiliary
byte of the mirrored packet. The implementation reports the key under which it stores the flow
when the packet is the first one seen, and the same for the mirrored packet.
Nothing here depends on generated code.
-/
namespace C22

structure Tuple where
  sip : List Nat
  sport : Nat × Nat
  dip : List Nat
  dport : Nat × Nat
  proto : Nat
  deriving Repr, DecidableEq

def parseTuple (alen : Nat) (bs : List Nat) : Option Tuple :=
  if bs.length ≠ 2 * alen + 5 then none else
  some { sip := bs.take alen,
         sport := (bs.getD alen 0, bs.getD (alen + 1) 0),
         dip := (bs.drop (alen + 2)).take alen,
         dport := (bs.getD (2 * alen + 2) 0, bs.getD (2 * alen + 3) 0),
         proto := bs.getD (2 * alen + 4) 0 }

def isMcastV4 (ip : List Nat) : Bool :=
  ip == [255, 255, 255, 255] || (ip.take 2 == [224, 0] && (ip.getD 2 9 == 0 || ip.getD 2 9 == 1))
def isMcastV6 (ip : List Nat) : Bool := ip.head? == some 255

def syn (aux : Nat) : Bool := aux &&& 2 != 0
def ack (aux : Nat) : Bool := aux &&& 16 != 0

/-- what the property demands for one case; `k1`,`k2` are the stored keys (bytes) for the packet
    and for its mirror image -/
def verdict (v6 : Bool) (h : List Nat) (aux auxm : Nat) (k1 k2 : List Nat) : String :=
  match parseTuple (if v6 then 16 else 4) h with
  | none => "violates:bad-case"
  | some t =>
    let mcast := if v6 then isMcastV6 else isMcastV4
    let icmp := if v6 then 58 else 1
    if t.proto = 6 ∧ syn aux ∧ !ack aux then
      -- SYN: stored from requester (this packet's source) to responder
      if k1 ≠ h then "violates:syn-not-requester-first"
      else if syn auxm ∧ ack auxm ∧ k2 ≠ h then "violates:synack-not-requester-first"
      else "holds"
    else if t.proto = icmp ∧ !v6 ∧ ((aux = 8 ∧ auxm = 0) ∨ (aux = 13 ∧ auxm = 14)) then
      if k1 = h ∧ k2 = h then "holds" else "violates:icmp-request-not-first"
    else if t.proto = icmp ∧ v6 ∧ aux = 128 ∧ auxm = 129 ∧ !mcast t.dip ∧ !mcast t.sip then
      if k1 = h ∧ k2 = h then "holds" else "violates:icmp6-request-not-first"
    else if (t.proto = 6 ∧ !syn aux ∧ !syn auxm) ∨ (t.proto = 17 ∧ !mcast t.dip ∧ !mcast t.sip) then
      if t.sport = t.dport then "holds:ports-tied"
      else if k1 = k2 then "holds" else "violates:orientation-depends-on-first-packet"
    else "holds:not-decisive"

def judge (args : List String) (out : String) : String :=
  match args, Wire.fields out with
  | [fam, h, aux, auxm], [k1, k2] =>
    match Wire.hexToBytes h, Wire.parseNat aux, Wire.parseNat auxm, Wire.hexToBytes k1, Wire.hexToBytes k2 with
    | some h, some aux, some auxm, some k1, some k2 => verdict (fam == "v6") h aux auxm k1 k2
    | _, _, _, _, _ => "violates:unparsable"
  | _, _ => "violates:unparsable"

end C22
