import GoProbeModel.Spec.DB

/-!
C11 — query results do not depend on parallelism or memory mode, and queries end: data types, the
executable *spec*, wire format and the spec judge. Nothing here depends on `Gen/*` or on how the
query engine computes its result (no workloads, no workers, no channels).

A case is a database (its write history), one query and a set of configurations (worker counts x
low-memory off/on). The harness runs the query once per configuration, each run under its own
scheduling perturbation and a watchdog, and prints

* `<answer>|cfgs=<k>`  when all `k` configurations returned the same answer,
* `differ:…` / `differ-bytes:…`  when two configurations returned different answers,
* `hang:<cfg>`  when a configuration did not return within the time limit.

The spec of the answer is the *sequential direct aggregation*: take every flow of every stored
block of a queried interface whose block time lies in `[first, last]` and which satisfies the
condition, in the order of the write history, group by (interface, selected attributes, block time
if selected) summing the four counters; totals = sum over all these flows, hits = number of groups.
The property holds on a case iff every configuration terminated and returned exactly this answer.
-/
namespace C11
open DB

/-- the four counters of a row -/
structure Ctr where
  br : Nat
  bs : Nat
  pr : Nat
  ps : Nat
  deriving Repr, DecidableEq

def Ctr.zero : Ctr := ⟨0, 0, 0, 0⟩
def Ctr.add (a b : Ctr) : Ctr := ⟨a.br + b.br, a.bs + b.bs, a.pr + b.pr, a.ps + b.ps⟩
def ctrOf (f : Flow) : Ctr := ⟨f.br, f.bs, f.pr, f.ps⟩

/-- selected attributes (the interface is always a label of a row) -/
structure Sel where
  sip : Bool
  dip : Bool
  dport : Bool
  proto : Bool
  time : Bool
  deriving Repr, DecidableEq

inductive Cond where
  | none
  | protoEq (n : Nat)
  | dportEq (n : Nat)
  deriving Repr, DecidableEq

def Cond.sat : Cond → Flow → Bool
  | .none, _ => true
  | .protoEq n, f => f.proto == n
  | .dportEq n, f => f.dport == n

/-- group key = labels and selected attributes of a row -/
structure Key where
  iface : String
  ts : Option Int
  sip : Option String
  dip : Option String
  dport : Option Nat
  proto : Option Nat
  deriving Repr, DecidableEq

structure Query where
  sel : Sel
  cond : Cond
  first : Int
  last : Int
  ifaces : Option (List String)    -- none = "any"
  deriving Repr

structure Case where
  q : Query
  workers : List Nat
  lowmem : List Bool
  sched : Nat
  hist : List WriteOut
  deriving Repr

def keyOf (s : Sel) (w : WriteOut) (f : Flow) : Key :=
  { iface := w.iface
    ts := if s.time then some w.ts else none
    sip := if s.sip then some f.sip else none
    dip := if s.dip then some f.dip else none
    dport := if s.dport then some f.dport else none
    proto := if s.proto then some f.proto else none }

/-! ### association maps with additive update (the abstract flow map) -/

abbrev AMap := List (Key × Ctr)

/-- insert the key with the counters, or add the counters to the entry the key already has -/
def AMap.add : AMap → Key → Ctr → AMap
  | [], k, c => [(k, c)]
  | (k', c') :: m, k, c => if k' = k then (k', c'.add c) :: m else (k', c') :: AMap.add m k c

def AMap.addAll (m : AMap) (items : List (Key × Ctr)) : AMap := items.foldl (fun m kc => m.add kc.1 kc.2) m

def sumCtr (l : List Ctr) : Ctr := l.foldl Ctr.add Ctr.zero

/-! ### canonical rendering -/

def optS : Option String → String
  | some s => s
  | none => "-"

def optN : Option Nat → String
  | some n => toString n
  | none => "-"

def optI : Option Int → String
  | some n => toString n
  | none => "-"

def ctrStr (c : Ctr) : String := toString c.br ++ ":" ++ toString c.bs ++ ":" ++ toString c.pr ++ ":" ++ toString c.ps

def rowStr (kc : Key × Ctr) : String :=
  kc.1.iface ++ "@" ++ optI kc.1.ts ++ "/" ++ optS kc.1.sip ++ ":" ++ optS kc.1.dip ++ ":" ++ optN kc.1.dport ++ ":" ++
  optN kc.1.proto ++ ":" ++ ctrStr kc.2

def sortRows (l : List String) : List String := l.mergeSort (fun a b => decide (a ≤ b))

/-- `rows=…|totals=…|hits=…` -/
def renderResult (rows : List (Key × Ctr)) : String :=
  "rows=" ++ Wire.showList (sortRows (rows.map rowStr)) ++ "|totals=" ++ ctrStr (sumCtr (rows.map (·.2))) ++
  "|hits=" ++ toString rows.length

/-! ### the spec -/

/-- drop repeated names (keeps the last occurrence) -/
def dedup : List String → List String
  | [] => []
  | x :: xs => if xs.contains x then dedup xs else x :: dedup xs

/-- the interfaces of a database: distinct names, sorted -/
def ifacesOf (hist : List WriteOut) : List String := (dedup (hist.map (·.iface))).mergeSort (fun a b => decide (a ≤ b))

/-- the interfaces a query selects: all of the database for `any`, otherwise the named ones that exist (sorted, distinct) -/
def Query.selected (q : Query) (hist : List WriteOut) : List String :=
  match q.ifaces with
  | none => ifacesOf hist
  | some l => (ifacesOf hist).filter l.contains

def inRange (first last : Int) (w : WriteOut) : Bool := decide (first ≤ w.ts) && decide (w.ts ≤ last)

/-- the (key, counters) contributions of all stored flows that take part in the result, in write order -/
def items (q : Query) (hist : List WriteOut) : List (Key × Ctr) :=
  (hist.filter fun w => (q.selected hist).contains w.iface && inRange q.first q.last w).flatMap fun w =>
    (w.flows.filter q.cond.sat).map fun f => (keyOf q.sel w f, ctrOf f)

/-- **the spec**: the sequential direct aggregation, or the error a query without a valid time range /
    without any existing interface is answered with -/
def answer (q : Query) (hist : List WriteOut) : String :=
  if q.first > q.last then "err:prepare"
  else if (q.selected hist).isEmpty then "err:noiface"
  else renderResult (AMap.addAll [] (items q hist))

/-! ### wire -/

def parseSel (s : String) : Option Sel :=
  let l := Wire.listField s
  if l.isEmpty || !l.all (fun a => a == "sip" || a == "dip" || a == "dport" || a == "proto" || a == "time") then none
  else some { sip := l.contains "sip", dip := l.contains "dip", dport := l.contains "dport", proto := l.contains "proto", time := l.contains "time" }

def parseCond (s : String) : Option Cond :=
  if s == "-" then some .none else
  match s.splitOn "." with
  | ["proto", "eq", n] => (Wire.parseNat n).map .protoEq
  | ["dport", "eq", n] => (Wire.parseNat n).map .dportEq
  | _ => none

/-- one history item: a write-out, or `count` write-outs `step` seconds apart with the same flows -/
def parseItem (s : String) : Option (List WriteOut) :=
  match s.splitOn "|" with
  | [iface, ts, drops, flows] => do
    let w ← parseWriteOut (iface ++ "|" ++ ts ++ "|" ++ drops ++ "|" ++ flows)
    some [w]
  | [iface, ts, drops, flows, step, count] => do
    let w ← parseWriteOut (iface ++ "|" ++ ts ++ "|" ++ drops ++ "|" ++ flows)
    let st ← Wire.parseInt step
    let n ← Wire.parseNat count
    if n == 0 then none else
    some ((List.range n).map fun (i : Nat) => { w with ts := w.ts + st * Int.ofNat i })
  | _ => none

def parseHist (s : String) : Option (List WriteOut) := do
  let ls ← (Wire.semiField s).mapM parseItem
  some ls.flatten

def parseBools (s : String) : Option (List Bool) := (Wire.listField s).mapM Wire.parseBool

def parseCase : List String → Option Case
  | ["q", attrs, cond, first, last, ifaces, workers, lowmem, sched, hist] => do
    let sel ← parseSel attrs
    let c ← parseCond cond
    let f ← Wire.parseInt first
    let l ← Wire.parseInt last
    let ws ← Wire.natList workers
    let lm ← parseBools lowmem
    let sd ← Wire.parseNat sched
    let h ← parseHist hist
    if ws.isEmpty || lm.isEmpty || ws.any (· == 0) then none else
    some { q := { sel := sel, cond := c, first := f, last := l, ifaces := if ifaces == "any" then none else some (Wire.listField ifaces) },
           workers := ws, lowmem := lm, sched := sd, hist := h }
  | _ => none

/-- strip `|stats=…` (statistics are not part of "rows and totals") and `|cfgs=k`; returns (answer, k) -/
def splitOut (out : String) : Option (String × Nat) :=
  match out.splitOn "|cfgs=" with
  | [a, k] => do
    let k ← Wire.parseNat k
    match a.splitOn "|stats=" with
    | [r, _] => some (r, k)
    | [r] => some (r, k)
    | _ => none
  | _ => none

/-- does the implementation's observed output satisfy the property on this case? -/
def judge (args : List String) (out : String) : String :=
  match parseCase args with
  | none => "bad-case"
  | some c =>
    if out.startsWith "hang:" then "violates:hang"
    else if out.startsWith "differ-bytes:" then "violates:statistics-depend-on-configuration"
    else if out.startsWith "differ:" then "violates:result-depends-on-configuration"
    else if out == "panic" then "violates:panic"
    else match splitOut out with
      | none => "violates:unreadable-output"
      | some (r, k) =>
        if k != c.workers.length * c.lowmem.length then "violates:configuration-skipped"
        else
          let want := answer c.q c.hist
          if r == want then "holds"
          else if r.startsWith "err:" then "violates:unexpected-error"
          else if want.startsWith "err:" then "violates:missing-error"
          else "violates:differs-from-sequential-aggregation"

end C11
