import GoProbeModel.Base.Wire

/-!
C19 — packet parsing: executable spec and judge. Nothing here depends on generated code or on how
`ParsePacketV4/V6` are written.

The documented flow key of an IP layer `p` (a byte string, as handed out by the capture source):

* IPv4: fixed 20-byte header (options are not followed: the transport header is read at offset 20
  as `flow.go` documents with its `ipLayerV4*` offsets); IPv6: fixed 40-byte header.
* a layer shorter than the fixed header is *truncated*;
* IPv4 only, any protocol but ESP (50): a non-zero fragment offset (13 bits of bytes 6–7) means a
  non-first fragment, which carries no transport header: *fragment*;
* TCP needs the header up to the flags byte (offset 13), UDP the two ports, ICMP / ICMPv6 the type
  byte, otherwise *truncated*;
* key = source address ‖ source port ‖ destination address ‖ destination port ‖ protocol, ports only
  for TCP/UDP (else zero), and the port of one side is zeroed when the *other* side's port is a
  common service port (TCP 53, 80, 443, 445, 8080; UDP 53, 443) — "the ephemeral side is dropped";
* auxiliary byte: TCP flags, ICMP type, else 0 (not part of the key).
-/
namespace C19

inductive Res where
  | fragment
  | truncated
  | key (k : List Nat) (aux : Nat)
  deriving Repr, DecidableEq, Inhabited

def Res.show : Res → String
  | .fragment => "frag"
  | .truncated => "trunc"
  | .key k aux => "ok " ++ Wire.bytesToHex k ++ " " ++ toString aux

/-- byte `i` of `p` (0 beyond the end; every use below is guarded by a length test) -/
def b (p : List Nat) (i : Nat) : Nat := p.getD i 0

/-- `n` bytes of `p` from offset `lo` -/
def field (p : List Nat) (lo n : Nat) : List Nat := (List.range n).map fun i => b p (lo + i)

def commonTCP : List Nat := [53, 80, 443, 445, 8080]
def commonUDP : List Nat := [53, 443]

/-- is port `hi*256+lo` a common service port of protocol `proto`? -/
def isCommon (proto hi lo : Nat) : Bool :=
  (proto == 6 && commonTCP.contains (hi * 256 + lo)) || (proto == 17 && commonUDP.contains (hi * 256 + lo))

/-- address length, header length, ICMP protocol number, fragments possible -/
structure Fam where
  alen : Nat
  hdr : Nat
  sip : Nat
  dip : Nat
  protoPos : Nat
  icmp : Nat
  frags : Bool

def fam4 : Fam := { alen := 4, hdr := 20, sip := 12, dip := 16, protoPos := 9, icmp := 1, frags := true }
def fam6 : Fam := { alen := 16, hdr := 40, sip := 8, dip := 24, protoPos := 6, icmp := 58, frags := false }

def isFrag (f : Fam) (p : List Nat) : Bool :=
  f.frags && b p f.protoPos != 50 && (b p 6 % 32 != 0 || b p 7 != 0)

def keyOf (f : Fam) (p : List Nat) : List Nat :=
  let proto := b p f.protoPos
  let h := f.hdr
  let withPorts := proto == 6 || proto == 17
  let sport := if withPorts && !isCommon proto (b p (h + 2)) (b p (h + 3)) then [b p h, b p (h + 1)] else [0, 0]
  let dport := if withPorts && !isCommon proto (b p h) (b p (h + 1)) then [b p (h + 2), b p (h + 3)] else [0, 0]
  field p f.sip f.alen ++ sport ++ field p f.dip f.alen ++ dport ++ [proto]

/-- the documented result of parsing IP layer `p` -/
def spec (f : Fam) (p : List Nat) : Res :=
  if p.length < f.hdr then .truncated
  else if isFrag f p then .fragment
  else
    let proto := b p f.protoPos
    if proto = 6 then (if p.length < f.hdr + 14 then .truncated else .key (keyOf f p) (b p (f.hdr + 13)))
    else if proto = 17 then (if p.length < f.hdr + 4 then .truncated else .key (keyOf f p) 0)
    else if proto = f.icmp then (if p.length < f.hdr + 1 then .truncated else .key (keyOf f p) (b p f.hdr))
    else .key (keyOf f p) 0

/-- mirror image of a key: source and destination halves (address + port) swapped, protocol kept -/
def revKey (f : Fam) (k : List Nat) : List Nat :=
  let half := f.alen + 2
  (k.drop half).take half ++ k.take half ++ k.drop (2 * half)

def eqRange (p q : List Nat) (pl ql n : Nat) : Bool :=
  (List.range n).all fun i => b q (ql + i) == b p (pl + i)

/-- `q` is a packet of the same conversation as `p` travelling the other way: same length, same
    protocol, same fragment status, addresses swapped and — for TCP/UDP packets that carry them —
    ports swapped. Every other byte (TTL, checksums, TCP flags, ICMP type, payload …) is free. -/
def isMirror (f : Fam) (p q : List Nat) : Bool :=
  q.length == p.length && b q f.protoPos == b p f.protoPos && isFrag f q == isFrag f p &&
  eqRange p q f.dip f.sip f.alen && eqRange p q f.sip f.dip f.alen &&
  (!(b p f.protoPos == 6 || b p f.protoPos == 17) || eqRange p q (f.hdr + 2) f.hdr 2 && eqRange p q f.hdr (f.hdr + 2) 2)

/-! ## judge -/

/-- observed result of one parser call -/
inductive Obs where
  | panic
  | res (r : Res)
  deriving Repr, DecidableEq

def parseObs : List String → Option (Obs × List String)
  | "panic" :: rest => some (.panic, rest)
  | "frag" :: rest => some (.res .fragment, rest)
  | "trunc" :: rest => some (.res .truncated, rest)
  | "ok" :: k :: aux :: rest =>
    match Wire.hexToBytes k, Wire.parseNat aux with
    | some k, some aux => some (.res (.key k aux), rest)
    | _, _ => none
  | _ => none

/-- does the observed outcome for layer `p` satisfy the property? (`""` = yes) -/
def conforms (f : Fam) (p : List Nat) : Obs → String
  | .panic => if p.length < f.hdr then "panic-short-header" else "panic"
  | .res r =>
    if p.length < f.hdr then
      -- a short header must be classified, never keyed; "fragment" is tolerated when the bytes that
      -- say so are present
      match r with
      | .truncated => ""
      | .fragment => if p.length ≥ 10 ∧ isFrag f p then "" else "short-header-misclassified"
      | .key _ _ => "key-from-short-header"
    else
      match spec f p, r with
      | .fragment, .fragment => ""
      | .truncated, .truncated => ""
      | .key k _, .key k' _ => if k = k' then "" else "wrong-key"   -- the auxiliary byte is not part of the key
      | _, _ => "misclassified"

def judgePair (f : Fam) (p q : List Nat) (o1 o2 : Obs) (rev : List Nat) : String :=
  let c1 := conforms f p o1
  let c2 := conforms f q o2
  if c1 ≠ "" then "violates:" ++ c1
  else if c2 ≠ "" then "violates:" ++ c2
  else
    -- the implementation's own Reverse() of the key of p must be its mirror image
    let revBad : Bool := match o1 with
      | .res (.key k1 _) => rev != revKey f k1
      | _ => rev != []
    if revBad then "violates:reverse" else
    if isMirror f p q then
      match o1, o2 with
      | .res (.key k1 _), .res (.key k2 _) => if k2 = revKey f k1 then "holds:mirror" else "violates:mirror"
      | .res .fragment, .res .fragment => "holds:mirror-class"
      | .res .truncated, .res .truncated => "holds:mirror-class"
      | _, _ => "violates:mirror-class"
    else "holds"

/-- counters reported by the capture loop after it was fed the single layer `p` -/
structure Counters where
  proc : Nat
  frag : Nat
  inv : Nat
  trunc : Nat
  v4 : Nat
  v6 : Nat
  deriving Repr, DecidableEq

def Counters.show (c : Counters) : String :=
  s!"proc={c.proc} frag={c.frag} inv={c.inv} trunc={c.trunc} v4={c.v4} v6={c.v6}"

def parseKV (pre s : String) : Option Nat :=
  if s.startsWith pre then (s.drop pre.length).toNat? else none

def parseCounters : List String → Option Counters
  | [a, b', c, d, e, g] =>
    match parseKV "proc=" a, parseKV "frag=" b', parseKV "inv=" c, parseKV "trunc=" d, parseKV "v4=" e, parseKV "v6=" g with
    | some a, some b', some c, some d, some e, some g => some ⟨a, b', c, d, e, g⟩
    | _, _, _, _, _, _ => none
  | _ => none

/-- the capture loop must account for the layer in exactly one way, matching its classification
    (whether a fragment counts as "processed" is not part of the property) -/
def judgeLoop (p : List Nat) (c : Counters) : String :=
  let ver := b p 0 / 16
  let expect (f : Fam) (isV4 : Bool) : String :=
    match spec f p with
    | .key _ _ => if c.frag = 0 ∧ c.inv = 0 ∧ c.trunc = 0 ∧ c.v4 = (if isV4 then 1 else 0) ∧ c.v6 = (if isV4 then 0 else 1)
                  then "holds" else "violates:loop-key-not-logged"
    | .fragment => if c.frag = 1 ∧ c.inv = 0 ∧ c.trunc = 0 ∧ c.v4 = 0 ∧ c.v6 = 0 then "holds" else "violates:loop-fragment-miscounted"
    | .truncated => if c.frag = 0 ∧ c.inv = 0 ∧ c.trunc = 1 ∧ c.v4 = 0 ∧ c.v6 = 0 then "holds" else "violates:loop-truncated-miscounted"
  if p.isEmpty then
    if c.frag = 0 ∧ c.inv + c.trunc = 1 ∧ c.v4 = 0 ∧ c.v6 = 0 then "holds:empty-layer" else "violates:loop-empty-layer-miscounted"
  else if ver = 4 then expect fam4 true
  else if ver = 6 then expect fam6 false
  else if c.frag = 0 ∧ c.inv = 1 ∧ c.trunc = 0 ∧ c.v4 = 0 ∧ c.v6 = 0 then "holds:not-ip" else "violates:loop-invalid-miscounted"

def judge (args : List String) (out : String) : String :=
  match args with
  | [fam, p, q] =>
    if fam ≠ "v4" ∧ fam ≠ "v6" then "violates:unparsable" else
    let f := if fam = "v4" then fam4 else fam6
    match Wire.hexToBytes p, Wire.hexToBytes q with
    | some p, some q =>
      match (out.splitOn " | ").map Wire.fields with
      | [l, r, [rev]] =>
        match parseObs l, parseObs r, Wire.hexToBytes rev with
        | some (o1, []), some (o2, []), some rev => judgePair f p q o1 o2 rev
        | _, _, _ => "violates:unparsable"
      | _ => "violates:unparsable"
    | _, _ => "violates:unparsable"
  | ["ip", p] =>
    match Wire.hexToBytes p with
    | some p =>
      if out = "panic" then "violates:loop-panic" else
      match parseCounters (Wire.fields out) with
      | some c => judgeLoop p c
      | none => "violates:unparsable"
    | none => "violates:unparsable"
  | _ => "violates:unparsable"

end C19
