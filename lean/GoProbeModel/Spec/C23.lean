import GoProbeModel.Base.Wire

/-!
C23 — local packet buffer: items, operations, observation tokens, the executable *spec* (a
queue of accepted items with a byte budget) and the spec judge. Nothing here depends on `Gen/*`
or on how the code lays the items out in memory.

Wire case   `C23 <page> <limit> <get> <ops>`
  page   initial (minimum) buffer size of the pool (`unix.Getpagesize()` on the harness host)
  limit  `LocalBufferPool.MaxBufferSize`
  get    size requested from the pool for the slice that is `Assign`ed first
  ops    comma separated: `a:<item>` Add · `A:<n>:<item>` n Adds of the variants 0..n-1 of the item
         · `n` Next · `N:<k>` k Nexts · `r` Reset · `c:<size>` Reset, hand the slice back to the
         pool, get `size` bytes again, Assign (what `bufferPackets` does between two rotations)
  item   `<4|6>:<keyhex>:<pktType>:<pktSize>:<auxInfo>:<errno>`
Output: one token per executed op, then `e.<w>.<r>.<len>.<cap>`; a panic ends the line with `panic`
  `a1.<w>` / `a0.<w>`   Add accepted / refused, write position afterwards (numerator of `Usage()`)
  `n:<item>` / `n-`     Next returned the item / nothing
  `r.<w>`  `c.<w>.<len>.<cap>`
-/
namespace C23

structure Item where
  v4 : Bool          -- isIPv4
  key : List Nat     -- epHash bytes
  ptype : Nat        -- pktType
  size : Nat         -- pktSize (uint32)
  aux : Nat          -- auxInfo
  errno : Int        -- capturetypes.ParsingErrno (int8)
  deriving Repr, DecidableEq, Inhabited

/-- the field values the Go signature admits, with the key length that belongs to the IP version -/
def Item.wf (it : Item) : Bool :=
  (it.key.length == (if it.v4 then 13 else 37)) && it.key.all (· < 256) && decide (it.ptype < 256) &&
  decide (it.size < 4294967296) && decide (it.aux < 256) && decide (-128 ≤ it.errno) && decide (it.errno ≤ 127)

/-- bytes an item needs in the buffer: key, IP version, packet type, auxiliary byte, errno, 4 bytes size -/
def need (it : Item) : Nat := it.key.length + 8

inductive Op where
  | add (it : Item)
  | next
  | reset
  | cycle (size : Nat)
  deriving Repr, DecidableEq, Inhabited

def Op.wf : Op → Bool
  | .add it => it.wf
  | .cycle n => decide (1 ≤ n)
  | _ => true

inductive Tok where
  | added (ok : Bool) (w : Nat)
  | got (it : Option Item)
  | rst (w : Nat)
  | cyc (w len cap : Nat)
  | fin (w r len cap : Nat)
  | panic
  deriving Repr, DecidableEq, Inhabited

/-! ### executable spec: a queue with a byte budget -/

/-- Abstract buffer: the items accepted since the last reset (in order), how many of them were
    taken out, the bytes they need, and the last write position the implementation reported. -/
structure Abs where
  acc : Array Item := #[]
  taken : Nat := 0
  used : Nat := 0
  lastW : Nat := 0
  deriving Repr

def Abs.pending (a : Abs) : List Item := a.acc.toList.drop a.taken

/-- first field in which an observed item differs from the expected one -/
def diffField (x y : Item) : String :=
  if x.v4 ≠ y.v4 then "ip-version"
  else if x.key ≠ y.key then "key"
  else if x.ptype ≠ y.ptype then "packet-type"
  else if x.aux ≠ y.aux then "aux"
  else if x.errno ≠ y.errno then "errno"
  else "size"

/-- One observed step against the property. `.error` names the clause that is broken. -/
def judgeStep (limit : Nat) (a : Abs) : Op → Tok → Except String Abs
  | .add it, .added true w =>
    .ok { a with acc := a.acc.push it, used := a.used + need it, lastW := w }
  | .add it, .added false w =>
    if a.used + need it ≤ limit then .error "refused-below-limit"
    else if w ≠ a.lastW then .error "changed-by-refused-insert"
    else .ok a
  | .next, .got o =>
    match o, a.acc[a.taken]? with
    | none, none => .ok a
    | none, some _ => .error "item-lost"
    | some _, none => .error "phantom-item"
    | some x, some y => if x = y then .ok { a with taken := a.taken + 1 } else .error ("field-" ++ diffField x y)
  | .reset, .rst w => .ok { acc := #[], taken := 0, used := 0, lastW := w }
  | .cycle _, .cyc w _ _ => .ok { acc := #[], taken := 0, used := 0, lastW := w }
  | _, _ => .error "token-mismatch"

/-- the whole observed run: one token per op, then the final state token -/
def judgeAll (limit : Nat) : Abs → List Op → List Tok → String
  | _, _, .panic :: _ => "violates:panic"
  | _, [], [.fin _ _ _ _] => "holds"
  | a, op :: ops, t :: ts =>
    match judgeStep limit a op t with
    | .ok a' => judgeAll limit a' ops ts
    | .error e => "violates:" ++ e
  | _, _, _ => "violates:token-mismatch"

/-! ### wire -/

def showItem (it : Item) : String :=
  (if it.v4 then "4" else "6") ++ ":" ++ Wire.bytesToHex it.key ++ ":" ++ toString it.ptype ++ ":" ++
  toString it.size ++ ":" ++ toString it.aux ++ ":" ++ toString it.errno

def parseItemFields : List String → Option Item
  | [f, k, pt, sz, aux, en] => do
    let v4 ← if f == "4" then some true else if f == "6" then some false else none
    let key ← Wire.hexToBytes k
    let pt ← Wire.parseNat pt
    let sz ← Wire.parseNat sz
    let aux ← Wire.parseNat aux
    let en ← Wire.parseInt en
    some { v4 := v4, key := key, ptype := pt, size := sz, aux := aux, errno := en }
  | _ => none

/-- the i-th variant of an item (`A:<n>:…` adds variants 0..n-1): size, first key byte and errno move -/
def variant (it : Item) (i : Nat) : Item :=
  { it with
    size := (it.size + i) % 4294967296
    key := match it.key with
      | [] => []
      | k :: ks => ((k + i) % 256) :: ks
    errno := (it.errno + 128 + (i : Int)) % 256 - 128 }

def parseOp (s : String) : Option (List Op) :=
  match s.splitOn ":" with
  | ["n"] => some [.next]
  | ["r"] => some [.reset]
  | ["N", k] => do let k ← Wire.parseNat k; some (List.replicate k .next)
  | ["c", n] => do let n ← Wire.parseNat n; some [.cycle n]
  | "a" :: rest => do let it ← parseItemFields rest; some [.add it]
  | "A" :: n :: rest => do
    let n ← Wire.parseNat n
    let it ← parseItemFields rest
    some ((List.range n).map fun i => .add (variant it i))
  | _ => none

def parseOps (s : String) : Option (List Op) := do
  let parts ← (Wire.listField s).mapM parseOp
  some parts.flatten

def showTok : Tok → String
  | .added ok w => "a" ++ Wire.boolStr ok ++ "." ++ toString w
  | .got none => "n-"
  | .got (some it) => "n:" ++ showItem it
  | .rst w => "r." ++ toString w
  | .cyc w l c => "c." ++ toString w ++ "." ++ toString l ++ "." ++ toString c
  | .fin w r l c => "e." ++ toString w ++ "." ++ toString r ++ "." ++ toString l ++ "." ++ toString c
  | .panic => "panic"

def parseTok (s : String) : Option Tok :=
  if s == "panic" then some .panic
  else if s == "n-" then some (.got none)
  else match s.splitOn ":" with
    | "n" :: rest => (parseItemFields rest).map (fun it => .got (some it))
    | _ =>
      match s.splitOn "." with
      | ["a1", w] => (Wire.parseNat w).map (.added true)
      | ["a0", w] => (Wire.parseNat w).map (.added false)
      | ["r", w] => (Wire.parseNat w).map .rst
      | ["c", w, l, c] => do
        let w ← Wire.parseNat w; let l ← Wire.parseNat l; let c ← Wire.parseNat c
        some (.cyc w l c)
      | ["e", w, r, l, c] => do
        let w ← Wire.parseNat w; let r ← Wire.parseNat r; let l ← Wire.parseNat l; let c ← Wire.parseNat c
        some (.fin w r l c)
      | _ => none

def showToks (ts : List Tok) : String := ",".intercalate (ts.map showTok)
def parseToks (s : String) : Option (List Tok) := (s.splitOn ",").mapM parseTok

/-- the property's domain: a usable pool (page ≥ 45 bytes so that one doubling always makes room
    for one item, non-empty slices) and well-formed items; every size limit -/
def inDomain (page get : Nat) (ops : List Op) : Bool :=
  decide (45 ≤ page) && decide (1 ≤ get) && ops.all Op.wf

/-- spec verdict on an observed implementation output -/
def judge (args : List String) (out : String) : String :=
  match args with
  | [page, limit, get, ops] =>
    match Wire.parseNat page, Wire.parseNat limit, Wire.parseNat get, parseOps ops with
    | some page, some limit, some get, some ops =>
      if !inDomain page get ops then "holds:outside-domain"
      else match parseToks out with
        | some toks => judgeAll limit {} ops toks
        | none => "violates:unparsable"
    | _, _, _, _ => "violates:bad-args"
  | _ => "violates:bad-op"

end C23
