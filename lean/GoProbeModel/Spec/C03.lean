import GoProbeModel.Base.Wire

/-!
C03 — day metadata survives reopening.  Data types, the executable *spec* (what the property
demands of an observed run, independent of how the code achieves it), wire format, judge.
Nothing here depends on `Gen/*` or `Model/*`.

A day's metadata (`gpfile.Metadata`) in normalised form: the Go struct keeps one
`[]BlockAtTime{Offset, Len, RawLen, EncoderType, Timestamp}` per column; `Offset` (running sum of
`Len`) and the per-column copies of `Timestamp` are derived data, so the value is
(version, day totals, per column: CurrentOffset + (Len, RawLen, EncoderType) per block,
block timestamps, per-block traffic).
-/
namespace C03

structure Desc where
  len : Nat
  rawLen : Nat
  enc : Nat
  deriving Repr, DecidableEq, Inhabited

structure Col where
  cur : Nat
  descs : List Desc
  deriving Repr, DecidableEq, Inhabited

structure Traffic where
  v4 : Nat
  v6 : Nat
  drops : Nat
  deriving Repr, DecidableEq, Inhabited

structure Counts where
  br : Nat
  bs : Nat
  pr : Nat
  ps : Nat
  deriving Repr, DecidableEq, Inhabited

structure Meta where
  version : Nat
  tot : Traffic
  cnt : Counts
  cols : List Col
  ts : List Int
  traffic : List Traffic
  deriving Repr, DecidableEq, Inhabited

/-- one block write: timestamp, per-block traffic summary, counters, raw data length per column -/
structure Write where
  ts : Int
  tr : Traffic
  cn : Counts
  lens : List Nat
  deriving Repr, DecidableEq, Inhabited

/-- how a writer session ends after a rejected block: `abort` = return without `Close`
    (`DBWriter.Write`, `DBWriter.WriteBulk`), `close` = `Close` nevertheless (merge's deferred close) -/
inductive Mode where
  | abort
  | close
  deriving Repr, DecidableEq, Inhabited

structure Session where
  mode : Mode
  writes : List Write
  deriving Repr, DecidableEq, Inhabited

/-! ### spec-level arithmetic -/

def two32 : Nat := 4294967296
def two63 : Nat := 9223372036854775808
def two64 : Nat := 18446744073709551616

/-- Go `uint64` addition -/
def add64 (a b : Nat) : Nat := (a + b) % two64

def Traffic.add (a b : Traffic) : Traffic :=
  { v4 := add64 a.v4 b.v4, v6 := add64 a.v6 b.v6, drops := add64 a.drops b.drops }

def Counts.add (a b : Counts) : Counts :=
  { br := add64 a.br b.br, bs := add64 a.bs b.bs, pr := add64 a.pr b.pr, ps := add64 a.ps b.ps }

def Traffic.zero : Traffic := ⟨0, 0, 0⟩
def Counts.zero : Counts := ⟨0, 0, 0, 0⟩

def Traffic.fits32 (t : Traffic) : Bool := t.v4 < two32 && t.v6 < two32 && t.drops < two32

/-- consecutive timestamps strictly increase by less than 2^32 (what an unsigned 32-bit delta can say) -/
def deltasOk : List Int → Bool
  | [] => true
  | [_] => true
  | a :: b :: rest => a < b && b - a < (two32 : Int) && deltasOk (b :: rest)

/-- **Representable**: the on-disk format can store the value faithfully -/
def representable (m : Meta) : Bool :=
  deltasOk m.ts && m.traffic.all Traffic.fits32

def inI64 (t : Int) : Bool := -(two63 : Int) ≤ t && t < (two63 : Int)

def Desc.typed (d : Desc) : Bool := d.len < two32 && d.rawLen < two32 && d.enc < 256
def Traffic.typed (t : Traffic) : Bool := t.v4 < two64 && t.v6 < two64 && t.drops < two64
def Counts.typed (c : Counts) : Bool := c.br < two64 && c.bs < two64 && c.pr < two64 && c.ps < two64

/-- **WellTyped**: the value is one a Go `Metadata` of a `GPDir` can hold: field ranges of the Go
    types (slice lengths are `int`) and the shape `WriteBlocks` maintains (`ncols` columns, one
    descriptor per block in each) -/
def wellTyped (ncols : Nat) (m : Meta) : Bool :=
  m.version < two64 && m.tot.typed && m.cnt.typed &&
  m.cols.length == ncols &&
  m.cols.all (fun c => c.cur < two64 && c.descs.length == m.ts.length && c.descs.all Desc.typed) &&
  m.traffic.length == m.ts.length && m.traffic.all Traffic.typed && m.ts.all inI64 &&
  m.ts.length < two63

/-! ### the spec of "reopening": what the accepted writes say -/

def specTs (ws : List Write) : List Int := ws.map (·.ts)
def specTraffic (ws : List Write) : List Traffic := ws.map (·.tr)
def specTot (ws : List Write) : Traffic := ws.foldl (fun a w => a.add w.tr) Traffic.zero
def specCnt (ws : List Write) : Counts := ws.foldl (fun a w => a.add w.cn) Counts.zero

/-- the per-column bookkeeping a reopened day must show for the accepted blocks, whatever the
    encoder: one descriptor per block whose raw length is the length of the data written, and a
    write offset that is the sum of the stored lengths (the next block is written there, and blocks
    are read back at the running sums of the stored lengths) -/
def specColsOk (ws : List Write) (m : Meta) : Bool :=
  (List.range m.cols.length).all fun k =>
    let c := m.cols.getD k default
    c.descs.map (·.rawLen) == ws.map (fun w => w.lens.getD k 0) &&
    c.cur == c.descs.foldl (fun a d => add64 a d.len) 0

/-! ### wire format -/

def showTraffic (t : Traffic) : String := s!"{t.v4}:{t.v6}:{t.drops}"
def showCounts (c : Counts) : String := s!"{c.br}:{c.bs}:{c.pr}:{c.ps}"
def showDesc (d : Desc) : String := s!"{d.len}:{d.rawLen}:{d.enc}"
def showCol (c : Col) : String := toString c.cur ++ "/" ++ Wire.showList (c.descs.map showDesc)

def showBar (xs : List String) : String := if xs.isEmpty then "-" else "|".intercalate xs
def barField (s : String) : List String := if s == "-" then [] else s.splitOn "|"

/-- `version;tot;cnt;ts,…;traffic,…;col|col|…` -/
def showMeta (m : Meta) : String :=
  ";".intercalate [toString m.version, showTraffic m.tot, showCounts m.cnt,
    Wire.showList (m.ts.map toString), Wire.showList (m.traffic.map showTraffic),
    showBar (m.cols.map showCol)]

def parseTraffic (s : String) : Option Traffic :=
  match s.splitOn ":" with
  | [a, b, c] => do some ⟨← Wire.parseNat a, ← Wire.parseNat b, ← Wire.parseNat c⟩
  | _ => none

def parseCounts (s : String) : Option Counts :=
  match s.splitOn ":" with
  | [a, b, c, d] => do some ⟨← Wire.parseNat a, ← Wire.parseNat b, ← Wire.parseNat c, ← Wire.parseNat d⟩
  | _ => none

def parseDesc (s : String) : Option Desc :=
  match s.splitOn ":" with
  | [a, b, c] => do some ⟨← Wire.parseNat a, ← Wire.parseNat b, ← Wire.parseNat c⟩
  | _ => none

def parseCol (s : String) : Option Col :=
  match s.splitOn "/" with
  | [c, ds] => do some ⟨← Wire.parseNat c, ← (Wire.listField ds).mapM parseDesc⟩
  | _ => none

def parseMeta (s : String) : Option Meta :=
  match s.splitOn ";" with
  | [v, t, c, ts, tr, cols] => do
    some { version := ← Wire.parseNat v, tot := ← parseTraffic t, cnt := ← parseCounts c,
           ts := ← Wire.intList ts, traffic := ← (Wire.listField tr).mapM parseTraffic,
           cols := ← (barField cols).mapM parseCol }
  | _ => none

/-- `ts:v4:v6:drops:br:bs:pr:ps:l0.l1.….l7` -/
def parseWrite (s : String) : Option Write :=
  match s.splitOn ":" with
  | [ts, a, b, c, d, e, f, g, ls] => do
    some { ts := ← Wire.parseInt ts,
           tr := ⟨← Wire.parseNat a, ← Wire.parseNat b, ← Wire.parseNat c⟩,
           cn := ⟨← Wire.parseNat d, ← Wire.parseNat e, ← Wire.parseNat f, ← Wire.parseNat g⟩,
           lens := ← (ls.splitOn ".").mapM Wire.parseNat }
  | _ => none

/-- `a/w,w,…` (abort), `c/w,w,…` (close) or `w/w` (one block through `DBWriter.Write`, which aborts) -/
def parseSession (s : String) : Option Session :=
  match s.splitOn "/" with
  | [m, ws] => do
    let mode ← if m == "a" || m == "w" then some Mode.abort else if m == "c" then some Mode.close else none
    some ⟨mode, ← (Wire.listField ws).mapM parseWrite⟩
  | _ => none

def parseSessions (s : String) : Option (List Session) := (barField s).mapM parseSession

/-- observed result of one session: per attempted write `ok`/`err:…`, and the result of `Close`
    (`ok`, `err:…`, `skipped` when the writer returned without closing, `openerr:…`) -/
structure SessionResult where
  writes : List String
  close : String
  deriving Repr, DecidableEq, Inhabited

def showSessionResult (r : SessionResult) : String := Wire.showList r.writes ++ ";" ++ r.close

def parseSessionResult (s : String) : Option SessionResult :=
  match s.splitOn ";" with
  | [ws, c] => some ⟨Wire.listField ws, c⟩
  | _ => none

/-- the writes of a run that were *accepted without error*: `WriteBlocks` returned nil and the
    session's `Close` returned nil -/
def acceptedOf : List Session → List SessionResult → List Write
  | s :: ss, r :: rs =>
    (if r.close == "ok" then
      ((s.writes.zip r.writes).filter (fun p => p.2 == "ok")).map (·.1) else []) ++ acceptedOf ss rs
  | _, _ => []

/-- big-endian value of a byte list -/
def beVal (bs : List Nat) : Nat := bs.foldl (fun a b => a * 256 + b) 0

/-- spec of "truncated": shorter than the fixed part (72-byte header, 8 column offsets, initial
    timestamp) plus 88 bytes (8 × 9-byte descriptor + 16-byte traffic entry) per announced block -/
def truncated (bs : List Nat) : Bool :=
  bs.length < 144 || bs.length < 144 + 88 * beVal ((bs.drop 8).take 8)

/-! ### judge -/

/-- parse `ok <M> x=<k>` style tails: returns the decoded value if `k = 0` -/
def parseDecoded (fs : List String) : Option (Except String Meta) :=
  match fs with
  | [m, x] =>
    match parseMeta m with
    | some mm => if x == "x=0" then some (.ok mm) else some (.error "columns-inconsistent")
    | none => none
  | _ => none

def judge (args : List String) (out : String) : String :=
  let o := Wire.fields out
  if o == ["panic"] then
    -- a byte above 'z' in a directory-name suffix crashes the base-62 decoder of the bitpack
    -- dependency: a directory name is not a metadata file, the crash is C06's (foreign files)
    (match args with
     | ["sfxd", hex] =>
       if ((Wire.hexToBytes hex).getD []).any (· > 122) then "holds:outside-domain-suffix-byte" else "violates:panic"
     | _ => "violates:panic") else
  match args with
  | ["wdmg", _, _] =>
    -- a day whose metadata cannot be decoded: every further write is refused with an error and the
    -- damaged file is left as it is (nothing acknowledged earlier is replaced behind the error)
    (match o with
     | [rs, st] =>
       if (Wire.listField rs).contains "panic" then "violates:panic"
       else if (Wire.listField rs).contains "ok" then "violates:write-accepted-on-undecodable-day"
       else if st != "unchanged" then "violates:damaged-metadata-replaced"
       else "holds"
     | _ => "violates:unparsable")
  | ["rt", m] =>
    match parseMeta m with
    | none => "violates:unparsable-case"
    | some mm =>
      match o with
      | [e] => if e.startsWith "err:" then
                 (if representable mm then "holds:rejected-representable" else "holds:rejected")
               else "violates:unparsable"
      | "ok" :: _ :: "ok" :: rest =>
        match parseDecoded rest with
        | some (.ok d) => if d = mm then "holds" else "violates:stored-altered"
        | some (.error e) => "violates:" ++ e
        | none => "violates:unparsable"
      | ["ok", _, e] => if e.startsWith "err:" then "violates:stored-unreadable" else "violates:unparsable"
      | _ => "violates:unparsable"
  | ["unm", hex] =>
    match Wire.hexToBytes hex with
    | none => "violates:unparsable-case"
    | some bs =>
      match o with
      | [e] => if e.startsWith "err:" then "holds:reported" else "violates:unparsable"
      | "ok" :: rest =>
        match parseDecoded rest with
        | some (.ok _) => if truncated bs then "violates:truncated-accepted" else "holds"
        | some (.error e) => "violates:" ++ e
        | none => "violates:unparsable"
      | _ => "violates:unparsable"
  | ["hist", ss] =>
    match parseSessions ss with
    | none => "violates:unparsable-case"
    | some sessions =>
      match o with
      | res :: _sfx :: _hex :: reopen =>
        match (barField res).mapM parseSessionResult with
        | none => "violates:unparsable"
        | some rs =>
          if rs.length ≠ sessions.length then "violates:unparsable" else
          let acc := acceptedOf sessions rs
          match reopen with
          | [e] =>
            if e.startsWith "err:" then
              (if acc.isEmpty then "holds:nothing-accepted" else "violates:accepted-history-unreadable")
            else "violates:unparsable"
          | "ok" :: rest =>
            match parseDecoded rest with
            | some (.ok d) =>
              if d.ts ≠ specTs acc then "violates:timestamps-differ"
              else if d.traffic ≠ specTraffic acc then "violates:block-counts-differ"
              else if d.tot ≠ specTot acc ∨ d.cnt ≠ specCnt acc then "violates:day-totals-differ"
              else if !specColsOk acc d then "violates:column-bookkeeping-differs"
              else "holds"
            | some (.error e) => "violates:" ++ e
            | none => "violates:unparsable"
          | _ => "violates:unparsable"
      | _ => "violates:unparsable"
  | ["sfx", ns] =>
    match Wire.natList ns, o with
    | some ns, [_, "ok", vs] =>
      if Wire.natList vs = some ns then "holds" else "violates:suffix-altered"
    | some _, _ => "violates:suffix-unreadable"
    | none, _ => "violates:unparsable-case"
  | ["sfxd", hex] =>
    match Wire.hexToBytes hex with
    | none => "violates:unparsable-case"
    | some _ =>
      match o with
      | ["ok", _] => "holds"
      | [e] => if e.startsWith "err:" then "holds:reported" else "violates:unparsable"
      | _ => "violates:unparsable"
  | _ => "violates:bad-op"

end C03
