import GoProbeModel.Base.Wire

/-!
C07 — every compressor restores exactly the bytes it was given. Case type, wire format, and the
executable spec (`judge`), which looks only at what the implementation was given and what it
reported — never at how the wrappers work.

One case = one `Compress(data, buf, dst)` call on a fresh encoder of one build configuration
followed (when everything was written to a buffer) by one `Decompress(in, out, src)` call on the
bytes that were emitted:

  `C07 <cfg> <enc> <level> <warm> <data> <buflen>:<bufcap>:<fill> <dst> <in> <out> <trail> <ref>`

* `cfg`   `cgo` | `nocgo` — the build the call runs in (selects the cgo or the pure-Go wrapper)
* `enc`   `null` | `lz4` | `zstd`, `level` the compression level (0 = the encoder's default)
* `warm`  1 = the encoder object has already compressed and decompressed another block
* `data`  the input bytes (hex)
* scratch buffer `buf`: length, capacity and content (`byte i = (fill + i) mod 256`);
  `0:0:0` is the nil slice
* `dst`   `buf` (an unbounded in-memory writer) | `nil` | `lim<k>` (a writer failing after k bytes)
* `in`    `x` (exactly as long as what was emitted) | `l<k>` (k bytes longer than the stream) |
          `e` (empty) — `out`: `x` (exactly `len data`) | `g<k>` (k longer) | `s<k>` (k shorter)
* `trail` number of further bytes following the emitted ones in the source stream
* `ref`   the bytes the third-party library produces for `data` at this level in this build
          (observed through a call with a nil scratch buffer; an INPUT of the model, see Model/C07)

Implementation output: `c=<ok|err:…|panic> n=<n> em=<hex> [d=<ok|err:…|panic> dn=<m> out=<hex>]`, or
`c=crash` when the call killed the process (a fault inside a C library that Go cannot recover).
-/
namespace C07

abbrev Bytes := List Nat

inductive Dst where
  | buffer
  | nil
  | limited (k : Nat)
  deriving Repr, DecidableEq

inductive InMode where
  | exact
  | longer (k : Nat)
  | empty
  deriving Repr, DecidableEq

inductive OutMode where
  | exact
  | greater (k : Nat)
  | shorter (k : Nat)
  deriving Repr, DecidableEq

structure Case where
  cgo : Bool
  enc : String
  level : Nat
  warm : Bool
  data : Bytes
  bufLen : Nat
  bufCap : Nat
  bufFill : Nat
  dst : Dst
  inMode : InMode
  outMode : OutMode
  trail : Nat
  ref : Bytes
  deriving Repr

/-- what the implementation reported for one case -/
structure Obs where
  c : String                 -- ok | err:<kind> | panic
  n : Nat
  emitted : Bytes
  d : Option String          -- decompress step: ok | err:<kind> | panic (none = not run)
  dn : Nat
  out : Bytes
  deriving Repr, DecidableEq

/-! ### wire -/

def parseNatAfter (pre : String) (s : String) : Option Nat :=
  if s.startsWith pre then Wire.parseNat (s.drop pre.length).toString else none

def parseDst (s : String) : Option Dst :=
  if s == "buf" then some .buffer else if s == "nil" then some .nil
  else (parseNatAfter "lim" s).map .limited

def parseIn (s : String) : Option InMode :=
  if s == "x" then some .exact else if s == "e" then some .empty
  else (parseNatAfter "l" s).map .longer

def parseOut (s : String) : Option OutMode :=
  if s == "x" then some .exact
  else match parseNatAfter "g" s with
    | some k => some (.greater k)
    | none => (parseNatAfter "s" s).map .shorter

def parseCase : List String → Option Case
  | [cfg, enc, lvl, warm, data, buf, dst, inm, outm, trail, ref] => do
    let cgo ← if cfg == "cgo" then some true else if cfg == "nocgo" then some false else none
    if enc ≠ "null" ∧ enc ≠ "lz4" ∧ enc ≠ "zstd" then none
    let lvl ← Wire.parseNat lvl
    let warm ← Wire.parseBool warm
    let data ← Wire.hexToBytes data
    let (bl, bc, bf) ← match (buf.splitOn ":").mapM Wire.parseNat with
      | some [a, b, c] => some (a, b, c)
      | _ => none
    if bl > bc then none
    let dst ← parseDst dst
    let inm ← parseIn inm
    let outm ← parseOut outm
    let trail ← Wire.parseNat trail
    let ref ← Wire.hexToBytes ref
    some { cgo := cgo, enc := enc, level := lvl, warm := warm, data := data, bufLen := bl, bufCap := bc,
           bufFill := bf, dst := dst, inMode := inm, outMode := outm, trail := trail, ref := ref }
  | _ => none

def field (fs : List String) (k : String) : Option String :=
  (fs.find? (·.startsWith (k ++ "="))).map fun f => (f.drop (k.length + 1)).toString

def parseObs (out : String) : Option Obs := do
  let fs := Wire.fields out
  let c ← field fs "c"
  if c == "panic" ∨ c == "crash" then some { c := c, n := 0, emitted := [], d := none, dn := 0, out := [] } else
  let n ← (field fs "n").bind Wire.parseNat
  let em ← (field fs "em").bind Wire.hexToBytes
  match field fs "d" with
  | none => some { c := c, n := n, emitted := em, d := none, dn := 0, out := [] }
  | some d =>
    if d == "ok" then do
      let dn ← (field fs "dn").bind Wire.parseNat
      let o ← (field fs "out").bind Wire.hexToBytes
      some { c := c, n := n, emitted := em, d := some d, dn := dn, out := o }
    else some { c := c, n := n, emitted := em, d := some d, dn := 0, out := [] }

def showObs (o : Obs) : String :=
  if o.c == "panic" ∨ o.c == "crash" then "c=" ++ o.c else
  "c=" ++ o.c ++ " n=" ++ toString o.n ++ " em=" ++ Wire.bytesToHex o.emitted ++
  (match o.d with
   | none => ""
   | some d => " d=" ++ d ++ (if d == "ok" then " dn=" ++ toString o.dn ++ " out=" ++ Wire.bytesToHex o.out else ""))

/-! ### the executable spec -/

/-- The property, as a predicate on one observed call pair:
* a compressor handed a working writer must succeed, and whatever the outcome the count it
  reports is the number of bytes that reached the writer (0 when there is no writer);
* decompressing what was emitted into a buffer of the original length restores the original bytes.
Calls outside what the property speaks about (a null encoder without a writer, a failing writer,
wrongly sized `in`/`out`) are not judged beyond the byte count. -/
def judgeCase (cs : Case) (o : Obs) : String :=
  if o.c == "crash" then "violates:compress-crashes-the-process"
  else if o.c == "panic" then
    if cs.enc == "null" ∧ cs.dst = .nil then "holds:null-encoder-needs-a-writer" else "violates:compress-panics"
  else if o.n ≠ o.emitted.length then "violates:count-differs-from-bytes-emitted"
  else match cs.dst with
  | .nil => if o.c == "ok" ∧ o.n = 0 then "holds:no-writer" else "violates:no-writer-but-not-zero"
  | .limited k =>
    if o.emitted.length ≤ k then "holds:failing-writer" else "violates:wrote-past-writer-limit"
  | .buffer =>
    if o.c ≠ "ok" then "violates:compress-failed"
    else
      -- `out` longer than the data is fine for the library decoders (they report the decoded length);
      -- the null encoder fills whatever it is given, so there only the exact length is "properly sized"
      let sized : Bool := cs.inMode == .exact &&
        (cs.outMode == .exact || (cs.enc != "null" && match cs.outMode with | .greater _ => true | _ => false))
      match o.d with
      | none => "violates:decompress-not-run"
      | some d =>
        if sized then
          if d == "panic" then "violates:decompress-panics"
          else if d ≠ "ok" then "violates:decompress-failed"
          else if o.dn = cs.data.length ∧ o.out = cs.data then "holds" else "violates:restored-bytes-differ"
        else
          -- wrongly sized `in` / `out` are the caller's responsibility (encoder.go); only a silent
          -- success that reports the right length with wrong bytes is judged
          if d == "ok" ∧ o.dn = cs.data.length ∧ o.out ≠ cs.data.take o.out.length then "violates:restored-bytes-differ"
          else "holds:wrongly-sized-buffers"

def judge (args : List String) (out : String) : String :=
  match parseCase args, parseObs out with
  | some cs, some o => judgeCase cs o
  | none, _ => "violates:unparsable-case"
  | _, none => "violates:unparsable-output:" ++ (out.take 40).toString

end C07
