import GoProbeModel.Spec.C04

/-!
C05 — failed I/O during a write-out: spec judge. Case: `<history> <k>.<n> <errno>`: write-out `k`
runs with its `n`-th file operation failing with `errno` (injected at system-call level); the
implementation reports the writer's status (`st`), the query/listing right afterwards (`q1`,`l1`)
and after the remaining write-outs (`q2`,`l2`).

Spec: the write reports an error and the database holds exactly the previously committed data
(readable, query and listing in agreement); later write-outs succeed and are read back.
-/
namespace C05
open DB C04

def judge (args : List String) (out : String) : String :=
  match args with
  | [h, c, _errno] =>
    match parseHistory h, parseCrash c with
    | some hist, some (some (k, n)) =>
      let fs := Wire.fields out
      if fs.any (fun f => f.startsWith "w" && f.contains "=err") then "violates:later-writeout-failed" else
      match getField fs "st", getField fs "q1", getField fs "l1", getField fs "q2", getField fs "l2" with
      | some st, some q1, some l1, some q2, some l2 =>
        let ops := Wire.listField ((getField fs "ops").getD "-")
        let at_ := ((ops[n]?).getD "end").takeWhile (fun c => c ≠ ':' ∧ c ≠ '!') |>.toString
        let before := hist.take k
        if n ≥ ops.length ∨ at_ = "unlink" then
          -- no operation was made to fail (or only the final removal of the already renamed temporary
          -- file, which the code deliberately ignores): an ordinary write-out
          if st ≠ "ok" then "violates:fault-free-write-failed"
          else verdictAt "final" q2 l2 hist hist
        else if st = "ok" then "violates:fault-not-reported-at-" ++ at_
        else
          -- the write reported an error: exactly the previously committed data must be there
          let v1 := verdictAt "fault" q1 l1 before before
          if v1 ≠ "holds" then
            (if q1 = renderQuery (hist.take (k + 1)) then "violates:error-reported-but-block-committed-at-" ++ at_
             else v1 ++ "-at-" ++ at_)
          else
            let v2 := verdictAt "final" q2 l2 (hist.eraseIdx k) (hist.eraseIdx k)
            -- a write-out without flows adds no row: that its block was committed although the write
            -- reported an error only shows in the totals (drops) of the final state
            if v2 ≠ "holds" ∧ verdictAt "final" q2 l2 hist hist = "holds" then
              "violates:error-reported-but-block-committed-at-" ++ at_
            else v2
      | _, _, _, _, _ => "violates:unparsable"
    | _, _ => "violates:bad-case"
  | _ => "violates:bad-op"

end C05
