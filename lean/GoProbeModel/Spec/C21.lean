import GoProbeModel.Base.Wire
import GoProbeModel.Spec.C19

/-!
C21 — packets seen while the capture is paused: data types, wire format, the executable *spec*
(a reference semantics in which nothing is ever paused) and the spec judge. Nothing here depends on
`Gen/*`, on a model, or on how the capture loop buffers packets.

Wire case `C21 <page> <limit> <pkts> <events>`
  page    initial (minimum) size of a local buffer (`unix.Getpagesize()` on the harness host)
  limit   `LocalBufferPool.MaxBufferSize`
  pkts    comma separated packet templates `<pktType>:<pktSize>:<IP layer hex>`
  events  comma separated schedule, executed in this order *as seen by the capture loop*:
            `p<i>` / `p<i>x<n>`  the source hands out template i (n copies; copy j has size+j mod 2^32)
            `Lw` `Ls` `Lq`        a lock request by a write-out (rotate + status), a status call, a live query
            `U`                   the current lock holder unlocks
            `b`                   the source reports a spurious `ErrCaptureUnblocked`
          A lock request while the lock is held waits (at most one can wait); it is granted when the
          holder unlocks, after the buffered packets were drained. `L` with a request already waiting
          and `U` without a holder are ignored. The schedule is closed with the missing `U`s.
          After a reported buffer overflow the loop waits for the unlock and fetches nothing: the
          packets scheduled until the next `U` are not offered.
Output  one token per event (closing `U`s included), then the final token
  `d<k>` / `d<k>o`      k packets of the group were fetched (`o`: the k-th was refused, ErrLocalBufferOverflow reported)
  `g<obs>`  `w`  `-`     lock granted at once + what the holder saw · waiting · ignored
  `u`  `u+<obs>`  `-`    unlocked · unlocked and the waiting holder was granted · ignored
  `.`                    spurious unblock
  `fin:<cnt>|<flows>|E<overflow errors>/<other errors>`
  obs    `S<cnt>` status · `Q<flows>|<agg>` live query · `W<cnt>|<flows>|<agg>` write-out
  cnt    `<processed>/<fragments>/<invalid IP header>/<truncated>` (since the last status / write-out)
  flows  the flow log, `-` or `;`-separated `<4|6>/<key hex>/<bytesRcvd>/<bytesSent>/<pktsRcvd>/<pktsSent>`, sorted
  agg    what the holder's real call returned (same format, keys without source port); compared
         between model and implementation only — the judge does not look at it
-/
namespace C21

inductive Holder where
  | writeout | status | query
  deriving Repr, DecidableEq, Inhabited

structure Pkt where
  ptype : Nat
  size : Nat
  layer : List Nat
  deriving Repr, DecidableEq, Inhabited

/-- one step of a schedule as the capture loop sees it -/
inductive Ev where
  | pkt (p : Pkt)
  | lock (h : Holder)
  | unlock
  | unblock
  deriving Repr, DecidableEq, Inhabited

/-- a wire event (a packet event stands for a group of packets) -/
inductive WEv where
  | pkts (ps : List Pkt)
  | lock (h : Holder)
  | unlock
  | unblock
  deriving Repr, DecidableEq, Inhabited

structure Cnt where
  proc : Nat := 0
  frag : Nat := 0
  inv : Nat := 0
  trunc : Nat := 0
  deriving Repr, DecidableEq, Inhabited

structure Entry where
  v4 : Bool
  key : List Nat
  br : Nat := 0
  bs : Nat := 0
  pr : Nat := 0
  ps : Nat := 0
  deriving Repr, DecidableEq, Inhabited

/-- what a lock holder saw -/
inductive Obs where
  | status (c : Cnt)
  | query (flows agg : List Entry)
  | writeout (c : Cnt) (flows agg : List Entry)
  deriving Repr, DecidableEq, Inhabited

def Obs.holder : Obs → Holder
  | .status _ => .status
  | .query _ _ => .query
  | .writeout _ _ _ => .writeout

/-- observation tokens (one per wire event, then `fin`) -/
inductive OTok where
  | fetched (k : Nat) (ovf : Bool)
  | granted (o : Obs)
  | waiting
  | ignored
  | unlocked (g : Option Obs)
  | unblocked
  | fin (c : Cnt) (flows : List Entry) (ovf other : Nat)
  deriving Repr, DecidableEq, Inhabited

/-! ### wire -/

def variant (p : Pkt) (j : Nat) : Pkt := { p with size := (p.size + j) % 4294967296 }

def parsePkt (s : String) : Option Pkt :=
  match s.splitOn ":" with
  | [t, sz, l] => do
    let t ← Wire.parseNat t
    let sz ← Wire.parseNat sz
    let l ← Wire.hexToBytes l
    some { ptype := t, size := sz, layer := l }
  | _ => none

def parsePkts (s : String) : Option (Array Pkt) := do
  let ps ← (Wire.listField s).mapM parsePkt
  some ps.toArray

def parseWEv (pk : Array Pkt) (s : String) : Option WEv :=
  if s == "U" then some .unlock
  else if s == "b" then some .unblock
  else if s == "Lw" then some (.lock .writeout)
  else if s == "Ls" then some (.lock .status)
  else if s == "Lq" then some (.lock .query)
  else if s.startsWith "p" then
    match (s.drop 1).toString.splitOn "x" with
    | [i] => do let i ← Wire.parseNat i; let p ← pk[i]?; some (.pkts [p])
    | [i, n] => do
      let i ← Wire.parseNat i; let n ← Wire.parseNat n; let p ← pk[i]?
      some (.pkts ((List.range n).map (variant p)))
    | _ => none
  else none

/-- append the `U`s that are missing at the end (`held`: somebody holds the lock, `pend`: somebody waits) -/
def closing : Bool → Bool → List WEv → List WEv
  | held, pend, [] => (if held then [.unlock] else []) ++ (if held && pend then [.unlock] else [])
  | held, pend, .lock h :: es =>
    .lock h :: (if !held then closing true pend es else if !pend then closing held true es else closing held pend es)
  | held, pend, .unlock :: es =>
    .unlock :: (if held then closing pend false es else closing held pend es)
  | held, pend, e :: es => e :: closing held pend es

def parseEvents (pk : Array Pkt) (s : String) : Option (List WEv) := do
  let es ← (Wire.listField s).mapM (parseWEv pk)
  some (closing false false es)

def showCnt (c : Cnt) : String := s!"{c.proc}/{c.frag}/{c.inv}/{c.trunc}"

def showEntry (e : Entry) : String :=
  (if e.v4 then "4" else "6") ++ "/" ++ Wire.bytesToHex e.key ++ s!"/{e.br}/{e.bs}/{e.pr}/{e.ps}"

def lexLe : List Nat → List Nat → Bool
  | [], _ => true
  | _ :: _, [] => false
  | a :: as, b :: bs => if a < b then true else if b < a then false else lexLe as bs

def entryLe (a b : Entry) : Bool :=
  if a.v4 != b.v4 then a.v4 else lexLe a.key b.key

def sortEntries (es : List Entry) : List Entry := es.mergeSort entryLe

def showFlows (es : List Entry) : String :=
  if es.isEmpty then "-" else ";".intercalate ((sortEntries es).map showEntry)

def showObs : Obs → String
  | .status c => "S" ++ showCnt c
  | .query f a => "Q" ++ showFlows f ++ "|" ++ showFlows a
  | .writeout c f a => "W" ++ showCnt c ++ "|" ++ showFlows f ++ "|" ++ showFlows a

def showTok : OTok → String
  | .fetched k o => "d" ++ toString k ++ (if o then "o" else "")
  | .granted o => "g" ++ showObs o
  | .waiting => "w"
  | .ignored => "-"
  | .unlocked none => "u"
  | .unlocked (some o) => "u+" ++ showObs o
  | .unblocked => "."
  | .fin c f ovf other => "fin:" ++ showCnt c ++ "|" ++ showFlows f ++ s!"|E{ovf}/{other}"

def showToks (ts : List OTok) : String := " ".intercalate (ts.map showTok)

def parseCnt (s : String) : Option Cnt :=
  match (s.splitOn "/").mapM Wire.parseNat with
  | some [a, b, c, d] => some { proc := a, frag := b, inv := c, trunc := d }
  | _ => none

def parseEntry (s : String) : Option Entry :=
  match s.splitOn "/" with
  | [v, k, a, b, c, d] => do
    let v4 ← if v == "4" then some true else if v == "6" then some false else none
    let k ← Wire.hexToBytes k
    let a ← Wire.parseNat a; let b ← Wire.parseNat b; let c ← Wire.parseNat c; let d ← Wire.parseNat d
    some { v4 := v4, key := k, br := a, bs := b, pr := c, ps := d }
  | _ => none

def parseFlows (s : String) : Option (List Entry) :=
  if s == "-" then some [] else (s.splitOn ";").mapM parseEntry

def parseObs (s : String) : Option Obs :=
  let body := (s.drop 1).toString
  if s.startsWith "S" then (parseCnt body).map .status
  else if s.startsWith "Q" then
    match body.splitOn "|" with
    | [f, a] => do let f ← parseFlows f; let a ← parseFlows a; some (.query f a)
    | _ => none
  else if s.startsWith "W" then
    match body.splitOn "|" with
    | [c, f, a] => do let c ← parseCnt c; let f ← parseFlows f; let a ← parseFlows a; some (.writeout c f a)
    | _ => none
  else none

def parseTok (s : String) : Option OTok :=
  if s == "w" then some .waiting
  else if s == "-" then some .ignored
  else if s == "u" then some (.unlocked none)
  else if s == "." then some .unblocked
  else if s.startsWith "u+" then (parseObs (s.drop 2).toString).map (fun o => .unlocked (some o))
  else if s.startsWith "g" then (parseObs (s.drop 1).toString).map .granted
  else if s.startsWith "d" then
    let body := (s.drop 1).toString
    if body.endsWith "o" then (Wire.parseNat (body.dropEnd 1).toString).map (.fetched · true)
    else (Wire.parseNat body).map (.fetched · false)
  else if s.startsWith "fin:" then
    match (s.drop 4).toString.splitOn "|" with
    | [c, f, e] =>
      if e.startsWith "E" then
        match ((e.drop 1).toString.splitOn "/").mapM Wire.parseNat with
        | some [x, y] => do let c ← parseCnt c; let f ← parseFlows f; some (.fin c f x y)
        | _ => none
      else none
    | _ => none
  else none

def parseToks (s : String) : Option (List OTok) := (Wire.fields s).mapM parseTok

/-! ### the documented meaning of one packet -/

/-- slimcap `capture.PacketOutgoing` -/
def packetOutgoing : Nat := 4

inductive Cls where
  | notIP            -- empty layer or a version nibble that is neither 4 nor 6
  | res (v4 : Bool) (r : C19.Res)
  deriving Repr, DecidableEq

/-- classification of an IP layer: version nibble, then the documented parse (C19) -/
def classify (l : List Nat) : Cls :=
  if l.isEmpty then .notIP
  else if C19.b l 0 / 16 = 4 then .res true (C19.spec C19.fam4 l)
  else if C19.b l 0 / 16 = 6 then .res false (C19.spec C19.fam6 l)
  else .notIP

def fam (v4 : Bool) : C19.Fam := if v4 then C19.fam4 else C19.fam6

/-- a conversation is one flow whichever packet came first: the key or its mirror image, whichever
    is smaller (which of the two the implementation stores is C22's subject, not this property's) -/
def canon (v4 : Bool) (k : List Nat) : List Nat :=
  let r := C19.revKey (fam v4) k
  if lexLe k r then k else r

/-- direction: outgoing packets count as sent, everything else as received -/
def bump (e : Entry) (ptype size : Nat) : Entry :=
  if ptype = packetOutgoing then { e with bs := e.bs + size, ps := e.ps + 1 }
  else { e with br := e.br + size, pr := e.pr + 1 }

def same (v4 : Bool) (k : List Nat) (e : Entry) : Bool := e.v4 == v4 && e.key == k

def logAdd (log : List Entry) (v4 : Bool) (k : List Nat) (ptype size : Nat) : List Entry :=
  let c := canon v4 k
  if log.any (same v4 c) then log.map fun e => if same v4 c e then bump e ptype size else e
  else log ++ [bump { v4 := v4, key := c } ptype size]

/-- reference state: the flow accounting since the last write-out, the counters since the last
    status / write-out, and how many of the counted packets were not IP and fetched while paused -/
structure Ref where
  log : List Entry := []
  cnt : Cnt := {}
  slack : Nat := 0
  deriving Repr, Inhabited

/-- a packet processed the moment it arrives. `paused`: it was fetched while a holder had the lock
    (only used to remember that the implementation documents not counting non-IP packets then). -/
def Ref.packet (r : Ref) (paused : Bool) (p : Pkt) : Ref :=
  match classify p.layer with
  | .notIP =>
    { r with cnt := { r.cnt with proc := r.cnt.proc + 1, inv := r.cnt.inv + 1 }, slack := r.slack + (if paused then 1 else 0) }
  | .res _ .fragment => { r with cnt := { r.cnt with frag := r.cnt.frag + 1 } }
  | .res _ .truncated => { r with cnt := { r.cnt with proc := r.cnt.proc + 1, trunc := r.cnt.trunc + 1 } }
  | .res v4 (.key k _) =>
    { r with cnt := { r.cnt with proc := r.cnt.proc + 1 }, log := logAdd r.log v4 k p.ptype p.size }

/-! ### comparing an observed flow log with the reference -/

def isZero (e : Entry) : Bool := e.br == 0 && e.bs == 0 && e.pr == 0 && e.ps == 0

def mergeInto (acc : List Entry) (e : Entry) : List Entry :=
  if acc.any (same e.v4 e.key) then
    acc.map fun a => if same e.v4 e.key a then { a with br := a.br + e.br, bs := a.bs + e.bs, pr := a.pr + e.pr, ps := a.ps + e.ps } else a
  else acc ++ [e]

/-- orientation-free, zero-free, sorted form of a flow listing -/
def norm (es : List Entry) : List Entry :=
  sortEntries (((es.map fun e => { e with key := canon e.v4 e.key }).foldl mergeInto []).filter (!isZero ·))

def isPrefixOf (a b : List Nat) : Bool := a.length ≤ b.length && b.take a.length == a

/-- name the first way in which the observed listing differs from the reference -/
def diffReason (want got : List Entry) : String :=
  match got.find? (fun g => !want.any (same g.v4 g.key)) with
  | some g =>
    -- an IPv4 entry made of the first bytes of an IPv6 key that is due: the packet changed its IP version
    let gks := [g.key, C19.revKey C19.fam4 g.key]
    if g.v4 && want.any (fun w => !w.v4 && gks.any (fun gk => isPrefixOf gk w.key || isPrefixOf gk (C19.revKey C19.fam6 w.key))) then "ip-version"
    else "phantom-flow"
  | none =>
    match want.find? (fun w => !got.any (same w.v4 w.key)) with
    | some _ => "packet-lost"
    | none =>
      match want.find? (fun w => got.any (fun g => same w.v4 w.key g && (g.pr + g.ps < w.pr + w.ps))) with
      | some _ => "packet-lost"
      | none =>
        match want.find? (fun w => got.any (fun g => same w.v4 w.key g && (g.pr + g.ps > w.pr + w.ps))) with
        | some _ => "packet-counted-twice"
        | none =>
          match want.find? (fun w => got.any (fun g => same w.v4 w.key g && (g.pr != w.pr || g.ps != w.ps))) with
          | some _ => "direction"
          | none => "size"

def checkFlows (r : Ref) (obs : List Entry) : Except String Unit :=
  let want := norm r.log
  let got := norm obs
  if want = got then .ok () else .error (diffReason want got)

/-- counters: fragments exact; processed and (invalid + truncated) may fall short of the reference
    by the same amount, at most the number of non-IP packets fetched while paused -/
def checkCnt (r : Ref) (c : Cnt) : Except String Unit :=
  if c.frag ≠ r.cnt.frag then .error "stats-fragments"
  else if c.proc > r.cnt.proc ∨ c.inv + c.trunc > r.cnt.inv + r.cnt.trunc then .error "stats-counted-twice"
  else if r.cnt.proc - c.proc > r.slack then .error "stats-packet-lost"
  else if r.cnt.proc - c.proc ≠ (r.cnt.inv + r.cnt.trunc) - (c.inv + c.trunc) then .error "stats-mismatch"
  else .ok ()

/-! ### judge: walk the schedule and the observed tokens in lockstep -/

structure JSt where
  ref : Ref := {}
  held : Bool := false
  pend : Option Holder := none
  blocked : Bool := false
  ovf : Nat := 0
  short : Bool := false   -- some counter fell short by non-IP packets fetched while paused
  deriving Repr, Inhabited

def applyPkts (j : JSt) (ps : List Pkt) : JSt :=
  { j with ref := ps.foldl (fun r p => r.packet j.held p) j.ref }

/-- the holder's view at the moment the lock is granted, then the effect of what it does -/
def grant (j : JSt) (h : Holder) (o : Obs) : Except String JSt :=
  if o.holder ≠ h then .error "token-mismatch" else
  let noteShort (c : Cnt) : Bool := j.short || decide (c.proc < j.ref.cnt.proc)
  match o with
  | .status c => do
    checkCnt j.ref c
    pure { j with ref := { j.ref with cnt := {}, slack := 0 }, held := true, blocked := false, short := noteShort c }
  | .query f _ => do
    checkFlows j.ref f
    pure { j with held := true, blocked := false }
  | .writeout c f _ => do
    checkFlows j.ref f
    checkCnt j.ref c
    pure { j with ref := { log := [], cnt := {}, slack := 0 }, held := true, blocked := false, short := noteShort c }

/-- one wire event against its token; several successors when a reported overflow leaves open
    whether the refused packet was dropped (normal) or logged all the same (not a loss) -/
def jstep (j : JSt) : WEv → OTok → Except String (List JSt)
  | .pkts ps, .fetched k o =>
    if !j.held then
      if o then .error "overflow-outside-pause"
      else if k ≠ ps.length then .error "token-mismatch"
      else .ok [applyPkts j ps]
    else if j.blocked then
      if k ≠ 0 ∨ o then .error "token-mismatch" else .ok [j]
    else if o then
      if k = 0 ∨ k > ps.length then .error "token-mismatch"
      else
        let j1 := { applyPkts j (ps.take (k - 1)) with blocked := true, ovf := j.ovf + 1 }
        .ok [j1, applyPkts j1 ((ps.drop (k - 1)).take 1)]
    else if k ≠ ps.length then .error "token-mismatch"
    else .ok [applyPkts j ps]
  | .lock h, .granted o => if j.held then .error "token-mismatch" else (grant j h o).map ([·])
  | .lock h, .waiting => if j.held ∧ j.pend.isNone then .ok [{ j with pend := some h }] else .error "token-mismatch"
  | .lock _, .ignored => if j.held ∧ j.pend.isSome then .ok [j] else .error "token-mismatch"
  | .unlock, .unlocked none =>
    if j.held ∧ j.pend.isNone then .ok [{ j with held := false, blocked := false }] else .error "token-mismatch"
  | .unlock, .unlocked (some o) =>
    match j.held, j.pend with
    | true, some h => (grant { j with held := false, pend := none, blocked := false } h o).map ([·])
    | _, _ => .error "token-mismatch"
  | .unlock, .ignored => if j.held then .error "token-mismatch" else .ok [j]
  | .unblock, .unblocked => .ok [j]
  | _, _ => .error "token-mismatch"

def jfin (j : JSt) : OTok → Except String Bool
  | .fin c f ovf other =>
    if other ≠ 0 then .error "capture-error"
    else if ovf ≠ j.ovf then .error "overflow-report-count"
    else if j.held then .error "token-mismatch"
    else do
      checkFlows j.ref f
      checkCnt j.ref c
      pure (j.short || decide (c.proc < j.ref.cnt.proc))
  | _ => .error "token-mismatch"

def maxCands : Nat := 256

/-- all candidates must be explained by the observation; the first error is reported when none is -/
def judgeAll : List JSt → List WEv → List OTok → String
  | js, [], [t] =>
    match js.filterMap (fun j => match jfin j t with | .ok b => some b | .error _ => none) with
    | b :: _ => if b then "holds:not-ip-uncounted-while-paused" else "holds"
    | [] => match js.head? with
      | some j => match jfin j t with
        | .error e => "violates:" ++ e
        | .ok _ => "holds"
      | none => "violates:token-mismatch"
  | js, e :: es, t :: ts =>
    let rs := js.map (fun j => jstep j e t)
    let oks := (rs.filterMap fun r => match r with | .ok l => some l | .error _ => none).flatten
    if oks.isEmpty then
      match rs.head? with
      | some (.error err) => "violates:" ++ err
      | _ => "violates:token-mismatch"
    else judgeAll (oks.take maxCands) es ts
  | _, _, _ => "violates:token-mismatch"

/-- the property's domain: field widths of the Go signature, bytes are bytes -/
def Pkt.wf (p : Pkt) : Bool :=
  decide (p.ptype < 256) && decide (p.size < 4294967296) && p.layer.all (· < 256)

def wevWf : WEv → Bool
  | .pkts ps => ps.all Pkt.wf
  | _ => true

def judge (args : List String) (out : String) : String :=
  match args with
  | [page, limit, pkts, events] =>
    match Wire.parseNat page, Wire.parseNat limit, parsePkts pkts with
    | some page, some _, some pk =>
      match parseEvents pk events with
      | some evs =>
        if page < 45 ∨ !evs.all wevWf then "holds:outside-domain"
        else if out = "panic" then "violates:panic"
        else if out.startsWith "err:" then "violates:" ++ (out.drop 4).toString
        else match parseToks out with
          | some toks => judgeAll [{}] evs toks
          | none => "violates:unparsable"
      | none => "violates:bad-args"
    | _, _, _ => "violates:bad-args"
  | _ => "violates:bad-op"

end C21
