import GoProbeModel.Spec.DB

/-!
C04 — a crash during a write-out: spec judge. Case: `<history> <k>.<n>|-`; the implementation
reports the query (`q1`) and listing (`l1`) right after write-out `k` was killed before its `n`-th
file operation, and again (`q2`, `l2`) after the remaining write-outs ran.

Spec (atomicity per day): the killed write-out is either entirely present or entirely absent;
query and listing agree on which; nothing else is lost; later write-outs are all present.
-/
namespace C04
open DB

def dropZero (s : String) : String :=
  Wire.showSemi ((Wire.semiField s).filter fun e => !(e.endsWith "/0:0:0:0:0:0:0"))

def expectList (blocks : List WriteOut) : String :=
  let ifaces := (blocks.map (·.iface)).eraseDups
  dropZero (renderList (ifaces.map fun i => (i, totalsOf (blocks.filter (·.iface == i)))))

def parseCrash (s : String) : Option (Option (Nat × Nat)) :=
  if s == "-" then some none else
  match s.splitOn "." with
  | [k, n] => do some (some ((← Wire.parseNat k), (← Wire.parseNat n)))
  | _ => none

/-- `q`/`l` observed; `without`/`with_` the two admissible block sets -/
def verdictAt (tag : String) (q l : String) (without with_ : List WriteOut) : String :=
  let l := dropZero l
  -- a database without any interface directory: the engine reports "no interfaces" — an empty answer
  let q := if q = "err:iface" ∧ l = "-" then renderQuery [] else q
  if q.startsWith "err" then "violates:" ++ tag ++ "-query-failed"
  else if l.contains "err" then "violates:" ++ tag ++ "-listing-failed"
  else if q = renderQuery with_ ∧ l = expectList with_ then "holds"
  else if q = renderQuery without ∧ l = expectList without then "holds"
  else if q = renderQuery with_ ∧ l = expectList without then
    "violates:" ++ tag ++ "-listing-stale-after-metadata-commit"
  else if q = renderQuery with_ ∨ q = renderQuery without then
    "violates:" ++ tag ++ "-listing-disagrees-with-query"
  else "violates:" ++ tag ++ "-query-not-atomic"

def judge (args : List String) (out : String) : String :=
  match args with
  | [h, c] =>
    match parseHistory h, parseCrash c with
    | some hist, some crash =>
      let fs := Wire.fields out
      if fs.any (fun f => f.startsWith "w" && f.contains "=err") then "violates:later-writeout-failed" else
      match getField fs "q2", getField fs "l2" with
      | some q2, some l2 =>
        match crash with
        | none => verdictAt "final" q2 l2 hist hist
        | some (k, _) =>
          match getField fs "q1", getField fs "l1" with
          | some q1, some l1 =>
            let before := hist.take k
            let v1 := verdictAt "crash" q1 l1 before (hist.take (k + 1))
            -- name the file operation the writer was about to perform when it was killed
            let ops := Wire.listField ((getField fs "ops").getD "-")
            let at_ := match crash with
              | some (_, n) => ((ops[n]?).getD "end").takeWhile (· ≠ ':') |>.toString
              | none => "end"
            if v1 ≠ "holds" then v1 ++ "-at-" ++ at_ else
            -- afterwards: everything but (possibly) the killed write-out
            verdictAt "final" q2 l2 (hist.eraseIdx k) hist
          | _, _ => "violates:unparsable"
      | _, _ => "violates:unparsable"
    | _, _ => "violates:bad-case"
  | _ => "violates:bad-op"

end C04
