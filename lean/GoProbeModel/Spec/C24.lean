import GoProbeModel.Base.Wire

/-!
C24 — merging databases follows the documented per-day plan: data types, the executable *spec*
(the documented rule, written independently of how `merge.go` is organised), wire format and the
spec judge. Nothing here depends on `Gen/*` or `Model/*`.

A database is interface ↦ day ↦ list of blocks; a block is (timestamp, payload id). Whether a day
is *complete* is derived from its block timestamps.

Wire case `C24 <overwrite 0|1> <dryrun 0|1> <tolerance ns> <requested> <enc src> <enc dst> <src db> <dst db>`
  requested  `-` (none: all source interfaces) or comma separated %-escaped names (`%` = the empty string)
  db         `!` (the path does not exist) | `-` (no interface) | iface(`;`iface)*
  iface      name `=` [ day(`|`day)* ]
  day        dayTimestamp `:` block(`,`block)*      block = offsetInDay `.` payloadId
Output `<res> dst=<db> meta=<ok|bad:…> src=<same|changed> tree=<same|changed|-> again=<res> dst2=<same|db>`
  res        `ok:<ifaces>:<copied>:<rebuilt>:<skipped>:<conflictsDst>:<conflictsSrc>:<dry>` | `err:<kind>`
  dst        decoded destination after the first merge (interfaces without days omitted; a payload
             the harness cannot recognise is printed `?`), `meta` = per-block / per-day / directory-name
             metadata agree with the blocks, `src` = hash of the source tree before/after both merges,
             `tree` = hash of the destination tree before/after a dry run, `again`/`dst2` = second merge.
-/
namespace C24

structure Block where
  ts : Int
  pid : Nat
  deriving Repr, DecidableEq, Inhabited

abbrev Day := List Block
abbrev Days := List (Int × Day)
abbrev Ifaces := List (String × Days)

structure DB where
  missing : Bool := false
  ifaces : Ifaces := []
  deriving Repr, DecidableEq, Inhabited

structure Opts where
  overwrite : Bool
  dry : Bool
  tol : Int                    -- nanoseconds (time.Duration)
  requested : List String
  deriving Repr, DecidableEq, Inhabited

structure Summary where
  ifaces : Nat := 0
  copied : Nat := 0
  rebuilt : Nat := 0
  skipped : Nat := 0
  cDst : Nat := 0
  cSrc : Nat := 0
  deriving Repr, DecidableEq, Inhabited

inductive Action where
  | skip | copy | rebuild
  deriving Repr, DecidableEq, Inhabited

/-! ### lookups (first match) -/

def lookupDay (ds : Days) (t : Int) : Option Day := (ds.find? (·.1 == t)).map (·.2)
def ifaceDays (db : Ifaces) (i : String) : Days := ((db.find? (·.1 == i)).map (·.2)).getD []
def getDay (db : Ifaces) (i : String) (t : Int) : Option Day := lookupDay (ifaceDays db i) t

/-! ### sorting -/

/-- insertion into an increasing duplicate-free list -/
def insSorted {α} [LT α] [DecidableEq α] [DecidableRel (α := α) (· < ·)] (x : α) : List α → List α
  | [] => [x]
  | y :: ys => if x < y then x :: y :: ys else if x = y then y :: ys else y :: insSorted x ys

/-- sorted increasingly, duplicate-free -/
def sortDedup {α} [LT α] [DecidableEq α] [DecidableRel (α := α) (· < ·)] (xs : List α) : List α :=
  xs.foldl (fun acc x => insSorted x acc) []

def sortNames (xs : List String) : List String := sortDedup xs
def sortInts (xs : List Int) : List Int := sortDedup xs

/-! ### the documented rule -/

/-- the documented plan: complete source days are copied when the destination lacks the day or
    overwriting is requested; complete-versus-complete days are kept without overwrite; every
    other day is rebuilt block by block -/
def docAction (hasDst srcComplete dstComplete overwrite : Bool) : Action :=
  if srcComplete && (!hasDst || overwrite) then .copy
  else if hasDst && srcComplete && dstComplete then .skip
  else .rebuild

/-- effective tolerance in whole seconds: the default of 300 s unless a positive duration is given -/
def tolSeconds (tolNs : Int) : Int := if tolNs ≤ 0 then 300 else tolNs / 1000000000

/-- a day is complete when its first block lies within the tolerance of the day's start and its last
    block, extended by the block spacing (last two blocks; 300 s for a single block), reaches
    within the tolerance of the day's last second -/
def complete (tolNs : Int) (dayTs : Int) (d : Day) : Bool :=
  match d, d.reverse with
  | first :: _, last :: prevs =>
    let start := dayTs - dayTs.tmod 86400
    let step := match prevs with
      | prev :: _ => last.ts - prev.ts
      | [] => 300
    decide (first.ts ≤ start + tolSeconds tolNs) && decide (last.ts + step ≥ start + 86399 - tolSeconds tolNs)
  | _, _ => false

/-- sorted insert by timestamp; a block with the same timestamp is replaced -/
def ins (b : Block) : Day → Day
  | [] => [b]
  | x :: xs => if b.ts < x.ts then b :: x :: xs else if b.ts = x.ts then b :: xs else x :: ins b xs

def insAll (bs : Day) (into : Day) : Day := bs.foldl (fun m b => ins b m) into

/-- block-level union, ordered by timestamp: on equal timestamps the destination's block wins,
    the source's with overwrite -/
def union (overwrite : Bool) (s d : Day) : Day :=
  if overwrite then insAll s (insAll d []) else insAll d (insAll s [])

def hasTs (d : Day) (t : Int) : Bool := d.any (·.ts == t)

/-- number of timestamps present on both sides -/
def conflicts (s d : Day) : Nat := ((sortInts (s.map (·.ts))).filter (hasTs d)).length

structure DayOutcome where
  action : Action
  newDay : Option Day         -- `none`: the destination day is left as it is
  cDst : Nat := 0
  cSrc : Nat := 0
  deriving Repr, DecidableEq, Inhabited

/-- what the documented rule does with one source day `s` of day directory `t`, given the
    destination's day `d` (if any) -/
def specDay (ow : Bool) (tolNs : Int) (t : Int) (s : Day) (d : Option Day) : DayOutcome :=
  match docAction d.isSome (complete tolNs t s) ((d.map (complete tolNs t)).getD false) ow with
  | .copy => { action := .copy, newDay := some s }
  | .skip => { action := .skip, newDay := none }
  | .rebuild =>
    let d0 := d.getD []
    { action := .rebuild, newDay := some (union ow s d0),
      cDst := if ow then 0 else conflicts s d0, cSrc := if ow then conflicts s d0 else 0 }

/-- the destination day after the (non-dry) merge of one day -/
def specDayResult (ow : Bool) (tolNs : Int) (t : Int) (s : Day) (d : Option Day) : Option Day :=
  (specDay ow tolNs t s d).newDay.or d

/-! ### interface selection -/

def isSpace (c : Char) : Bool :=
  c == ' ' || c == '\t' || c == '\n' || c == '\r' || c.toNat == 11 || c.toNat == 12 || c.toNat == 0x85 || c.toNat == 0xA0

def trimSpace (s : String) : String :=
  String.ofList ((s.toList.dropWhile isSpace).reverse.dropWhile isSpace).reverse


/-- selection: no request = every source interface; otherwise the requested names (surrounding
    white space ignored, blank entries ignored), each of which must exist in the source; the
    result is ordered by name without duplicates. `none` = error -/
def specSelect (available requested : List String) : Option (List String) :=
  if requested.isEmpty then some (sortNames available) else
  let names := (requested.map trimSpace).filter (· ≠ "")
  if names.all (available.contains ·) then some (sortNames names) else none

/-! ### whole merge by the documented rule -/

def dayKeys (ds : Days) : List Int := ds.map (·.1)

/-- the outcome of every day of every selected source interface, in processing order -/
def specOutcomes (o : Opts) (sel : List String) (src dst : Ifaces) : List DayOutcome :=
  sel.flatMap fun i =>
    (sortInts (dayKeys (ifaceDays src i))).filterMap fun t =>
      (getDay src i t).map fun s => specDay o.overwrite o.tol t s (getDay dst i t)

def countAction (a : Action) (l : List DayOutcome) : Nat := (l.filter (·.action == a)).length

/-- expected summary: interfaces = selected source interfaces that have days; days copied / rebuilt /
    skipped = number of outcomes of that kind (in a dry run: planned); conflicts = conflicts of the
    rebuilds carried out (a dry run resolves no conflict and reports none) -/
def specSummary (o : Opts) (sel : List String) (src dst : Ifaces) : Summary :=
  let oc := specOutcomes o sel src dst
  { ifaces := (sel.filter fun i => !(ifaceDays src i).isEmpty).length,
    copied := countAction .copy oc, rebuilt := countAction .rebuild oc, skipped := countAction .skip oc,
    cDst := if o.dry then 0 else (oc.map (·.cDst)).sum,
    cSrc := if o.dry then 0 else (oc.map (·.cSrc)).sum }

/-- expected destination day after a real merge -/
def specGet (o : Opts) (sel : List String) (src dst : Ifaces) (i : String) (t : Int) : Option Day :=
  match sel.contains i, getDay src i t with
  | true, some s => specDayResult o.overwrite o.tol t s (getDay dst i t)
  | _, _ => getDay dst i t

/-- expected destination, as a canonical listing (interfaces and days in order, empty interfaces omitted) -/
def specDst (o : Opts) (sel : List String) (src dst : Ifaces) : Ifaces :=
  let names := sortNames (src.map (·.1) ++ dst.map (·.1))
  names.filterMap fun i =>
    let ts := sortInts (dayKeys (ifaceDays src i) ++ dayKeys (ifaceDays dst i))
    let days := ts.filterMap fun t => (specGet o sel src dst i t).map fun d => (t, d)
    if days.isEmpty then none else some (i, days)

/-! ### wire -/

def showBlock (t : Int) (b : Block) : String := toString (b.ts - t) ++ "." ++ toString b.pid

def showDays (ds : Days) : String :=
  "|".intercalate (ds.map fun (t, d) => toString t ++ ":" ++ ",".intercalate (d.map (showBlock t)))

/-- canonical printing: interfaces by name, days by timestamp; interfaces without days omitted
    unless `keepEmpty` -/
def canon (db : Ifaces) : Ifaces :=
  (sortNames (db.map (·.1))).map fun i =>
    let ds := ifaceDays db i
    (i, (sortInts (dayKeys ds)).filterMap fun t => (lookupDay ds t).map fun d => (t, d))

def showIfaces (db : Ifaces) : String :=
  let xs := (canon db).filter (fun p => !p.2.isEmpty)
  if xs.isEmpty then "-" else ";".intercalate (xs.map fun (i, ds) => Wire.escape i ++ "=" ++ showDays ds)

def showDB (db : DB) : String := if db.missing then "!" else showIfaces db.ifaces

def parseBlock (t : Int) (s : String) : Option Block :=
  match s.splitOn "." with
  | [o, p] => do
    let o ← Wire.parseInt o
    let p ← Wire.parseNat p
    some { ts := t + o, pid := p }
  | _ => none

def parseDay (s : String) : Option (Int × Day) :=
  match s.splitOn ":" with
  | [t, bs] => do
    let t ← Wire.parseInt t
    let bs ← (bs.splitOn ",").mapM (parseBlock t)
    some (t, bs)
  | _ => none

def parseIface (s : String) : Option (String × Days) :=
  match s.splitOn "=" with
  | [n, ds] => do
    let days ← if ds.isEmpty then some [] else (ds.splitOn "|").mapM parseDay
    some (Wire.unescape n, days)
  | _ => none

def parseDB (s : String) : Option DB :=
  if s == "!" then some { missing := true }
  else if s == "-" then some {}
  else do
    let is ← (s.splitOn ";").mapM parseIface
    some { ifaces := is }

def parseRequested (s : String) : List String :=
  if s == "-" then [] else (s.splitOn ",").map fun x => if x == "%" then "" else Wire.unescape x

structure Case where
  opts : Opts
  src : DB
  dst : DB
  deriving Repr, Inhabited

def parseCase : List String → Option Case
  | [ow, dry, tol, req, _, _, src, dst] => do
    let ow ← Wire.parseBool ow
    let dry ← Wire.parseBool dry
    let tol ← Wire.parseInt tol
    let src ← parseDB src
    let dst ← parseDB dst
    some { opts := { overwrite := ow, dry := dry, tol := tol, requested := parseRequested req }, src := src, dst := dst }
  | _ => none

def showRes (r : Option Summary) (errKind : String) (dry : Bool) : String :=
  match r with
  | none => "err:" ++ errKind
  | some s => "ok:" ++ ":".intercalate [toString s.ifaces, toString s.copied, toString s.rebuilt, toString s.skipped,
      toString s.cDst, toString s.cSrc, Wire.boolStr dry]

/-- canonical output line (shared by the model) -/
def showOutput (res1 : String) (dst1 : DB) (res2 : String) (dst2 : DB) (dry : Bool) : String :=
  let d1 := showDB dst1
  let d2 := showDB dst2
  res1 ++ " dst=" ++ d1 ++ " meta=ok src=same tree=" ++ (if dry then "same" else "-") ++
  " again=" ++ res2 ++ " dst2=" ++ (if d2 == d1 then "same" else d2)

/-! ### the judge: does the implementation's observed output satisfy the property? -/

/-- strictly increasing block timestamps (what the storage layer admits) and distinct names / days -/
def dayWF (d : Day) : Bool :=
  match d with
  | [] => false
  | _ :: rest => (d.zip rest).all fun (a, b) => decide (a.ts < b.ts)

def nodupB {α} [BEq α] : List α → Bool
  | [] => true
  | x :: xs => !xs.contains x && nodupB xs

def ifacesWF (db : Ifaces) : Bool :=
  nodupB (db.map (·.1)) && db.all fun (_, ds) => nodupB (dayKeys ds) && ds.all fun (t, d) =>
    dayWF d && d.all fun b => decide (t ≤ b.ts) && decide (b.ts < t + 86400)

def field (key : String) (fs : List String) : Option String :=
  (fs.find? (·.startsWith (key ++ "="))).map fun f => (f.drop (key.length + 1)).toString

/-- expected first-merge result by the documented rule: (`none` = selection error) -/
def expect (o : Opts) (src dst : Ifaces) : Option (Summary × Ifaces) :=
  match specSelect (src.map (·.1)) o.requested with
  | none => none
  | some sel =>
    some (specSummary o sel src dst, if o.dry then canon dst else specDst o sel src dst)

def judge (args : List String) (out : String) : String :=
  match parseCase args with
  | none => "bad-case"
  | some c =>
    let fs := Wire.fields out
    match fs.head?, field "dst" fs, field "meta" fs, field "src" fs, field "tree" fs, field "again" fs, field "dst2" fs with
    | some res1, some dst1, some metaS, some srcS, some tree, some res2, some dst2 =>
      if !(c.src.missing || ifacesWF c.src.ifaces) || !ifacesWF c.dst.ifaces then "holds:out-of-domain" else
      if res1 == "panic" || res2 == "panic" then "violates:panic" else
      if srcS != "same" then "violates:source-modified" else
      if c.opts.dry && tree != "same" then "violates:dry-run-changed" else
      if c.src.missing then
        (if res1.startsWith "err:" && (dst1 == showDB c.dst || dst1 == showIfaces c.dst.ifaces) then "holds:source-missing"
         else "violates:missing-source-accepted")
      else
      let contents (s : String) : String := if s == "!" then "-" else s
      match expect c.opts c.src.ifaces c.dst.ifaces with
      | none =>
        if !res1.startsWith "err:" then "violates:unknown-interface-accepted"
        else if contents dst1 != showIfaces c.dst.ifaces then "violates:destination-changed-on-error"
        else if dst2 != "same" then "violates:not-idempotent"
        else "holds:selection-error"
      | some (sum1, dstE) =>
        if res1.startsWith "err:" then "violates:unexpected-error"
        else if contents dst1 != showIfaces dstE then
          (if c.opts.dry then "violates:dry-run-changed" else "violates:destination-day")
        else if metaS != "ok" then "violates:metadata"
        else if res1 != showRes (some sum1) "" c.opts.dry then "violates:counts"
        else if dst2 != "same" then "violates:not-idempotent"
        else
          -- the second merge is judged like the first, against the destination the first one left
          match expect c.opts c.src.ifaces dstE with
          | some (sum2, _) => if res2 != showRes (some sum2) "" c.opts.dry then "violates:counts-second" else "holds"
          | none => "violates:counts-second"
    | _, _, _, _, _, _, _ =>
      if out.startsWith "panic" then "violates:panic" else "violates:output-incomplete"

end C24
