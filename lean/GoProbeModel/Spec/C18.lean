import GoProbeModel.Base.Wire
import Std.Data.HashMap

/-!
C18 — the flow hash map is a map with additive updates: data types, wire format, the abstract
map and the spec judge. Nothing here depends on generated code or on the bucket model.

A case is a sequence of operations on up to eight map slots, one token per operation:

* `N<slot>:<hint>:<seed>`               `hashmap.New(hint)` into the slot, hash seed `seed` (hex; the
                                         hook fixes the otherwise random seed so that the case can
                                         carry the hash values of its keys)
* `S<slot>:<key>:<hash>:<a>,<b>,<c>,<d>`  `Set(key, Val{a,b,c,d})`
* `U<slot>:<key>:<hash>:<a>,<b>,<c>,<d>`  `SetOrUpdate(key, a, b, c, d)`
* `G<slot>:<key>:<hash>`                 `Get(key)`                    → `a,b,c,d` or `-`
* `M<dst>:<src>:<key>=<hash>,…`          `dst.Merge(src)` (src ≠ dst); the list gives, for every key
                                         stored in `src`, its hash under `dst`'s seed
* `L<slot>`                              `Len()`                        → decimal
* `I<slot>`                              full iteration, in iteration order → `k=a,b,c,d;…` or `-`
* `D<slot>`                              iteration digest → `<n>/<multiset digest>/<sequence digest>`
* `P<slot>`                              growth-stage probe (internal, ignored by the judge)

Keys are lower-case hex, hashes are the real `xxh3.HashSeed(key, m.seed)` values (hex) observed
through the hook and passed on to the bucket model, which is parametric in the hash function.
The judge ignores them: it replays the case on an ordinary map (`Std.HashMap`) whose counters are
summed per key and compares every observation of the implementation with it. After every
insert the harness overwrites the caller's key buffer, so a map that aliased the caller's key
would fail the subsequent lookups / iterations here.
-/
namespace C18

structure Val where
  a : Nat
  b : Nat
  c : Nat
  d : Nat
  deriving DecidableEq, Repr, Inhabited

namespace Val
def zero : Val := ⟨0, 0, 0, 0⟩
def add (x y : Val) : Val := ⟨x.a + y.a, x.b + y.b, x.c + y.c, x.d + y.d⟩
def str (v : Val) : String :=
  toString v.a ++ "," ++ toString v.b ++ "," ++ toString v.c ++ "," ++ toString v.d
end Val

def parseVal (s : String) : Option Val :=
  match s.splitOn "," with
  | [a, b, c, d] =>
    match a.toNat?, b.toNat?, c.toNat?, d.toNat? with
    | some a, some b, some c, some d => some ⟨a, b, c, d⟩
    | _, _, _, _ => none
  | _ => none

/-! ### The abstract map of the property (used by the theorems): a finite map as a function -/

/-- "an ordinary map whose counters are summed per key" -/
abbrev AMap (κ : Type) := κ → Option Val

namespace AMap
variable {κ : Type} [DecidableEq κ]
def empty : AMap κ := fun _ => none
/-- `Set`: overwrite -/
def set (s : AMap κ) (k : κ) (v : Val) : AMap κ := fun k' => if k' = k then some v else s k'
/-- `SetOrUpdate`: add the counters to an existing entry, create it otherwise -/
def add (s : AMap κ) (k : κ) (v : Val) : AMap κ :=
  fun k' => if k' = k then some (match s k with | some w => w.add v | none => v) else s k'
/-- `Merge`: every entry of `src` is added into `dst` -/
def merge (dst src : AMap κ) : AMap κ :=
  fun k => match src k with
    | none => dst k
    | some v => some (match dst k with | some w => w.add v | none => v)
end AMap

/-! ### Wire format -/

inductive Op where
  | new (slot : Nat) (hint : Int)
  | set (slot : Nat) (key : String) (hash : Nat) (v : Val)
  | upd (slot : Nat) (key : String) (hash : Nat) (v : Val)
  | get (slot : Nat) (key : String) (hash : Nat)
  | merge (dst src : Nat) (hashes : List (String × Nat))
  | len (slot : Nat)
  | iter (slot : Nat)
  | digest (slot : Nat)
  | probe (slot : Nat)
  deriving Repr

def hexNatAux : List Char → Nat → Option Nat
  | [], acc => some acc
  | c :: cs, acc => match Wire.hexVal c with
    | some v => hexNatAux cs (acc * 16 + v)
    | none => none

def parseHexNat (s : String) : Option Nat :=
  if s.isEmpty then none else hexNatAux s.toList 0

def parsePair (s : String) : Option (String × Nat) :=
  match s.splitOn "=" with
  | [k, h] => (parseHexNat h).map fun h => (k, h)
  | _ => none

def numSlots : Nat := 8

def parseOp (tok : String) : Option Op :=
  let body := (tok.drop 1).toString
  let parts := body.splitOn ":"
  let slotOf (s : String) : Option Nat := s.toNat?.bind fun n => if n < numSlots then some n else none
  match (tok.take 1).toString, parts with
  | "N", [s, h, _seed] => do pure (.new (← slotOf s) (← h.toInt?))
  | "S", [s, k, h, v] => do pure (.set (← slotOf s) k (← parseHexNat h) (← parseVal v))
  | "U", [s, k, h, v] => do pure (.upd (← slotOf s) k (← parseHexNat h) (← parseVal v))
  | "G", [s, k, h] => do pure (.get (← slotOf s) k (← parseHexNat h))
  | "M", [d, s, hs] => do
      let d ← slotOf d
      let s ← slotOf s
      if d = s then none else
      pure (.merge d s (← (Wire.listField hs).mapM parsePair))
  | "L", [s] => do pure (.len (← slotOf s))
  | "I", [s] => do pure (.iter (← slotOf s))
  | "D", [s] => do pure (.digest (← slotOf s))
  | "P", [s] => do pure (.probe (← slotOf s))
  | _, _ => none

/-! ### Digests (same arithmetic in harness/c18.go) -/

def fnvStep (h : UInt64) (c : Char) : UInt64 := (h ^^^ c.toNat.toUInt64) * 1099511628211
def fnv (s : String) : UInt64 := s.foldl fnvStep 14695981039346656037
def mix64 (z0 : UInt64) : UInt64 :=
  let z := (z0 ^^^ (z0 >>> 30)) * 0xBF58476D1CE4E5B9
  let z := (z ^^^ (z >>> 27)) * 0x94D049BB133111EB
  z ^^^ (z >>> 31)

def entryStr (k : String) (v : Val) : String := k ++ "=" ++ v.str
def entryDigest (k : String) (v : Val) : UInt64 := mix64 (fnv (entryStr k v))

def hex64 (x : UInt64) : String := String.ofList (Nat.toDigits 16 x.toNat)

/-- digest of an iteration: number of entries, order-independent sum, order-dependent fold -/
structure Dig where
  n : Nat := 0
  sum : UInt64 := 0
  seq : UInt64 := 0

def Dig.push (d : Dig) (k : String) (v : Val) : Dig :=
  let e := entryDigest k v
  { n := d.n + 1, sum := d.sum + e, seq := d.seq * 0x100000001B3 + e }

def Dig.str (d : Dig) : String := toString d.n ++ "/" ++ hex64 d.sum ++ "/" ++ hex64 d.seq

def showEntries (es : List (String × Val)) : String :=
  if es.isEmpty then "-" else ";".intercalate (es.map fun e => entryStr e.1 e.2)

def parseEntry (s : String) : Option (String × Val) :=
  match s.splitOn "=" with
  | [k, v] => (parseVal v).map fun v => (k, v)
  | _ => none

def parseEntries (s : String) : Option (List (String × Val)) :=
  if s == "-" then some [] else (s.splitOn ";").mapM parseEntry

/-! ### The judge: the implementation's observations against an ordinary additive map -/

abbrev JMap := Std.HashMap String Val

def jset (m : JMap) (k : String) (v : Val) : JMap := m.insert k v
def jadd (m : JMap) (k : String) (v : Val) : JMap :=
  match m[k]? with
  | some w => m.insert k (w.add v)
  | none => m.insert k v
def jmerge (dst src : JMap) : JMap := src.fold (fun d k v => jadd d k v) dst

/-- does the list of iterated entries enumerate `m` exactly once each? -/
def judgeIter (m : JMap) (es : List (String × Val)) : Option String :=
  let rec go (es : List (String × Val)) (seen : Std.HashMap String Unit) : Option String :=
    match es with
    | [] => if seen.size = m.size then none else some "iter-missing-entry"
    | (k, v) :: rest =>
      if seen.contains k then some "iter-duplicate-entry" else
      match m[k]? with
      | none => some "iter-unknown-key"
      | some w => if w = v then go rest (seen.insert k ()) else some "iter-wrong-value"
  go es {}

def specDigest (m : JMap) : Dig := m.fold (fun d k v => d.push k v) {}

structure JState where
  maps : Array JMap
  toks : List String
  fail : Option String := none
  observed : Nat := 0

def JState.expect (st : JState) (f : String → Option String) : JState :=
  match st.toks with
  | [] => { st with fail := some "missing-observation" }
  | t :: rest => { st with toks := rest, fail := f t, observed := st.observed + 1 }

def jstep (st : JState) (tok : String) : JState :=
  if st.fail.isSome then st else
  match parseOp tok with
  | none => { st with fail := some "bad-case" }
  | some op =>
    match op with
    | .new s _ => { st with maps := st.maps.setIfInBounds s {} }
    | .set s k _ v => { st with maps := st.maps.modify s (jset · k v) }
    | .upd s k _ v => { st with maps := st.maps.modify s (jadd · k v) }
    | .merge d s _ =>
      let src := st.maps.getD s {}
      { st with maps := st.maps.modify d (jmerge · src) }
    | .get s k _ =>
      let want := match (st.maps.getD s {})[k]? with | some v => v.str | none => "-"
      st.expect fun t => if t = want then none else some "get-mismatch"
    | .len s =>
      let want := toString (st.maps.getD s {}).size
      st.expect fun t => if t = want then none else some "len-mismatch"
    | .iter s =>
      st.expect fun t => match parseEntries t with
        | none => some "unparsable-iteration"
        | some es => judgeIter (st.maps.getD s {}) es
    | .digest s =>
      let want := specDigest (st.maps.getD s {})
      st.expect fun t => match t.splitOn "/" with
        | [n, sum, _] =>
          if n ≠ toString want.n then some "iter-count-mismatch"
          else if sum ≠ hex64 want.sum then some "iter-digest-mismatch" else none
        | _ => some "unparsable-digest"
    | .probe _ => st.expect fun _ => none

def judge (args : List String) (out : String) : String :=
  if out = "panic" then "violates:panic" else
  -- the harness could not reproduce the hash values written in the case: nothing to judge
  if out = "err:hash-mismatch" then "holds:not-judged-hash-mismatch" else
  let st0 : JState := { maps := Array.replicate numSlots {}, toks := Wire.fields out }
  let st := args.foldl jstep st0
  match st.fail with
  | some r => "violates:" ++ r
  | none => if st.toks.isEmpty then "holds" else "violates:extra-observation"

end C18
