import GoProbeModel.Base.Wire
import GoProbeModel.Spec.DB
import GoProbeModel.Spec.C08
import GoProbeModel.Spec.C09
import GoProbeModel.Spec.C20

/-!
C29 — live queries see the current flows with the semantics of stored flows and change nothing:
vocabulary, the executable *spec* and the spec judge.

A case is a history on two interfaces (`a` = "verifa", `b` = "verifb"): parsed packets (as in C20),
write-outs (`R`) and live queries (`Q`: selected attributes, an optional condition tree in C09's
grammar, the interfaces, an optional direction filter). The implementation reports, per query, the
flow logs when the query starts (`m`), what the capture manager hands to the query for each
interface (`f`), the engine's result without (`s`) and with (`l`) live data and whether the flow
logs were left as they were (`ro`); per write-out what was handed to the database writer (`w`); and
whether the same history without its queries handed over / left behind exactly the same (`ni`,
`dbni`).

The spec is written from the property text: the result of a live query is the direct aggregation
(C08's `groupSum`, by interface, block time and the selected attributes, condition = C09's
denotational `sem`, direction filter on the summed counters) of the flows *written so far* (the
observed `w`) together with the flows *in memory* (the observed `m`, each as the flow it is stored
as: the 5-tuple without the source port, only if it saw a packet since the last write-out),
the latter as one more block whose time is still unknown (`live`). Nothing here depends on
generated code or on the model.
-/
namespace C29

open C20 (Rec Cnt Pkt)

/-! ## queries, operations -/

structure Query where
  sel : C08.Sel
  cond : Option C09.Cond
  ifs : List Nat              -- 0 = a, 1 = b
  dir : Option C08.Dir
  deriving Repr

inductive Op where
  | pkt (i : Nat) (p : Pkt)
  | rot
  | q (qr : Query)
  deriving Repr

def ifaceName (i : Nat) : String := if i = 0 then "verifa" else "verifb"

/-- timestamp of the j-th write-out (harness convention) -/
def tsOf (j : Nat) : Int := 1700000100 + 300 * (j : Int)

def parseIfs (s : String) : Option (List Nat) :=
  let l := s.toList.filterMap fun c => if c == 'a' then some 0 else if c == 'b' then some 1 else none
  if l.isEmpty || l.length ≠ s.length then none else some l

def parseCondOpt (s : String) : Option (Option C09.Cond) :=
  if s == "-" then some none else (C09.parseCond s).map some

def parseOp (s : String) : Option Op :=
  if s == "R" then some .rot
  else if s.startsWith "Q:" then
    match s.splitOn ":" with
    | [_, attrs, cond, ifs, dir] => do
      let sel ← C08.parseSel attrs
      let cond ← parseCondOpt cond
      let ifs ← parseIfs ifs
      let dir ← C08.parseDir dir
      some (.q ⟨sel, cond, ifs, dir⟩)
    | _ => none
  else if s.startsWith "a" || s.startsWith "b" then
    match C20.parsePkt (s.drop 1).toString with
    | some (.pkt p) => some (.pkt (if s.startsWith "a" then 0 else 1) p)
    | _ => none
  else none

def parseOps (args : List String) : Option (List Op) := args.mapM parseOp

/-! ## flows, row keys -/

/-- the flow an in-memory record is stored as: its 5-tuple without the source port -/
def storedKey (h : List Nat) : List Nat := C20.dbKeyOf h

/-- labels and selected attributes of a result row -/
structure RowKey where
  iface : String
  ts : String                 -- "-" (time not selected), "live", or the block time
  sip : Option (List Nat)
  dip : Option (List Nat)
  dport : Option Nat
  proto : Option Nat
  deriving Repr, DecidableEq

def ctrOfCnt (c : Cnt) : C08.Ctr := ⟨c.br, c.bs, c.pr, c.ps⟩

def rowKeyOf (sel : C08.Sel) (iface : String) (ts : String) (f : C09.Flow) : RowKey :=
  { iface := iface
    ts := if sel.time then ts else "-"
    sip := if sel.sip then some f.sip else none
    dip := if sel.dip then some f.dip else none
    dport := if sel.dport then some f.dport else none
    proto := if sel.proto then some f.proto else none }

def condHolds (c : Option C09.Cond) (f : C09.Flow) : Bool :=
  match c with
  | none => true
  | some c => C09.sem c f

/-- the (row key, counters) contributions of a list of stored-form records (key = 11 / 35 bytes) -/
def itemsOfRecs (q : Query) (iface ts : String) (recs : List Rec) : List (RowKey × C08.Ctr) :=
  recs.filterMap fun r =>
    match C09.decodeKey r.1 with
    | some f => if condHolds q.cond f then some (rowKeyOf q.sel iface ts f, ctrOfCnt r.2) else none
    | none => none

/-- the in-memory records that hold traffic, in stored form -/
def liveRecs (log : List Rec) : List Rec :=
  (log.filter (·.2.active)).map fun r => (storedKey r.1, r.2)

/-- interfaces of a query, each once -/
def Query.ifaces (q : Query) : List Nat := [0, 1].filter q.ifs.contains

/-- a write-out as observed: per interface the records handed over (`none` = nothing) -/
abbrev WO := List (Option (List Rec))   -- index 0 = a, 1 = b

def woRecs (w : WO) (i : Nat) : List Rec := (w.getD i none).getD []

/-- contributions of the stored blocks (write-out j carries the block time `tsOf j`) -/
def storedItems (q : Query) (wos : List WO) : List (RowKey × C08.Ctr) :=
  q.ifaces.flatMap fun i =>
    (wos.zipIdx).flatMap fun (w, j) => itemsOfRecs q (ifaceName i) (toString (tsOf j)) (woRecs w i)

/-- contributions of the flows in memory (`logs` index 0 = a, 1 = b) -/
def liveItems (q : Query) (logs : List (List Rec)) : List (RowKey × C08.Ctr) :=
  q.ifaces.flatMap fun i => itemsOfRecs q (ifaceName i) "live" (liveRecs (logs.getD i []))

/-- **spec of the rows of a query**: groups of the items, direction filter on the summed counters -/
def rowsOf (q : Query) (its : List (RowKey × C08.Ctr)) : List (RowKey × C08.Ctr) :=
  (C08.groupSum its).filter fun r => C08.dirOk q.dir r.2

/-- **spec of a live query** = the query over the stored blocks and the in-memory flows as one more block -/
def liveSpec (q : Query) (wos : List WO) (logs : List (List Rec)) : List (RowKey × C08.Ctr) :=
  rowsOf q (storedItems q wos ++ liveItems q logs)

def storedSpec (q : Query) (wos : List WO) : List (RowKey × C08.Ctr) := rowsOf q (storedItems q wos)

/-! ## rendering (the format printed by harness/c29.go) -/

def optAddr : Option (List Nat) → String
  | none => "-"
  | some a => C20.addrShown a

def optNat : Option Nat → String
  | none => "-"
  | some n => toString n

def rowStr (r : RowKey × C08.Ctr) : String :=
  r.1.iface ++ "@" ++ r.1.ts ++ "/" ++ optAddr r.1.sip ++ ":" ++ optAddr r.1.dip ++ ":" ++ optNat r.1.dport ++ ":" ++
  optNat r.1.proto ++ ":" ++ C08.ctrStr r.2

def renderRows (rows : List (RowKey × C08.Ctr)) : String := Wire.showList (DB.sortStrs (rows.map rowStr))

def renderResult (rows : List (RowKey × C08.Ctr)) : String :=
  "rows=" ++ renderRows rows ++ "|totals=" ++ C08.ctrStr (C08.sumCtr (rows.map (·.2))) ++ "|hits=" ++ toString rows.length

/-! ## the map handed over per interface (keys in the layout of the stored scan) -/

def zeros (n : Nat) : List Nat := List.replicate n 0

/-- the key under which a flow is aggregated for the selected attributes: unselected columns are
    zero; IPv6 flows share the IPv4-shaped key when no address is selected -/
def projKey (sel : C08.Sel) (f : C09.Flow) : List Nat :=
  let w := if f.sip.length = 16 ∧ (sel.sip ∨ sel.dip) then 16 else 4
  (if sel.sip then f.sip else zeros w) ++ (if sel.dip then f.dip else zeros w) ++
  (if sel.dport then [f.dport / 256, f.dport % 256] else [0, 0]) ++ [if sel.proto then f.proto else 0]

def cntOfCtr (c : C08.Ctr) : Cnt := ⟨c.br, c.bs, c.pr, c.ps⟩

/-- what the capture manager must hand over for one interface -/
def liveMapSpec (q : Query) (log : List Rec) : List Rec :=
  let its : List (List Nat × C08.Ctr) := (liveRecs log).filterMap fun r =>
    match C09.decodeKey r.1 with
    | some f => if condHolds q.cond f then some (projKey q.sel f, ctrOfCnt r.2) else none
    | none => none
  (C08.groupSum its).map fun e => (e.1, cntOfCtr e.2)

def renderLiveMap (q : Query) (i : Nat) (log : List Rec) : String :=
  if !q.ifaces.contains i || log.isEmpty then "nil" else C20.renderRecs (liveMapSpec q log)

/-! ## observation -/

def parseRecsOpt (s : String) : Option (Option (List Rec)) :=
  if s == "nil" || s == "none" then some none else (C20.parseRecs s).map some

def parsePair (s : String) : Option (List (Option (List Rec))) :=
  match s.splitOn "/" with
  | [a, b] => do some [← parseRecsOpt a, ← parseRecsOpt b]
  | _ => none

structure QObs where
  m : List (List Rec)
  f : String
  s : String
  l : String
  ro : String

def getQ (fs : List String) (k : Nat) : Option QObs := do
  let m ← parsePair (← DB.getField fs ("m" ++ toString k))
  some { m := m.map (·.getD []), f := ← DB.getField fs ("f" ++ toString k), s := ← DB.getField fs ("s" ++ toString k),
         l := ← DB.getField fs ("l" ++ toString k), ro := ← DB.getField fs ("ro" ++ toString k) }

def condValid (c : Option C09.Cond) : Bool :=
  match c with
  | none => true
  | some c => C09.valid c

/-- verdict on one live query (`none` = as the property demands): `wos` = the write-outs so far -/
def judgeQuery (q : Query) (wos : List WO) (o : QObs) : Option String :=
  if o.ro ≠ "1" then some "violates:flow-log-changed-by-live-query"
  else if !condValid q.cond then none     -- no condition of the grammar (C09's subject): nothing to compare
  else if wos.isEmpty then
    -- no interface has a directory in the database yet: the query front end knows no interface
    if o.l.startsWith "rows=" then
      (if o.l == renderResult (liveSpec q wos o.m) then none else some "violates:live-rows-differ")
    else if (liveItems q o.m).isEmpty then none
    else some "violates:live-query-before-first-writeout"
  else if o.l.startsWith "err:" then some "violates:error-on-valid-live-query"
  else
    let want := renderResult (liveSpec q wos o.m)
    let wantF := renderLiveMap q 0 (o.m.getD 0 []) ++ "/" ++ renderLiveMap q 1 (o.m.getD 1 [])
    if o.l == want then
      (if o.f == wantF then none else some "violates:live-map-differs")
    else if o.s ≠ renderResult (storedSpec q wos) then some "holds:outside-domain-stored-result-differs"
    else if o.l == o.s ∧ !(liveItems q o.m).isEmpty then some "violates:live-flows-missing"
    else
      -- the in-memory flows as rows of their own (one per flow, not merged with the stored groups)
      let ungrouped := (C08.groupSum (storedItems q wos)) ++ (liveItems q o.m)
      if o.l == renderResult (ungrouped.filter fun r => C08.dirOk q.dir r.2) then some "violates:live-flows-not-grouped"
      else if o.l == renderResult (rowsOf q (storedItems q wos ++ liveItems { q with cond := none } o.m)) then
        some "violates:live-condition-ignored"
      else some "violates:live-rows-differ"

/-- walk through the history: k = queries so far, wos = write-outs so far -/
def walk (fs : List String) : List Op → Nat → List WO → Option String
  | [], _, _ => none
  | .pkt _ _ :: ops, k, wos => walk fs ops k wos
  | .rot :: ops, k, wos =>
    match (DB.getField fs ("w" ++ toString (wos.length + 1))).bind parsePair with
    | none => some "violates:shape"
    | some w => walk fs ops k (wos ++ [w])
  | .q qr :: ops, k, wos =>
    match getQ fs (k + 1) with
    | none => some "violates:shape"
    | some o =>
      match judgeQuery qr wos o with
      | some v => if v.startsWith "holds" then walk fs ops (k + 1) wos else some v
      | none => walk fs ops (k + 1) wos

def nQueries (ops : List Op) : Nat := (ops.filter fun o => match o with | .q _ => true | _ => false).length
def nRots (ops : List Op) : Nat := (ops.filter fun o => match o with | .rot => true | _ => false).length

def judge (args : List String) (out : String) : String :=
  match parseOps args with
  | none => "violates:bad-case"
  | some ops =>
    if out == "panic" then "violates:panic"
    else if out == "err:inconsistent-hash" then "holds:outside-domain-hash-is-no-parser-output"
    else if out.startsWith "err:" then "violates:harness-error"
    else
      let fs := Wire.fields out
      match walk fs ops 0 [] with
      | some v => v
      | none =>
        if DB.getField fs "ni" ≠ some "1" then "violates:writeout-changed-by-live-queries"
        else if DB.getField fs "dbni" ≠ some "1" then "violates:database-changed-by-live-queries"
        else if nQueries ops = 0 then "holds:no-live-query"
        else if nRots ops = 0 then "holds:no-write-out"
        else "holds"

end C29
