import GoProbeModel.Base.Wire

/-!
C01 — stored blocks read back byte-for-byte. Types, wire format and the spec judge.

A case is a list of sessions (open → WriteBlocks* → Close) on one day directory; every write
carries a timestamp, the per-block traffic metadata and counters, and for each of the 8 columns
the raw bytes plus the bytes the *real* encoder produced for them (observed by the harness and
handed to the model as an input: the theorems hold for every such value that decodes back).
-/
namespace C01

abbrev Bytes := List Nat

structure Write where
  ts : Int
  tm : Nat × Nat × Nat            -- v4 flows, v6 flows, drops
  cnt : Nat × Nat × Nat × Nat       -- bytes rcvd/sent, packets rcvd/sent
  cols : List (Bytes × Bytes)       -- 8 × (raw data, encoder output)
  deriving Repr

abbrev Session := List Write

/-- what a reader reports for one block -/
structure RBlock where
  ts : Int
  tm : Nat × Nat × Nat
  cols : List (Option Bytes)        -- none = read error
  deriving Repr, DecidableEq

structure View where
  blocks : List RBlock
  totals : (Nat × Nat × Nat) × (Nat × Nat × Nat × Nat)
  deriving Repr, DecidableEq

/-! ### wire -/

def parseCol (s : String) : Option (Bytes × Bytes) :=
  match s.splitOn "/" with
  | [d, c] => do some ((← Wire.hexToBytes d), (← Wire.hexToBytes c))
  | _ => none

def parseWrite (s : String) : Option Write :=
  match s.splitOn "|" with
  | ts :: v4 :: v6 :: dr :: br :: bs :: pr :: ps :: cols => do
    let ts ← Wire.parseInt ts
    let v4 ← Wire.parseNat v4; let v6 ← Wire.parseNat v6; let dr ← Wire.parseNat dr
    let br ← Wire.parseNat br; let bs ← Wire.parseNat bs; let pr ← Wire.parseNat pr; let ps ← Wire.parseNat ps
    let cols ← cols.mapM parseCol
    if cols.length ≠ 8 then none else
    some { ts := ts, tm := (v4, v6, dr), cnt := (br, bs, pr, ps), cols := cols }
  | _ => none

def parseSessions (s : String) : Option (List Session) :=
  (Wire.semiField s).mapM fun ss => (Wire.listField ss).mapM parseWrite

def showRBlock (b : RBlock) : String :=
  toString b.ts ++ ":" ++ toString b.tm.1 ++ ":" ++ toString b.tm.2.1 ++ ":" ++ toString b.tm.2.2 ++ ":" ++
  "|".intercalate (b.cols.map fun c => match c with | some d => Wire.bytesToHex d | none => "ERR")

def showView (v : View) : String :=
  "blocks=" ++ Wire.showList (v.blocks.map showRBlock) ++ " totals=" ++
  toString v.totals.1.1 ++ ":" ++ toString v.totals.1.2.1 ++ ":" ++ toString v.totals.1.2.2 ++ ":" ++
  toString v.totals.2.1 ++ ":" ++ toString v.totals.2.2.1 ++ ":" ++ toString v.totals.2.2.2.1 ++ ":" ++ toString v.totals.2.2.2.2

def parseRBlock (s : String) : Option RBlock :=
  match s.splitOn ":" with
  | [ts, v4, v6, dr, cols] => do
    let ts ← Wire.parseInt ts
    let v4 ← Wire.parseNat v4; let v6 ← Wire.parseNat v6; let dr ← Wire.parseNat dr
    let cols ← (cols.splitOn "|").mapM fun c => if c == "ERR" then some none else (Wire.hexToBytes c).map some
    some { ts := ts, tm := (v4, v6, dr), cols := cols }
  | _ => none

def parseView (fs : List String) : Option View := do
  let b ← fs.find? (·.startsWith "blocks=")
  let t ← fs.find? (·.startsWith "totals=")
  let blocks ← (Wire.listField (b.drop 7).toString).mapM parseRBlock
  match ((t.drop 7).toString.splitOn ":").mapM Wire.parseNat with
  | some [a, b, c, d, e, f, g] => some { blocks := blocks, totals := ((a, b, c), (d, e, f, g)) }
  | _ => none

/-! ### spec: what a reader must see after the given sessions -/

def add3 (a b : Nat × Nat × Nat) : Nat × Nat × Nat := (a.1 + b.1, a.2.1 + b.2.1, a.2.2 + b.2.2)
def add4 (a b : Nat × Nat × Nat × Nat) : Nat × Nat × Nat × Nat :=
  (a.1 + b.1, a.2.1 + b.2.1, a.2.2.1 + b.2.2.1, a.2.2.2 + b.2.2.2)

/-- a session is accepted iff none of its timestamps is already stored (duplicate timestamps are
    the only rejection of the layer under test; a rejected write abandons its whole session) -/
def sessionAccepted (stored : List Int) : Session → Bool
  | [] => true
  | w :: ws => !stored.contains w.ts && sessionAccepted (stored ++ [w.ts]) ws

def specBlocks : List Write → List Session → List Write
  | acc, [] => acc
  | acc, s :: ss =>
    if sessionAccepted (acc.map (·.ts)) s then specBlocks (acc ++ s) ss else specBlocks acc ss

def specView (ss : List Session) : View :=
  let ws := specBlocks [] ss
  { blocks := ws.map fun w => { ts := w.ts, tm := w.tm, cols := w.cols.map fun c => some c.1 },
    totals := (ws.foldl (fun a w => add3 a w.tm) (0,0,0), ws.foldl (fun a w => add4 a w.cnt) (0,0,0,0)) }

/-- judge: the reader's view reported by the implementation must equal the spec view -/
def judge (args : List String) (out : String) : String :=
  match args with
  | [_enc, _lvl, sess] =>
    match parseSessions sess, parseView (Wire.fields out) with
    | some ss, some v =>
      let sv := specView ss
      if v = sv then "holds"
      else if v.blocks.map (·.ts) ≠ sv.blocks.map (·.ts) then "violates:block-timestamps-differ"
      else if v.blocks.map (·.cols) ≠ sv.blocks.map (·.cols) then "violates:block-bytes-differ"
      else if v.blocks.map (·.tm) ≠ sv.blocks.map (·.tm) then "violates:block-summaries-differ"
      else "violates:day-totals-differ"
    | none, _ => "violates:unparsable-case"
    | _, none => "violates:reader-failed:" ++ (out.take 40).toString
  | _ => "violates:bad-op"

end C01
