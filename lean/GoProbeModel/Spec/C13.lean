import GoProbeModel.Base.Wire

/-!
C13 — time binning: row type, the executable *spec* (independent of generated code), canonical
wire output and the spec judge. Nothing here depends on `Gen/*`.
-/
namespace C13

structure Row where
  ts  : Option Int        -- none = zero time (`IsZero()`), left untouched by BinTime
  key : Nat
  c   : Nat × Nat × Nat × Nat   -- bytes rcvd, bytes sent, packets rcvd, packets sent
  deriving Repr, DecidableEq

def addC (a b : Nat × Nat × Nat × Nat) : Nat × Nat × Nat × Nat :=
  (a.1 + b.1, a.2.1 + b.2.1, a.2.2.1 + b.2.2.1, a.2.2.2 + b.2.2.2)

/-- `RowsMap.MergeRow` on an association list (insertion order kept; the Go map has none,
    outputs are compared after sorting). -/
def mergeRow : List Row → Row → List Row
  | [], r => [r]
  | x :: xs, r =>
    if x.ts = r.ts ∧ x.key = r.key then { x with c := addC x.c r.c } :: xs
    else x :: mergeRow xs r

/-! ### executable spec (independent of the generated code): ceiling to the bin end -/

/-- the end of the bin (of `s` seconds) containing second `t`: smallest multiple of `s` that is ≥ t -/
def binEnd (s t : Int) : Int := ((t + s - 1) / s) * s   -- floor division

def specRow (s : Int) (r : Row) : Row := { r with ts := r.ts.map (binEnd s) }

def specBin (s : Int) (rows : List Row) : List Row :=
  (rows.map (specRow s)).foldl mergeRow []

/-! ### canonical output -/

def rowLe (a b : Row) : Bool :=
  let ta := a.ts.getD (-1 <<< 70); let tb := b.ts.getD (-1 <<< 70)
  ta < tb || (ta == tb && a.key ≤ b.key)

def insertSorted (r : Row) : List Row → List Row
  | [] => [r]
  | x :: xs => if rowLe r x then r :: x :: xs else x :: insertSorted r xs

def sortRows (rs : List Row) : List Row := rs.foldr insertSorted []

def showRow (r : Row) : String :=
  (match r.ts with | none => "z" | some t => toString t) ++ ":" ++ toString r.key ++ ":" ++
  toString r.c.1 ++ ":" ++ toString r.c.2.1 ++ ":" ++ toString r.c.2.2.1 ++ ":" ++ toString r.c.2.2.2

def parseRow (s : String) : Option Row :=
  match s.splitOn ":" with
  | [t, k, a, b, c, d] => do
    -- (a trailing `u` / `f` only says which time zone the harness gives the instant: no effect on the spec)
    let t := if t.endsWith "u" || t.endsWith "f" then (t.dropEnd 1).toString else t
    let ts ← if t == "z" then some none else (Wire.parseInt t).map some
    let k ← Wire.parseNat k
    let a ← Wire.parseNat a; let b ← Wire.parseNat b; let c ← Wire.parseNat c; let d ← Wire.parseNat d
    some { ts := ts, key := k, c := (a, b, c, d) }
  | _ => none

def showRows (rs : List Row) : String := Wire.showList ((sortRows rs).map showRow)
def parseRows (s : String) : Option (List Row) := (Wire.listField s).mapM parseRow

/-- spec verdict on an observed implementation output -/
def judge (args : List String) (out : String) : String :=
  match args with
  | ["bints", ts, b] =>
    match Wire.parseInt ts, Wire.parseInt b, Wire.parseInt out with
    | some ts, some b, some o =>
      if b ≤ 0 ∨ b % 1000000000 ≠ 0 ∨ ts < 0 then "holds:outside-domain"
      else if o = binEnd (b / 1000000000) ts then "holds" else "violates:not-bin-end"
    | _, _, _ => "violates:unparsable"
  | ["calc", r, d] =>
    match Wire.parseInt r, Wire.parseInt d, Wire.parseInt out with
    | some r, some d, some o =>
      if r ≠ 300000000000 ∨ d ≤ 0 ∨ d % 1000000000 ≠ 0 then "holds:outside-domain"
      else if 0 < o ∧ o % 300000000000 = 0 ∧ d ≤ 288 * o then "holds" else "violates:auto-size"
    | _, _, _ => "violates:unparsable"
  | ["bintime", b, rows] =>
    match Wire.parseInt b, parseRows rows, parseRows out with
    | some b, some rows, some o =>
      if b ≤ 0 ∨ b % 1000000000 ≠ 0 ∨ rows.any (fun r => match r.ts with | some t => t < 0 | none => false)
      then "holds:outside-domain"
      else if sortRows o = sortRows (specBin (b / 1000000000) rows) then "holds" else "violates:rows-differ-from-spec"
    | _, _, _ => "violates:unparsable"
  | ["pp", b, limit, rows] =>
    -- the row limit applies to the rows AFTER re-binning: a limit that is not below their number leaves
    -- the binned result complete (every bin present, counters conserved)
    match Wire.parseInt b, Wire.parseNat limit, parseRows rows, parseRows out with
    | some b, some n, some rows, some o =>
      if b ≤ 0 ∨ b % 1000000000 ≠ 0 ∨ rows.any (fun r => match r.ts with | some t => t < 0 | none => false)
      then "holds:outside-domain"
      else
        let want := specBin (b / 1000000000) rows
        if n ≠ 0 ∧ n < want.length then "holds:outside-domain-limit-cuts"
        else if sortRows o = sortRows want then "holds" else "violates:limit-cut-rows-before-binning"
    | _, _, _, _ => "violates:unparsable"
  | _ => "violates:bad-op"

end C13
