import GoProbeModel.Base.Wire

/-!
C26 — CSV import (`gpdb import`): data types, the executable *spec*, wire format and the spec judge.
Nothing here depends on `Gen/*` or on how `csvimport.Import` works.

A CSV file arrives as the list of its records (lists of fields): record splitting by
`encoding/csv` is a parameter.  A *schema* names the columns (`specCols`); a record is a well-formed
**row** (`specRow`) when it reaches the last understood column, has a usable interface name, EVERY
understood column holds a well-formed value (`parseField`), all addresses are of one IP version and the
time is > 0; the last column of a kind counts.  The spec of the destination database after importing
rows `rs` is the finite map

    (iface, timestamp, flow key) ↦ Σ counters of the rows of `rs` with that (iface, timestamp, key)

defined exactly on the identities that occur in `rs` (`specStored`); `specStore` computes it as a list.
`scan` says which rows an import must accept before it has to stop (end of input, CSV syntax error,
or a row older than the previously accepted one); `judge` checks an observed implementation output
(status, counters, rows read back from the destination) against all of this.
-/
namespace C26

/-! ### Go standard-library functions the importer calls (executable instances of the model's
parameters; on ASCII input) -/

/-- `strings.TrimSpace` on ASCII: `\t \n \v \f \r` and space -/
def isSpace (c : Char) : Bool :=
  c == ' ' || c == '\t' || c == '\n' || c == '\r' || c.toNat == 11 || c.toNat == 12

def trimChars (cs : List Char) : List Char :=
  ((cs.dropWhile isSpace).reverse.dropWhile isSpace).reverse

def trimSpace (s : String) : String := String.ofList (trimChars s.toList)

def lowerChar (c : Char) : Char :=
  if 65 ≤ c.toNat ∧ c.toNat ≤ 90 then Char.ofNat (c.toNat + 32) else c

/-- `strings.ToLower` on ASCII -/
def toLower (s : String) : String := String.ofList (s.toList.map lowerChar)

def isDigit (c : Char) : Bool := 48 ≤ c.toNat && c.toNat ≤ 57

def digitsVal (cs : List Char) : Nat := cs.foldl (fun a c => a * 10 + (c.toNat - 48)) 0

/-- `strconv.ParseUint(s, 10, bits)`: non-empty, decimal digits only (no sign, no underscore), in range -/
def parseUintChars (bits : Nat) (cs : List Char) : Option Nat :=
  if cs.isEmpty || !cs.all isDigit then none
  else if digitsVal cs < 2 ^ bits then some (digitsVal cs) else none

def parseUint (bits : Nat) (s : String) : Option Nat := parseUintChars bits s.toList

/-- `strconv.ParseInt(s, 10, 64)`: optional sign, then as ParseUint, in the int64 range -/
def parseInt64 (s : String) : Option Int :=
  let pos (cs : List Char) : Option Int :=
    (parseUintChars 64 cs).bind fun n => if n < 2 ^ 63 then some (Int.ofNat n) else none
  match s.toList with
  | [] => none
  | '+' :: r => pos r
  | '-' :: r => (parseUintChars 64 r).bind fun n => if n ≤ 2 ^ 63 then some (-(Int.ofNat n)) else none
  | cs => pos cs

/-- split a character list at every occurrence of `sep` -/
def splitChar (sep : Char) : List Char → List (List Char)
  | [] => [[]]
  | c :: cs =>
    match splitChar sep cs with
    | [] => [[]]           -- unreachable
    | g :: gs => if c == sep then [] :: g :: gs else (c :: g) :: gs

/-- one decimal octet of `netip.parseIPv4Fields`: digits, no leading zero, ≤ 255 -/
def parseOctet (cs : List Char) : Option Nat :=
  match cs with
  | [] => none
  | c :: rest =>
    if !cs.all isDigit then none
    else if c == '0' && !rest.isEmpty then none
    else if cs.length > 3 then none
    else if digitsVal cs ≤ 255 then some (digitsVal cs) else none

/-- `netip.parseIPv4`: exactly four octets -/
def parseV4 (cs : List Char) : Option (List Nat) :=
  match (splitChar '.' cs).mapM parseOctet with
  | some [a, b, c, d] => some [a, b, c, d]
  | _ => none

def hexDigitVal (c : Char) : Option Nat := Wire.hexVal c

/-- one group of an IPv6 address: 1–4 hex digits, as two bytes -/
def parseHexGroup (cs : List Char) : Option (List Nat) :=
  if cs.isEmpty || cs.length > 4 then none
  else (cs.mapM hexDigitVal).map fun ds =>
    let v := ds.foldl (fun a d => a * 16 + d) 0
    [v / 256, v % 256]

/-- colon-separated groups; the last one may be a dotted quad when `allowV4` -/
def parseGroups (allowV4 : Bool) : List (List Char) → Option (List Nat)
  | [] => some []
  | [g] =>
    if g.contains '.' then (if allowV4 then parseV4 g else none) else parseHexGroup g
  | g :: gs => do
    let a ← parseHexGroup g
    let b ← parseGroups allowV4 gs
    some (a ++ b)

/-- split at the first `::` -/
def splitEllipsis : List Char → List Char × Option (List Char)
  | ':' :: ':' :: rest => ([], some rest)
  | c :: rest =>
    let (l, r) := splitEllipsis rest
    (c :: l, r)
  | [] => ([], none)

def hasEllipsis : List Char → Bool
  | ':' :: ':' :: _ => true
  | _ :: rest => hasEllipsis rest
  | [] => false

def groupsOf (cs : List Char) : List (List Char) := if cs.isEmpty then [] else splitChar ':' cs

/-- `netip.parseIPv6` without zone: 16 bytes -/
def parseV6 (cs : List Char) : Option (List Nat) :=
  match splitEllipsis cs with
  | (l, none) =>
    -- no `::` : eight groups, or six groups and a dotted quad
    (parseGroups true (groupsOf l)).bind fun bs => if bs.length == 16 then some bs else none
  | (l, some r) =>
    if hasEllipsis r then none else do
      -- a dotted quad may only end the whole address
      let a ← parseGroups false (groupsOf l)
      let b ← parseGroups true (groupsOf r)
      if a.length + b.length ≤ 14 then some (a ++ List.replicate (16 - a.length - b.length) 0 ++ b) else none

/-- `net.ParseIP` (via `netip.ParseAddr`; zones are refused): the 16-byte form -/
def parseIP (s : String) : Option (List Nat) :=
  let cs := s.toList
  if cs.contains '%' then none
  else match cs.find? (fun c => c == '.' || c == ':') with
    | some '.' => (parseV4 cs).map fun b => [0, 0, 0, 0, 0, 0, 0, 0, 0, 0, 255, 255] ++ b
    | some _ => parseV6 cs
    | none => none

/-- `types.IPStringToBytes`: (is IPv4, bytes); "IPv4" is decided by the presence of a dot -/
def ipStringToBytes (s : String) : Option (Bool × List Nat) :=
  (parseIP s).map fun b => if s.toList.contains '.' then (true, b.drop 12) else (false, b)

/-! ### data -/

/-- IANA protocol names (lower case) → number; tied to `protocols.IPProtocolIDs` by
    `C26.proto_table_eq` -/
def protoTable : List (String × Nat) := [
  ("hopopt", 0), ("icmp", 1), ("igmp", 2), ("ggp", 3), ("ipv4", 4), ("st", 5), ("tcp", 6), ("cbt", 7),
  ("egp", 8), ("igp", 9), ("bbn-rcc-mon", 10), ("nvp-ii", 11), ("pup", 12), ("argus", 13), ("emcon", 14),
  ("xnet", 15), ("chaos", 16), ("udp", 17), ("mux", 18), ("dcn-meas", 19), ("hmp", 20), ("prm", 21),
  ("xns-idp", 22), ("trunk-1", 23), ("trunk-2", 24), ("leaf-1", 25), ("leaf-2", 26), ("rdp", 27),
  ("irtp", 28), ("iso-tp4", 29), ("netblt", 30), ("mfe-nsp", 31), ("merit-inp", 32), ("dccp", 33),
  ("3pc", 34), ("idpr", 35), ("xtp", 36), ("ddp", 37), ("idpr-cmtp", 38), ("tp++", 39), ("il", 40),
  ("ipv6", 41), ("sdrp", 42), ("ipv6-route", 43), ("ipv6-frag", 44), ("idrp", 45), ("rsvp", 46),
  ("gre", 47), ("dsr", 48), ("bna", 49), ("ipsec-esp", 50), ("ipsec-ah", 51), ("i-nlsp", 52),
  ("swipe", 53), ("narp", 54), ("mobile", 55), ("tlsp", 56), ("skip", 57), ("ipv6-icmp", 58),
  ("ipv6-nonxt", 59), ("ipv6-opts", 60), ("cftp", 62), ("sat-expak", 64), ("kryptolan", 65), ("rvd", 66),
  ("ippc", 67), ("sat-mon", 69), ("visa", 70), ("ipcv", 71), ("cpnx", 72), ("cphb", 73), ("wsn", 74),
  ("pvp", 75), ("br-sat-mon", 76), ("sun-nd", 77), ("wb-mon", 78), ("wb-expak", 79), ("iso-ip", 80),
  ("vmtp", 81), ("secure-vmtp", 82), ("vines", 83), ("ttp", 84), ("nsfnet-igp", 85), ("dgp", 86),
  ("tcf", 87), ("eigrp", 88), ("ospfigp", 89), ("sprite-rpc", 90), ("larp", 91), ("mtp", 92),
  ("ax.25", 93), ("ipip", 94), ("micp", 95), ("scc-sp", 96), ("etherip", 97), ("encap", 98), ("gmtp", 100),
  ("ifmp", 101), ("pnni", 102), ("pim", 103), ("aris", 104), ("scps", 105), ("qnx", 106), ("a/n", 107),
  ("ipcomp", 108), ("snp", 109), ("compaq-peer", 110), ("ipx-in-ip", 111), ("vrrp", 112), ("pgm", 113),
  ("l2tp", 115), ("ddx", 116), ("iatp", 117), ("stp", 118), ("srp", 119), ("uti", 120), ("smp", 121),
  ("sm", 122), ("ptp", 123), ("isis", 124), ("fire", 125), ("crtp", 126), ("crudp", 127),
  ("sscopmce", 128), ("iplt", 129), ("sps", 130), ("pipe", 131), ("sctp", 132), ("fc", 133),
  ("rsvp-e2e-ignore", 134), ("mobility-header", 135), ("udplite", 136), ("mpls-in-ip", 137),
  ("manet", 138), ("hip", 139), ("shim6", 140), ("wesp", 141), ("rohc", 142), ("unknown", 255)]

structure FlowKey where
  v4 : Bool
  sip : List Nat
  dip : List Nat
  dport : Nat
  proto : Nat
  deriving DecidableEq, Repr

structure Counters where
  br : Nat   -- bytes received
  bs : Nat   -- bytes sent
  pr : Nat   -- packets received
  ps : Nat   -- packets sent
  deriving DecidableEq, Repr

def Counters.zero : Counters := ⟨0, 0, 0, 0⟩
def Counters.add (a b : Counters) : Counters := ⟨a.br + b.br, a.bs + b.bs, a.pr + b.pr, a.ps + b.ps⟩

/-- identity of a stored flow: interface, block timestamp, flow key -/
abbrev FKey := String × Int × FlowKey

/-- an accepted CSV row; also a stored flow -/
structure Row where
  iface : String
  ts : Int
  key : FlowKey
  c : Counters
  deriving DecidableEq, Repr

def Row.id (r : Row) : FKey := (r.iface, r.ts, r.key)


/-! ### schema -/

inductive Kind where
  | iface | sip | dip | dport | proto | time | br | bs | pr | ps
  deriving DecidableEq, Repr

/-- column names understood by the importer (already trimmed and lower-cased) -/
def kindOfName (n : String) : Option Kind :=
  if n = "iface" then some .iface
  else if n = "sip" then some .sip
  else if n = "dip" then some .dip
  else if n = "dport" then some .dport
  else if n = "proto" then some .proto
  else if n = "time" then some .time
  else if n = "packets received" then some .pr
  else if n = "packets sent" then some .ps
  else if n = "data vol. received" then some .br
  else if n = "data vol. sent" then some .bs
  else none

/-- a column the importer reads: position in the record and meaning -/
structure Col where
  idx : Nat
  kind : Kind
  deriving DecidableEq, Repr

def enumFrom {α : Type} : Nat → List α → List (Nat × α)
  | _, [] => []
  | n, x :: xs => (n, x) :: enumFrom (n + 1) xs

/-- the understood columns of a schema string, in position order -/
def specCols (schema : String) : List Col :=
  (enumFrom 0 (schema.splitOn ",")).filterMap fun (i, f) =>
    (kindOfName (toLower (trimSpace f))).map (Col.mk i)

/-- a record must reach up to the last understood column -/
def minFields (cols : List Col) : Nat := cols.foldl (fun m c => Nat.max m (c.idx + 1)) 0

inductive SchemaErr where
  | nofields | notime
  deriving DecidableEq, Repr

/-- a schema is usable when it names at least one understood column and a `time` column -/
def specSchema (schema : String) : Except SchemaErr (List Col) :=
  let cols := specCols schema
  if cols.isEmpty then .error .nofields
  else if !cols.any (·.kind = .time) then .error .notime
  else .ok cols

/-! ### rows -/

def fieldAt (row : List String) (i : Nat) : String := trimSpace (row.getD i "")

/-- last element, or the default (a later column of the same kind overrides an earlier one) -/
def lastD {α : Type} (l : List α) (d : α) : α := l.foldl (fun _ x => x) d

def validIface (s : String) : Bool :=
  s ≠ "" && !s.toList.contains '/' && !s.toList.contains '\\' && s ≠ "." && s ≠ ".."

def parsePort (s : String) : Option Nat := parseUint 16 s

/-- number 0..255, else a protocol name (case-insensitive) -/
def parseProto (s : String) : Option Nat :=
  match parseUint 8 s with
  | some n => some n
  | none => (protoTable.lookup (toLower s)).map (· % 256)

def parseCounter (s : String) : Option Nat := parseUint 64 s

def zeroIP (v4 : Bool) : List Nat := List.replicate (if v4 then 4 else 16) 0

/-- the well-formed value of one understood column -/
inductive Field where
  | iface
  | sip (v4 : Bool) (b : List Nat)
  | dip (v4 : Bool) (b : List Nat)
  | dport (n : Nat)
  | proto (n : Nat)
  | time (t : Int)
  | br (n : Nat)
  | bs (n : Nat)
  | pr (n : Nat)
  | ps (n : Nat)
  deriving DecidableEq, Repr

/-- what a column of kind `k` must contain (`none` = malformed) -/
def parseField (k : Kind) (s : String) : Option Field :=
  match k with
  | .iface => some .iface
  | .sip => (ipStringToBytes s).map fun a => .sip a.1 a.2
  | .dip => (ipStringToBytes s).map fun a => .dip a.1 a.2
  | .dport => (parsePort s).map .dport
  | .proto => (parseProto s).map .proto
  | .time => (parseInt64 s).map .time
  | .br => (parseCounter s).map .br
  | .bs => (parseCounter s).map .bs
  | .pr => (parseCounter s).map .pr
  | .ps => (parseCounter s).map .ps

namespace Field
def ip? : Field → Option (Bool × List Nat) | sip v b => some (v, b) | dip v b => some (v, b) | _ => none
def sip? : Field → Option (List Nat) | sip _ b => some b | _ => none
def dip? : Field → Option (List Nat) | dip _ b => some b | _ => none
def dport? : Field → Option Nat | dport n => some n | _ => none
def proto? : Field → Option Nat | proto n => some n | _ => none
def time? : Field → Option Int | time t => some t | _ => none
def br? : Field → Option Nat | br n => some n | _ => none
def bs? : Field → Option Nat | bs n => some n | _ => none
def pr? : Field → Option Nat | pr n => some n | _ => none
def ps? : Field → Option Nat | ps n => some n | _ => none
end Field

/-- the IP version of a row: that of its first address, IPv4 when it has no address column -/
def ipVersion : List (Bool × List Nat) → Bool
  | a :: _ => a.1
  | [] => true

/-- the interface of a record: its last `iface` column, else the default -/
def specIface (cols : List Col) (defIface : String) (row : List String) : String :=
  match (cols.filter (·.kind = .iface)).getLast? with
  | some c => fieldAt row c.idx
  | none => defIface

/-- **row spec**: the flow a record denotes under the columns `cols` (`none` = malformed, skipped).
    The record must reach the last understood column; the interface name (last `iface` column, else
    the default) must be usable as a directory name; EVERY understood column must hold a well-formed
    value; all addresses must be of one IP version (IPv4 when there is none); the time must be > 0.
    Where a kind of column occurs more than once the last one counts; absent ones are zero. -/
def specRow (cols : List Col) (defIface : String) (row : List String) : Option Row :=
  if row.length < minFields cols then none else
  let iface := specIface cols defIface row
  if !validIface iface then none else
  match cols.mapM (fun c => parseField c.kind (fieldAt row c.idx)) with
  | none => none
  | some fs =>
    let ips := fs.filterMap Field.ip?
    let v4 := ipVersion ips
    if !ips.all (·.1 == v4) then none
    else if lastD (fs.filterMap Field.time?) 0 ≤ 0 then none
    else some {
      iface := iface, ts := lastD (fs.filterMap Field.time?) 0,
      key := ⟨v4, lastD (fs.filterMap Field.sip?) (zeroIP v4), lastD (fs.filterMap Field.dip?) (zeroIP v4),
              lastD (fs.filterMap Field.dport?) 0, lastD (fs.filterMap Field.proto?) 0⟩,
      c := ⟨lastD (fs.filterMap Field.br?) 0, lastD (fs.filterMap Field.bs?) 0,
            lastD (fs.filterMap Field.pr?) 0, lastD (fs.filterMap Field.ps?) 0⟩ }

/-! ### the destination database -/

/-- insert a flow, combining the counters with `merge` when its identity is already present -/
def upsert (merge : Counters → Counters → Counters) : List Row → Row → List Row
  | [], r => [r]
  | f :: fs, r => if f.id = r.id then { f with c := merge f.c r.c } :: fs else f :: upsert merge fs r

/-- executable grouping: rows folded into a list with one entry per identity, counters summed -/
def specStore (rows : List Row) : List Row := rows.foldl (upsert Counters.add) []

def sumCounters : List Row → Counters
  | [] => Counters.zero
  | r :: rs => r.c.add (sumCounters rs)

/-- **database spec**: the counters stored under an identity = sum over the rows with that identity;
    nothing is stored under an identity no row has -/
def specStored (rows : List Row) (k : FKey) : Option Counters :=
  if rows.any (·.id = k) then some (sumCounters (rows.filter (·.id = k))) else none

/-- what a list of stored flows holds under an identity -/
def stored (db : List Row) (k : FKey) : Option Counters := (db.find? (·.id = k)).map (·.c)

/-! ### the import as a whole -/

/-- what `csv.Reader.Read` returns for one line: a record, or a syntax error -/
inductive Rec where
  | fields (fs : List String)
  | bad
  deriving DecidableEq, Repr

structure Case where
  schema : String      -- Options.Schema
  iface : String       -- Options.Interface
  maxRows : Int        -- Options.MaxRows
  recs : List Rec      -- the file
  deriving Repr

inductive Ev where
  | bad
  | skip
  | row (r : Row)
  deriving DecidableEq, Repr

def specEv (cols : List Col) (defIface : String) : Rec → Ev
  | .bad => .bad
  | .fields fs => match specRow cols defIface fs with
    | some r => .row r
    | none => .skip

inductive Setup where
  | err (cls : String)
  | ready (cols : List Col) (defIface : String) (data : List Rec)

def schemaErrClass : SchemaErr → String
  | .nofields => "schema-nofields"
  | .notime => "schema-notime"

/-- where the schema comes from (option, else the first record) and the checks before any row is read -/
def specSetup (c : Case) : Setup :=
  if c.maxRows < 0 then .err "maxrows" else
  let withSchema (s : String) (data : List Rec) : Setup :=
    match specSchema s with
    | .error e => .err (schemaErrClass e)
    | .ok cols =>
      if !cols.any (·.kind = .iface) && trimSpace c.iface = "" then .err "noiface"
      else .ready cols (trimSpace c.iface) data
  if trimSpace c.schema ≠ "" then withSchema c.schema c.recs
  else match c.recs with
    | [] => .err "empty"
    | .bad :: _ => .err "csv-header"
    | .fields h :: data => withSchema (",".intercalate h) data

/-- the records the import may consume -/
def limitRows {α : Type} (maxRows : Int) (l : List α) : List α :=
  if maxRows ≤ 0 then l else l.take maxRows.toNat

inductive Stop where
  | eof | csv | regression
  deriving DecidableEq, Repr

/-- does a row with timestamp `ts` go backwards in time after the previously accepted row? -/
def older (ts : Int) : Option Int → Bool
  | some t => decide (ts < t)
  | none => false

/-- rows accepted before the import stops, and why it stops: end of input, a CSV syntax error, or a
    row older than the previously accepted row -/
def scan : List Ev → Option Int → List Row × Stop
  | [], _ => ([], .eof)
  | .bad :: _, _ => ([], .csv)
  | .skip :: es, last => scan es last
  | .row r :: es, last =>
    if older r.ts last then ([], .regression)
    else let (rs, s) := scan es (some r.ts); (r :: rs, s)

/-! ### wire format -/

/-- `types.RawIPToAddr` as used by the query engine: 16 bytes whose last 12 are zero print as IPv4 -/
def displayIP (b : List Nat) : List Nat :=
  if b.length = 16 ∧ (b.drop 4).all (· = 0) then b.take 4 else b

def renderKey (r : Row) : String :=
  Wire.escape r.iface ++ "@" ++ toString r.ts ++ "/" ++ Wire.bytesToHex (displayIP r.key.sip) ++ ":" ++
    Wire.bytesToHex (displayIP r.key.dip) ++ ":" ++ toString r.key.dport ++ ":" ++ toString r.key.proto

def renderBlock (r : Row) : String := Wire.escape r.iface ++ "@" ++ toString r.ts ++ "/"

def renderRow (r : Row) : String :=
  renderKey r ++ ":" ++ toString r.c.br ++ ":" ++ toString r.c.bs ++ ":" ++ toString r.c.pr ++ ":" ++ toString r.c.ps

def sortStrings (l : List String) : List String := l.mergeSort (fun a b => decide (a ≤ b))

def renderDB (db : List Row) : String := Wire.showList (sortStrings (db.map renderRow))

def parseRec (s : String) : Rec :=
  if s = "!" then .bad else .fields ((s.splitOn ",").map Wire.unescape)

def parseCase : List String → Option Case
  | "import" :: schema :: iface :: maxRows :: recs => do
    let m ← Wire.parseInt maxRows
    some ⟨Wire.unescape schema, Wire.unescape iface, m, recs.map parseRec⟩
  | _ => none

structure Out where
  status : String
  read : Nat
  imported : Nat
  skipped : Nat
  db : List String

def parseOut (out : String) : Option Out :=
  match out.splitOn "|" with
  | [st, r, i, s, _ifaces, _blocks, db] =>
    let num (pre : String) (x : String) : Option Nat :=
      if x.startsWith pre then Wire.parseNat (x.drop pre.length).toString else none
    do
      let r ← num "read=" r
      let i ← num "imp=" i
      let s ← num "skip=" s
      if db.startsWith "db=" then some ⟨st, r, i, s, Wire.listField (db.drop 3).toString⟩ else none
  | _ => none

/-! ### judge -/

/-- a rendered row without its four counters -/
def keyPart (s : String) : String :=
  ":".intercalate ((s.splitOn ":").reverse.drop 4).reverse

def blockPart (s : String) : String := (s.splitOn "/").headD "" ++ "/"

def asciiOnly (s : String) : Bool := s.toList.all (·.toNat < 128)

def recAscii : Rec → Bool
  | .bad => true
  | .fields fs => fs.all asciiOnly

def dirName (s : String) : Bool := s.length ≤ 255 && s.toList.all (·.toNat ≠ 0)

/-- day-directory names (decimal day timestamps) of equal length, so that the query engine's directory
    listing is chronological (always true for 10-digit Unix times; the reader-side assumption of C12) -/
def dirWidthOk : List Row → Bool
  | [] => true
  | r :: rs => rs.all fun q => (toString (q.ts / 86400 * 86400)).length == (toString (r.ts / 86400 * 86400)).length

def countersBelow (c : Counters) (n : Nat) : Bool := c.br < n && c.bs < n && c.pr < n && c.ps < n

/-- verdict on an import whose considered rows are ordered and free of syntax errors -/
def judgeOrdered (rows : List Row) (consumed : List Ev) (o : Out) : String :=
  if o.status ≠ "ok" then "violates:ordered-input-rejected"
  else if o.read ≠ o.imported + o.skipped then "violates:rows-account"
  else if o.read ≠ consumed.length then "violates:rows-read-count"
  else if o.imported ≠ rows.length then "violates:imported-count"
  else
    let want := sortStrings ((specStore rows).map renderRow)
    let got := sortStrings o.db
    if got = want then "holds"
    else if got.any (fun s => (s.splitOn "@err%3a").length > 1 || (s.splitOn "@err:").length > 1) || got.any (·.startsWith "err:") then
      "violates:destination-not-queryable"
    else
      let wk := want.map keyPart
      let gk := got.map keyPart
      if wk.any (fun k => !gk.contains k) then "violates:accepted-row-missing"
      else if gk.any (fun k => !wk.contains k) then "violates:unreported-row-stored"
      else if got = sortStrings ((rows.foldl (upsert fun _ n => n) []).map renderRow) then
        "violates:duplicate-rows-overwritten"
      else "violates:stored-counters-differ"

/-- verdict on an import that must be rejected: an error, and only whole blocks of earlier rows stored -/
def judgeRegression (before : List Row) (o : Out) : String :=
  if o.status = "ok" then "violates:regression-not-rejected"
  else
    let full := (specStore before).map renderRow
    if o.db.any (fun s => !full.contains s) then "violates:regression-stored-rows-differ"
    else if full.any (fun s => (o.db.map blockPart).contains (blockPart s) && !o.db.contains s) then
      "violates:regression-partial-block-stored"
    else "holds:rejected"

/-- spec verdict on an observed implementation output -/
def judge (args : List String) (out : String) : String :=
  match parseCase args with
  | none => "violates:bad-case"
  | some c =>
    if out = "panic" then "violates:panic"
    else if !(asciiOnly c.schema && asciiOnly c.iface && c.recs.all recAscii) then "holds:outside-domain-non-ascii"
    else match specSetup c with
    | .err _ => "holds:outside-domain-setup"
    | .ready cols defIface data =>
      let evs := limitRows c.maxRows (data.map (specEv cols defIface))
      let (rows, stop) := scan evs none
      if rows.any (fun r => !dirName r.iface) then "holds:outside-domain-interface-not-a-directory-name"
      else if rows.any (fun r => r.ts > 9999999999) then "holds:outside-domain-timestamp"
      else if !dirWidthOk rows then "holds:outside-domain-dirname-width"
      else if (specStore rows).any (fun r => !countersBelow r.c (2 ^ 64)) then "holds:outside-domain-overflow"
      else match parseOut out with
      | none => "violates:unparsable"
      | some o =>
        match stop with
        | .csv => "holds:outside-domain-csv-syntax"
        | .regression => judgeRegression rows o
        | .eof => judgeOrdered rows evs o

end C26
