import GoProbeModel.Base.Wire

/-!
C15 — distributed results do not depend on the order in which the hosts reply.

Data types (a per-host reply, the query configuration, the observable result), the executable
*spec* `specResult` — an order-free description of the merged result, written without looking at
how `aggregateResults` works —, wire parsing/printing and the spec judge.
Nothing here depends on `Gen/*` or `Model/*`.

Two more case kinds put the querier's fan-out (`APIClientQuerier.Query`) in front of the
aggregation: `fan` observes the result channel of the real `Query` (one entry per result taken
until the channel is closed), `run` the result of the real distributed `QueryRunner.Run` on top of
it. Their spec: exactly one result per entry of the host list — answering hosts with their rows,
failed hosts with their error — whatever `MaxConcurrent` is; and for `run` the same `specResult`.

Abstractions (same on the Go side, harness/c15.go): a row key is (timestamp, interface id, dport)
— the labels/attributes the harness varies —, host names are `h<id>`, interfaces `eth<id>`,
counters are naturals (no uint64 wrap), times are whole unix seconds, `none` = Go's zero time.
-/
namespace C15

/-! ### data -/

structure Ctr where
  br : Nat
  bs : Nat
  pr : Nat
  ps : Nat
  deriving DecidableEq, Repr, Inhabited

def Ctr.zero : Ctr := ⟨0, 0, 0, 0⟩
def Ctr.add (a b : Ctr) : Ctr := ⟨a.br + b.br, a.bs + b.bs, a.pr + b.pr, a.ps + b.ps⟩

structure Key where
  ts : Option Int
  iface : Nat
  dport : Nat
  deriving DecidableEq, Repr, Inhabited

abbrev Row := Key × Ctr

structure Stats where
  bl : Nat
  bd : Nat
  bp : Nat
  bc : Nat
  dp : Nat
  wl : Nat
  deriving DecidableEq, Repr, Inhabited

def Stats.zero : Stats := ⟨0, 0, 0, 0, 0, 0⟩
def Stats.add (a b : Stats) : Stats :=
  ⟨a.bl + b.bl, a.bd + b.bd, a.bp + b.bp, a.bc + b.bc, a.dp + b.dp, a.wl + b.wl⟩

inductive SortBy where
  | bytes | packets | time
  deriving DecidableEq, Repr, Inhabited

inductive Dir where
  | sum | inn | out | both
  deriving DecidableEq, Repr, Inhabited

structure Cfg where
  sortBy : SortBy
  dir : Dir
  asc : Bool
  limit : Nat
  tsLabel : Bool
  binSecs : Int
  deriving DecidableEq, Repr, Inhabited

/-- (status code, message) -/
abbrev HStatus := String × String

inductive Reply where
  | err (host : Nat) (msg : String) (wrapped : Bool)
  | ok (host : Nat) (statuses : List (Nat × HStatus)) (ifaces : List Nat) (first last : Option Int)
       (totals : Ctr) (stats : Option Stats) (hits : Int) (rows : List Row)
  deriving DecidableEq, Repr, Inhabited

/-- what the caller of a distributed query observes (host statuses sorted by host; interfaces in
    the order delivered — `Result.End` sorts them; rows in the order delivered) -/
structure Result where
  status : HStatus
  hosts : List (Nat × HStatus)
  ifaces : List Nat
  first : Option Int
  last : Option Int
  totals : Ctr
  stats : Stats
  hitsTotal : Int
  displayed : Nat
  rows : List Row
  deriving DecidableEq, Repr, Inhabited

namespace Reply
def host : Reply → Nat
  | .ok h _ _ _ _ _ _ _ _ => h
  | .err h _ _ => h
def rows : Reply → List Row
  | .ok _ _ _ _ _ _ _ _ rows => rows
  | .err .. => []
/-- the host-status entries a reply contributes: a failed host its error, a host that answered
    whatever status map it sent -/
def statusEntries : Reply → List (Nat × HStatus)
  | .ok _ sts _ _ _ _ _ _ _ => sts
  | .err h msg _ => [(h, ("error", msg))]
def ifaces : Reply → List Nat
  | .ok _ _ ifs _ _ _ _ _ _ => ifs
  | .err .. => []
def first : Reply → Option Int
  | .ok _ _ _ f _ _ _ _ _ => f
  | .err .. => none
def last : Reply → Option Int
  | .ok _ _ _ _ l _ _ _ _ => l
  | .err .. => none
def totals : Reply → Ctr
  | .ok _ _ _ _ _ t _ _ _ => t
  | .err .. => Ctr.zero
def stats : Reply → Stats
  | .ok _ _ _ _ _ _ (some s) _ _ => s
  | _ => Stats.zero
def hits : Reply → Int
  | .ok _ _ _ _ _ _ _ h _ => h
  | .err .. => 0
def isOk : Reply → Bool
  | .ok .. => true
  | .err .. => false
end Reply

/-! ### the order-free spec -/

def sumCtr (cs : List Ctr) : Ctr := cs.foldr Ctr.add Ctr.zero
def sumStats (cs : List Stats) : Stats := cs.foldr Stats.add Stats.zero

def allRows (l : List Reply) : List Row := l.flatMap Reply.rows

/-- sum of the counters of all rows carrying key `k` -/
def sumFor (k : Key) (rows : List Row) : Ctr :=
  sumCtr ((rows.filter fun r => r.1 = k).map (·.2))

/-- every element once (which occurrence is kept is immaterial: results are sorted afterwards) -/
def dedup {α} [DecidableEq α] : List α → List α
  | [] => []
  | a :: as => if a ∈ as then dedup as else a :: dedup as

/-- the union of rows: one row per distinct key, carrying the per-key sum -/
def grouped (rows : List Row) : List Row :=
  (dedup (rows.map (·.1))).map fun k => (k, sumFor k rows)

/-- end of the bin of `s` seconds containing second `t` (the C13 spec) -/
def binEnd (s t : Int) : Int := if s ≤ 0 then t else ((t + s - 1) / s) * s

/-- re-label a key's timestamp (zero time untouched) -/
def binKeyWith (b : Int → Int) (k : Key) : Key := { k with ts := k.ts.map b }

/-- binning is requested: time label selected and a bin size other than the native 5 minutes -/
def binActive (cfg : Cfg) : Bool := cfg.tsLabel && cfg.binSecs != 300

/-- `none` (Go's zero time) sorts before every real instant -/
def optRank (o : Option Int) : List Int :=
  match o with
  | none => [0, 0]
  | some x => [1, x]

/-- the value rows are primarily ordered by -/
def primary (cfg : Cfg) (r : Row) : Option Int :=
  match cfg.sortBy, cfg.dir with
  | .bytes, .inn => some r.2.br
  | .bytes, .out => some r.2.bs
  | .bytes, _ => some (r.2.bs + r.2.br : Nat)
  | .packets, .inn => some r.2.pr
  | .packets, .out => some r.2.ps
  | .packets, _ => some (r.2.ps + r.2.pr : Nat)
  | .time, _ => r.1.ts

/-- sort rank: primary value, then attributes (dport), then labels (timestamp, interface) -/
def rank (cfg : Cfg) (r : Row) : List Int :=
  optRank (primary cfg r) ++ [(r.1.dport : Int)] ++ optRank r.1.ts ++ [(r.1.iface : Int)]

def lexLt : List Int → List Int → Bool
  | a :: as, b :: bs => a < b || (a == b && lexLt as bs)
  | _, _ => false

/-- insertion sort (structural, so that it evaluates inside proofs; any correct sort yields the
    same list when the order is total and antisymmetric on the elements) -/
def insertBy {α} (le : α → α → Bool) (a : α) : List α → List α
  | [] => [a]
  | b :: l => if le a b then a :: b :: l else b :: insertBy le a l

def insSort {α} (le : α → α → Bool) (l : List α) : List α := l.foldr (insertBy le) []

/-- the requested order: ascending by rank, or descending by rank -/
def specLe (cfg : Cfg) (a b : Row) : Bool :=
  if cfg.asc then !lexLt (rank cfg b) (rank cfg a) else !lexLt (rank cfg a) (rank cfg b)

/-- binned results are presented by time, ascending -/
def binCfg (cfg : Cfg) : Cfg := { cfg with sortBy := .time, dir := .sum, asc := true }

/-- all merged rows (before the limit), in the order they are presented -/
def specAllRowsWith (b : Int → Int) (cfg : Cfg) (l : List Reply) : List Row :=
  let g := grouped (allRows l)
  if binActive cfg then
    insSort (specLe (binCfg cfg)) (grouped (g.map fun r => (binKeyWith b r.1, r.2)))
  else insSort (specLe cfg) g

def minOpt : Option Int → Option Int → Option Int
  | none, b => b
  | a, none => a
  | some a, some b => some (min a b)

def maxOpt : Option Int → Option Int → Option Int
  | none, b => b
  | a, none => a
  | some a, some b => some (max a b)

def hostLe (a b : Nat × HStatus) : Bool := decide (a.1 ≤ b.1)
def natLe (a b : Nat) : Bool := decide (a ≤ b)

/-- hits reported by the hosts minus one for every row that was merged into another one -/
def specHitsWith (b : Int → Int) (cfg : Cfg) (l : List Reply) : Int :=
  (l.map Reply.hits).sum - (((allRows l).length : Int) - ((specAllRowsWith b cfg l).length : Int))

/-- the spec, parametric in the bin-labelling function -/
def specResultWith (b : Int → Int) (cfg : Cfg) (l : List Reply) : Result :=
  let rows := (specAllRowsWith b cfg l).take cfg.limit
  { status := if rows.isEmpty then ("missing", "nodata") else ("ok", "-")
    hosts := insSort hostLe (l.flatMap Reply.statusEntries)
    ifaces := insSort natLe (dedup (l.flatMap Reply.ifaces))
    first := (l.map Reply.first).foldr minOpt none
    last := (l.map Reply.last).foldr maxOpt none
    totals := sumCtr (l.map Reply.totals)
    stats := sumStats (l.map Reply.stats)
    hitsTotal := specHitsWith b cfg l
    displayed := rows.length
    rows := rows }

def specAllRows (cfg : Cfg) (l : List Reply) : List Row := specAllRowsWith (binEnd cfg.binSecs) cfg l
def specHits (cfg : Cfg) (l : List Reply) : Int := specHitsWith (binEnd cfg.binSecs) cfg l

/-- THE SPEC: bins are labelled by their end -/
def specResult (cfg : Cfg) (l : List Reply) : Result := specResultWith (binEnd cfg.binSecs) cfg l

/-- the domain of the property: every host (name) is heard of through exactly one reply -/
def DistinctHosts (l : List Reply) : Prop := ((l.flatMap Reply.statusEntries).map (·.1)).Nodup

instance (l : List Reply) : Decidable (DistinctHosts l) := by unfold DistinctHosts; infer_instance

/-! ### wire -/

def showOpt : Option Int → String
  | none => "z"
  | some t => toString t

def parseOpt (s : String) : Option (Option Int) :=
  if s == "z" then some none else (Wire.parseInt s).map some

def showCtr (c : Ctr) : String :=
  toString c.br ++ ":" ++ toString c.bs ++ ":" ++ toString c.pr ++ ":" ++ toString c.ps

def showRow (r : Row) : String :=
  showOpt r.1.ts ++ ":" ++ toString r.1.iface ++ ":" ++ toString r.1.dport ++ ":" ++ showCtr r.2

def parseRow (s : String) : Option Row :=
  match s.splitOn ":" with
  | [t, i, d, a, b, c, e] => do
    let ts ← parseOpt t
    let i ← Wire.parseNat i; let d ← Wire.parseNat d
    let a ← Wire.parseNat a; let b ← Wire.parseNat b; let c ← Wire.parseNat c; let e ← Wire.parseNat e
    some ({ ts := ts, iface := i, dport := d }, ⟨a, b, c, e⟩)
  | _ => none

def showStats (s : Stats) : String :=
  toString s.bl ++ ":" ++ toString s.bd ++ ":" ++ toString s.bp ++ ":" ++ toString s.bc ++ ":" ++
  toString s.dp ++ ":" ++ toString s.wl

def parseStats (s : String) : Option (Option Stats) :=
  if s == "nil" then some none else
  match (s.splitOn ":").mapM Wire.parseNat with
  | some [a, b, c, d, e, f] => some (some ⟨a, b, c, d, e, f⟩)
  | _ => none

def parseCtr (s : String) : Option Ctr :=
  match (s.splitOn ":").mapM Wire.parseNat with
  | some [a, b, c, d] => some ⟨a, b, c, d⟩
  | _ => none

def showHost (h : Nat × HStatus) : String := toString h.1 ++ ":" ++ h.2.1 ++ ":" ++ h.2.2

def parseHost (s : String) : Option (Nat × HStatus) :=
  match s.splitOn ":" with
  | [h, c, m] => (Wire.parseNat h).map fun h => (h, (c, m))
  | _ => none

def parseReply (s : String) : Option Reply :=
  match s.splitOn "/" with
  | ["E", h, msg, w] => do
    let h ← Wire.parseNat h
    let w ← Wire.parseBool w
    some (.err h msg w)
  | ["R", h, sts, ifs, f, la, tot, st, hits, rows] => do
    let h ← Wire.parseNat h
    let sts ← (Wire.listField sts).mapM parseHost
    let ifs ← Wire.natList ifs
    let f ← parseOpt f
    let la ← parseOpt la
    let tot ← parseCtr tot
    let st ← parseStats st
    let hits ← Wire.parseInt hits
    let rows ← (Wire.listField rows).mapM parseRow
    some (.ok h sts ifs f la tot st hits rows)
  | _ => none

def parseCfg (s : String) : Option Cfg :=
  match s.splitOn "," with
  | [sb, d, a, lim, tl, bin] => do
    let sb ← match sb with
      | "bytes" => some SortBy.bytes | "packets" => some SortBy.packets | "time" => some SortBy.time
      | _ => none
    let d ← match d with
      | "sum" => some Dir.sum | "in" => some Dir.inn | "out" => some Dir.out | "both" => some Dir.both
      | _ => none
    let a ← Wire.parseBool a
    let lim ← Wire.parseNat lim
    let tl ← Wire.parseBool tl
    let bin ← Wire.parseInt bin
    some { sortBy := sb, dir := d, asc := a, limit := lim, tsLabel := tl, binSecs := bin }
  | _ => none

def parseReplies (s : String) : Option (List Reply) := (Wire.semiField s).mapM parseReply

def parsePerms (s : String) : Option (List (List Nat)) := (Wire.semiField s).mapM Wire.natList

/-- the replies in the arrival order given by a list of indices -/
def arrange (l : List Reply) (p : List Nat) : List Reply := p.filterMap fun i => l[i]?

def showResult (r : Result) : String :=
  ";".intercalate [
    r.status.1 ++ ":" ++ r.status.2,
    Wire.showList (r.hosts.map showHost),
    Wire.showList (r.ifaces.map toString),
    showOpt r.first ++ ":" ++ showOpt r.last,
    showCtr r.totals,
    showStats r.stats,
    toString r.hitsTotal ++ ":" ++ toString r.displayed,
    Wire.showList (r.rows.map showRow)]

def fieldNames : List String := ["status", "hosts", "ifaces", "range", "totals", "stats", "hits", "rows"]

/-- name of the first result field in which two canonical result strings differ -/
def firstDiff (a b : String) : String :=
  let fa := a.splitOn ";"
  let fb := b.splitOn ";"
  if fa.length ≠ 8 ∨ fb.length ≠ 8 then "shape" else
  match ((fa.zip fb).zip fieldNames).find? (fun x => x.1.1 != x.1.2) with
  | some x => x.2
  | none => "none"

/-- one permutation's output `B…#S…#P…` -/
def splitPermOut (s : String) : Option (String × String × String) :=
  match s.splitOn "#" with
  | [b, st, p] =>
    if b.startsWith "B" ∧ st.startsWith "S" ∧ p.startsWith "P" then
      some ((b.drop 1).toString, (st.drop 1).toString, (p.drop 1).toString) else none
  | _ => none

/-- expand the `=` abbreviations: list of (batch, streaming final) per permutation -/
def expandOuts (outs : List (String × String × String)) : List (String × String) :=
  match outs with
  | [] => []
  | (b0, _, _) :: _ =>
    outs.map fun (b, s, _) =>
      let b := if b == "=" then b0 else b
      (b, if s == "=" then b else s)

def negTs (l : List Reply) : Bool :=
  (allRows l).any fun r => match r.1.ts with | some t => t < 0 | none => false

/-! ### the querier's fan-out (`fan`, `run` cases) -/

/-- `MaxConcurrent` of the case: an integer, or `default` (the constructor's `2 * NumCPU`) -/
def parseMc (s : String) : Option (Option Int) :=
  if s == "default" then some none else (Wire.parseInt s).map some

/-- what the consumer of the result channel must see of one host: its rows, or its error -/
def fanEntry : Reply → String
  | .ok h _ _ _ _ _ _ _ rows => toString h ++ ":ok:" ++ toString rows.length
  | .err h msg _ => toString h ++ ":error:" ++ msg

def strLe (a b : String) : Bool := decide (a ≤ b)

/-- THE SPEC of the fan-out: one result per entry of the host list, nothing else (as a sorted list) -/
def specFan (l : List Reply) : List String := insSort strLe (l.map fanEntry)

/-- the host a channel entry `host:ok:n` / `host:error:kind` speaks of -/
def entryHost (e : String) : String := (e.splitOn ":").headD ""

def countOf (x : String) (l : List String) : Nat := (l.filter (· == x)).length

/-- why a list of observed entries is not the expected one -/
def fanMismatch (l : List Reply) (got : List String) : String :=
  let want := l.map fanEntry
  let wantHosts := want.map entryHost
  let gotHosts := got.map entryHost
  -- a host with fewer results than entries in the host list
  match l.find? (fun r => countOf (toString r.host) gotHosts < countOf (toString r.host) wantHosts) with
  | some r => if r.isOk then "violates:host-missing" else "violates:failed-host-not-reported"
  | none =>
    if gotHosts.any (fun h => countOf h gotHosts > countOf h wantHosts) then "violates:host-duplicated" else
    match l.find? (fun r => countOf (fanEntry r) got < countOf (fanEntry r) want) with
    | some r => if r.isOk then "violates:wrong-result-for-host" else "violates:failed-host-not-reported"
    | none => "violates:unexpected-entry"

def judgeFan (mc replies out : String) : String :=
  match parseMc mc, parseReplies replies with
  | some _, some l =>
    if out == "panic" then "violates:panic" else
    match out.splitOn ";" with
    | [state, entries] =>
      let got := Wire.listField entries
      if state == "hang" then "violates:hang" else
      if state != "closed" then "violates:unparsable" else
      if insSort strLe got == specFan l then "holds" else fanMismatch l got
    | _ => "violates:unparsable"
  | _, _ => "violates:unparsable"

/-- what `query.Args` can express without a time label (and what `Args.Prepare` keeps of it) -/
def runCfgOk (cfg : Cfg) : Bool :=
  cfg.limit ≥ 1 && !cfg.asc && !cfg.tsLabel && cfg.binSecs == 300 && cfg.sortBy != .time

def judgeRun (mc cfg replies out : String) : String :=
  match parseMc mc, parseCfg cfg, parseReplies replies with
  | some _, some cfg, some l =>
    if ¬ runCfgOk cfg then "holds:outside-domain-run-cfg" else
    if l.isEmpty then "holds:outside-domain-no-hosts" else
    if ¬ DistinctHosts l ∨ ¬ (l.map Reply.host).Nodup then "holds:outside-domain-duplicate-hosts" else
    if negTs l then "holds:outside-domain-negative-time" else
    if out == "panic" then "violates:panic" else
    if out == "hang" then "violates:hang" else
    if out.startsWith "err:" then "violates:query-failed" else
    let want := specResult cfg l
    let ws := showResult want
    if out == ws then "holds" else
    if want.rows.isEmpty ∧ out == showResult { want with status := ("empty", "noresults") } then "holds" else
    let d := firstDiff ws out
    if d == "shape" then "violates:unparsable" else
    -- the host statuses first: is every host heard of, every failed host reported?
    let gotHosts := Wire.listField ((out.splitOn ";").getD 1 "-")
    match l.find? (fun r => r.statusEntries.any fun e => !gotHosts.contains (showHost e)) with
    | some r => if r.isOk then "violates:host-missing" else "violates:failed-host-not-reported"
    | none => "violates:differs-from-spec-" ++ d
  | _, _, _ => "violates:unparsable"

/-- spec verdict on the implementation's outputs for several arrival orders of one reply set -/
def judge (args : List String) (out : String) : String :=
  match args with
  | ["fan", mc, replies] => judgeFan mc replies out
  | ["run", mc, cfg, replies] => judgeRun mc cfg replies out
  | ["agg", cfg, replies, perms] =>
    match parseCfg cfg, parseReplies replies, parsePerms perms, (out.splitOn "|").mapM splitPermOut with
    | some cfg, some l, some perms, some outs =>
      if outs.length ≠ perms.length then "violates:unparsable" else
      if cfg.limit = 0 then "holds:outside-domain-limit0" else
      if ¬ DistinctHosts l then "holds:outside-domain-duplicate-hosts" else
      if negTs l then "holds:outside-domain-negative-time" else
      if perms.any (fun p => decide (p.length ≠ l.length ∨ ¬ p.Nodup ∨ p.any (· ≥ l.length))) then "holds:outside-domain-not-a-permutation" else
      let ex := expandOuts outs
      match ex with
      | [] => "holds:no-orders"
      | (b0, _) :: _ =>
        match ex.find? (fun x => x.1 != b0) with
        | some x => "violates:order-dependent-" ++ firstDiff b0 x.1
        | none =>
          match ex.find? (fun x => x.2 != x.1) with
          | some x => "violates:stream-differs-from-batch-" ++ firstDiff x.1 x.2
          | none =>
            let want := specResult cfg l
            let ws := showResult want
            if b0 == ws then "holds" else
            -- with no rows either "missing data" or "empty" is an acceptable final status
            if want.rows.isEmpty ∧ b0 == showResult { want with status := ("empty", "noresults") } then "holds" else
            let d := firstDiff ws b0
            if d == "hits" ∧ binActive cfg ∧ ¬ want.rows.isEmpty ∧
               b0 == showResult { want with hitsTotal := (specAllRows cfg l).length } then
              "violates:hits-overwritten-by-binning"
            else "violates:differs-from-spec-" ++ d
    | _, _, _, _ => "violates:unparsable"
  | _ => "violates:bad-op"

end C15
