import GoProbeModel.Base.Wire

/-!
C14 — result ordering and row limit: row type, the executable *spec* (a lexicographic order given
as a chain of three-way comparisons, an insertion sort and `take`), wire format and the spec
judge. Nothing here depends on `Gen/*` or `Model/*`.

Wire: `C14 <mode> <sort> <dir> <asc> <limit> <ub> <rows> <shuffles>`
* mode `L`: `results.By(sort,dir,asc).Sort(rows)` then `(*query.Statement).PostProcess` (limit);
  mode `D`: `distributed.finalizeResult` on a `RowsMap` (sort + PostProcess + min(limit, ub))
* sort / dir: the Go enum values (sort 1 packets, 2 bytes, 3 time; dir 1 sum, 2 in, 3 out, 4 both)
* rows: `;`-separated, each `inst:loc:host:hostId:iface:sbl:sval:szone:dbl:dval:dzone:dport:proto:br:bs:pr:ps`
  (instant in ns, `loc` = identity of the `*time.Location`, addresses as bit length / value / zone)
* shuffles: `|`-separated permutations (comma lists of indices into rows) — the input orders tried
Output: per shuffle `<limited>/<full>`, `|`-separated: the resulting sequence with the case's limit
and the one obtained through the same path with a limit (and bound) larger than the number of
rows, both as indices into `rows` (index of the first identical row).
-/
namespace C14

structure Addr where
  bitlen : Nat
  val : Nat
  zone : String
  deriving Repr, DecidableEq, Inhabited

structure Row where
  inst : Int
  loc : Nat
  host : String
  hostId : String
  iface : String
  sip : Addr
  dip : Addr
  dport : Nat
  proto : Nat
  br : Nat
  bs : Nat
  pr : Nat
  ps : Nat
  deriving Repr, DecidableEq, Inhabited

/-! ### the order: a chain of three-way comparisons -/

/-- three-way comparison from `<` and `=` -/
def cmp3 {β : Type} [LT β] [DecidableEq β] [DecidableRel (α := β) (· < ·)] (x y : β) : Ordering :=
  if x < y then .lt else if x = y then .eq else .gt

/-- compare two rows by a projection -/
def on {β : Type} [LT β] [DecidableEq β] [DecidableRel (α := β) (· < ·)] (f : Row → β) :
    Row → Row → Ordering := fun a b => cmp3 (f a) (f b)

/-- lexicographic combination: `c2` decides only where `c1` says equal -/
def lex (c1 c2 : Row → Row → Ordering) : Row → Row → Ordering :=
  fun a b => match c1 a b with
    | .eq => c2 a b
    | o => o

/-- the primary sort key selected by (sort key, direction); `none` = not a valid selection -/
def keyOf (sort dir : Int) : Option (Row → Int) :=
  if sort = 1 then
    if dir = 1 ∨ dir = 4 then some (fun r => ((r.ps + r.pr : Nat) : Int))
    else if dir = 2 then some (fun r => (r.pr : Int))
    else if dir = 3 then some (fun r => (r.ps : Int))
    else none
  else if sort = 2 then
    if dir = 1 ∨ dir = 4 then some (fun r => ((r.bs + r.br : Nat) : Int))
    else if dir = 2 then some (fun r => (r.br : Int))
    else if dir = 3 then some (fun r => (r.bs : Int))
    else none
  else if sort = 3 then some (fun r => r.inst)
  else none

/-- the fixed tie-break order: source address, destination address, protocol, destination port,
    then instant, host name, interface -/
def tieCmp : Row → Row → Ordering :=
  lex (on (·.sip.bitlen)) <| lex (on (·.sip.val)) <| lex (on (·.sip.zone)) <|
  lex (on (·.dip.bitlen)) <| lex (on (·.dip.val)) <| lex (on (·.dip.zone)) <|
  lex (on (·.proto)) <| lex (on (·.dport)) <|
  lex (on (·.inst)) <| lex (on (·.host)) (on (·.iface))

def cmpRow (p : Row → Int) : Row → Row → Ordering := lex (on p) tieCmp

/-- "row a comes strictly before row b"; descending = the ascending order reversed -/
def specLess (p : Row → Int) (asc : Bool) (a b : Row) : Bool :=
  if asc then cmpRow p a b == .lt else cmpRow p b a == .lt

/-- rows that the order cannot tell apart agree in (instant, host name, interface, attributes) -/
def sameKey (a b : Row) : Prop :=
  a.inst = b.inst ∧ a.host = b.host ∧ a.iface = b.iface ∧
  a.sip = b.sip ∧ a.dip = b.dip ∧ a.dport = b.dport ∧ a.proto = b.proto

instance (a b : Row) : Decidable (sameKey a b) := by unfold sameKey; exact inferInstance

/-! ### sorting and limiting -/

def insertBy {α : Type} (lt : α → α → Bool) (x : α) : List α → List α
  | [] => [x]
  | y :: ys => if lt x y then x :: y :: ys else y :: insertBy lt x ys

def sortBy {α : Type} (lt : α → α → Bool) (l : List α) : List α := l.foldr (insertBy lt) []

/-- the spec of the whole operation: sort, keep the first `n` -/
def specRun (p : Row → Int) (asc : Bool) (n : Nat) (rows : List Row) : List Row :=
  (sortBy (specLess p asc) rows).take n

/-! ### wire -/

def parseAddr (bl v z : String) : Option Addr := do
  let bl ← Wire.parseNat bl
  let v ← Wire.parseNat v
  some { bitlen := bl, val := v, zone := Wire.unescape z }

def parseRow (s : String) : Option Row :=
  match s.splitOn ":" with
  | [inst, loc, host, hid, ifc, sbl, sv, sz, dbl, dv, dz, dport, proto, br, bs, pr, ps] => do
    let inst ← Wire.parseInt inst
    let loc ← Wire.parseNat loc
    let sip ← parseAddr sbl sv sz
    let dip ← parseAddr dbl dv dz
    let dport ← Wire.parseNat dport
    let proto ← Wire.parseNat proto
    let br ← Wire.parseNat br; let bs ← Wire.parseNat bs
    let pr ← Wire.parseNat pr; let ps ← Wire.parseNat ps
    some { inst := inst, loc := loc, host := Wire.unescape host, hostId := Wire.unescape hid,
           iface := Wire.unescape ifc, sip := sip, dip := dip, dport := dport, proto := proto,
           br := br, bs := bs, pr := pr, ps := ps }
  | _ => none

def parseRows (s : String) : Option (List Row) := (Wire.semiField s).mapM parseRow

def barField (s : String) : List String := s.splitOn "|"

def parseIdxLists (s : String) : Option (List (List Nat)) := (barField s).mapM Wire.natList

def showIdxLists (ls : List (List Nat)) : String :=
  "|".intercalate (ls.map fun l => Wire.showList (l.map toString))

structure Case where
  mode : String
  sort : Int
  dir : Int
  asc : Bool
  limit : Nat
  ub : Nat
  rows : List Row
  shuffles : List (List Nat)

def parseCase (args : List String) : Option Case :=
  match args with
  | [mode, sort, dir, asc, limit, ub, rows, shuf] => do
    let sort ← Wire.parseInt sort
    let dir ← Wire.parseInt dir
    let asc ← Wire.parseBool asc
    let limit ← Wire.parseNat limit
    let ub ← Wire.parseNat ub
    let rows ← parseRows rows
    let shuf ← parseIdxLists shuf
    if (mode == "L" || mode == "D") && shuf.all (fun s => s.all (· < rows.length)) then
      some { mode := mode, sort := sort, dir := dir, asc := asc, limit := limit, ub := ub, rows := rows, shuffles := shuf }
    else none
  | _ => none

/-- index of the first row identical to `r` -/
def canonIdx (rows : List Row) (r : Row) : Nat := rows.findIdx (· == r)

/-! ### judge -/

def effLimit (c : Case) : Nat := if c.mode == "D" then min c.limit c.ub else c.limit

/-- two rows the order cannot tell apart although they differ (outside the property's domain) -/
def hasAmbiguousPair (rows : List Row) : Bool :=
  rows.any fun a => rows.any fun b => decide (sameKey a b) && a != b

def keyOrdered (p : Row → Int) (asc : Bool) (a b : Row) : Bool :=
  if asc then p a ≤ p b else p b ≤ p a

def chainOK (p : Row → Int) (asc : Bool) : List Row → Bool
  | a :: b :: rest => keyOrdered p asc a b && chainOK p asc (b :: rest)
  | _ => true

/-- verdict on one observed pair (output with the limit, output without), `none` = fine -/
def judgeOne (p : Row → Int) (asc : Bool) (n : Nat) (rows : List Row) (o : List Row × List Row) : Option String :=
  let (lim, full) := o
  if full.length ≠ rows.length then some "violates:not-a-permutation"
  else if full.any (fun r => full.count r ≠ rows.count r) then some "violates:not-a-permutation"
  else if !chainOK p asc full then some "violates:not-sorted-by-key"
  else if lim.length ≠ min n rows.length then some "violates:wrong-length"
  else if lim ≠ full.take n then some "violates:limit-not-prefix"
  else none

def parsePair (s : String) : Option (List Nat × List Nat) :=
  match s.splitOn "/" with
  | [a, b] => do some (← Wire.natList a, ← Wire.natList b)
  | _ => none

def parseOutput (s : String) : Option (List (List Nat × List Nat)) := (barField s).mapM parsePair

def showOutput (ls : List (List Nat × List Nat)) : String :=
  "|".intercalate (ls.map fun (a, b) => Wire.showList (a.map toString) ++ "/" ++ Wire.showList (b.map toString))

/-- spec verdict on an observed implementation output -/
def judge (args : List String) (out : String) : String :=
  match parseCase args with
  | none => "violates:unparsable-case"
  | some c =>
    match keyOf c.sort c.dir with
    | none => "holds:outside-domain-no-such-comparator"
    | some p =>
      if effLimit c = 0 then "holds:outside-domain-limit-0"
      else if hasAmbiguousPair c.rows then "holds:outside-domain-ambiguous-rows"
      else if c.rows.any (fun r => r.ps + r.pr ≥ 2^64 || r.bs + r.br ≥ 2^64) then "holds:outside-domain-overflow"
      else if out == "panic" then "violates:panic"
      -- the statement is shared by all (partial and final) results of a query: post-processing one result
      -- must leave its row limit as the user gave it
      else if out == "err:statement-changed" then "violates:statement-limit-changed"
      else
        match parseOutput out with
        | none => "violates:unparsable-output"
        | some outs =>
          if outs.length ≠ c.shuffles.length ∨ outs.any (fun (a, b) => a.any (· ≥ c.rows.length) || b.any (· ≥ c.rows.length)) then
            "violates:unparsable-output"
          else
            let toRows := fun (o : List Nat) => o.map fun i => c.rows.getD i default
            let outRows := outs.map fun (a, b) => (toRows a, toRows b)
            match outRows.findSome? (judgeOne p c.asc (effLimit c) c.rows) with
            | some v => v
            | none =>
              match outRows with
              | [] => "holds"
              | o :: rest =>
                if rest.any (· != o) then "violates:order-depends-on-input"
                else if o.1 = specRun p c.asc (effLimit c) c.rows then "holds"
                else "holds:tie-order-differs-from-reference"

end C14
