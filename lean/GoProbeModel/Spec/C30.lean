import GoProbeModel.Spec.DB

/-!
C30 — queries during write-outs: spec judge. Case: `<history> <k0> <schedule>`: the first `k0`
write-outs are in the database; a writer process then performs the remaining ones while a reader
process reads the day of write-out `k0` through `GPDir` (list month directory, `Open`,
`ReadBlockAtIndex` for every block and column); `schedule` (a string over `w`/`r`) says which of
the two processes performs its next file operation. The implementation reports the reader's
operations (`rops`) and what it read (`res`: block timestamps in order, `ERR` for a block that
could not be read, or `absent` / `err:<what>`) and whether the bytes it held for each block when all
columns had been read are the block's content (`data`).

Spec: the reader never fails and returns exactly the blocks of a committed state that existed at
some moment of its run: the first `j` write-outs to that day, for some `k0 ≤ j ≤ |history|`.
-/
namespace C30
open DB

def dayBlocks (hist : List WriteOut) (j : Nat) (iface : String) (day : Int) : List Int :=
  ((hist.take j).filter fun w => w.iface == iface && dayOf w.ts == day).map (·.ts)

def colFiles : List String := ["sip", "dip", "proto", "dport", "bytes_rcvd", "bytes_sent", "pkts_rcvd", "pkts_sent"]

def showRes (ts : List Int) : String := Wire.showList (ts.map toString)

def judge (args : List String) (out : String) : String :=
  match args with
  | ["free", _, _] =>
    -- free-running overlap of the real engine with a writer: the harness compared every answer with the
    -- answers of all committed states (computed through the same engine on scratch copies)
    if out = "free=ok" then "holds" else "violates:" ++ (out.drop 14).toString
  | [h, k0s, _sched] =>
    match parseHistory h, Wire.parseNat k0s with
    | some hist, some k0 =>
      match hist[k0]? with
      | none => "violates:bad-case"
      | some w =>
        let fs := Wire.fields out
        match getField fs "res" with
        | none => "violates:unparsable"
        | some res =>
          let allowed := (List.range (hist.length + 1 - k0)).map fun d => dayBlocks hist (k0 + d) w.iface (dayOf w.ts)
          let rops := (getField fs "rops").getD ""
          -- the mechanism is named when the reader's own trace shows it: its one recovery attempt (list the
          -- month directory again, open under the new name) lost the race against a SECOND rename of the
          -- day directory
          let raced := (rops.splitOn "openmeta:ENOENT,readdir,close,openmeta:ENOENT").length > 1 ||
            colFiles.any (fun c => (rops.splitOn ("opencol:" ++ c ++ ":ENOENT,readdir,close,opencol:" ++ c ++ ":ENOENT")).length > 1)
          if getField fs "data" != some "ok" then "violates:block-data-corrupted"
          else if res.startsWith "err" then
            (if raced then "violates:open-failed-recovery-raced-by-second-rename" else "violates:reader-failed")
          else if res = "absent" then (if allowed.contains [] then "holds" else "violates:day-hidden")
          else if (Wire.listField res).contains "ERR" then
            (if raced then "violates:block-unreadable-recovery-raced-by-second-rename"
             else "violates:block-unreadable-during-write")
          else if allowed.any (fun a => showRes a = res) then "holds"
          else "violates:not-a-committed-state"
    | _, _ => "violates:bad-case"
  | _ => "violates:bad-op"

end C30
