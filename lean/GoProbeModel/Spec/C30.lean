import GoProbeModel.Spec.DB

/-!
C30 — queries during write-outs: spec judge. Case: `<history> <k0> <schedule>`: the first `k0`
write-outs are in the database; a writer process then performs the remaining ones while a reader
process reads the day of write-out `k0` through `GPDir` (list month directory, `Open`,
`ReadBlockAtIndex` for every block and column); `schedule` (a string over `w`/`r`) says which of
the two processes performs its next file operation. The implementation reports the reader's
operations (`rops`) and what it read (`res`: block timestamps in order, `ERR` for a block that
could not be read, or `absent` / `err:<what>`).

Spec: the reader never fails and returns exactly the blocks of a committed state that existed at
some moment of its run: the first `j` write-outs to that day, for some `k0 ≤ j ≤ |history|`.
-/
namespace C30
open DB

def dayBlocks (hist : List WriteOut) (j : Nat) (iface : String) (day : Int) : List Int :=
  ((hist.take j).filter fun w => w.iface == iface && dayOf w.ts == day).map (·.ts)

def showRes (ts : List Int) : String := Wire.showList (ts.map toString)

def judge (args : List String) (out : String) : String :=
  match args with
  | [h, k0s, _sched] =>
    match parseHistory h, Wire.parseNat k0s with
    | some hist, some k0 =>
      match hist[k0]? with
      | none => "violates:bad-case"
      | some w =>
        let fs := Wire.fields out
        match getField fs "res" with
        | none => "violates:unparsable"
        | some res =>
          let allowed := (List.range (hist.length + 1 - k0)).map fun d => dayBlocks hist (k0 + d) w.iface (dayOf w.ts)
          if res.startsWith "err" then "violates:reader-failed"
          else if res = "absent" then (if allowed.contains [] then "holds" else "violates:day-hidden")
          else if (Wire.listField res).contains "ERR" then
            -- name the mechanism when the reader's own trace shows it: its one recovery attempt (list the
            -- month directory again, open the metadata under the new name) lost the race against a SECOND
            -- rename of the day directory
            let rops := (getField fs "rops").getD ""
            if (rops.splitOn "openmeta:ENOENT,readdir,close,openmeta:").length > 1
            then "violates:block-unreadable-recovery-raced-by-second-rename"
            else "violates:block-unreadable-during-write"
          else if allowed.any (fun a => showRes a = res) then "holds"
          else "violates:not-a-committed-state"
    | _, _ => "violates:bad-case"
  | _ => "violates:bad-op"

end C30
