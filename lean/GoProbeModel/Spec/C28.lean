import GoProbeModel.Base.Wire

/-!
C28 — time arguments: the executable *spec* (written from the property text, not from the code),
wire parsing/printing and the spec judge. Nothing here depends on `Gen/*` or `Model/*`, and the
judge uses NO layout machinery: for an absolute time the case line carries the instant the text
denotes (the text itself was produced by Go's own `Time.Format` in the harness generator), so the
verdict is a comparison of integers.

Values on the wire: `a<unix>` is an absolute instant, `n<d>` is "now − d seconds" (relative times
and the empty upper bound, for which the harness reports the distance to the pinned clock reading).
-/
namespace C28

abbrev Text := List Char

/-- a parsed time value: absolute Unix seconds, or an offset back from the clock reading -/
inductive Val where
  | abs (i : Int)
  | rel (d : Int)
  deriving Repr, DecidableEq, Inhabited

def Val.at (now : Int) : Val → Int
  | .abs i => i
  | .rel d => now - d

def showVal : Val → String
  | .abs i => "a" ++ toString i
  | .rel d => "n" ++ toString d

def parseVal (s : String) : Option Val :=
  match s.toList with
  | 'a' :: r => (String.ofList r).toInt?.map Val.abs
  | 'n' :: r => (String.ofList r).toInt?.map Val.rel
  | _ => none

/-! ### spec of the relative syntax `-XdYhZm` / `-Xd:Yh:Zm`

A relative specification is `-` followed by a non-empty selection, in this order, of a day part
`<digits>d`, an hour part `<digits>h` and a minute part `<digits>m`, written back to back or joined
by `:`. It denotes now − (X·86400 + Y·3600 + Z·60) seconds. -/

def isDigit (c : Char) : Bool := '0' ≤ c && c ≤ '9'

def digitVal (c : Char) : Nat := c.toNat - 48

def decVal (ds : List Char) : Nat := ds.foldl (fun a c => a * 10 + digitVal c) 0

/-- split off a leading `<digits><unit>` part -/
def takePart (unit : Char) (s : Text) : Option (Nat × Text) :=
  let ds := s.takeWhile isDigit
  match s.dropWhile isDigit with
  | c :: r => if c == unit && !ds.isEmpty then some (decVal ds, r) else none
  | [] => none

/-- the parts for the units `us` (in this order, each optional); `n` counts the parts seen. In the
    colon spelling every part but the last is followed by `:` -/
def specUnits (colon : Bool) : List Char → Text → Nat → Option (List Nat)
  | [], s, n => if s.isEmpty && n > 0 then some [] else none
  | u :: us, s, n =>
    match takePart u s with
    | some (v, r) =>
      let r' : Option Text :=
        if colon && !r.isEmpty then
          (match r with
           | ':' :: q => if q.isEmpty then none else some q
           | _ => none)
        else some r
      r'.bind fun r' => (specUnits colon us r' (n + 1)).map (v :: ·)
    | none => (specUnits colon us s n).map (0 :: ·)

/-- the duration (seconds) a well-formed relative text denotes -/
def specRelative (t : Text) : Option Nat :=
  match t with
  | '-' :: s =>
    match specUnits (s.contains ':') ['d', 'h', 'm'] s 0 with
    | some [x, y, z] => some (x * 86400 + y * 3600 + z * 60)
    | _ => none
  | _ => none

/-- domain of the relative clause: the duration fits Go's `time.Duration` (≈ 292 years), which is
    what "now minus that duration" can mean for both spellings -/
def relInDomain (secs : Nat) : Bool := secs * 1000000000 < 2 ^ 63

/-! ### spec of the range clause -/

/-- a range is rejected iff its start lies after its end -/
def specRangeRejects (now : Int) (a b : Val) : Bool := decide (a.at now > b.at now)

/-! ### judge -/

def parseVals (s : String) : Option (List Val) := (Wire.listField s).mapM parseVal

def unText (s : String) : Text := (Wire.unescape s).toList

/--
Case lines (fields after `C28`):
* `abs <tz> <zone-table> <text> <layout> <instant> <offset> <expected> <alternatives>` — `text` is
  `instant` written by Go's `Format` in layout number `layout` at zone offset `offset`;
  `expected` = the instants the text denotes (first = `instant` at the layout's precision, further
  ones only when the local zone repeats that wall-clock time), `alternatives` = the instants the
  text denotes under the *other* supported layouts (computed with Go's time library).
* `rel <tz> <text>`
* `rng <tz> <zone-table> <now> <textA> <textB> <denotedA> <denotedB>` — `denoted*` = `x` when the
  harness does not know what the text denotes (malformed / ambiguous)
* `rngc …` — the same fields as `rng`, run through `ParseTimeRangeCollectErrors` (the variant the
  query arguments use): `ok:<a>:<b>` or `err:` + the `+`-joined kinds of the error details
* `mal <tz> <zone-table> <text>` — arbitrary text: the property says nothing
* `fmt <layout> <instant> <offset>` — validation of the Lean model of `Format` only
-/
def judge (args : List String) (out : String) : String :=
  match args with
  | ["abs", _, _, _, _, _, _, exp, alts] =>
    match parseVals exp, parseVals alts with
    | some exp, some alts =>
      if out == "panic" then "violates:panic"
      else if out == "err" then "violates:rejects-supported-layout"
      else match (if out.startsWith "ok:" then parseVal (out.drop 3).toString else none) with
        | none => "violates:unparsable-output"
        | some v =>
          if exp.head? == some v then "holds"
          else if exp.contains v then "holds:repeated-wall-clock-time"
          else if alts.contains v then "holds:other-layout-accepts"
          else "violates:wrong-instant"
    | _, _ => "bad-case"
  | ["rel", _, text] =>
    match specRelative (unText text) with
    | none => "holds:not-in-relative-syntax"
    | some secs =>
      if !relInDomain secs then "holds:beyond-duration-range"
      else if out == "ok:n" ++ toString secs then "holds"
      else if out == "panic" then "violates:panic"
      else if out.startsWith "ok:" then "violates:relative-wrong-offset"
      else "violates:relative-rejected"
  | ["rng", _, _, now, _, _, da, db] =>
    match Wire.parseInt now, parseVal da, parseVal db with
    | some now, some a, some b =>
      if out == "panic" then "violates:panic"
      else if specRangeRejects now a b then
        (if out == "err:interval" then "holds" else "violates:range-start-after-end-accepted")
      else
        (if out == "ok:" ++ showVal a ++ ":" ++ showVal b then "holds"
         else if out == "err:interval" then "violates:range-valid-rejected"
         else "violates:range-wrong-bounds")
    | some _, _, _ => if out == "panic" then "violates:panic" else "holds:unspecified"
    | _, _, _ => "bad-case"
  | ["rngc", _, _, now, _, _, da, db] =>
    match Wire.parseInt now, parseVal da, parseVal db with
    | some now, some a, some b =>
      if out == "panic" then "violates:panic"
      else if specRangeRejects now a b then
        (if out == "err:interval" then "holds" else "violates:range-start-after-end-accepted")
      else
        (if out == "ok:" ++ showVal a ++ ":" ++ showVal b then "holds"
         else if out == "err:interval" then "violates:range-valid-rejected"
         else "violates:range-wrong-bounds")
    | some _, _, _ => if out == "panic" then "violates:panic" else "holds:unspecified"
    | _, _, _ => "bad-case"
  | ["mal", _, _, _] => "holds:unspecified"
  | ["fmt", _, _, _] => "holds:library-validation"
  | _ => "bad-case"

end C28
