import GoProbeModel.Base.Wire

/-!
C16 — interface selection: names, the executable *spec* (written from the property text, not from
the code), wire parsing/printing and the spec judge. Nothing here depends on `Gen/*` or `Model/*`.

An interface argument is either a comma separated list of elements `name`, `!name` (negation) or
`any` (case-insensitive), or a regular expression between slashes. Names are lists of characters
(Go strings restricted to what the wire can carry); the regular-expression library is a
*parameter*: the case line carries, for every existing interface, whether Go's `regexp` says the
pattern matches (computed by the harness independently of the code under test).
-/
namespace C16

abbrev Name := List Char

def ofStr (s : String) : Name := s.toList
def toStr (n : Name) : String := String.ofList n

/-! ### executable spec -/

/-- characters allowed in an interface name (letters, digits, `. : _ -`) -/
def nameChar (c : Char) : Bool :=
  c.isAlphanum || c == '.' || c == ':' || c == '_' || c == '-'

/-- a list element is a negation iff it starts with `!` -/
def isNeg (t : Name) : Bool := t.head? == some '!'

/-- well-formed list element: optional leading `!`, then 1..15 name characters -/
def tokenValid (t : Name) : Bool :=
  let body := match t with
    | '!' :: r => r
    | _ => t
  decide (1 ≤ body.length) && decide (body.length ≤ 15) && body.all nameChar

/-- the selector "any", case-insensitive -/
def isAnyName (t : Name) : Bool := t.map Char.toLower == ['a', 'n', 'y']

/-- `x` is requested: some non-negated element is `any` or is `x` itself -/
def requested (toks : List Name) (x : Name) : Bool :=
  toks.any fun t => !isNeg t && (isAnyName t || t == x)

/-- `x` is negated: the element `!x` is listed -/
def negated (toks : List Name) (x : Name) : Bool := toks.contains ('!' :: x)

/-- **the spec**: the existing interfaces that are requested and not negated -/
def specSelect (existing toks : List Name) : List Name :=
  existing.filter fun x => requested toks x && !negated toks x

/-- the spec for a regular-expression argument: exactly the matching existing interfaces -/
def specRegex (m : Name → Bool) (existing : List Name) : List Name := existing.filter m

/-- the argument is treated as a regular expression: `/…/` with something in between -/
def isRegexpForm (a : Name) : Bool :=
  a.head? == some '/' && a.getLast? == some '/' && decide (a.length > 2)

/-! ### wire -/

/-- the argument field: comma-joined, each element %-escaped, empty element = `-` -/
def decodeArg (f : String) : String :=
  ",".intercalate ((Wire.listField f).map Wire.unescape)

def splitArg (arg : String) : List Name := (arg.splitOn ",").map ofStr

def parseNames (f : String) : List Name := (Wire.listField f).map (ofStr ∘ Wire.unescape)

def showNames (ns : List Name) : String := Wire.showList (ns.map (Wire.escape ∘ toStr))

/-- regexp verdict field: `bad` (does not compile), `form` (not of the form /…/), or one 0/1 per
    existing interface (`-` when there is none) -/
inductive ReInfo where
  | bad | form | bits (b : List Bool)

def parseBits : List Char → Option (List Bool)
  | [] => some []
  | '0' :: r => (parseBits r).map (false :: ·)
  | '1' :: r => (parseBits r).map (true :: ·)
  | _ => none

def parseReInfo (s : String) : Option ReInfo :=
  if s == "bad" then some .bad else if s == "form" then some .form
  else if s == "-" then some (.bits []) else (parseBits s.toList).map .bits

/-- the match predicate described by the bits (first occurrence of a name wins) -/
def matchOf : List Name → List Bool → Name → Bool
  | n :: ns, b :: bs, x => if n == x then b else matchOf ns bs x
  | _, _, _ => false

def sameSet (a b : List Name) : Bool := a.all b.contains && b.all a.contains

def hasDup : List Name → Bool
  | [] => false
  | x :: xs => xs.contains x || hasDup xs

/-- independent anchor for the regexp parameter: a pattern made of letters and digits only
    matches exactly the names that contain it -/
def isInfix (p : Name) : Name → Bool
  | [] => p.isEmpty
  | c :: cs => p.isPrefixOf (c :: cs) || isInfix p cs

def innerPattern (a : Name) : Name := (a.drop 1).dropLast

/-- verdict on an observed list `o` against the expected set `want` -/
def judgeSet (existing toks want o : List Name) (listMode : Bool) : String :=
  if sameSet o want then (if hasDup o then "holds:duplicates" else "holds")
  else if listMode && o.any (fun x => negated toks x) then "violates:negated-selected"
  else if o.any (fun x => !existing.contains x) then "violates:nonexistent-selected"
  else if o.any (fun x => !want.contains x) then
    (if listMode then "violates:unrequested-selected" else "violates:nonmatching-selected")
  else (if listMode then "violates:requested-missing" else "violates:matching-missing")

def isErr (out : String) : Bool := out.startsWith "err:"

/-- list argument: `out` is a list of names, `err:<kind>` or `panic` -/
def judgeList (existing : List Name) (arg : String) (out : String) : String :=
  if out == "panic" then "violates:panic" else
  let toks := splitArg arg
  if arg == "" || !toks.all tokenValid then
    (if isErr out then "holds:rejected" else "holds:malformed-argument-accepted")
  else
    let want := specSelect existing toks
    if out == "err:no-interfaces" then
      (if want.isEmpty then "holds:empty-selection" else "violates:requested-missing")
    else if isErr out then "violates:valid-argument-rejected"
    else judgeSet existing toks want (parseNames out) true

/-- regexp argument -/
def judgeRegex (existing : List Name) (arg : String) (re : ReInfo) (out : String) : String :=
  if out == "panic" then "violates:panic" else
  match re with
  | .bad | .form => if isErr out then "holds:rejected" else "holds:malformed-argument-accepted"
  | .bits bs =>
    if bs.length ≠ existing.length then "bad-case:bits-length" else
    let p := innerPattern (ofStr arg)
    if !p.isEmpty && p.all Char.isAlphanum && existing.any (fun x => matchOf existing bs x != isInfix p x) then
      "bad-case:regexp-parameter-disagrees-with-literal-containment"
    else
    let want := specRegex (matchOf existing bs) existing
    if out == "err:no-interfaces" then
      (if want.isEmpty then "holds:empty-selection" else "violates:matching-missing")
    else if isErr out then "violates:valid-argument-rejected"
    else judgeSet existing [] want (parseNames out) false

/-- spec verdict on an observed implementation output.
  `list   <existing> <arg>`         comma list given to the list parser
  `regex  <existing> <arg> <re>`    argument given to the regexp parser
  `engine <existing> <arg> <re>`    argument given to a query on a database with these interfaces -/
def judge (args : List String) (out : String) : String :=
  match args with
  | ["list", ex, a] => judgeList (parseNames ex) (decodeArg a) out
  | ["regex", ex, a, re] =>
    match parseReInfo re with
    | some re => judgeRegex (parseNames ex) (decodeArg a) re out
    | none => "bad-case:re-field"
  | ["engine", ex, a, re] =>
    let arg := decodeArg a
    if isRegexpForm (ofStr arg) then
      match parseReInfo re with
      | some re => judgeRegex (parseNames ex) arg re out
      | none => "bad-case:re-field"
    else judgeList (parseNames ex) arg out
  | _ => "violates:bad-op"

end C16
