import GoProbeModel.Base.Wire

/-!
Shared vocabulary of the database-level properties (C04, C05, C08, C20, C25, C30 …): flows,
write-outs, canonical rendering of query results and interface listings (exactly the format
printed by harness/dbutil.go), UTC civil dates for the `YYYY/MM` directory names.
Core Lean only; no generated code.
-/
namespace DB

structure Flow where
  sip : String            -- hex, 8 or 32 digits
  dip : String
  dport : Nat
  proto : Nat
  br : Nat
  bs : Nat
  pr : Nat
  ps : Nat
  deriving Repr, DecidableEq

def Flow.isV4 (f : Flow) : Bool := f.sip.length == 8

structure WriteOut where
  iface : String
  ts : Int
  drops : Nat
  flows : List Flow
  deriving Repr, DecidableEq

def parseFlow (s : String) : Option Flow :=
  match s.splitOn ":" with
  | [sip, dip, dport, proto, br, bs, pr, ps] => do
    some { sip := sip, dip := dip, dport := (← Wire.parseNat dport), proto := (← Wire.parseNat proto),
           br := (← Wire.parseNat br), bs := (← Wire.parseNat bs), pr := (← Wire.parseNat pr), ps := (← Wire.parseNat ps) }
  | _ => none

def parseWriteOut (s : String) : Option WriteOut :=
  match s.splitOn "|" with
  | [iface, ts, drops, flows] => do
    some { iface := iface, ts := (← Wire.parseInt ts), drops := (← Wire.parseNat drops),
           flows := (← (Wire.listField flows).mapM parseFlow) }
  | _ => none

def parseHistory (s : String) : Option (List WriteOut) := (Wire.semiField s).mapM parseWriteOut

/-! ### canonical results -/

def insertStr (s : String) : List String → List String
  | [] => [s]
  | x :: xs => if s ≤ x then s :: x :: xs else x :: insertStr s xs

def sortStrs (l : List String) : List String := l.foldr insertStr []

def rowOf (iface : String) (ts : Int) (f : Flow) : String :=
  iface ++ "@" ++ toString ts ++ "/" ++ f.sip ++ ":" ++ f.dip ++ ":" ++ toString f.dport ++ ":" ++ toString f.proto ++ ":" ++
  toString f.br ++ ":" ++ toString f.bs ++ ":" ++ toString f.pr ++ ":" ++ toString f.ps

/-- result of `sip,dip,dport,proto,time,iface` over the given blocks (flows of one block have distinct keys) -/
def renderQuery (blocks : List WriteOut) : String :=
  let rows := blocks.flatMap fun w => w.flows.map (rowOf w.iface w.ts)
  let fs := blocks.flatMap (·.flows)
  "rows=" ++ Wire.showList (sortStrs rows) ++ "|totals=" ++
  toString (fs.foldl (· + ·.br) 0) ++ ":" ++ toString (fs.foldl (· + ·.bs) 0) ++ ":" ++
  toString (fs.foldl (· + ·.pr) 0) ++ ":" ++ toString (fs.foldl (· + ·.ps) 0) ++ "|hits=" ++ toString rows.length

/-- the seven numbers of a day / interface summary: v4 flows, v6 flows, drops, 4 counters -/
abbrev Totals := List Nat

def totalsOf (blocks : List WriteOut) : Totals :=
  let fs := blocks.flatMap (·.flows)
  [ (fs.filter (·.isV4)).length, (fs.filter (!·.isV4)).length, blocks.foldl (· + ·.drops) 0,
    fs.foldl (· + ·.br) 0, fs.foldl (· + ·.bs) 0, fs.foldl (· + ·.pr) 0, fs.foldl (· + ·.ps) 0 ]

def addTotals (a b : Totals) : Totals := List.zipWith (· + ·) a b
def zeroTotals : Totals := [0, 0, 0, 0, 0, 0, 0]

def renderTotals (t : Totals) : String := ":".intercalate (t.map toString)

def renderList (perIface : List (String × Totals)) : String :=
  Wire.showSemi (sortStrs (perIface.map fun (i, t) => i ++ "/" ++ renderTotals t))

/-! ### UTC civil date of a Unix day (Hinnant's `civil_from_days`, non-negative days) -/

def civil (days : Nat) : Nat × Nat :=
  let z := days + 719468
  let era := z / 146097
  let doe := z - era * 146097
  let yoe := (doe - doe / 1460 + doe / 36524 - doe / 146096) / 365
  let y := yoe + era * 400
  let doy := doe - (365 * yoe + yoe / 4 - yoe / 100)
  let mp := (5 * doy + 2) / 153
  let m := if mp < 10 then mp + 3 else mp - 9
  (if m ≤ 2 then y + 1 else y, m)

def dayOf (ts : Int) : Int := (ts / 86400) * 86400

def pad2 (n : Nat) : String := if n < 10 then "0" ++ toString n else toString n

/-- `YYYY` and `YYYY/MM` of the day directory that holds timestamp `ts` -/
def yearMonth (ts : Int) : String × String :=
  let (y, m) := civil (dayOf ts / 86400).toNat
  (toString y, toString y ++ "/" ++ pad2 m)

def getField (fs : List String) (key : String) : Option String :=
  (fs.find? (·.startsWith (key ++ "="))).map fun s => (s.drop (key.length + 1)).toString

end DB
