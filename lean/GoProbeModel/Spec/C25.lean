import GoProbeModel.Spec.C24
import GoProbeModel.Spec.DB

/-!
C25 — an interrupted merge never duplicates or hides data: data types, wire format, the executable
*spec* and the spec judge. Nothing here depends on `Gen/*` or `Model/*`; the documented per-day merge
result is imported from the C24 spec (`C24.specGet`).

Wire case `C25 <overwrite 0|1> <tolerance ns> <src db> <dst db> <rm> <ord> <kill>`
  db      as in C24: `-` | iface(`;`iface)*, iface = name `=` [day(`|`day)*], day = dayTs `:` block(`,`block)*,
          block = offsetInDay `.` payloadId; the flows of a payload id are `flowsOf`
  rm      `-` or the order in which the 9 files of a replaced day directory are unlinked (a permutation
          of `m01234567`: `m` = .blockmeta, digits = column files) — observed from the file system
  ord     `-` or one digit per replaced day: 1 = the backup directory's name sorts before the merged
          directory's name (decides which blocks a query clips inside the window) — observed
  kill    `-` (merge not interrupted) or `<syscall>.<k>.<c>`: killed at the entry of the k-th such system
          call of the merge, `c` coarse events (see Model) were completed before it
Output `ops=<events> ord=<observed> at=<c> crashed=<killed|ok> rmseen=<order|-> if1=<interfaces> q1=<query> l1=<listing>
        m2=<ok|err:kind> if2=… q2=… l2=…` — interface list, `any` query and listing right after the kill,
        then the status of a second complete merge and the same three observations again.

Spec: after the kill the interface list holds only real interfaces, the query succeeds and every
(interface, day) shows either exactly its blocks from before the merge or exactly its merged blocks
(`C24.specGet`), the listing agrees with the query; the later merge succeeds and leaves every day
merged.
-/
namespace C25
open DB

/-! ### payloads (the same function as `c25Flows` in harness/c25.go) -/

def hex2 (n : Nat) : String := String.ofList [Wire.hexDigit (n / 16 % 16), Wire.hexDigit (n % 16)]

def zeros (n : Nat) : String := String.ofList (List.replicate n '0')

def flowsOf (pid : Nat) : List Flow :=
  let f1 : Flow := { sip := "0a00" ++ hex2 (pid / 256) ++ hex2 pid, dip := "c0a80101", dport := 80, proto := 6,
                     br := pid + 1, bs := 2 * pid, pr := 1, ps := pid % 3 }
  if pid % 2 = 1 then
    [f1, { sip := "2001" ++ zeros 26 ++ "07", dip := "fe80" ++ zeros 26 ++ "01", dport := 53, proto := 17,
           br := 5, bs := pid, pr := 2, ps := 1 }]
  else [f1]

def woOf (iface : String) (b : C24.Block) : WriteOut :=
  { iface := iface, ts := b.ts, drops := b.pid % 4, flows := flowsOf b.pid }

/-! ### the query result over a list of blocks: rows grouped by (interface, time, flow key), counters summed -/

structure Row where
  key : String
  br : Nat
  bs : Nat
  pr : Nat
  ps : Nat
  deriving Repr, DecidableEq

def addRow (r : Row) : List Row → List Row
  | [] => [r]
  | x :: xs =>
    if x.key = r.key then { x with br := x.br + r.br, bs := x.bs + r.bs, pr := x.pr + r.pr, ps := x.ps + r.ps } :: xs
    else x :: addRow r xs

def rowOfFlow (iface : String) (ts : Int) (f : Flow) : Row :=
  { key := iface ++ "@" ++ toString ts ++ "/" ++ f.sip ++ ":" ++ f.dip ++ ":" ++ toString f.dport ++ ":" ++ toString f.proto,
    br := f.br, bs := f.bs, pr := f.pr, ps := f.ps }

def rowsOf (blocks : List WriteOut) : List Row :=
  (blocks.flatMap fun w => w.flows.map (rowOfFlow w.iface w.ts)).foldl (fun acc r => addRow r acc) []

def Row.render (r : Row) : String :=
  r.key ++ ":" ++ toString r.br ++ ":" ++ toString r.bs ++ ":" ++ toString r.pr ++ ":" ++ toString r.ps

def rowStrings (blocks : List WriteOut) : List String := sortStrs ((rowsOf blocks).map Row.render)

def renderAgg (blocks : List WriteOut) : String :=
  let rows := rowsOf blocks
  "rows=" ++ Wire.showList (rowStrings blocks) ++ "|totals=" ++
  toString (rows.foldl (· + ·.br) 0) ++ ":" ++ toString (rows.foldl (· + ·.bs) 0) ++ ":" ++
  toString (rows.foldl (· + ·.pr) 0) ++ ":" ++ toString (rows.foldl (· + ·.ps) 0) ++ "|hits=" ++ toString rows.length

/-- listing entries of interfaces without any data are not compared (an interface directory may or
    may not exist yet) -/
def dropZero (s : String) : String :=
  Wire.showSemi ((Wire.semiField s).filter fun e => !(e.endsWith "/0:0:0:0:0:0:0"))

def renderListing (perIface : List (String × List WriteOut)) : String :=
  dropZero (renderList (perIface.map fun (i, ws) => (i, totalsOf ws)))

/-! ### cases -/

structure Kill where
  syscall : String
  k : Nat
  c : Nat
  deriving Repr, DecidableEq

structure Case where
  ow : Bool
  tol : Int
  src : C24.Ifaces
  dst : C24.Ifaces
  rm : String
  ord : String
  kill : Option Kill
  deriving Repr

def parseKill (s : String) : Option (Option Kill) :=
  if s == "-" then some none else
  match s.splitOn "." with
  | [n, k, c] => do some (some { syscall := n, k := (← Wire.parseNat k), c := (← Wire.parseNat c) })
  | _ => none

def parseCase : List String → Option Case
  | [ow, tol, src, dst, rm, ord, kill] => do
    let ow ← Wire.parseBool ow
    let tol ← Wire.parseInt tol
    let src ← C24.parseDB src
    let dst ← C24.parseDB dst
    let kill ← parseKill kill
    some { ow := ow, tol := tol, src := src.ifaces, dst := dst.ifaces, rm := rm, ord := ord, kill := kill }
  | _ => none

def Case.opts (c : Case) : C24.Opts := { overwrite := c.ow, dry := false, tol := c.tol, requested := [] }

/-- every source interface is selected -/
def Case.sel (c : Case) : List String := C24.sortNames (c.src.map (·.1))

def allNames (c : Case) : List String := C24.sortNames (c.src.map (·.1) ++ c.dst.map (·.1))

def dayTimes (c : Case) (i : String) : List Int :=
  C24.sortInts (C24.dayKeys (C24.ifaceDays c.src i) ++ C24.dayKeys (C24.ifaceDays c.dst i))

/-- the day's blocks before the merge / by the documented merge rule -/
def beforeDay (c : Case) (i : String) (t : Int) : C24.Day := (C24.getDay c.dst i t).getD []
def afterDay (c : Case) (i : String) (t : Int) : C24.Day := (C24.specGet c.opts c.sel c.src c.dst i t).getD []

/-! ### judge -/

/-- the staging directory of a merge (`info.MergeStagePrefix`) -/
def isHidden (s : String) : Bool := ".gpdb-merge-stage-".toList.isPrefixOf s.toList

def rowKeyOf (row : String) : Option (String × Int) :=
  match row.splitOn "@" with
  | [i, rest] =>
    match rest.splitOn "/" with
    | ts :: _ => (Wire.parseInt ts).map fun t => (i, t - t % 86400)
    | _ => none
  | _ => none

inductive Choice where
  | before | after | both | other
  deriving Repr, DecidableEq

def dayRows (i : String) (d : C24.Day) : List String := rowStrings (d.map (woOf i))

def classify (c : Case) (rows : List String) (i : String) (t : Int) : Choice :=
  let got := rows.filter fun r => rowKeyOf r == some (i, t)
  let b := beforeDay c i t
  let a := afterDay c i t
  if got == dayRows i a then .after
  else if got == dayRows i b then .before
  else if !b.isEmpty && got == dayRows i (b ++ a) then .both
  else .other

def queryRows (q : String) : List String :=
  match (q.splitOn "|").head? with
  | some r => if r.startsWith "rows=" then Wire.listField (r.drop 5).toString else []
  | none => []

def evName (ops : List String) (at_ : Nat) : String :=
  match ops[at_]? with
  | some o => (o.takeWhile (· ≠ ':')).toString
  | none => "end"

def ifaceVerdict (c : Case) (names : List String) (needSrc : Bool) : String :=
  if names.any fun n => isHidden n || !(allNames c).contains n then "leftover-listed-as-interface"
  else if !C24.nodupB names then "interface-listed-twice"
  else if (C24.sortNames (c.dst.map (·.1))).any (fun n => !names.contains n) then "interface-missing"
  else if needSrc && (c.sel.filter fun i => !(C24.ifaceDays c.src i).isEmpty).any (fun n => !names.contains n) then "interface-missing"
  else ""

/-- judge one observation (interfaces, query, listing); `final`: every day must be merged -/
def observe (c : Case) (ifs q l : String) (final : Bool) : String :=
  let iv := ifaceVerdict c (Wire.listField ifs) final
  if iv ≠ "" then iv else
  if q.startsWith "err" || q.startsWith "panic" then "query-failed" else
  let rows := queryRows q
  let keys := (allNames c).flatMap fun i => (dayTimes c i).map fun t => (i, t)
  if rows.any fun r => !(match rowKeyOf r with | some k => keys.contains k | none => false) then "unexpected-rows" else
  let choices := keys.map fun (i, t) => ((i, t), classify c rows i t)
  if choices.any (·.2 == .both) then "day-duplicated-backup-and-merged"
  else if choices.any (·.2 == .other) then "day-neither-before-nor-after"
  else if final && choices.any (·.2 == .before) then "day-not-merged"
  else
    let chosen (i : String) : List WriteOut :=
      (choices.filter (·.1.1 == i)).flatMap fun ((_, t), ch) =>
        ((if ch == .after then afterDay c i t else beforeDay c i t).map (woOf i))
    if q ≠ renderAgg ((allNames c).flatMap chosen) then "query-summary-inconsistent"
    else if l.contains "err" then "listing-failed"
    else if dropZero l ≠ renderListing ((allNames c).map fun i => (i, chosen i)) then "listing-disagrees-with-query"
    else ""

def judge (args : List String) (out : String) : String :=
  match parseCase args with
  | none => "violates:bad-case"
  | some c =>
    let fs := Wire.fields out
    if out.startsWith "panic" then "violates:panic" else
    match getField fs "ops", getField fs "at", getField fs "crashed", getField fs "if1", getField fs "q1", getField fs "l1",
          getField fs "m2", getField fs "if2", getField fs "q2", getField fs "l2" with
    | some ops, some at_, some crashed, some if1, some q1, some l1, some m2, some if2, some q2, some l2 =>
      let ev := evName (Wire.listField ops) ((Wire.parseNat at_).getD 0)
      if crashed.startsWith "err" then "violates:merge-failed" else
      if c.kill.isNone && crashed ≠ "ok" then "violates:merge-failed" else
      let v1 := observe c if1 q1 l1 (c.kill.isNone || crashed == "ok")
      if v1 ≠ "" then "violates:" ++ v1 ++ "-at-" ++ ev else
      if m2 ≠ "ok" then "violates:later-merge-failed-" ++ (m2.drop 4).toString ++ "-at-" ++ ev else
      let v2 := observe c if2 q2 l2 true
      if v2 ≠ "" then "violates:after-later-merge-" ++ v2 ++ "-at-" ++ ev else
      "holds"
    | _, _, _, _, _, _, _, _, _, _ => "violates:output-incomplete"

end C25
