import GoProbeModel.Base.Wire

/-!
C12 — interface summaries (`goQuery list`): data types, the executable *spec*, wire format and the
spec judge.  Nothing here depends on `Gen/*` or on how `ReadMetadata` computes its result.

A database of one interface is given by its *write history*: the list of blocks in the order in
which `DBWriter.Write` stored them.  The spec of the summary for the range `[first, last]` is the
sum, over the stored blocks whose timestamp lies in the range, of
(IPv4 flows, IPv6 flows, drops, bytes rcvd, bytes sent, packets rcvd, packets sent).
-/
namespace C12

structure Flow where
  v4 : Bool
  br : Nat   -- bytes received
  bs : Nat   -- bytes sent
  pr : Nat   -- packets received
  ps : Nat   -- packets sent
  deriving Repr, DecidableEq

structure Block where
  ts    : Int
  drops : Nat
  flows : List Flow
  deriving Repr, DecidableEq

/-- the seven numbers of an interface summary -/
structure Sum where
  v4 : Nat
  v6 : Nat
  drops : Nat
  br : Nat
  bs : Nat
  pr : Nat
  ps : Nat
  deriving Repr, DecidableEq

def Sum.zero : Sum := ⟨0, 0, 0, 0, 0, 0, 0⟩

def Sum.add (a b : Sum) : Sum :=
  ⟨a.v4 + b.v4, a.v6 + b.v6, a.drops + b.drops, a.br + b.br, a.bs + b.bs, a.pr + b.pr, a.ps + b.ps⟩

instance : Add Sum := ⟨Sum.add⟩

/-- contribution of one flow -/
def flowSum (f : Flow) : Sum :=
  ⟨if f.v4 then 1 else 0, if f.v4 then 0 else 1, 0, f.br, f.bs, f.pr, f.ps⟩

/-- sum of `f` over a list -/
def sumMap {α : Type} (f : α → Sum) : List α → Sum
  | [] => Sum.zero
  | x :: xs => f x + sumMap f xs

/-- contribution of one stored block -/
def blockSum (b : Block) : Sum := ⟨0, 0, b.drops, 0, 0, 0, 0⟩ + sumMap flowSum b.flows

def inRange (first last : Int) (b : Block) : Bool := first ≤ b.ts && b.ts ≤ last

/-- **spec of the summary**: sum over the stored blocks whose time lies in the range -/
def specSum (first last : Int) (bs : List Block) : Sum :=
  sumMap blockSum (bs.filter (inRange first last))

/-- packet / byte totals `(bytes rcvd, bytes sent, packets rcvd, packets sent)` -/
abbrev Totals := Nat × Nat × Nat × Nat

def Sum.totals (s : Sum) : Totals := (s.br, s.bs, s.pr, s.ps)

/-- **spec of a query restricted to its totals** (the C08 query spec without condition,
    summed over all result rows): every flow of every block in the range contributes its counters. -/
def specQueryTotals (first last : Int) (bs : List Block) : Totals :=
  ((bs.filter (inRange first last)).flatMap (·.flows)).foldl
    (fun a f => (a.1 + f.br, a.2.1 + f.bs, a.2.2.1 + f.pr, a.2.2.2 + f.ps)) (0, 0, 0, 0)

/-! ### domain of the property -/

def dayOf (ts : Int) : Int := ts / 86400   -- UTC day number (timestamps ≥ 0)

/-- a write history the real writer can produce: Unix times ≥ 0 and, within one UTC day,
    strictly increasing timestamps in write order (goProbe writes with the wall clock). -/
def histOk : List Block → Bool
  | [] => true
  | b :: bs => decide (0 ≤ b.ts) && bs.all (fun c => dayOf b.ts != dayOf c.ts || decide (b.ts < c.ts)) && histOk bs

/-- day-directory names (decimal day timestamps) of equal length, so that the lexicographic
    directory listing is the chronological one (always true for 10-digit Unix times, 2001 – 2286) -/
def dirWidthOk : List Block → Bool
  | [] => true
  | b :: bs => bs.all (fun c => (toString (c.ts / 86400 * 86400)).length == (toString (b.ts / 86400 * 86400)).length)

def Sum.below (s : Sum) (n : Nat) : Bool :=
  s.v4 < n && s.v6 < n && s.drops < n && s.br < n && s.bs < n && s.pr < n && s.ps < n

/-! ### wire format -/

def parseFlow (s : String) : Option Flow :=
  match s.splitOn "/" with
  | [v, a, b, c, d] => do
    let v4 ← if v == "4" then some true else if v == "6" then some false else none
    let a ← Wire.parseNat a; let b ← Wire.parseNat b; let c ← Wire.parseNat c; let d ← Wire.parseNat d
    some ⟨v4, a, b, c, d⟩
  | _ => none

def parseBlock (s : String) : Option Block :=
  match s.splitOn ":" with
  | [ts, dr, fl] => do
    let ts ← Wire.parseInt ts
    let dr ← Wire.parseNat dr
    let fl ← (Wire.listField fl).mapM parseFlow
    some ⟨ts, dr, fl⟩
  | _ => none

def parseIface (s : String) : Option (String × List Block) :=
  match s.splitOn "=" with
  | [name, bl] => do
    let bl ← (Wire.semiField bl).mapM parseBlock
    if name.isEmpty then none else some (name, bl)
  | _ => none

def parseIfaces (s : String) : Option (List (String × List Block)) :=
  (s.splitOn "|").mapM parseIface

def showSum (s : Sum) : String :=
  "/".intercalate [toString s.v4, toString s.v6, toString s.drops, toString s.br, toString s.bs, toString s.pr, toString s.ps]

def showTotals (t : Totals) : String :=
  "/".intercalate [toString t.1, toString t.2.1, toString t.2.2.1, toString t.2.2.2]

def parseSum (s : String) : Option Sum :=
  match (s.splitOn "/").mapM Wire.parseNat with
  | some [a, b, c, d, e, f, g] => some ⟨a, b, c, d, e, f, g⟩
  | _ => none

def parseTotals (s : String) : Option Totals :=
  match (s.splitOn "/").mapM Wire.parseNat with
  | some [a, b, c, d] => some (a, b, c, d)
  | _ => none

/-- one interface of the observed output: `name:<7 numbers>:<4 query totals>` -/
def parseOutIface (s : String) : Option (String × Sum × Totals) :=
  match s.splitOn ":" with
  | [n, a, q] => do
    let a ← parseSum a
    let q ← parseTotals q
    some (n, a, q)
  | _ => none

/-- verdict for one interface -/
def judgeIface (first last : Int) (name : String) (bs : List Block) (o : String) : String :=
  match parseOutIface o with
  | none =>
    if (o.splitOn ":").contains "err" then "violates:error-on-valid-database" else "violates:unparsable"
  | some (n, got, q) =>
    let want := specSum first last bs
    if n != name then "violates:wrong-interface"
    else if got = want then
      if q = got.totals then "holds" else "violates:summary-and-query-totals-disagree"
    else if { got with drops := want.drops } = want then "violates:drops-outside-range-counted"
    else "violates:summary-differs-from-sum"

def firstBad : List String → String
  | [] => "holds"
  | v :: vs => if v.startsWith "holds" then firstBad vs else v

/-- spec verdict on an observed implementation output -/
def judge (args : List String) (out : String) : String :=
  match args with
  | ["list", _enc, first, last, ifs] =>
    match Wire.parseInt first, Wire.parseInt last, parseIfaces ifs with
    | some first, some last, some ifs =>
      if first > last then "holds:outside-domain-first>last"
      else if ifs.any (fun i => !histOk i.2) then "holds:outside-domain-history"
      else if ifs.any (fun i => !dirWidthOk i.2) then "holds:outside-domain-dirname-width"
      else if ifs.any (fun i => !(sumMap blockSum i.2).below (2 ^ 64)) then "holds:outside-domain-overflow"
      else if out == "panic" then "violates:panic"
      else
        let outs := out.splitOn "|"
        if outs.length ≠ ifs.length then "violates:unparsable"
        else firstBad ((ifs.zip outs).map fun (i, o) => judgeIface first last i.1 i.2 o)
    | _, _, _ => "violates:bad-case"
  | _ => "violates:bad-op"

end C12
