import GoProbeModel.Spec.DB

/-!
C08 — query results equal a direct aggregation of the stored flows: data types, the executable
*spec*, wire format and the spec judge. Nothing here depends on `Gen/*` or on how the query engine
computes its result.

A database is given by its *write history* (`DB.WriteOut`: interface, block timestamp, flows), a
query by the selected attributes, an optional condition, an optional direction filter, a time
range and the interfaces. The spec of the result:

* take every flow of every stored block of a queried interface whose block time lies in
  `[first, last]` and which satisfies the condition (`sem`, the denotational semantics of the
  condition grammar restricted to simple comparisons — networks and aliases are C09's subject);
* group by the selected attributes plus the interface label (always a label of a row, as in
  `results.Row.Labels.Iface`) plus the block time if `time` is selected, summing the four counters;
* keep the groups whose *summed* counters match the direction filter;
* totals = sum over the kept groups, hits = their number.
-/
namespace C08
open DB

inductive Cmp where
  | eq | ne | lt | gt | le | ge
  deriving Repr, DecidableEq

/-- conditions: comparisons of an address column (`sip` / `dip`) with an address literal (hex, 8 or
    32 digits), membership of an address column in a network (`snet` / `dnet`, any prefix length), of a numeric column (`dport` / `proto`) with a number; `!`, `&`, `|` -/
inductive Cond where
  | ip (src : Bool) (c : Cmp) (v : String)
  | net (src : Bool) (c : Cmp) (v : String) (bits : Nat)   -- `snet` / `dnet`: network `v/bits`
  | num (port : Bool) (c : Cmp) (v : Nat)
  | not (a : Cond)
  | and (a b : Cond)
  | or (a b : Cond)
  deriving Repr, DecidableEq

def Cmp.eval : Cmp → Nat → Nat → Bool
  | .eq, a, b => a == b
  | .ne, a, b => a != b
  | .lt, a, b => decide (a < b)
  | .gt, a, b => decide (a > b)
  | .le, a, b => decide (a ≤ b)
  | .ge, a, b => decide (a ≥ b)

def hexDigit (c : Char) : Nat :=
  if '0' ≤ c ∧ c ≤ '9' then c.toNat - '0'.toNat else if 'a' ≤ c ∧ c ≤ 'f' then c.toNat - 'a'.toNat + 10 else 0

/-- numeric value of a hex string (big endian) -/
def hexVal (s : String) : Nat := s.toList.foldl (fun a c => 16 * a + hexDigit c) 0

/-- address `a` lies in the network `v/bits`: same family (same width) and the same leading `bits` bits -/
def inNetHex (a v : String) (bits : Nat) : Bool :=
  a.length == v.length && hexVal a / 2 ^ (4 * v.length - bits) == hexVal v / 2 ^ (4 * v.length - bits)

/-- **denotational semantics of a condition on a flow.** An address comparison `=` holds iff the
    column equals the literal (in particular never across IP families), `!=` is its complement;
    ordering comparators on addresses are not part of the grammar (`Cond.ok`). -/
def sem : Cond → Flow → Bool
  | .ip src c v, f =>
    let a := if src then f.sip else f.dip
    match c with
    | .eq => a == v
    | .ne => a != v
    | _ => false
  | .net src c v bits, f =>
    let a := if src then f.sip else f.dip
    match c with
    | .eq => inNetHex a v bits
    | .ne => !inNetHex a v bits
    | _ => false
  | .num port c v, f => c.eval (if port then f.dport else f.proto) v
  | .not a, f => !sem a f
  | .and a b, f => sem a f && sem b f
  | .or a b, f => sem a f || sem b f

inductive Dir where
  | inb | outb | uni | bi
  deriving Repr, DecidableEq

/-- the four counters -/
structure Ctr where
  br : Nat
  bs : Nat
  pr : Nat
  ps : Nat
  deriving Repr, DecidableEq

def Ctr.zero : Ctr := ⟨0, 0, 0, 0⟩
def Ctr.add (a b : Ctr) : Ctr := ⟨a.br + b.br, a.bs + b.bs, a.pr + b.pr, a.ps + b.ps⟩

def sumCtr : List Ctr → Ctr
  | [] => Ctr.zero
  | c :: cs => c.add (sumCtr cs)

/-- direction filter on (summed) counters: packets in one / the other / exactly one / both directions -/
def dirOk : Option Dir → Ctr → Bool
  | none, _ => true
  | some .inb, c => decide (c.pr > 0) && c.ps == 0
  | some .outb, c => decide (c.ps > 0) && c.pr == 0
  | some .uni, c => (decide (c.pr > 0) && c.ps == 0) || (decide (c.ps > 0) && c.pr == 0)
  | some .bi, c => decide (c.pr > 0) && decide (c.ps > 0)

/-- selected attributes (`iface` is always a label of a row) -/
structure Sel where
  sip : Bool
  dip : Bool
  dport : Bool
  proto : Bool
  time : Bool
  deriving Repr, DecidableEq

/-- group key = labels and selected attributes of a row -/
structure Key where
  iface : String
  ts : Option Int
  sip : Option String
  dip : Option String
  dport : Option Nat
  proto : Option Nat
  deriving Repr, DecidableEq

structure Query where
  sel : Sel
  cond : Option Cond
  dir : Option Dir
  first : Int
  last : Int
  ifaces : Option (List String)    -- none = "any"
  deriving Repr

def Query.wants (q : Query) (iface : String) : Bool :=
  match q.ifaces with
  | none => true
  | some l => l.contains iface

def Query.matches (q : Query) (f : Flow) : Bool :=
  match q.cond with
  | none => true
  | some c => sem c f

def keyOf (s : Sel) (w : WriteOut) (f : Flow) : Key :=
  { iface := w.iface
    ts := if s.time then some w.ts else none
    sip := if s.sip then some f.sip else none
    dip := if s.dip then some f.dip else none
    dport := if s.dport then some f.dport else none
    proto := if s.proto then some f.proto else none }

def ctrOf (f : Flow) : Ctr := ⟨f.br, f.bs, f.pr, f.ps⟩

def inRange (first last : Int) (w : WriteOut) : Bool := decide (first ≤ w.ts) && decide (w.ts ≤ last)

/-- the (key, counters) contributions of all stored flows that take part in the result -/
def items (hist : List WriteOut) (q : Query) : List (Key × Ctr) :=
  (hist.filter fun w => q.wants w.iface && inRange q.first q.last w).flatMap fun w =>
    (w.flows.filter q.matches).map fun f => (keyOf q.sel w f, ctrOf f)

def dedup {α : Type} [DecidableEq α] : List α → List α
  | [] => []
  | x :: xs => x :: (dedup xs).filter (fun y => decide (y ≠ x))

/-- one entry per distinct key, carrying the sum of the counters of all items with that key -/
def groupSum {κ : Type} [DecidableEq κ] (its : List (κ × Ctr)) : List (κ × Ctr) :=
  (dedup (its.map (·.1))).map fun k => (k, sumCtr ((its.filter fun it => decide (it.1 = k)).map (·.2)))

/-- **spec of the rows of a query** -/
def querySpec (hist : List WriteOut) (q : Query) : List (Key × Ctr) :=
  (groupSum (items hist q)).filter fun r => dirOk q.dir r.2

structure Result where
  rows : List (Key × Ctr)
  totals : Ctr
  hits : Nat
  deriving Repr

/-- **spec of a query result** -/
def specResult (hist : List WriteOut) (q : Query) : Result :=
  let rows := querySpec hist q
  { rows := rows, totals := sumCtr (rows.map (·.2)), hits := rows.length }

/-! ### domain of the property -/

def isHexAddr (s : String) : Bool :=
  (s.length == 8 || s.length == 32) && s.toList.all fun c => (decide ('0' ≤ c) && decide (c ≤ '9')) || (decide ('a' ≤ c) && decide (c ≤ 'f'))

/-- conditions of the (simple) grammar: `=` / `!=` on addresses, numbers within the column width -/
def Cond.ok : Cond → Bool
  | .ip _ c v => (c == .eq || c == .ne) && isHexAddr v
  | .net _ c v bits => (c == .eq || c == .ne) && isHexAddr v && decide (bits ≤ 4 * v.length)
  | .num port _ v => if port then decide (v < 65536) else decide (v < 256)
  | .not a => a.ok
  | .and a b => a.ok && b.ok
  | .or a b => a.ok && b.ok

/-- both addresses of one family -/
def flowOk (f : Flow) : Bool :=
  (f.sip.length == 8 || f.sip.length == 32) && f.dip.length == f.sip.length && decide (f.dport < 65536) && decide (f.proto < 256)

/-- write history of ONE interface the real writer can produce: 10-digit Unix times whose day
    directory names have equal width (directory listing order = time order), strictly increasing
    timestamps within one UTC day in write order -/
def histOk : List WriteOut → Bool
  | [] => true
  | w :: ws => decide (1000080000 ≤ w.ts) && decide (w.ts < 9999900000) &&
      ws.all (fun c => w.ts / 86400 != c.ts / 86400 || decide (w.ts < c.ts)) && histOk ws

def ifacesOf (hist : List WriteOut) : List String := dedup (hist.map (·.iface))

/-- the interfaces the query runs on (`none` = "any") -/
def queried (hist : List WriteOut) (q : Query) : List String :=
  (ifacesOf hist).filter q.wants

def totalCtr (hist : List WriteOut) : Ctr := sumCtr ((hist.flatMap (·.flows)).map ctrOf)

/-- the domain checks, each with the name reported when it fails -/
def checks (hist : List WriteOut) (q : Query) : List (Bool × String) :=
  [ (decide (0 < q.first) && decide (q.first ≤ q.last) && decide (q.last < 9999900000), "time-range"),
    ((match q.cond with | none => true | some c => c.ok), "condition"),
    ((ifacesOf hist).all fun i => histOk (hist.filter (·.iface == i)), "history"),
    (hist.all fun w => w.flows.all flowOk, "flows"),
    (let t := totalCtr hist; decide (t.br < 2^64) && decide (t.bs < 2^64) && decide (t.pr < 2^64) && decide (t.ps < 2^64), "overflow"),
    ((match q.ifaces with | none => true | some l => decide (l = dedup l)), "duplicate-interfaces"),
    (!(queried hist q).isEmpty, "no-interface") ]

/-- `none` = inside the property's domain, `some why` = outside -/
def domain (hist : List WriteOut) (q : Query) : Option String :=
  ((checks hist q).find? fun c => !c.1).map (·.2)

/-! ### wire format -/

def parseCmp : String → Option Cmp
  | "eq" => some .eq | "ne" => some .ne | "lt" => some .lt
  | "gt" => some .gt | "le" => some .le | "ge" => some .ge
  | _ => none

def parseLeaf (t : String) : Option Cond :=
  match t.splitOn "." with
  | [a, c, v] => do
    let c ← parseCmp c
    if a == "sip" then some (.ip true c v)
    else if a == "dip" then some (.ip false c v)
    else if a == "snet" || a == "dnet" then
      match v.splitOn "/" with
      | [h, n] => (Wire.parseNat n).map (.net (a == "snet") c h)
      | _ => none
    else if a == "dport" then (Wire.parseNat v).map (.num true c)
    else if a == "proto" then (Wire.parseNat v).map (.num false c)
    else none
  | _ => none

/-- postfix evaluation -/
def parsePostfix : List String → List Cond → Option Cond
  | [], [c] => some c
  | [], _ => none
  | t :: ts, st =>
    if t == "and" then
      match st with
      | b :: a :: rest => parsePostfix ts (.and a b :: rest)
      | _ => none
    else if t == "or" then
      match st with
      | b :: a :: rest => parsePostfix ts (.or a b :: rest)
      | _ => none
    else if t == "not" then
      match st with
      | a :: rest => parsePostfix ts (.not a :: rest)
      | _ => none
    else
      match parseLeaf t with
      | some l => parsePostfix ts (l :: st)
      | none => none

def parseCond (s : String) : Option (Option Cond) :=
  if s == "-" then some none else (parsePostfix (s.splitOn ",") []).map some

def parseDir : String → Option (Option Dir)
  | "-" => some none | "in" => some (some .inb) | "out" => some (some .outb)
  | "uni" => some (some .uni) | "bi" => some (some .bi) | _ => none

def attrNames : List String := ["sip", "dip", "dport", "proto", "time", "iface"]

def parseSel (s : String) : Option Sel :=
  let l := Wire.listField s
  if l.isEmpty || l.any (fun a => !attrNames.contains a) then none
  else some ⟨l.contains "sip", l.contains "dip", l.contains "dport", l.contains "proto", l.contains "time"⟩

def parseIfaces (s : String) : Option (List String) :=
  if s == "any" then none else some (Wire.listField s)

def parseCase : List String → Option (Query × List WriteOut)
  | ["q", attrs, cond, dir, first, last, ifaces, hist] => do
    let sel ← parseSel attrs
    let cond ← parseCond cond
    let dir ← parseDir dir
    let first ← Wire.parseInt first
    let last ← Wire.parseInt last
    let hist ← parseHistory hist
    some (⟨sel, cond, dir, first, last, parseIfaces ifaces⟩, hist)
  | _ => none

def optStr : Option String → String
  | none => "-"
  | some s => s

def rowStr (r : Key × Ctr) : String :=
  r.1.iface ++ "@" ++ optStr (r.1.ts.map toString) ++ "/" ++ optStr r.1.sip ++ ":" ++ optStr r.1.dip ++ ":" ++
  optStr (r.1.dport.map toString) ++ ":" ++ optStr (r.1.proto.map toString) ++ ":" ++
  toString r.2.br ++ ":" ++ toString r.2.bs ++ ":" ++ toString r.2.pr ++ ":" ++ toString r.2.ps

def ctrStr (c : Ctr) : String :=
  toString c.br ++ ":" ++ toString c.bs ++ ":" ++ toString c.pr ++ ":" ++ toString c.ps

def renderRows (rows : List (Key × Ctr)) : String := Wire.showList (sortStrs (rows.map rowStr))

/-- canonical output line (the format printed by harness/c08.go) -/
def render (r : Result) : String :=
  "rows=" ++ renderRows r.rows ++ "|totals=" ++ ctrStr r.totals ++ "|hits=" ++ toString r.hits

/-! ### spec judge -/

def parseCtr (s : String) : Option Ctr :=
  match (s.splitOn ":").mapM Wire.parseNat with
  | some [a, b, c, d] => some ⟨a, b, c, d⟩
  | _ => none

/-- counters of an observed row (its last four fields) -/
def rowCtr (row : String) : Option Ctr :=
  match ((row.splitOn ":").reverse.take 4).reverse.mapM Wire.parseNat with
  | some [a, b, c, d] => some ⟨a, b, c, d⟩
  | _ => none

/-- verdict on an observed output `rows=…|totals=…|hits=…` -/
def judgeValue (hist : List WriteOut) (q : Query) (out : String) : String :=
  match out.splitOn "|" with
  | [rows, totals, hits] =>
    if !(rows.startsWith "rows=" && totals.startsWith "totals=" && hits.startsWith "hits=") then "violates:unparsable"
    else
      let rows := (rows.drop 5).toString
      let obsRows := Wire.listField rows
      match parseCtr (totals.drop 7).toString, Wire.parseNat (hits.drop 5).toString, obsRows.mapM rowCtr with
      | some t, some h, some cs =>
        let want := specResult hist q
        if rows == renderRows want.rows then
          -- clause 1 holds; clauses 2 and 3 on the observed output itself
          if t ≠ sumCtr cs then "violates:totals-differ-from-sum-of-rows"
          else if h ≠ obsRows.length then "violates:hits-differ-from-row-count"
          else "holds"
        else
          let only (v4 : Bool) : List WriteOut := hist.map fun w => { w with flows := w.flows.filter fun f => f.isV4 == v4 }
          if rows == renderRows (querySpec (only true) q) || rows == renderRows (querySpec (only false) q) then
            "violates:ip-family-dropped"
          else if q.dir.isSome && rows == renderRows (querySpec hist { q with dir := none }) then
            "violates:direction-filter-ignored"
          else if q.dir.isSome && rows == renderRows (groupSum ((items hist q).filter fun it => dirOk q.dir it.2)) then
            "violates:direction-filter-before-summation"
          else if rows == renderRows (querySpec hist { q with first := q.first - 86400, last := q.last + 86400 }) ||
                  obsRows.length > want.rows.length && (want.rows.map rowStr).all obsRows.contains then
            "violates:rows-outside-range-or-condition"
          else "violates:rows-differ"
      | _, _, _ => "violates:unparsable"
  | _ => "violates:unparsable"

/-- spec verdict on an observed implementation output -/
def judge (args : List String) (out : String) : String :=
  match parseCase args with
  | none => "violates:bad-case"
  | some (q, hist) =>
    match domain hist q with
    | some why => "holds:outside-domain-" ++ why
    | none =>
      if out == "panic" then "violates:panic"
      else if out.startsWith "err:" then "violates:error-on-valid-query"
      else judgeValue hist q out

end C08
