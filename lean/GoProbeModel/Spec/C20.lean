import GoProbeModel.Base.Wire
import GoProbeModel.Spec.DB

/-!
C20 — captured traffic is fully accounted for across write-outs: vocabulary and spec judge.

A case is a list of operations: parsed packets (IP version, the 13/37-byte 5-tuple hash
`sip sport dip dport proto`, the capture source's packet type, the packet size, the auxiliary byte
= TCP flags / ICMP type) and rotations (`R`, a write-out). The implementation reports what was in
its flow log right before each rotation (`pre`), what each rotation emitted (`agg`, keyed by the
stored DB key, and the running `tot`als), what is left in memory at the end (`mem`) and what the
real query engine reads back from the database the write-outs went to (`db`).

The judge recomputes everything from the packet list alone; the only thing it takes from the
observation is the *orientation* the implementation chose for a conversation (that choice is
property C22's subject). Nothing here depends on generated code or on the model.
-/
namespace C20

/-! ## counters -/

structure Cnt where
  br : Nat
  bs : Nat
  pr : Nat
  ps : Nat
  deriving Repr, DecidableEq, Inhabited

def Cnt.zero : Cnt := ⟨0, 0, 0, 0⟩
def Cnt.add (a b : Cnt) : Cnt := ⟨a.br + b.br, a.bs + b.bs, a.pr + b.pr, a.ps + b.ps⟩
instance : Add Cnt := ⟨Cnt.add⟩

def sumC : List Cnt → Cnt
  | [] => Cnt.zero
  | c :: cs => c + sumC cs

def Cnt.render (c : Cnt) : String :=
  toString c.br ++ ":" ++ toString c.bs ++ ":" ++ toString c.pr ++ ":" ++ toString c.ps

/-! ## packets, operations -/

structure Pkt where
  v6 : Bool
  h : List Nat      -- sip, sport, dip, dport, proto (13 bytes for IPv4, 37 for IPv6)
  ptype : Nat       -- packet type reported by the capture source
  size : Nat
  aux : Nat         -- TCP flags / ICMP type
  deriving Repr, DecidableEq

inductive Op where
  | pkt (p : Pkt)
  | rot
  deriving Repr, DecidableEq

/-- `PACKET_OUTGOING` of the capture source: such a packet counts as sent, every other as received -/
def packetOutgoing : Nat := 4

/-- what one parsed packet contributes -/
def pktCnt (p : Pkt) : Cnt :=
  if p.ptype = packetOutgoing then ⟨0, p.size, 0, 1⟩ else ⟨p.size, 0, 1, 0⟩

def alen (v6 : Bool) : Nat := if v6 then 16 else 4
def hlen (v6 : Bool) : Nat := 2 * alen v6 + 5

/-- the 5-tuple of the packet travelling the other way -/
def mirror (h : List Nat) : List Nat :=
  let a := (h.length - 1) / 2
  (h.drop a).take a ++ h.take a ++ h.drop (2 * a)

/-- what the database stores of a 5-tuple: sip, dip, dport, proto — no source port -/
def dbKeyOf (h : List Nat) : List Nat :=
  let a := (h.length - 5) / 2
  h.take a ++ h.drop (a + 2)

/-- packets of the completed intervals (one per rotation) and of the interval still open -/
def splitOps : List Pkt → List Op → List (List Pkt) × List Pkt
  | cur, [] => ([], cur)
  | cur, .pkt p :: ops => splitOps (cur ++ [p]) ops
  | cur, .rot :: ops => let r := splitOps [] ops; (cur :: r.1, r.2)

def pktsOf : List Op → List Pkt
  | [] => []
  | .pkt p :: ops => p :: pktsOf ops
  | .rot :: ops => pktsOf ops

/-- timestamp of the i-th write-out in the end-to-end database (harness convention) -/
def tsOf (i : Nat) : Int := 1700000100 + 300 * (i : Int)

def ifaceName : String := "verif0"

/-! ## wire -/

def parsePkt (s : String) : Option Op :=
  if s == "R" then some .rot else
  match s.splitOn ":" with
  | [fam, h, pt, sz, aux] => do
    let v6 ← if fam == "6" then some true else if fam == "4" then some false else none
    let h ← Wire.hexToBytes h
    if h.length ≠ hlen v6 then none else
    some (.pkt { v6 := v6, h := h, ptype := (← Wire.parseNat pt), size := (← Wire.parseNat sz), aux := (← Wire.parseNat aux) })
  | _ => none

def parseOps (s : String) : Option (List Op) := (Wire.listField s).mapM parsePkt

/-- a record: key bytes and counters (flow-log record or emitted row) -/
abbrev Rec := List Nat × Cnt

def Rec.render (r : Rec) : String := Wire.bytesToHex r.1 ++ ":" ++ r.2.render

def parseCnt : List String → Option Cnt
  | [a, b, c, d] => do some ⟨← Wire.parseNat a, ← Wire.parseNat b, ← Wire.parseNat c, ← Wire.parseNat d⟩
  | _ => none

def parseRec (s : String) : Option Rec :=
  match s.splitOn ":" with
  | k :: rest => do some (← Wire.hexToBytes k, ← parseCnt rest)
  | _ => none

def parseRecs (s : String) : Option (List Rec) := (Wire.listField s).mapM parseRec

/-- `a;b;c;` — every element is followed by `;`, so that an empty list of logs and a list holding
    one empty log differ -/
def splitTerm (s : String) : List String := (s.splitOn ";").dropLast

def renderTerm (xs : List String) : String := String.join (xs.map (· ++ ";"))

/-! ## canonical order: IPv4 records first, bytes lexicographic -/

def lexLt : List Nat → List Nat → Bool
  | [], [] => false
  | [], _ :: _ => true
  | _ :: _, [] => false
  | a :: as, b :: bs => a < b || (a == b && lexLt as bs)

def keyLt (a b : List Nat) : Bool := a.length < b.length || (a.length == b.length && lexLt a b)

def insertRec (r : Rec) : List Rec → List Rec
  | [] => [r]
  | x :: xs => if keyLt x.1 r.1 then x :: insertRec r xs else r :: x :: xs

def sortRecs (l : List Rec) : List Rec := l.foldr insertRec []

def renderRecs (l : List Rec) : String := Wire.showList ((sortRecs l).map Rec.render)

/-! ## what was observed -/

structure Obs where
  pre : List (List Rec)
  agg : List (List Rec)
  tot : List Cnt
  mem : List Rec
  db : String

def parseObs (out : String) : Option Obs := do
  let fs := Wire.fields out
  let pre ← (splitTerm (← DB.getField fs "pre")).mapM parseRecs
  let agg ← (splitTerm (← DB.getField fs "agg")).mapM parseRecs
  let tot ← (splitTerm (← DB.getField fs "tot")).mapM (fun s => parseCnt (s.splitOn ":"))
  let mem ← parseRecs (← DB.getField fs "mem")
  let db ← DB.getField fs "db"
  some { pre := pre, agg := agg, tot := tot, mem := mem, db := db }

/-! ## the spec -/

def sameConv (h k : List Nat) : Bool := k == h || k == mirror h

/-- traffic of the conversation of `h` (both directions) among the packets `ps` -/
def convSum (h : List Nat) (ps : List Pkt) : Cnt :=
  sumC ((ps.filter fun p => sameConv h p.h).map pktCnt)

/-- what the records of a flow log hold for the conversation of `h` -/
def recSum (h : List Nat) (log : List Rec) : Cnt :=
  sumC ((log.filter fun r => sameConv h r.1).map (·.2))

def Cnt.active (c : Cnt) : Bool := c.pr + c.ps > 0

/-- a flow log observed at the end of an interval, against the packets of that interval -/
def checkLog (ps : List Pkt) (log : List Rec) : Option String :=
  if log.any (fun r => r.1.length ≠ 13 ∧ r.1.length ≠ 37) then some "violates:bad-record"
  else if log.any (fun r => (log.filter fun r' => sameConv r.1 r'.1).length ≠ 1) then some "violates:two-records"
  else if ps.any (fun p => recSum p.h log ≠ convSum p.h ps) then some "violates:flow-counters"
  else if log.any (fun r => r.2 ≠ Cnt.zero ∧ !(ps.any fun p => sameConv p.h r.1)) then some "violates:phantom-traffic"
  else none

/-- add a row to an aggregate, summing rows with the same key -/
def addRow (agg : List Rec) (k : List Nat) (c : Cnt) : List Rec :=
  if agg.any (·.1 == k) then agg.map (fun r => if r.1 == k then (r.1, r.2 + c) else r) else agg ++ [(k, c)]

/-- the block an interval must produce, given the orientation of the records in the flow log -/
def specBlock (log : List Rec) : List Rec :=
  (log.filter (·.2.active)).foldl (fun agg r => addRow agg (dbKeyOf r.1) r.2) []

def sumRecs (l : List Rec) : Cnt := sumC (l.map (·.2))

def checkBlock (log agg : List Rec) (tot : Cnt) : Option String :=
  let want := sortRecs (specBlock log)
  let got := sortRecs agg
  if got ≠ want then
    if got.any (fun r => r.1.length ≠ 11 ∧ r.1.length ≠ 35) then some "violates:sport-in-key"
    else if got.any (fun r => (got.filter (·.1 == r.1)).length ≠ 1) then some "violates:sport-not-aggregated"
    else if got.any (fun r => !r.2.active) then some "violates:idle-flow-written"
    else if got.any (fun r => !(want.any (·.1 == r.1))) then
      -- a row nobody asked for: the key of a flow without packets in the interval, or no stored key at all
      if got.any (fun r => !(want.any (·.1 == r.1)) && log.any (fun l => dbKeyOf l.1 == r.1))
      then some "violates:idle-flow-written" else some "violates:wrong-key"
    else if want.any (fun r => !(got.any (·.1 == r.1))) then some "violates:flow-not-written"
    else some "violates:block-counters"
  else if tot ≠ sumRecs agg then some "violates:totals"
  else none

/-- how the query layer prints a stored address (`types.RawIPToAddr`): an IPv6 address whose last
    twelve bytes are zero comes out as the IPv4 address of its first four bytes. A display quirk of
    the result rendering, not this property's subject; the harness prints what the engine returns. -/
def addrShown (ip : List Nat) : String :=
  if ip.length = 16 ∧ (ip.drop 4).all (· == 0) then Wire.bytesToHex (ip.take 4) else Wire.bytesToHex ip

def recToDB (r : Rec) : DB.Flow :=
  let k := r.1
  let a := (k.length - 3) / 2
  { sip := addrShown (k.take a), dip := addrShown ((k.drop a).take a),
    dport := k.getD (2 * a) 0 * 256 + k.getD (2 * a + 1) 0, proto := k.getD (2 * a + 2) 0,
    br := r.2.br, bs := r.2.bs, pr := r.2.pr, ps := r.2.ps }

/-- the database after the write-outs, as the query `sip,dip,dport,proto,time,iface` renders it -/
def renderDB (blocks : List (List Rec)) : String :=
  DB.renderQuery ((blocks.zipIdx).map fun (b, i) =>
    { iface := ifaceName, ts := tsOf i, drops := 0, flows := (sortRecs b).map recToDB })

def firstSome : List (Option String) → Option String
  | [] => none
  | some s :: _ => some s
  | none :: rest => firstSome rest

def verdict (ops : List Op) (o : Obs) : String :=
  let (ivs, tail) := splitOps [] ops
  if o.pre.length ≠ ivs.length ∨ o.agg.length ≠ ivs.length ∨ o.tot.length ≠ ivs.length then "violates:shape" else
  let logs := firstSome ((ivs.zip o.pre).map fun (ps, log) => checkLog ps log)
  let blocks := firstSome ((o.pre.zip (o.agg.zip o.tot)).map fun (log, agg, tot) => checkBlock log agg tot)
  match logs, checkLog tail o.mem, blocks with
  | some v, _, _ => v
  | _, some v, _ => v
  | _, _, some v => v
  | none, none, none =>
    -- the property's headline, recomputed from the packet list alone
    if sumC (o.agg.map sumRecs) + sumRecs o.mem ≠ sumC ((pktsOf ops).map pktCnt) then "violates:conservation"
    else if o.db ≠ renderDB o.agg then "violates:db-mismatch"
    else if ivs.isEmpty then "holds:no-rotation"
    else "holds"

def judge (args : List String) (out : String) : String :=
  match args with
  | [ops] =>
    match parseOps ops with
    | none => "violates:bad-case"
    | some ops =>
      match parseObs out with
      | none => "violates:no-output"
      | some o => verdict ops o
  | _ => "violates:bad-case"

end C20
