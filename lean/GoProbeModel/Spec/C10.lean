import GoProbeModel.Base.Wire

/-!
C10 — condition text is parsed robustly and its canonical form keeps its meaning.

Data types, the executable *spec* and the spec judge. Nothing here depends on `Gen/*` or on how
the code works:

* a condition text is a byte string (`Str`, one `Char` < 256 per byte);
* its *meaning* is a syntax tree `Ast` (conditions combined by not / and / or);
* the reference grammar is the one of the help text (`goQuery -h`, section "Condition"): NOT binds
  tighter than AND, AND tighter than OR, parentheses override, chains nest to the right
  (`specParse`, and as a relation `Prints`);
* the reference tokenisation `specTokens`: words are maximal runs of non-delimiters, `!=`, `<=`, `>=`
  are single tokens, every other operator character is a token, white space only separates;
* the documented operator spellings (`documented`), and what a text "written with documented
  spellings and arbitrary white space" is: a list of `Lexeme`s satisfying `lexOK`; its meaning is
  the meaning of its symbol form `baseTokens`.

`judge` decides, from the observations the harness made on the real code, whether the property holds
on one case.
-/
namespace C10

abbrev Str := List Char

/-! ### syntax trees -/

inductive Ast where
  | cond (attr cmp val : Str)
  | not (a : Ast)
  | and (l r : Ast)
  | or (l r : Ast)
  deriving DecidableEq, Repr, Inhabited

def escStr (s : Str) : String := Wire.escape (String.ofList s)

/-- pre-order items of a tree (accumulator form: trees may be very deep to the left) -/
def Ast.itemsAcc : Ast → List String → List String
  | .cond a c v, acc => ("C:" ++ escStr a ++ ":" ++ escStr c ++ ":" ++ escStr v) :: acc
  | .not a, acc => "N" :: a.itemsAcc acc
  | .and l r, acc => "A" :: l.itemsAcc (r.itemsAcc acc)
  | .or l r, acc => "O" :: l.itemsAcc (r.itemsAcc acc)

/-- canonical wire form of a tree: pre-order, `A`/`O`/`N` for and/or/not, `C:attr:cmp:val` -/
def Ast.wire (a : Ast) : String := ",".intercalate (a.itemsAcc [])

/-! ### characters -/

/-- white space of the condition grammar -/
def isWs (c : Char) : Bool := c == ' ' || c == '\t' || c == '\n' || c == '\r'

/-- characters that are (part of) operators of the condition grammar -/
def isOpChar (c : Char) : Bool :=
  c == '!' || c == '=' || c == '<' || c == '>' || c == '|' || c == '&' || c == '(' || c == ')'

def isDelim (c : Char) : Bool := isOpChar c || isWs c

/-- ASCII lower case -/
def lowerChar (c : Char) : Char := if 'A' ≤ c ∧ c ≤ 'Z' then Char.ofNat (c.toNat + 32) else c

def lowerStr (s : Str) : Str := s.map lowerChar

/-! ### reference tokenisation -/

def flushWord (w : Str) (ts : List Str) : List Str := if w.isEmpty then ts else w.reverse :: ts

/-- is `c` followed by '=' one of the two-character operators `!=`, `<=`, `>=`? -/
def twoCharOp (c : Char) (rest : Str) : Bool :=
  (c == '!' || c == '<' || c == '>') && rest.head? == some '='

/-- `w` is the word read so far, reversed; `skip`: the current character was already consumed as
    the second half of a two-character operator -/
def specTokensAux : Str → Str → Bool → List Str
  | [], w, _ => flushWord w []
  | c :: rest, w, skip =>
    if skip then specTokensAux rest [] false
    else if isWs c then flushWord w (specTokensAux rest [] false)
    else if isOpChar c then
      if twoCharOp c rest then flushWord w ([c, '='] :: specTokensAux rest [] true)
      else flushWord w ([c] :: specTokensAux rest [] false)
    else specTokensAux rest (c :: w) false

def specTokens (s : Str) : List Str := specTokensAux s [] false

/-- the canonical string of a token list -/
def joinTokens : List Str → Str
  | [] => []
  | [t] => t
  | t :: ts => t ++ ' ' :: joinTokens ts

/-- split at single blanks (inverse of `joinTokens` on blank-free tokens) -/
def splitBlanksAux : Str → Str → List Str
  | [], w => [w.reverse]
  | c :: rest, w => if c == ' ' then w.reverse :: splitBlanksAux rest [] else splitBlanksAux rest (c :: w)

def splitBlanks (s : Str) : List Str := if s.isEmpty then [] else splitBlanksAux s []

/-! ### reference grammar -/

def attributes : List Str :=
  ["dip", "sip", "dnet", "snet", "dport", "proto", "dir",
   "dst", "src", "host", "net", "port", "protocol", "ipproto", "direction"].map String.toList

def comparators : List Str := ["=", "!=", "<=", ">=", "<", ">"].map String.toList

def tOr : Str := ['|']
def tAnd : Str := ['&']
def tNot : Str := ['!']
def tLp : Str := ['(']
def tRp : Str := [')']

/-- `Prints lvl a ts`: the token list `ts` is a way of writing the tree `a` at precedence level
    `lvl` (0 = disjunction, 1 = conjunction, 2 = negation, 3 = primitive), with any number of
    redundant parentheses. This is the grammar of the help text, read as a relation. The value of a
    condition is any single token. -/
inductive Prints : Nat → Ast → List Str → Prop where
  | cond {a c v : Str} : a ∈ attributes → c ∈ comparators → Prints 3 (.cond a c v) [a, c, v]
  | paren {a : Ast} {ts : List Str} : Prints 0 a ts → Prints 3 a (tLp :: ts ++ [tRp])
  | not {a : Ast} {ts : List Str} : Prints 3 a ts → Prints 2 (.not a) (tNot :: ts)
  | and {l r : Ast} {tl tr : List Str} : Prints 2 l tl → Prints 1 r tr → Prints 1 (.and l r) (tl ++ tAnd :: tr)
  | or {l r : Ast} {tl tr : List Str} : Prints 1 l tl → Prints 0 r tr → Prints 0 (.or l r) (tl ++ tOr :: tr)
  | up {lvl : Nat} {a : Ast} {ts : List Str} : lvl ≤ 2 → Prints (lvl + 1) a ts → Prints lvl a ts

def paren (b : Bool) (ts : List Str) : List Str := if b then tLp :: ts ++ [tRp] else ts

/-- printing with the fewest parentheses -/
def printTokens (lvl : Nat) : Ast → List Str
  | .cond a c v => [a, c, v]
  | .not a => paren (lvl > 2) (tNot :: printTokens 3 a)
  | .and l r => paren (lvl > 1) (printTokens 2 l ++ tAnd :: printTokens 1 r)
  | .or l r => paren (lvl > 0) (printTokens 1 l ++ tOr :: printTokens 0 r)

/-! executable reference parser (recursive descent over the four levels, fuel = a bound on the
    number of calls; `none` = not a sentence) -/
mutual
def pOr : Nat → List Str → Option (Ast × List Str)
  | 0, _ => none
  | f + 1, ts =>
    match pAnd f ts with
    | none => none
    | some (a, r) =>
      match r with
      | t :: r' =>
        if t = tOr then
          match pOr f r' with
          | none => none
          | some (b, r'') => some (.or a b, r'')
        else some (a, r)
      | [] => some (a, [])
def pAnd : Nat → List Str → Option (Ast × List Str)
  | 0, _ => none
  | f + 1, ts =>
    match pNot f ts with
    | none => none
    | some (a, r) =>
      match r with
      | t :: r' =>
        if t = tAnd then
          match pAnd f r' with
          | none => none
          | some (b, r'') => some (.and a b, r'')
        else some (a, r)
      | [] => some (a, [])
def pNot : Nat → List Str → Option (Ast × List Str)
  | 0, _ => none
  | f + 1, ts =>
    match ts with
    | t :: r =>
      if t = tNot then
        match pPrim f r with
        | none => none
        | some (a, r') => some (.not a, r')
      else pPrim f ts
    | [] => none
def pPrim : Nat → List Str → Option (Ast × List Str)
  | 0, _ => none
  | f + 1, ts =>
    match ts with
    | t :: r =>
      if t = tLp then
        match pOr f r with
        | none => none
        | some (a, r') =>
          match r' with
          | t' :: r'' => if t' = tRp then some (a, r'') else none
          | [] => none
      else
        match r with
        | c :: v :: r' => if t ∈ attributes ∧ c ∈ comparators then some (.cond t c v, r') else none
        | _ => none
    | [] => none
end

/-- the tree of a token list (`none`: not a sentence of the grammar, or empty) -/
def specParse (ts : List Str) : Option Ast :=
  match pOr (4 * ts.length + 4) ts with
  | some (a, []) => some a
  | _ => none

/-! ### documented spellings -/

/-- goQuery help text, tables "COMPARATIVE OPERATORS" / "LOGICAL OPERATORS" and the sentence on
    braces: base symbol, other representations -/
def documented : List (String × List String) :=
  [("=", ["eq", "-eq", "equals", "==", "==="]),
   ("!=", ["neq", "-neq", "ne", "-ne"]),
   ("<=", ["le", "-le", "leq", "-leq"]),
   (">=", ["ge", "-ge", "geq", "-geq"]),
   ("<", ["less", "l", "-l", "lt", "-lt"]),
   (">", ["greater", "g", "-g", "gt", "-gt"]),
   ("!", ["not"]),
   ("&", ["and", "&&", "*"]),
   ("|", ["or", "||", "+"]),
   ("(", ["[", "{"]),
   (")", ["]", "}"])]

/-- a representation made of letters and '-' is a *word form*: it "must be enclosed by whitespace" -/
def isWordForm (s : Str) : Bool := !s.isEmpty && s.all fun c => c.isAlpha || c == '-'

/-- word forms with their base symbol -/
def keywords : List (Str × Str) :=
  documented.flatMap fun (b, alts) => (alts.filter fun a => isWordForm a.toList).map fun a => (a.toList, b.toList)

/-- symbol forms (the base symbols themselves included) with their base symbol -/
def symbols : List (Str × Str) :=
  documented.flatMap fun (b, alts) =>
    (b.toList, b.toList) :: (alts.filter fun a => !isWordForm a.toList).map fun a => (a.toList, b.toList)

def lookup (tbl : List (Str × Str)) (t : Str) : Option Str := (tbl.find? fun p => p.1 == t).map (·.2)

/-- characters of attribute names and values: printable ASCII that is neither an operator
    character nor one of the alternative operator / brace characters -/
def isPlainChar (c : Char) : Bool :=
  33 ≤ c.toNat && c.toNat ≤ 126 && !isOpChar c &&
  !(c == '*' || c == '+' || c == '[' || c == ']' || c == '{' || c == '}')

inductive LexClass where
  | word | kw (base : Str) | sym (base : Str) | bad
  deriving DecidableEq, Repr

/-- classification of the text of a lexeme (letters in any case) -/
def classify (t : Str) : LexClass :=
  match lookup keywords (lowerStr t) with
  | some b => .kw b
  | none =>
    match lookup symbols t with
    | some b => .sym b
    | none => if !t.isEmpty && t.all isPlainChar then .word else .bad

/-- a lexeme: the white space in front of it and its text -/
abbrev Lexeme := Str × Str

def flatten (ls : List Lexeme) (trail : Str) : Str := ls.flatMap (fun l => l.1 ++ l.2) ++ trail

/-- the symbol form: every operator by its base symbol, words in lower case -/
def baseToken (t : Str) : Str :=
  match classify t with
  | .kw b => b
  | .sym b => b
  | _ => lowerStr t

def baseTokens (ls : List Lexeme) : List Str := ls.map fun l => baseToken l.2

/-- operator symbols that may follow each other without white space in a sentence of the grammar -/
def symAdjOK (a b : Str) : Bool :=
  (a == tLp && (b == tLp || b == tNot)) ||
  (a == tNot && b == tLp) ||
  ((a == tAnd || a == tOr) && (b == tLp || b == tNot)) ||
  (a == tRp && (b == tRp || b == tAnd || b == tOr))

/-- may lexeme `y` (class `cy`, white space `wy` in front) follow a lexeme of class `cx`? A word
    form needs white space on both sides; that white space disappears with the word form, so its
    base symbol must be allowed next to a neighbouring operator. -/
def pairOK (cx : LexClass) (wy : Str) (cy : LexClass) : Bool :=
  match cx, cy with
  | .bad, _ => false
  | _, .bad => false
  | .kw bx, .kw by_ => !wy.isEmpty && symAdjOK bx by_
  | .kw bx, .sym by_ => !wy.isEmpty && symAdjOK bx by_
  | .sym bx, .kw by_ => !wy.isEmpty && symAdjOK bx by_
  | .kw _, .word => !wy.isEmpty
  | .word, .kw _ => !wy.isEmpty
  | .word, .word => !wy.isEmpty
  | .sym bx, .sym by_ => !wy.isEmpty || symAdjOK bx by_
  | .sym _, .word => true
  | .word, .sym _ => true

def lexPairsOK : LexClass → List Lexeme → Bool
  | c, [] => match c with | .kw _ => false | .bad => false | _ => true   -- a word form cannot end the text
  | c, (w, t) :: rest => pairOK c w (classify t) && lexPairsOK (classify t) rest

/-- the documented domain: white space is blank / tab / newline / carriage return; texts are words,
    documented word forms (enclosed by white space; "not" may start the text) or documented symbol
    forms; neighbours without white space in between are a word and a symbol, or two symbols that
    the grammar allows next to each other. -/
def lexOK (ls : List Lexeme) (trail : Str) : Bool :=
  ls.all (fun l => l.1.all isWs) && trail.all isWs &&
  match ls with
  | [] => true
  | (w, t) :: rest =>
    (match classify t with
     | .bad => false
     | .kw b => (b == tNot || !w.isEmpty)
     | _ => true) && lexPairsOK (classify t) rest

/-! ### wire -/

def bytesToStr (bs : List Nat) : Str := bs.map Char.ofNat

def hexStr (s : String) : Option Str := (Wire.hexToBytes s).map bytesToStr

def wsCode (c : Char) : Option Char :=
  if c == 's' then some ' ' else if c == 't' then some '\t' else if c == 'n' then some '\n'
  else if c == 'r' then some '\r' else if c == 'f' then some (Char.ofNat 12) else if c == 'v' then some (Char.ofNat 11)
  else none

/-- `lex` cases: items `<ws>/<hex text>` separated by ','; the last item carries the trailing
    white space and the text `-` -/
def parseLex (s : String) : Option (List Lexeme × Str) := do
  let items ← (Wire.listField s).mapM fun it =>
    match it.splitOn "/" with
    | [w, t] => do
      let ws ← if w == "-" then some [] else w.toList.mapM wsCode
      let tx ← hexStr t
      some (ws, tx)
    | _ => none
  match items.reverse with
  | (w, []) :: rest => if rest.all (fun l => !l.2.isEmpty) then some (rest.reverse, w) else none
  | _ => none

/-- the condition text of a case -/
def caseText : List String → Option Str
  | ["raw", h] => hexStr h
  | ["lex", s] => (parseLex s).map fun (ls, tr) => flatten ls tr
  | _ => none

structure Obs where
  det : String
  san : String
  tok : String
  ast : String
  canon : String
  re : String
  canon2 : String
  pc : String
  prep : String

def field (k : String) (s : String) : Option String :=
  if s.startsWith (k ++ "=") then some ((s.drop (k.length + 1)).toString) else none

def parseObs (out : String) : Option Obs :=
  match Wire.fields out with
  | [a, b, c, d, e, f, g, h, i] => do
    some { det := ← field "det" a, san := ← field "san" b, tok := ← field "tok" c, ast := ← field "ast" d,
           canon := ← field "canon" e, re := ← field "re" f, canon2 := ← field "canon2" g, pc := ← field "pc" h,
           prep := ← field "prep" i }
  | _ => none

def unescStr (s : String) : Str := (Wire.unescape s).toList

/-- attributes whose value may be a host name -/
def hostAttrs : List Str := ["sip", "dip", "src", "dst", "host"].map String.toList

/-- spec verdict on the observations made on the implementation.

  * `panic` → violates:crash
  * the sanitised text / canonical string differed between repeated runs → violates:nondeterministic
  * Prepare accepted a text the tokenizer / parser reject → violates:accepted-unparsable
  * accepted (a tree was parsed): the canonical string must be the blank-separated token list, must
    mean the same tree under the reference grammar, must be parsed to the same tree by the
    implementation, and preparing it again must give the same string (unless Prepare rejected the
    condition for its values); the reason class is narrower when a token of the canonical string is
    spelled like a word form (a host name such as `or`: known finding)
  * texts written with documented spellings (`lexOK`): the token list must be the symbol form, and if
    the symbol form is a sentence of the grammar its tree must be the result. -/
def judge (args : List String) (out : String) : String :=
  if out == "panic" then "violates:crash" else
  match caseText args, parseObs out with
  | none, _ => "bad-case"
  | _, none => "bad-output"
  | some _, some o =>
    if o.det != "1" then "violates:nondeterministic" else
    if o.pc != "ok" then "violates:accepted-unparsable" else
    let accepted := !(o.ast.startsWith "err" || o.ast == "empty")
    let canonToks := splitBlanks (unescStr o.canon)
    let v1 :=
      if !accepted then "" else
      if canonToks.any (fun t => t.isEmpty || t.any isWs) then "violates:canonical-not-token-list" else
      if specTokens (unescStr o.canon) != canonToks then "violates:canonical-retokenises-differently" else
      if (specParse canonToks).map Ast.wire != some o.ast then "violates:canonical-parses-differently" else
      if o.prep == "rej" then "" else
      if o.re != o.ast then "violates:canonical-meaning-changed" else
      if o.canon2 != o.canon then
        (if canonToks.any (fun t => (lookup keywords t).isSome) then "violates:keyword-valued-token-recanonicalised"
         else "violates:canonical-not-idempotent")
      else ""
    if v1 != "" then v1 else
    match args with
    | ["lex", s] =>
      match parseLex s with
      | some (ls, tr) =>
        if !lexOK ls tr then "holds:outside-documented-spellings" else
        let bt := baseTokens ls
        if o.tok != "ok" then "holds:token-too-long" else
        if canonToks != bt then "violates:spelling-tokens-differ" else
        match specParse bt with
        | some e => if o.ast == e.wire then "holds" else
                    if accepted then "violates:spelling-meaning-differs" else "violates:spelling-rejected"
        | none => if accepted then "violates:accepted-not-a-sentence" else "holds:not-a-sentence"
      | none => "bad-case"
    | _ => if accepted then "holds" else "holds:rejected"

end C10
