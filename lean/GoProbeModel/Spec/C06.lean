import GoProbeModel.Spec.DB

/-!
C06 — corrupted or foreign files never crash a reader and stay contained.

Executable *spec* (independent of how the reader works) and judge of one observed run.

A case (harness/c06.go): a query, the history of write-outs that produced a valid database of one
interface, the list of days whose files were changed afterwards ("damaged"), the bytes of every
file after the change (only the model looks at those) and the decoder answers (model only).

What the property demands of the implementation's output:
* the reader process ended normally (`panic`, `hang`, `oom`, `crash` violate "never crashes or hangs";
  running out of memory because a block descriptor announces a length of 2^30 bytes or more gets its
  own reason class: a known limit of the reader, which allocates what the metadata announces);
* every day that was not touched contributes exactly its stored flows: the rows expected from the
  undamaged days (computed here from the write-outs: filter by time range and condition, project
  to the queried attributes, add up) are all present; rows beyond those, or larger counters, can
  only come from a damaged day that the query selects; if no selected day is damaged the result,
  the totals and the statistics (no block skipped, every block of the range processed) are exact;
* a query that fails as a whole although an undamaged day lies in its range violates containment.
-/
namespace C06

def two64 : Nat := 18446744073709551616

/-- condition: attribute and value (addresses as hex of 4 / 16 bytes, port and protocol decimal) -/
structure Cond where
  attr : String
  val : String
  deriving Repr, DecidableEq

structure Query where
  sip : Bool
  dip : Bool
  dport : Bool
  proto : Bool
  time : Bool
  cond : Option Cond
  first : Int
  last : Int
  deriving Repr, DecidableEq

def parseCond (s : String) : Option (Option Cond) :=
  if s == "-" then some none else
  match s.splitOn "=" with
  | [a, v] => if a ∈ ["sip", "dip", "dport", "proto"] then some (some ⟨a, v⟩) else none
  | _ => none

def parseQuery (attrs time cond first last : String) : Option Query := do
  let as := Wire.listField attrs
  if as.isEmpty || as.any (fun a => a ∉ ["sip", "dip", "dport", "proto"]) then none else
  some { sip := as.contains "sip", dip := as.contains "dip", dport := as.contains "dport", proto := as.contains "proto",
         time := (← Wire.parseBool time), cond := (← parseCond cond),
         first := (← Wire.parseInt first), last := (← Wire.parseInt last) }

/-! ### expected rows of undamaged days -/

/-- four counters, added modulo 2^64 as Go's `uint64` -/
structure Cnt where
  br : Nat
  bs : Nat
  pr : Nat
  ps : Nat
  deriving Repr, DecidableEq, Inhabited

def Cnt.add (a b : Cnt) : Cnt :=
  ⟨(a.br + b.br) % two64, (a.bs + b.bs) % two64, (a.pr + b.pr) % two64, (a.ps + b.ps) % two64⟩

def Cnt.zero : Cnt := ⟨0, 0, 0, 0⟩

def Cnt.show (c : Cnt) : String := s!"{c.br}:{c.bs}:{c.pr}:{c.ps}"

def condHolds (c : Option Cond) (f : DB.Flow) : Bool :=
  match c with
  | none => true
  | some c =>
    if c.attr == "sip" then f.sip == c.val
    else if c.attr == "dip" then f.dip == c.val
    else if c.attr == "dport" then toString f.dport == c.val
    else toString f.proto == c.val

/-- rendered key of a flow of the block written at `ts`: the queried attributes in the order
    time, sip, dip, dport, proto -/
def keyOf (q : Query) (ts : Int) (f : DB.Flow) : String :=
  ":".intercalate ((if q.time then [toString ts] else []) ++ (if q.sip then [f.sip] else []) ++
    (if q.dip then [f.dip] else []) ++ (if q.dport then [toString f.dport] else []) ++
    (if q.proto then [toString f.proto] else []))

abbrev Table := List (String × Cnt)

def Table.add (t : Table) (k : String) (c : Cnt) : Table :=
  match t with
  | [] => [(k, c)]
  | (k', c') :: rest => if k' == k then (k', c'.add c) :: rest else (k', c') :: Table.add rest k c

def Table.get (t : Table) (k : String) : Option Cnt := (t.find? (·.1 == k)).map (·.2)

def inRange (q : Query) (w : DB.WriteOut) : Bool := q.first ≤ w.ts && w.ts ≤ q.last

/-- the walk selects a day directory if it overlaps the range (one write interval of slack at the end) -/
def daySelected (q : Query) (day : Int) : Bool := q.first < day + 86400 && day < q.last + 300

/-- what the given write-outs contribute to the query -/
def expected (q : Query) (ws : List DB.WriteOut) : Table :=
  ws.foldl (fun t w =>
    if inRange q w then
      w.flows.foldl (fun t f => if condHolds q.cond f then t.add (keyOf q w.ts f) ⟨f.br, f.bs, f.pr, f.ps⟩ else t) t
    else t) []

def renderRow (kc : String × Cnt) : String := kc.1 ++ "/" ++ kc.2.show

def dedup : List Int → List Int
  | [] => []
  | x :: xs => if xs.contains x then dedup xs else x :: dedup xs

/-! ### observed output -/

structure Observed where
  rows : Table          -- as printed (a key may occur twice: IPv4 and IPv6 keys can render alike)
  totals : Cnt
  hits : Nat
  stats : List Nat      -- loaded, decompressed, processed, corrupted, directories, workloads
  deriving Repr

def parseCnt (s : String) : Option Cnt :=
  match s.splitOn ":" with
  | [a, b, c, d] => do some ⟨← Wire.parseNat a, ← Wire.parseNat b, ← Wire.parseNat c, ← Wire.parseNat d⟩
  | _ => none

def parseRow (s : String) : Option (String × Cnt) :=
  match s.splitOn "/" with
  | [k, c] => do some (k, ← parseCnt c)
  | _ => none

def parseObserved (out : String) : Option Observed :=
  match out.splitOn "|" with
  | [r, t, h, s] => do
    let rows ← (Wire.listField (← DB.getField [r] "rows")).mapM parseRow
    let totals ← parseCnt (← DB.getField [t] "totals")
    let hits ← Wire.parseNat (← DB.getField [h] "hits")
    let stats ← ((← DB.getField [s] "stats").splitOn ":").mapM Wire.parseNat
    some ⟨rows, totals, hits, stats⟩
  | _ => none

/-- all printed rows with the same key added up -/
def collapse (rows : Table) : Table := rows.foldl (fun t kc => t.add kc.1 kc.2) []

/-! ### judge -/

def judgeParsed (q : Query) (hist : List DB.WriteOut) (damaged : List Int) (big : Bool) (out0 : String) : String :=
  -- the reader process also lists the interfaces over the queried range (`ReadMetadata`): whatever
  -- the files hold, that may fail but must not crash
  let parts := out0.splitOn " list="
  let out := parts.headD out0
  if parts.length == 2 && parts.getLast? != some "fine" then "violates:listing-crashed" else
  if out == "panic" then "violates:panic" else
  if out == "hang" then "violates:hang" else
  if out == "oom" then (if big then "violates:oom-huge-announced-length" else "violates:oom") else
  if out == "crash" then "violates:crash" else
  let days := dedup (hist.map fun w => DB.dayOf w.ts)
  let selDays := days.filter (daySelected q)
  let selDamaged := selDays.filter (damaged.contains ·)
  let undamaged := hist.filter fun w => !damaged.contains (DB.dayOf w.ts)
  let exp := expected q undamaged
  let undamagedBlocks := (undamaged.filter (inRange q)).length
  if out.startsWith "err:" then
    if selDays.length > selDamaged.length then "violates:query-fails"
    else if selDamaged.isEmpty then "violates:query-fails-nothing-selected"
    else "holds:all-selected-days-damaged"
  else
  match parseObserved out with
  | none => "violates:unreadable-output"
  | some o =>
    let sum := o.rows.foldl (fun a kc => a.add kc.2) Cnt.zero
    if o.hits != o.rows.length || sum != o.totals then "violates:totals-inconsistent" else
    match o.stats with
    | [_, _, processed, corrupted, dirs, _] =>
      if selDamaged.isEmpty then
        if DB.sortStrs (o.rows.map renderRow) != DB.sortStrs (exp.map renderRow) then "violates:intact-result-differs"
        else if corrupted != 0 then "violates:intact-blocks-counted-corrupted"
        else if processed != undamagedBlocks then "violates:intact-blocks-not-processed"
        else if dirs != selDays.length then "violates:intact-days-not-processed"
        else "holds"
      else
        let got := collapse o.rows
        if exp.any (fun kc => (got.get kc.1).isNone) then "violates:undamaged-row-missing"
        else if processed < undamagedBlocks then "violates:undamaged-blocks-not-processed"
        else if dirs < selDays.length - selDamaged.length then "violates:undamaged-days-not-processed"
        else if exp.all (fun kc => got.get kc.1 == some kc.2) && got.length == exp.length then "holds:damaged-days-yield-nothing"
        else "holds:damaged-days-yield-something"
    | _ => "violates:unreadable-output"

/-- case fields: attrs time cond first last history damaged big=<0|1> days oracle [ops]
    (`big`: some block descriptor announces a stored or raw length of 2^30 bytes or more) -/
def judge (args : List String) (out : String) : String :=
  match args with
  | attrs :: time :: cond :: first :: last :: hist :: damaged :: big :: _ =>
    match parseQuery attrs time cond first last, DB.parseHistory hist, Wire.intList damaged with
    | some q, some h, some d => judgeParsed q h d (big == "big=1") out
    | _, _, _ => "bad-case"
  | _ => "bad-case"

end C06
