import GoProbeModel.Spec.C01

/-!
C02 — databases are interchangeable between cgo and native compression builds.

A case is a C01 write history, the build configuration that WRITES it and the build
configuration that READS it back:

  `C02 <writer> <reader> <encoder> <level> <sessions>`

with configurations `cgo` (system liblz4 + libzstd), `nocgo` (CGO_ENABLED=0: both pure Go),
`noliblz4` (tag goprobe_noliblz4: pure-Go lz4, system zstd), `nolibzstd` (tag goprobe_nolibzstd:
system lz4, pure-Go zstd). `<sessions>` is C01's format: every column payload carries the raw
bytes and the bytes the WRITER's encoder produced for them.

Implementation output: `files=<the 8 column files the writer left, hex> blocks=… totals=…`
(the view of a fresh reader of the READER configuration), as in C01.

The spec does not care about configurations at all — that is the property: whatever build wrote
and whatever build reads, the reader must see exactly the blocks of the accepted sessions.
-/
namespace C02

def configs : List String := ["cgo", "nocgo", "noliblz4", "nolibzstd"]

/-- judge: the reader's view must equal the spec view of the history (C01.specView), for every
    writer/reader pair -/
def judge (args : List String) (out : String) : String :=
  match args with
  | [w, r, enc, lvl, sess] =>
    if ¬ (configs.contains w ∧ configs.contains r) then "violates:unknown-configuration"
    else C01.judge [enc, lvl, sess] out
  | _ => "violates:bad-op"

end C02
