import GoProbeModel.Base.Wire

/-!
C27 — capture reconfiguration: data types, the executable *spec* (written from the property text:
which interfaces a configuration selects and with which parameters, what a write-out must contain),
wire parsing/printing and the spec judge. Nothing here depends on `Gen/*` or `Model/*`.

A configuration is either auto-detection (all host links except the excluded ones, default
parameters) or a list of entries `key ↦ parameters`, a key being an interface name or a regular
expression between slashes. The regular-expression library is a *parameter* (`Rx`): which patterns
compile and which names they match. The executable judge instantiates it with a small matcher for
the pattern subset the harness generates (literals, `.`, `x*`, `^`, `$`).

What the judge checks on the implementation's observed output, operation by operation:
* a rejected update is rejected for a reason the spec lists (`errKinds`), an accepted one has none;
* after an accepted update every host link is in a state the configuration explains (`outcomeOk`:
  running with the parameters of its own entry, else of *a* matching regexp entry, not disabled),
  nothing else runs, `Config()` reports the parameters the captures really run with and no capture
  is leaked; the documented choice rule (`select`: smallest matching pattern) is one such state —
  another choice is accepted (`holds:other-choice-rule`) as long as it is a *function* of
  (configuration as a map, interface) within the case and across the repetitions of the case;
* every packet delivered to a running capture is in exactly one write-out, at the latest in the
  one of the update / Close that stops the capture (`settleWO`).
-/
namespace C27

abbrev Name := String

/-! ### parameters of one capture -/

structure Params where
  promisc : Bool := false
  vlan : Bool := false
  /-- kernel ring buffer: block size × number of blocks (`none`: not configured) -/
  ring : Option (Int × Int) := none
  /-- number of extra BPF instructions (the harness builds the k-instruction filter) -/
  bpf : Nat := 0
  disable : Bool := false
deriving DecidableEq, Repr, Inhabited

/-- `DefaultCaptureConfig()`: what auto-detected interfaces run with -/
def defaultParams : Params := { ring := some (1048576, 4) }

/-- documented validity: a disabled entry carries no other setting; an enabled one has a ring
    buffer with positive sizes -/
def validParams (p : Params) : Bool :=
  if p.disable then p.ring.isNone && p.bpf == 0 && !p.promisc && !p.vlan
  else match p.ring with
    | none => false
    | some (a, b) => decide (a > 0) && decide (b > 0)

abbrev Entries := List (String × Params)

inductive Config where
  | auto (exclude : List String)
  | ifaces (es : Entries)
deriving Repr, Inhabited

/-- the regular-expression library as a parameter -/
structure Rx where
  valid : String → Bool
  hit : String → Name → Bool

/-- a key is a regular expression iff it is a pattern enclosed in two slashes -/
def isRe (k : String) : Bool :=
  decide (k.length > 1) && k.toList.head? == some '/' && k.toList.getLast? == some '/'

/-- the pattern between the slashes -/
def pat (k : String) : String := String.ofList ((k.toList.drop 1).dropLast)

/-! ### the spec: which parameters a configuration selects for an interface -/

/-- keep the entry with the smaller pattern -/
def better (best : Option (String × Params)) (e : String × Params) : Option (String × Params) :=
  match best with
  | none => some e
  | some b => if pat e.1 < pat b.1 then some e else some b

/-- the entry with the smallest pattern (see `Props/C27.lean`: `minEntry_mem`, `minEntry_le`) -/
def minEntry (l : List (String × Params)) : Option (String × Params) := l.foldl better none

/-- **the choice rule**: an explicitly named interface uses its own entry; otherwise, among the
    regexp entries whose pattern matches, the one with the lexicographically smallest pattern -/
def select (rx : Rx) (es : Entries) (n : Name) : Option Params :=
  match es.find? (fun e => !isRe e.1 && e.1 == n) with
  | some e => some e.2
  | none => (minEntry (es.filter fun e => isRe e.1 && rx.hit (pat e.1) n)).map (·.2)

/-- excluded from auto-detection: named, or matched by an exclusion pattern -/
def excluded (rx : Rx) (ex : List String) (n : Name) : Bool :=
  ex.any fun k => if isRe k then rx.hit (pat k) n else k == n

/-- the parameters interface `n` is to be captured with under the configuration (`none`: it is not
    to be captured) -/
def want (rx : Rx) : Config → Name → Option Params
  | .auto ex, n => if excluded rx ex n then none else some defaultParams
  | .ifaces es, n =>
    match select rx es n with
    | some p => if p.disable then none else some p
    | none => none

/-- the parameters that *some* deterministic choice could select for `n`: those of its own entry,
    otherwise those of any matching regexp entry -/
def admissible (rx : Rx) : Config → Name → List Params
  | .auto ex, n => if excluded rx ex n then [] else [defaultParams]
  | .ifaces es, n =>
    match es.find? (fun e => !isRe e.1 && e.1 == n) with
    | some e => [e.2]
    | none => (es.filter fun e => isRe e.1 && rx.hit (pat e.1) n).map (·.2)

/-- is the observed state of interface `n` (running with `p` / not running) explained by the
    configuration under some choice among the matching entries? -/
def outcomeOk (rx : Rx) (cfg : Config) (n : Name) : Option Params → Bool
  | some p => (admissible rx cfg n).contains p && !p.disable
  | none => (admissible rx cfg n).isEmpty || (admissible rx cfg n).any (·.disable)

def dedup : List Name → List Name
  | [] => []
  | x :: xs => if xs.contains x then dedup xs else x :: dedup xs

def insertName (x : Name) : List Name → List Name
  | [] => [x]
  | y :: ys => if x ≤ y then x :: y :: ys else y :: insertName x ys

/-- insertion sort (byte-wise order of names, as Go's `sort.Strings`) -/
def sortNames (xs : List Name) : List Name := xs.foldr insertName []

/-- **the target**: the host links the configuration selects, each with its parameters (sorted) -/
def target (rx : Rx) (cfg : Config) (links : List Name) : List (Name × Params) :=
  (sortNames (dedup links)).filterMap fun n => (want rx cfg n).map fun p => (n, p)

/-- reasons for which the configuration may be rejected (empty: it must be accepted) -/
def errKinds (rx : Rx) (cfg : Config) (linkErr : Bool) : List String :=
  match cfg with
  | .auto ex =>
    (if ex.any (fun k => isRe k && !rx.valid (pat k)) then ["regexp"] else []) ++
    (if linkErr then ["links"] else [])
  | .ifaces es =>
    (if es.isEmpty || es.any (fun e => !validParams e.2) then ["config"] else []) ++
    (if es.any (fun e => isRe e.1 && !rx.valid (pat e.1)) then ["regexp"] else []) ++
    (if linkErr && es.any (fun e => isRe e.1) then ["links"] else [])

/-! ### the concrete matcher used by the executable judge and model
(unanchored search like Go's `MatchString`; literals, `.`, `x*`, leading `^`, trailing `$`) -/

def rxHere : Nat → List Char → List Char → Bool
  | 0, _, _ => false
  | _ + 1, [], _ => true
  | _ + 1, ['$'], t => t.isEmpty
  | fuel + 1, c :: '*' :: r, t =>
    rxHere fuel r t ||
      (match t with
       | x :: xs => (c == '.' || c == x) && rxHere fuel (c :: '*' :: r) xs
       | [] => false)
  | fuel + 1, c :: r, x :: xs => (c == '.' || c == x) && rxHere fuel r xs
  | _ + 1, _ :: _, [] => false

def rxSearch (fuel : Nat) (p : List Char) : List Char → Bool
  | [] => rxHere fuel p []
  | x :: xs => rxHere fuel p (x :: xs) || rxSearch fuel p xs

def rxGoMatches (p : String) (n : Name) : Bool :=
  let fuel := 2 * (p.length + n.length) + 4
  match p.toList with
  | '^' :: r => rxHere fuel r n.toList
  | r => rxSearch fuel r n.toList

/-- patterns outside the subset are never generated, except the unbalanced `[` -/
def rxGoValid (p : String) : Bool := !p.toList.contains '['

def rxGo : Rx := ⟨rxGoValid, rxGoMatches⟩

/-! ### wire: parameters, configurations, operations -/

def showParams (p : Params) : String :=
  "p" ++ Wire.boolStr p.promisc ++ "v" ++ Wire.boolStr p.vlan ++ "r" ++
  (match p.ring with
   | none => "N"
   | some (a, b) => toString a ++ "x" ++ toString b) ++
  "f" ++ toString p.bpf ++ "d" ++ Wire.boolStr p.disable

def parseRing (s : String) : Option (Option (Int × Int)) :=
  if s == "N" then some none else
  match s.splitOn "x" with
  | [a, b] =>
    match a.toInt?, b.toInt? with
    | some a, some b => some (some (a, b))
    | _, _ => none
  | _ => none

def parseParams (s : String) : Option Params :=
  match s.toList with
  | 'p' :: a :: 'v' :: b :: 'r' :: rest =>
    match Wire.parseBool (String.ofList [a]), Wire.parseBool (String.ofList [b]) with
    | some pa, some vb =>
      match (String.ofList rest).splitOn "f" with
      | [ring, tl] =>
        match tl.splitOn "d" with
        | [k, d] =>
          match parseRing ring, k.toNat?, Wire.parseBool d with
          | some r, some k, some d => some { promisc := pa, vlan := vb, ring := r, bpf := k, disable := d }
          | _, _, _ => none
        | _ => none
      | _ => none
    | _, _ => none
  | _ => none

/-- a Go map: a later entry with the same key replaces the earlier one -/
def upsert (es : Entries) (k : String) (p : Params) : Entries :=
  if es.any (·.1 == k) then es.map (fun e => if e.1 == k then (k, p) else e) else es ++ [(k, p)]

def parseEntries : List String → Entries → Option Entries
  | [], acc => some acc
  | e :: rest, acc =>
    match e.splitOn "=" with
    | [k, p] =>
      match parseParams p with
      | some p => parseEntries rest (upsert acc k p)
      | none => none
    | _ => none

def parseConfig (s : String) : Option Config :=
  if s == "-" then some (.ifaces [])
  else if s == "A" then some (.auto [])
  else if s.startsWith "A," then some (.auto ((s.splitOn ",").drop 1))
  else (parseEntries (s.splitOn ",") []).map .ifaces

inductive Op where
  | upd (cfg : Config) (late : Option (Name × Nat × Nat))
  | pkt (iface : Name) (flow n : Nat)
  | rot
  | linkErr (b : Bool)
  | close
deriving Repr, Inhabited

def parseOp (s : String) : Option Op :=
  match s.splitOn ";" with
  | ["U", c] => (parseConfig c).map (Op.upd · none)
  | ["U", c, "late", i, f, n] =>
    match parseConfig c, f.toNat?, n.toNat? with
    | some c, some f, some n => some (.upd c (some (i, f, n)))
    | _, _, _ => none
  | ["P", i, f, n] =>
    match f.toNat?, n.toNat? with
    | some f, some n => some (.pkt i f n)
    | _, _ => none
  | ["R"] => some .rot
  | ["E", b] => (Wire.parseBool b).map .linkErr
  | ["X"] => some .close
  | _ => none

def parseLinks (s : String) : Option (List Name) :=
  if s.startsWith "L=" then some (Wire.listField (String.ofList (s.toList.drop 2))) else none

def parseCase (args : List String) : Option (List Name × List Op) :=
  match args with
  | l :: ops =>
    match parseLinks l, ops.mapM parseOp with
    | some l, some ops => some (l, ops)
    | _, _ => none
  | [] => none

/-! ### wire: results -/

/-- the flows of one write-out entry: flow id ↦ packets -/
abbrev Flows := List (Nat × Nat)

def sortFlows (fs : Flows) : Flows := fs.mergeSort (fun a b => decide (a.1 ≤ b.1))

def showFlows (fs : Flows) : String :=
  "{" ++ ",".intercalate ((sortFlows fs).map fun f => toString f.1 ++ ":" ++ toString f.2) ++ "}"

def showWO (wo : List (Name × Flows)) : String :=
  Wire.showList ((wo.mergeSort (fun a b => decide (a.1 ≤ b.1))).map fun e => e.1 ++ showFlows e.2)

/-- one running capture as reported: name, parameters of the capture, parameters `Config()` reports -/
def showRunEntry (e : Name × Params × Option Params) : String :=
  e.1 ++ "=" ++ showParams e.2.1 ++
  (match e.2.2 with
   | none => "~none"
   | some r => if r == e.2.1 then "" else "~" ++ showParams r)

def showRun (run : List (Name × Params × Option Params)) : String :=
  Wire.showList ((run.mergeSort (fun a b => decide (a.1 ≤ b.1))).map showRunEntry)

def showNames (ns : List Name) : String := Wire.showList (sortNames ns)

structure UpdOut where
  en : List Name
  up : List Name
  dis : List Name
  run : List (Name × Params × Option Params)
  wo : List (Name × Flows)
  late : Option Bool

def showUpd (o : UpdOut) : String :=
  "ok en=" ++ showNames o.en ++ " up=" ++ showNames o.up ++ " dis=" ++ showNames o.dis ++
  " run=" ++ showRun o.run ++ " wo=" ++ showWO o.wo ++
  (match o.late with
   | none => ""
   | some b => " late=" ++ Wire.boolStr b)

/-- what the judge reads back from one result -/
structure RunObs where
  name : Name
  actual : Params
  reported : Option Params
  srcOk : Bool

def parseFlow (s : String) : Option (Nat × Nat) :=
  match s.splitOn ":" with
  | [a, b] =>
    match a.toNat?, b.toNat? with
    | some a, some b => some (a, b)
    | _, _ => none
  | _ => none

/-- `eth0{1:2,3:1}` -/
def parseWOEntry (s : String) : Option (Name × Flows) :=
  match s.splitOn "{" with
  | [n, r] =>
    match r.splitOn "}" with
    | [body, ""] =>
      if body == "" then some (n, []) else
      ((body.splitOn ",").mapM parseFlow).map fun fs => (n, fs)
    | _ => none
  | _ => none

/-- the write-out list: entries are separated by commas, and so are the flows inside the braces -/
def splitWO (s : String) : List String :=
  if s == "-" then [] else
  let rec go : List Char → List Char → Bool → List String → List String
    | [], cur, _, acc => (String.ofList cur.reverse :: acc).reverse
    | c :: r, cur, inside, acc =>
      if c == ',' && !inside then go r [] false (String.ofList cur.reverse :: acc)
      else go r (c :: cur) (if c == '{' then true else if c == '}' then false else inside) acc
  go s.toList [] false []

def parseWO (s : String) : Option (List (Name × Flows)) := (splitWO s).mapM parseWOEntry

def parseRunEntry (s : String) : Option RunObs :=
  let (s, srcOk) := if s.endsWith "!src" then (String.ofList (s.toList.take (s.length - 4)), false) else (s, true)
  match s.splitOn "=" with
  | [n, r] =>
    match r.splitOn "~" with
    | [a] => (parseParams a).map fun a => ⟨n, a, some a, srcOk⟩
    | [a, "none"] => (parseParams a).map fun a => ⟨n, a, none, srcOk⟩
    | [a, b] =>
      match parseParams a, parseParams b with
      | some a, some b => some ⟨n, a, some b, srcOk⟩
      | _, _ => none
    | _ => none
  | _ => none

def parseRun (s : String) : Option (List RunObs) := (Wire.listField s).mapM parseRunEntry

/-- the value of `key=` among space separated fields -/
def fieldOf (fs : List String) (key : String) : Option String :=
  (fs.find? (·.startsWith (key ++ "="))).map fun f => String.ofList (f.toList.drop (key.length + 1))

/-! ### the judge -/

structure JState where
  linkErr : Bool := false
  /-- the running captures as last observed: name ↦ parameters -/
  running : List (Name × Params) := []
  /-- per interface: flows delivered to the running capture and not yet written out -/
  pending : List (Name × Flows) := []
  /-- violations seen so far (in order) -/
  bad : List String := []
  /-- remarks that are not violations -/
  notes : List String := []
  /-- parameters observed so far per (configuration as a map, interface) -/
  choices : List (String × Name × Option Params) := []

def addFlow (fs : Flows) (f n : Nat) : Flows :=
  if fs.any (·.1 == f) then fs.map (fun e => if e.1 == f then (f, e.2 + n) else e) else fs ++ [(f, n)]

def pendingOf (st : JState) (i : Name) : Flows :=
  match st.pending.find? (·.1 == i) with
  | some e => e.2
  | none => []

def setPending (st : JState) (i : Name) (fs : Flows) : JState :=
  { st with pending := (st.pending.filter (·.1 != i)) ++ (if fs.isEmpty then [] else [(i, fs)]) }

def flag (st : JState) (v : String) : JState := { st with bad := st.bad ++ [v] }

def note (st : JState) (v : String) : JState := { st with notes := st.notes ++ [v] }

/-- a configuration as a map: its entries in sorted order -/
def cfgKey : Config → String
  | .auto ex => "A," ++ ",".intercalate (sortNames ex)
  | .ifaces es => ",".intercalate (sortNames (es.map fun e => e.1 ++ "=" ++ showParams e.2))

/-- the same (configuration, interface) must always get the same outcome -/
def recordChoices (st : JState) (cfg : Config) (obs : List (Name × Option Params)) : JState :=
  let k := cfgKey cfg
  obs.foldl (fun st o =>
    match st.choices.find? (fun c => c.1 == k && c.2.1 == o.1) with
    | some c => if c.2.2 == o.2 then st else flag st "nondeterministic"
    | none => { st with choices := (k, o.1, o.2) :: st.choices }) st

def sameFlows (a b : Flows) : Bool := sortFlows a == sortFlows b

/-- account for the write-out entries of one operation: an interface named in it must hand over
    exactly what is pending for it; `must` lists the interfaces that have to be written out now -/
def settleWO (st : JState) (wo : List (Name × Flows)) (must : List Name) : JState :=
  let st := wo.foldl (fun st e =>
    let pend := pendingOf st e.1
    let st := if sameFlows pend e.2 then st
      else if (sortFlows e.2).all (fun f => (sortFlows pend).contains f) || e.2.isEmpty then flag st "writeout-incomplete"
      else flag st "writeout-content"
    setPending st e.1 []) st
  must.foldl (fun st i =>
    if (pendingOf st i).isEmpty then st else setPending (flag st "final-writeout-missing") i []) st

def judgeUpd (rx : Rx) (links : List Name) (st : JState) (cfg : Config)
    (late : Option (Name × Nat × Nat)) (res : String) : Option JState :=
  let kinds := errKinds rx cfg st.linkErr
  if res.startsWith "err:" then
    let k := String.ofList (res.toList.drop 4)
    if kinds.contains k then some st
    else if kinds.isEmpty then some (flag st "valid-config-rejected")
    else some (flag st "wrong-rejection-reason")
  else
  let fs := Wire.fields res
  if fs.head? != some "ok" then none else
  match fieldOf fs "en", fieldOf fs "up", fieldOf fs "dis", (fieldOf fs "run").bind parseRun,
        (fieldOf fs "wo").bind parseWO with
  | some _, some up, some dis, some run, some wo =>
    let st := if kinds.isEmpty then st else flag st "invalid-config-accepted"
    let tgt := target rx cfg links
    let obs : List (Name × Params) := run.map fun r => (r.name, r.actual)
    -- convergence: every host link is in a state the configuration explains, nothing else runs;
    -- the documented choice rule (`target`) is one such state, any other must be a *function* of
    -- (configuration, name), see `recordChoices`
    let ls := sortNames (dedup links)
    let outcome : Name → Option Params := fun n => (obs.find? (·.1 == n)).map (·.2)
    let st :=
      if obs.any (fun o => !ls.contains o.1) || (dedup (obs.map (·.1))).length != obs.length then
        flag st "running-set"
      else match ls.find? (fun n => !outcomeOk rx cfg n (outcome n)) with
        | some n =>
          match outcome n with
          | none => flag st "running-set"
          | some p =>
            if !(admissible rx cfg n).any (fun q => !q.disable) then flag st "running-set"
            else if st.running.contains (n, p) then flag st "change-not-applied"
            else flag st "wrong-params"
        | none => if obs != tgt then note st "other-choice-rule" else st
    let st := recordChoices st cfg (ls.map fun n => (n, outcome n))
    let st := if run.any (fun r => r.reported != some r.actual) then flag st "reported-config-differs" else st
    let st := if run.any (fun r => !r.srcOk) || (fieldOf fs "leak").isSome then flag st "capture-leak" else st
    -- write-out: every capture that stops (removed, or restarted with other parameters, or reported
    -- as updated / disabled by the implementation) must have handed over everything it recorded
    let stopped := st.running.filter fun r => !obs.contains r
    let must := dedup (stopped.map (·.1) ++ Wire.listField up ++ Wire.listField dis)
    let st := settleWO st wo must
    -- packets captured after the final write-out of a capture that then stops are never written
    let st :=
      match late, fieldOf fs "late" with
      | some (i, f, n), some "1" =>
        if must.contains i then flag st "lost-after-final-writeout"
        else setPending st i (addFlow (pendingOf st i) f n)
      | _, _ => st
    some { st with running := obs }
  | _, _, _, _, _ => none

def judgeOp (rx : Rx) (links : List Name) (st : JState) (op : Op) (res : String) : Option JState :=
  match op with
  | .upd cfg late => judgeUpd rx links st cfg late res
  | .pkt i f n =>
    let live := st.running.any (·.1 == i)
    if res == "ok" then
      some (setPending (if live then st else flag st "traffic-on-stopped-capture") i (addFlow (pendingOf st i) f n))
    else if res == "none" then some (if live then flag st "running-capture-has-no-source" else st)
    else none
  | .rot =>
    match (fieldOf (Wire.fields res) "wo").bind parseWO with
    | some wo => some (settleWO st wo (st.running.map (·.1)))
    | none => none
  | .linkErr b => if res == "ok" then some { st with linkErr := b } else none
  | .close =>
    let fs := Wire.fields res
    match (fieldOf fs "wo").bind parseWO, (fieldOf fs "run").bind parseRun with
    | some wo, some run =>
      let st := settleWO st wo (st.running.map (·.1))
      let st := if run.isEmpty then st else flag st "running-after-close"
      let st := if (fieldOf fs "leak").isSome then flag st "capture-leak" else st
      some { st with running := run.map fun r => (r.name, r.actual) }
    | _, _ => none

def judgeOps (rx : Rx) (links : List Name) : JState → List Op → List String → Option JState
  | st, [], [] => some st
  | st, op :: ops, r :: rs =>
    match judgeOp rx links st op r with
    | some st => judgeOps rx links st ops rs
    | none => none
  | _, _, _ => none

/-- spec verdict on an observed implementation output (the results of the operations joined by
    " | "). The loss of packets that arrive after the final write-out is reported only if nothing
    else is wrong in the case. -/
def judge (args : List String) (out : String) : String :=
  match parseCase args with
  | none => "bad-case"
  | some (links, ops) =>
    if out == "panic" then "violates:panic"
    else if out.startsWith "nondet:" then "violates:nondeterministic"
    else
    match judgeOps rxGo links {} ops (out.splitOn " | ") with
    | none => "unreadable-output"
    | some st =>
      match st.bad.filter (· != "lost-after-final-writeout") with
      | v :: _ => "violates:" ++ v
      | [] =>
        if !st.bad.isEmpty then "violates:lost-after-final-writeout"
        else match st.notes with
          | n :: _ => "holds:" ++ n
          | [] => "holds"

end C27
