import GoProbeModel.Base.Wire

/-!
C17 — JSON round trips: value terms, the equivalence the property speaks about, the executable
*spec* of the enumerations (member ranges and names, written down here independently of the code)
and the spec judge. Nothing here depends on `Gen/*` or on how the codec works.

Wire format of a value (one field of the case line, tokens separated by `,`, prefix notation):
  `i<int>`  any integer kind (ints, durations, enumeration members)
  `s<esc>`  string, %-escaped (`s-` = empty)            `b0` / `b1`  bool
  `t<unix sec>:<nsec>:<zone offset sec>`  time.Time      `a<esc>`  netip.Addr (`a-` = zero Addr)
  `n`  nil pointer / slice / map                         `p` v  non-nil pointer
  `l<k>` v₁ … v_k  slice                                 `m<k>` `k<esc>` v₁ …  map (sorted by escaped key)
  `o<Type>:<k>` `f<Field>` v₁ …  struct (JSON-visible fields in declaration order, embedded
                                 structs spliced in)
-/
namespace C17

inductive Val where
  | int (i : Int)
  | str (s : String)            -- kept in escaped wire form (opaque to the codec)
  | bool (b : Bool)
  | time (sec nsec off : Int)
  | addr (s : String)           -- escaped text of the address, "-" = zero Addr
  | nil
  | ptr (v : Val)
  | list (xs : List Val)
  | map (kvs : List (String × Val))
  | obj (name : String) (fs : List (String × Val))
  deriving Inhabited

/-! ### parsing / printing -/

def parseSeq (p : List String → Option (Val × List String)) : Nat → List String → Option (List Val × List String)
  | 0, ts => some ([], ts)
  | k + 1, ts => do
    let (v, r) ← p ts
    let (vs, r') ← parseSeq p k r
    some (v :: vs, r')

def parseKeyed (tag : Char) (p : List String → Option (Val × List String)) :
    Nat → List String → Option (List (String × Val) × List String)
  | 0, ts => some ([], ts)
  | _ + 1, [] => none
  | k + 1, t :: ts =>
    if t.front ≠ tag then none else do
    let (v, r) ← p ts
    let (vs, r') ← parseKeyed tag p k r
    some ((t.drop 1 |>.toString, v) :: vs, r')

def parseTime (s : String) : Option Val :=
  match s.splitOn ":" with
  | [a, b, c] => do some (Val.time (← Wire.parseInt a) (← Wire.parseInt b) (← Wire.parseInt c))
  | _ => none

def parseVal : Nat → List String → Option (Val × List String)
  | 0, _ => none
  | _, [] => none
  | fuel + 1, t :: ts =>
    let body := (t.drop 1).toString
    match t.front with
    | 'i' => (Wire.parseInt body).map fun i => (Val.int i, ts)
    | 's' => some (Val.str body, ts)
    | 'b' => (Wire.parseBool body).map fun b => (Val.bool b, ts)
    | 't' => (parseTime body).map fun v => (v, ts)
    | 'a' => some (Val.addr body, ts)
    | 'n' => if body.isEmpty then some (Val.nil, ts) else none
    | 'p' => if body.isEmpty then (parseVal fuel ts).map fun (v, r) => (Val.ptr v, r) else none
    | 'l' => do
      let k ← Wire.parseNat body
      let (vs, r) ← parseSeq (parseVal fuel) k ts
      some (Val.list vs, r)
    | 'm' => do
      let k ← Wire.parseNat body
      let (kvs, r) ← parseKeyed 'k' (parseVal fuel) k ts
      some (Val.map kvs, r)
    | 'o' =>
      match body.splitOn ":" with
      | [name, k] => do
        let k ← Wire.parseNat k
        let (fs, r) ← parseKeyed 'f' (parseVal fuel) k ts
        some (Val.obj name fs, r)
      | _ => none
    | _ => none

def parseTerm (s : String) : Option Val :=
  match parseVal 64 (s.splitOn ",") with
  | some (v, []) => some v
  | _ => none

mutual
def showVal : Val → List String
  | .int i => ["i" ++ toString i]
  | .str s => ["s" ++ s]
  | .bool b => ["b" ++ Wire.boolStr b]
  | .time s n o => ["t" ++ toString s ++ ":" ++ toString n ++ ":" ++ toString o]
  | .addr a => ["a" ++ a]
  | .nil => ["n"]
  | .ptr v => "p" :: showVal v
  | .list xs => ("l" ++ toString xs.length) :: showVals xs
  | .map kvs => ("m" ++ toString kvs.length) :: showKeyed "k" kvs
  | .obj name fs => ("o" ++ name ++ ":" ++ toString fs.length) :: showKeyed "f" fs
def showVals : List Val → List String
  | [] => []
  | v :: vs => showVal v ++ showVals vs
def showKeyed (tag : String) : List (String × Val) → List String
  | [] => []
  | (k, v) :: kvs => (tag ++ k) :: (showVal v ++ showKeyed tag kvs)
end

def showTerm (v : Val) : String := ",".intercalate (showVal v)

/-! ### the equivalence of the property: instants equal (zone ignored), addresses equal,
counters / strings / flags equal, nil and empty collections identified; `none` = equivalent,
`some path` = first field that differs -/

def joinPath (p f : String) : String := if p.isEmpty then f else p ++ "." ++ f

mutual
def diff (p : String) : Val → Val → Option String
  | .int a, .int b => if a = b then none else some p
  | .str a, .str b => if a = b then none else some p
  | .bool a, .bool b => if a = b then none else some p
  | .time s n _, .time s' n' _ => if s = s' ∧ n = n' then none else some p
  | .addr a, .addr b => if a = b then none else some p
  | .nil, .nil => none
  | .nil, .list [] => none
  | .list [], .nil => none
  | .nil, .map [] => none
  | .map [], .nil => none
  | .ptr a, .ptr b => diff p a b
  | .list xs, .list ys => diffList (p ++ "[]") xs ys
  | .map xs, .map ys => diffKeyed true p xs ys
  | .obj n fs, .obj n' fs' => if n = n' then diffKeyed false p fs fs' else some p
  | _, _ => some p
def diffList (p : String) : List Val → List Val → Option String
  | [], [] => none
  | x :: xs, y :: ys => (diff p x y).orElse fun _ => diffList p xs ys
  | _, _ => some p
def diffKeyed (isMap : Bool) (p : String) : List (String × Val) → List (String × Val) → Option String
  | [], [] => none
  | (k, x) :: xs, (k', y) :: ys =>
    if k = k' then (diff (if isMap then p ++ "{}" else joinPath p k) x y).orElse fun _ => diffKeyed isMap p xs ys
    else some p
  | _, _ => some p
end

/-! ### the enumerations, as the specification sees them (independent of the code) -/

inductive Kind where | dir | sort
  deriving DecidableEq

def parseKind (s : String) : Option Kind :=
  if s == "dir" then some .dir else if s == "sort" then some .sort else none

/-- members of `types.Direction`: 0..4; of `results.SortOrder`: 0..3 -/
def isMember : Kind → Int → Bool
  | .dir, n => 0 ≤ n ∧ n ≤ 4
  | .sort, n => 0 ≤ n ∧ n ≤ 3

/-- the documented name of each member -/
def specName : Kind → Int → String
  | .dir, 1 => "sum" | .dir, 2 => "in" | .dir, 3 => "out" | .dir, 4 => "bi-directional"
  | .sort, 1 => "packets" | .sort, 2 => "bytes" | .sort, 3 => "time"
  | _, _ => "unknown"

def members : Kind → List Int
  | .dir => [0, 1, 2, 3, 4]
  | .sort => [0, 1, 2, 3]

/-- which struct fields hold an enumeration -/
def enumField (obj field : String) : Option Kind :=
  if obj == "Statement" ∧ field == "Direction" then some .dir
  else if obj == "Statement" ∧ field == "SortBy" then some .sort
  else none

/-! ### domain of the property: values a JSON document can carry -/

/-- RFC 3339 (what `time.Time` marshals to) carries years 0..9999 and zone offsets of whole
    minutes below 24 h -/
def timeInDomain (sec off : Int) : Bool :=
  -62167219200 ≤ sec + off ∧ sec + off < 253402300800 ∧ off % 60 = 0 ∧ -86400 < off ∧ off < 86400

mutual
def inDomain : Val → Bool
  | .time s _ o => timeInDomain s o
  | .ptr v => inDomain v
  | .list xs => inDomainList xs
  | .map kvs => inDomainKeyed "" kvs
  | .obj n fs => inDomainKeyed n fs
  | _ => true
def inDomainList : List Val → Bool
  | [] => true
  | v :: vs => inDomain v && inDomainList vs
def inDomainKeyed (objName : String) : List (String × Val) → Bool
  | [] => true
  | (k, v) :: kvs =>
    (match enumField objName k, v with
     | some kind, .int i => isMember kind i
     | _, _ => inDomain v) && inDomainKeyed objName kvs
end

/-! ### judge -/

def reasonPath (p : String) : String := if p.isEmpty then "value" else p

def judgeEnumBack (n : Int) (back : String) : String :=
  match Wire.parseInt back with
  | some b => if b = n then "holds" else "violates:enum-not-restored"
  | none => "violates:unparsable"

/-- spec verdict on an observed implementation output -/
def judge (args : List String) (out : String) : String :=
  match args with
  | ["enum", kind, n] =>
    match parseKind kind, Wire.parseInt n, Wire.fields out with
    | some kind, some n, [name, back] =>
      if !isMember kind n then "holds:not-a-member"
      else if Wire.unescape name ≠ specName kind n then "violates:enum-name"
      else judgeEnumBack n back
    | _, _, _ => "violates:unparsable"
  | ["enumjson", kind, _lib, _mode, n] =>
    match parseKind kind, Wire.parseInt n with
    | some kind, some n =>
      if !isMember kind n then "holds:not-a-member"
      else match Wire.fields out with
      | [text, back] =>
        if Wire.unescape text ≠ "\"" ++ specName kind n ++ "\"" then "violates:enum-json-not-name"
        else judgeEnumBack n back
      | [e] => if e.startsWith "err:" then "violates:roundtrip-error:" ++ (e.drop 4).toString else "violates:unparsable"
      | _ => "violates:unparsable"
    | _, _ => "violates:unparsable"
  | ["fromstr", kind, s] =>
    match parseKind kind, Wire.parseInt out with
    | some kind, some o =>
      match (members kind).find? (fun m => specName kind m == Wire.unescape s) with
      | some m => if o = m then "holds" else "violates:name-not-recognised"
      | none => "holds:not-a-name"
    | _, _ => "violates:unparsable"
  | ["rt", _ty, _lib, _mode, term] =>
    match parseTerm term with
    | none => "violates:bad-case"
    | some v =>
      if !inDomain v then "holds:outside-domain"
      else match Wire.fields out with
      | [e] => if e.startsWith "err:" then "violates:roundtrip-error:" ++ (e.drop 4).toString else "violates:unparsable"
      | [dec, _paths] =>
        match parseTerm dec with
        | none => "violates:unparsable"
        | some d =>
          match diff "" v d with
          | none => "holds"
          | some p => "violates:field-differs:" ++ reasonPath p
      | _ => "violates:unparsable"
  | _ => "violates:bad-op"

end C17
