import GoProbeModel.Base.Wire

/-!
C09 — conditions follow Boolean logic over per-flow comparisons: condition trees, flows, the
executable *spec* (`sem`, written from the property text and the goQuery help text, not from the
code), wire parsing and the spec judge. Nothing here depends on `Gen/*` or `Model/*`.

Values are carried in parsed form (address bytes, prefix length, number): turning text into a
value is C10's subject, and hostnames (DNS) are outside the property.
-/
namespace C09

/-- attributes a condition may name (core ones and the documented aliases) -/
inductive Attr where
  | sip | dip | snet | dnet | dport | proto
  | host | net | src | dst | port | protocol | ipproto
  deriving Repr, DecidableEq, Inhabited

inductive Cmp where
  | eq | ne | lt | gt | le | ge
  deriving Repr, DecidableEq, Inhabited

/-- a condition value: an address (4 or 16 bytes), a network (address bytes and prefix length) or
    a number (port, protocol) -/
inductive Val where
  | addr (bytes : List Nat)
  | net (bytes : List Nat) (pfx : Nat)
  | num (n : Nat)
  deriving Repr, DecidableEq, Inhabited

inductive Cond where
  | leaf (a : Attr) (c : Cmp) (v : Val)
  | not (x : Cond)
  | and (l r : Cond)
  | or (l r : Cond)
  deriving Repr, DecidableEq, Inhabited

/-- a flow as far as conditions can see it; the IP family is the length of its addresses -/
structure Flow where
  sip : List Nat
  dip : List Nat
  dport : Nat
  proto : Nat
  deriving Repr, DecidableEq, Inhabited

/-- a flow of one family: two IPv4 or two IPv6 addresses, every field in range -/
def Flow.WF (f : Flow) : Prop :=
  ((f.sip.length = 4 ∧ f.dip.length = 4) ∨ (f.sip.length = 16 ∧ f.dip.length = 16)) ∧
  (∀ b ∈ f.sip, b < 256) ∧ (∀ b ∈ f.dip, b < 256) ∧ f.dport < 65536 ∧ f.proto < 256

/-! ### executable spec -/

/-- an address as a number (big endian) -/
def beNat : List Nat → Nat
  | [] => 0
  | b :: bs => b * 256 ^ bs.length + beNat bs

/-- `ip` lies in the network `v/p`: both are addresses of the same family and they agree once the
    host bits (all but the first `p`) are dropped -/
def inNet (ip v : List Nat) (p : Nat) : Bool :=
  ip.length == v.length && beNat ip / 2 ^ (8 * v.length - p) == beNat v / 2 ^ (8 * v.length - p)

def cmpNat : Cmp → Nat → Nat → Bool
  | .eq, a, b => a == b
  | .ne, a, b => a != b
  | .lt, a, b => decide (a < b)
  | .gt, a, b => decide (a > b)
  | .le, a, b => decide (a ≤ b)
  | .ge, a, b => decide (a ≥ b)

/-- the positive match `attr = value` of an address / network attribute. List equality of the
    address bytes implies equal family. `host` is "source or destination", `net` likewise -/
def posMatch : Attr → Val → Flow → Bool
  | .sip, .addr v, f => f.sip == v
  | .src, .addr v, f => f.sip == v
  | .dip, .addr v, f => f.dip == v
  | .dst, .addr v, f => f.dip == v
  | .host, .addr v, f => f.sip == v || f.dip == v
  | .snet, .net v p, f => inNet f.sip v p
  | .dnet, .net v p, f => inNet f.dip v p
  | .net, .net v p, f => inNet f.sip v p || inNet f.dip v p
  | _, _, _ => false

/-- one comparison: numeric attributes compare as numbers; for addresses and networks `=` is the
    positive match and `!=` its exact complement -/
def semLeaf (a : Attr) (c : Cmp) (v : Val) (f : Flow) : Bool :=
  match a, v with
  | .dport, .num n => cmpNat c f.dport n
  | .port, .num n => cmpNat c f.dport n
  | .proto, .num n => cmpNat c f.proto n
  | .protocol, .num n => cmpNat c f.proto n
  | .ipproto, .num n => cmpNat c f.proto n
  | _, _ =>
    match c with
    | .eq => posMatch a v f
    | .ne => !posMatch a v f
    | _ => false

/-- **the spec**: the Boolean formula a condition denotes -/
def sem : Cond → Flow → Bool
  | .leaf a c v, f => semLeaf a c v f
  | .not x, f => !sem x f
  | .and l r, f => sem l f && sem r f
  | .or l r, f => sem l f || sem r f

/-- an address value: 4 or 16 bytes -/
def addrOK (b : List Nat) : Bool := (b.length == 4 || b.length == 16) && b.all (· < 256)

/-- which comparisons are conditions at all: `=`/`!=` on an address or a network whose prefix fits
    the family, any comparator on a port (16 bit) or protocol (8 bit) -/
def leafValid (a : Attr) (c : Cmp) (v : Val) : Bool :=
  match a, v with
  | .sip, .addr b | .dip, .addr b | .host, .addr b | .src, .addr b | .dst, .addr b =>
    (c == .eq || c == .ne) && addrOK b
  | .snet, .net b p | .dnet, .net b p | .net, .net b p =>
    (c == .eq || c == .ne) && addrOK b && decide (p ≤ 8 * b.length)
  | .dport, .num n | .port, .num n => decide (n < 65536)
  | .proto, .num n | .protocol, .num n | .ipproto, .num n => decide (n < 256)
  | _, _ => false

def valid : Cond → Bool
  | .leaf a c v => leafValid a c v
  | .not x => valid x
  | .and l r => valid l && valid r
  | .or l r => valid l && valid r

/-! ### names (shared with the model's rendering) and wire -/

def Attr.name : Attr → String
  | .sip => "sip" | .dip => "dip" | .snet => "snet" | .dnet => "dnet" | .dport => "dport" | .proto => "proto"
  | .host => "host" | .net => "net" | .src => "src" | .dst => "dst" | .port => "port"
  | .protocol => "protocol" | .ipproto => "ipproto"

def Attr.all : List Attr :=
  [.sip, .dip, .snet, .dnet, .dport, .proto, .host, .net, .src, .dst, .port, .protocol, .ipproto]

def Attr.ofName (s : String) : Option Attr := Attr.all.find? (·.name == s)

def Cmp.sym : Cmp → String
  | .eq => "=" | .ne => "!=" | .lt => "<" | .gt => ">" | .le => "<=" | .ge => ">="

def Cmp.all : List Cmp := [.eq, .ne, .lt, .gt, .le, .ge]

def Cmp.ofSym (s : String) : Option Cmp := Cmp.all.find? (·.sym == s)

def parseAddr (s : String) : Option (List Nat) :=
  match Wire.hexToBytes s with
  | some b => if b.length == 4 || b.length == 16 then some b else none
  | none => none

/-- value of a leaf, by the attribute's kind -/
def parseVal (a : Attr) (s : String) : Option Val :=
  match a with
  | .sip | .dip | .host | .src | .dst => (parseAddr s).map .addr
  | .snet | .dnet | .net =>
    match s.splitOn "/" with
    | [h, p] =>
      match parseAddr h, p.toNat? with
      | some b, some n => some (.net b n)
      | _, _ => none
    | _ => none
  | .dport | .port => s.toNat?.map .num
  | .proto | .protocol | .ipproto =>
    if s.startsWith "n" then (s.drop 1).toString.toNat?.map .num else s.toNat?.map .num

/-- `<attr><cmp><value>` -/
def parseLeaf (t : String) : Option Cond :=
  let cs := t.toList
  let a := cs.takeWhile Char.isLower
  let r := cs.dropWhile Char.isLower
  let isCmp := fun (c : Char) => c == '=' || c == '!' || c == '<' || c == '>'
  let c := r.takeWhile isCmp
  let v := r.dropWhile isCmp
  match Attr.ofName (String.ofList a), Cmp.ofSym (String.ofList c) with
  | some a, some c => (parseVal a (String.ofList v)).map (.leaf a c)
  | _, _ => none

/-- prefix notation; `fuel` bounds the recursion (the token count suffices) -/
def parseTree : Nat → List String → Option (Cond × List String)
  | 0, _ => none
  | _, [] => none
  | fuel + 1, t :: ts =>
    if t == "&" || t == "|" then
      match parseTree fuel ts with
      | some (l, rest) =>
        match parseTree fuel rest with
        | some (r, rest') => some (if t == "&" then .and l r else .or l r, rest')
        | none => none
      | none => none
    else if t == "!" then
      match parseTree fuel ts with
      | some (x, rest) => some (.not x, rest)
      | none => none
    else (parseLeaf t).map (·, ts)

def parseCond (s : String) : Option Cond :=
  let toks := Wire.listField s
  match parseTree (toks.length + 1) toks with
  | some (c, []) => some c
  | _ => none

/-- key bytes → flow: 11 bytes = IPv4, 35 bytes = IPv6 -/
def decodeKey (k : List Nat) : Option Flow :=
  if k.length == 11 then
    some { sip := k.take 4, dip := (k.drop 4).take 4, dport := k.getD 8 0 * 256 + k.getD 9 0, proto := k.getD 10 0 }
  else if k.length == 35 then
    some { sip := k.take 16, dip := (k.drop 16).take 16, dport := k.getD 32 0 * 256 + k.getD 33 0, proto := k.getD 34 0 }
  else none

def isErr (out : String) : Bool := out.startsWith "err:"

/-- spec verdict on the implementation's observed output for the case `<mode> <key> <cond>`:
    output `<0|1> <key bytes afterwards>[ arena-modified]`, `err:<kind>` or `panic` -/
def judge (args : List String) (out : String) : String :=
  match args with
  | [_mode, key, cond] =>
    match Wire.hexToBytes key, parseCond cond with
    | some k, some c =>
      match decodeKey k with
      | none => "bad-case:key"
      | some f =>
        if out == "panic" then "violates:panic"
        else if !valid c then (if isErr out then "holds:rejected" else "holds:malformed-condition-accepted")
        else if isErr out then "violates:valid-condition-rejected"
        else
          match Wire.fields out with
          | [b, k'] =>
            if k' != key then "violates:key-modified"
            else
              match Wire.parseBool b with
              | some r =>
                if r == sem c f then "holds"
                else if r then "violates:selected-but-formula-false" else "violates:not-selected-but-formula-true"
              | none => "bad-output"
          | [_, _, "arena-modified"] => "violates:key-modified"
          | _ => "bad-output"
    | _, _ => "bad-case:parse"
  | _ => "bad-case:fields"

end C09
