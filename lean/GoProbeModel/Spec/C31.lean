import GoProbeModel.Base.Wire

/-!
C31 — the query concurrency limit is never exceeded and never leaks: spec judge.

A case is one *burst* of real queries against one query runner (`eng` = engine.QueryRunner,
`dist` = the distributed runner of global-query) whose semaphore is a harness-owned
`chan struct{}` of capacity `cap`:

    C31 <runner> <mode> <cap> <held> <rel> <q1>,<q2>,…

* `held` slots are taken by the harness before the burst (queries "already running"), `rel` of
  them are given back in the last stage of the burst;
* every query is `<kind><p|i>`: `p`atient queries wait up to 8 s for a slot, `i`mpatient ones use
  the shortest configurable wait (keep-alive of a few ms). Kinds (what happens to the query):
  `ok` succeeds, `cx` context cancelled before the call, `cy` context cancelled while executing,
  `co` fails while executing (corrupt day directory), `ni` fails at interface selection inside
  RunStatement, `nd` fails at interface listing (database missing), `rf`/`an` host list cannot be
  resolved (distributed) — all of these pass the limit check first; `pr` (argument validation
  fails: bad condition), `nh` (no hosts), `nr` (unknown resolver) return before the limit check.
* mode `g` (gated): a query that reaches its execution phase is parked there by the harness (the
  harness-supplied context / querier blocks), so "executing" is observable and lasts as long as
  the harness wants. Stage 1 launches the patient queries and waits until min(free, parkable)
  are parked; stage 2 launches the impatient queries — at that point every slot is in use, so
  they are over the limit — and waits for their answers; stage 3 gives back `rel` slots, waits
  until the newly admitted queries are parked too, then lets everything run to completion.
  mode `f` (free-running): same stages without parking (real races).

Observed output: `<class>,… p1=<n> p3=<n> final=<n> rejx=<n>` — per query `ok` (returned without
error and without the too-many-requests status), `tmr` (the too-many-requests result), `err` (an error); the
maximal number of queries simultaneously parked in their execution phase up to the end of stage 2
(`p1`) and overall (`p3`); `len(sem)` after every query has returned (`final`, the harness still
holds `held - rel`); and the number of queries answered `tmr` that were nevertheless seen
executing (`rejx`). `stall:<stage>` if a stage does not complete within its (generous) deadline.

Nothing here depends on generated code or on the model.
-/
namespace C31

inductive Runner | eng | dist
  deriving DecidableEq, Repr

inductive Kind | ok | cx | cy | co | ni | nd | rf | an | pr | nh | nr
  deriving DecidableEq, Repr

structure Query where
  kind : Kind
  patient : Bool
  deriving DecidableEq, Repr

structure Burst where
  runner : Runner
  gated : Bool
  cap : Nat
  held : Nat
  rel : Nat
  qs : List Query
  deriving Repr

def Kind.parse : String → Option Kind
  | "ok" => some .ok | "cx" => some .cx | "cy" => some .cy | "co" => some .co
  | "ni" => some .ni | "nd" => some .nd | "rf" => some .rf | "an" => some .an
  | "pr" => some .pr | "nh" => some .nh | "nr" => some .nr | _ => none

/-- kinds available per runner -/
def Kind.allowed : Runner → Kind → Bool
  | .eng, k => k == .ok || k == .cx || k == .cy || k == .co || k == .ni || k == .nd || k == .pr
  | .dist, k => k == .ok || k == .cx || k == .cy || k == .rf || k == .an || k == .pr || k == .nh || k == .nr

/-- the query returns before the limit is consulted (argument errors) -/
def Kind.beforeLimit : Kind → Bool
  | .pr | .nh | .nr => true
  | _ => false

/-- the query reaches the point of its execution phase where the harness can park it -/
def Kind.parks : Kind → Bool
  | .ok | .cx | .cy | .co => true
  | _ => false

def Query.parse (s : String) : Option Query :=
  let cs := s.toList
  if cs.length ≠ 3 then none else
  match Kind.parse (String.ofList (cs.take 2)), cs.getD 2 ' ' with
  | some k, 'p' => some ⟨k, true⟩
  | some k, 'i' => some ⟨k, false⟩
  | _, _ => none

def parseBurst : List String → Option Burst
  | [r, m, c, h, rl, qs] =>
    let r? := if r == "eng" then some Runner.eng else if r == "dist" then some Runner.dist else none
    let m? := if m == "g" then some true else if m == "f" then some false else none
    match r?, m?, Wire.parseNat c, Wire.parseNat h, Wire.parseNat rl, (Wire.listField qs).mapM Query.parse with
    | some r, some m, some c, some h, some rl, some qs => some ⟨r, m, c, h, rl, qs⟩
    | _, _, _, _, _, _ => none
  | _ => none

def Burst.free (b : Burst) : Nat := b.cap - b.held

/-- number of patient queries that will sit in their execution phase until released -/
def Burst.parkable (b : Burst) : Nat :=
  (b.qs.filter fun q => q.patient && q.kind.parks).length

/-- The bursts whose outcome does not depend on the scheduler (the harness refuses all others):
    impatient queries are only issued when every slot is provably in use while they wait;
    patient queries that need a slot must eventually be able to get one. -/
def Burst.valid (b : Burst) : Bool :=
  b.cap ≤ 4 && b.held ≤ b.cap && b.rel ≤ b.held && 1 ≤ b.qs.length && b.qs.length ≤ 16 &&
  b.qs.all (fun q => Kind.allowed b.runner q.kind) &&
  (b.qs.all (fun q => q.patient || q.kind.beforeLimit) ||
    (if b.gated then b.free ≤ b.parkable else b.free == 0)) &&
  (b.qs.all (fun q => !q.patient || q.kind.beforeLimit) || 1 ≤ b.free + b.rel)

structure Obs where
  classes : List String
  p1 : Nat
  p3 : Nat
  final : Nat
  rejx : Nat

def kv (key : String) (s : String) : Option Nat :=
  match s.splitOn "=" with
  | [k, v] => if k == key then Wire.parseNat v else none
  | _ => none

def parseObs (out : String) : Option Obs :=
  match Wire.fields out with
  | [cls, a, b, c, d] =>
    match kv "p1" a, kv "p3" b, kv "final" c, kv "rejx" d with
    | some a, some b, some c, some d => some ⟨Wire.listField cls, a, b, c, d⟩
    | _, _, _, _ => none
  | _ => none

/-- The property on one observed burst (three clauses + every query is answered). -/
def verdict (b : Burst) (o : Obs) : String :=
  if o.classes.length ≠ b.qs.length then "violates:unparsable"
  else if o.classes.any (fun c => c ≠ "ok" && c ≠ "tmr" && c ≠ "err") then "violates:unparsable"
  -- clause 1: never more than the free slots execute at once
  else if o.p1 > b.free ∨ o.p3 > b.free + b.rel then "violates:limit-exceeded"
  -- clause 3: every finished / failed / cancelled query has given its slot back
  else if o.final > b.held - b.rel then "violates:slot-leaked"
  else if o.final < b.held - b.rel then "violates:slot-released-twice"
  -- clause 2: queries beyond the limit are answered "too many requests" and never execute
  else if (b.qs.zip o.classes).any (fun (q, c) => !q.patient && !q.kind.beforeLimit && c ≠ "tmr") then
    "violates:over-limit-not-rejected"
  else if o.rejx ≠ 0 then "violates:rejected-query-executed"
  else if (b.qs.zip o.classes).any (fun (q, c) => q.patient && c == "tmr") then
    "holds:within-limit-query-rejected"
  else "holds"

def judge (args : List String) (out : String) : String :=
  match parseBurst args with
  | none => if out == "bad-case" then "holds:out-of-domain" else "violates:unparsable"
  | some b =>
    if !b.valid then (if out == "bad-case" then "holds:out-of-domain" else "violates:unparsable")
    else if out == "panic" then "violates:panic"
    else if out.startsWith "stall" then "violates:no-progress"
    else match parseObs out with
      | none => "violates:unparsable"
      | some o => verdict b o

end C31
