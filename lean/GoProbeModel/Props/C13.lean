import GoProbeModel.Model.C13

/-!
C13 — property theorems (time binning).  Statements only about
* `Gen.TimeBin.BinTimestamp`, `Gen.TimeBin.CalcTimeBinSize` — regenerated from /repo on every run;
* `C13.binTime` — hand model of `BinTime`, tied by the correspondence harness.
-/
namespace C13
open Gen.TimeBin

/-! ## arithmetic core -/

theorem tdiv_ns (s : Int) (hs : 0 < s) : Int.tdiv (s * 1000000000) 1000000000 = s := by
  rw [Int.tdiv_eq_ediv_of_nonneg (by omega)]; omega

/-- `BinTimestamp` equals the ceiling spec for non-negative timestamps and whole-second bins. -/
theorem binTimestamp_eq_binEnd (ts s : Int) (hts : 0 ≤ ts) (hs : 0 < s) :
    BinTimestamp ts (s * 1000000000) = binEnd s ts := by
  unfold BinTimestamp binEnd
  have h1 : ¬ (s * 1000000000 ≤ 0) := by omega
  simp only [h1, if_false, tdiv_ns s hs]
  have h2 : ¬ (s ≤ 0) := by omega
  simp only [h2, if_false]
  rw [Int.tmod_eq_emod_of_nonneg hts]
  have hr0 := Int.emod_nonneg ts (by omega : s ≠ 0)
  have hr1 := Int.emod_lt_of_pos ts hs
  have hdecomp := Int.mul_ediv_add_emod ts s
  split
  · -- remainder 0
    rename_i hr
    have : ts = s * (ts / s) := by omega
    have h3 : (ts + s - 1) / s = ts / s := by
      rw [show ts + s - 1 = (s - 1) + s * (ts / s) by omega, Int.add_mul_ediv_left _ _ (by omega : s ≠ 0)]
      rw [Int.ediv_eq_zero_of_lt (by omega) (by omega)]; omega
    rw [h3, Int.mul_comm]; omega
  · rename_i hr
    have h3 : (ts + s - 1) / s = ts / s + 1 := by
      rw [show ts + s - 1 = (ts % s - 1) + s * (ts / s + 1) by
            rw [Int.mul_add]; omega,
          Int.add_mul_ediv_left _ _ (by omega : s ≠ 0)]
      rw [Int.ediv_eq_zero_of_lt (by omega) (by omega)]; omega
    rw [h3, Int.add_mul, Int.mul_comm (ts / s) s]; omega

/-- **bin_aligned**: the label is a multiple of the bin size and is the end of the bin
    `(label - s, label]` containing the original timestamp. -/
theorem bin_aligned (ts s : Int) (hts : 0 ≤ ts) (hs : 0 < s) :
    let b := BinTimestamp ts (s * 1000000000)
    s ∣ b ∧ b - s < ts ∧ ts ≤ b := by
  intro b
  have hb : b = binEnd s ts := binTimestamp_eq_binEnd ts s hts hs
  unfold binEnd at hb
  have hd := Int.mul_ediv_add_emod (ts + s - 1) s
  have hr0 := Int.emod_nonneg (ts + s - 1) (by omega : s ≠ 0)
  have hr1 := Int.emod_lt_of_pos (ts + s - 1) hs
  refine ⟨⟨(ts + s - 1) / s, by rw [hb, Int.mul_comm]⟩, ?_, ?_⟩
  · rw [hb, Int.mul_comm]; omega
  · rw [hb, Int.mul_comm]; omega

/-- binning an aligned timestamp changes nothing (core of idempotence) -/
theorem binTimestamp_fix (ts s : Int) (hs : 0 < s) (hd : s ∣ ts) :
    BinTimestamp ts (s * 1000000000) = ts := by
  unfold BinTimestamp
  have h1 : ¬ (s * 1000000000 ≤ 0) := by omega
  simp only [h1, if_false, tdiv_ns s hs]
  have h2 : ¬ (s ≤ 0) := by omega
  simp only [h2, if_false]
  have : Int.tmod ts s = 0 := Int.tmod_eq_zero_of_dvd hd
  simp [this]

theorem binTimestamp_idem (ts s : Int) (hts : 0 ≤ ts) (hs : 0 < s) :
    BinTimestamp (BinTimestamp ts (s * 1000000000)) (s * 1000000000) = BinTimestamp ts (s * 1000000000) :=
  binTimestamp_fix _ s hs (bin_aligned ts s hts hs).1

/-- Negative Unix times fall outside `bin_aligned` (the hypothesis `0 ≤ ts` is needed):
    -1 s with a 300 s bin is labelled 300, but (0, 300] does not contain -1. -/
example : BinTimestamp (-1) (300 * 1000000000) = 300 ∧ ¬ ((300:Int) - 300 < -1) := by decide

/-! ## automatic bin size -/

/-- **auto_size**: for a positive query duration that is a whole number of seconds the automatic
    bin size is a positive multiple of five minutes and at most 288 bins cover the range. -/
theorem auto_size (d : Int) (hd : 0 < d) (hsec : d % 1000000000 = 0) :
    let b := CalcTimeBinSize 300000000000 d
    0 < b ∧ b % 300000000000 = 0 ∧ d ≤ 288 * b := by
  intro b
  have hb : b = CalcTimeBinSize 300000000000 d := rfl
  unfold CalcTimeBinSize at hb
  have h1 : ¬ (d ≤ 0 ∨ (300000000000 : Int) ≤ 0) := by omega
  simp only [h1, if_false] at hb
  have hq : Int.tdiv (86400000000000 : Int) 300000000000 = 288 := by decide
  rw [hq, Int.tdiv_eq_ediv_of_nonneg (by omega : 0 ≤ d)] at hb
  have hnn : 0 ≤ d / 288 := Int.ediv_nonneg (by omega) (by omega)
  rw [Int.tmod_eq_emod_of_nonneg hnn, Int.tdiv_eq_ediv_of_nonneg hnn] at hb
  split at hb <;> omega

/-- without the whole-second hypothesis the bin size can be 0 (then `BinTimestamp` is the identity):
    the real `Prepare` only produces whole-second durations. -/
example : CalcTimeBinSize 300000000000 287 = 0 := by decide

/-! ## the fold: conservation, uniqueness, idempotence -/

def sumC (rs : List Row) : Nat × Nat × Nat × Nat := rs.foldl (fun a r => addC a r.c) (0, 0, 0, 0)

theorem addC_assoc (a b c : Nat × Nat × Nat × Nat) : addC (addC a b) c = addC a (addC b c) := by
  simp [addC, Nat.add_assoc]

theorem addC_comm (a b : Nat × Nat × Nat × Nat) : addC a b = addC b a := by
  simp [addC, Nat.add_comm]

theorem addC_zero (a : Nat × Nat × Nat × Nat) : addC (0,0,0,0) a = a := by simp [addC]

theorem foldl_addC (rs : List Row) (a : Nat × Nat × Nat × Nat) :
    rs.foldl (fun a r => addC a r.c) a = addC a (sumC rs) := by
  induction rs generalizing a with
  | nil => simp [sumC, addC]
  | cons x xs ih =>
    simp only [sumC, List.foldl_cons]
    rw [ih, ih (addC (0,0,0,0) x.c), addC_zero, addC_assoc]

theorem sumC_cons (x : Row) (xs : List Row) : sumC (x :: xs) = addC x.c (sumC xs) := by
  simp only [sumC, List.foldl_cons]; rw [foldl_addC, addC_zero]; rfl

theorem sumC_mergeRow (m : List Row) (r : Row) : sumC (mergeRow m r) = addC (sumC m) r.c := by
  induction m with
  | nil => simp [mergeRow, sumC, addC]
  | cons x xs ih =>
    unfold mergeRow
    split
    · simp only [sumC_cons]; rw [addC_assoc, addC_comm r.c, ← addC_assoc]
    · simp only [sumC_cons, ih, addC_assoc]

theorem sumC_foldl_merge (rs m : List Row) : sumC (rs.foldl mergeRow m) = addC (sumC m) (sumC rs) := by
  induction rs generalizing m with
  | nil => simp [sumC, addC]
  | cons x xs ih => simp only [List.foldl_cons, ih, sumC_mergeRow, sumC_cons, addC_assoc]

theorem sumC_map_binRow (b : Int) (rs : List Row) : sumC (rs.map (binRow b)) = sumC rs := by
  induction rs with
  | nil => rfl
  | cons x xs ih => simp only [List.map_cons, sumC_cons, ih]; rfl

/-- **bin_conserves**: re-binning preserves the sum of every counter, for every row list and bin size. -/
theorem bin_conserves (b : Int) (rows : List Row) : sumC (binTime b rows) = sumC rows := by
  unfold binTime
  rw [sumC_foldl_merge, sumC_map_binRow]; simp [sumC, addC]

def keyOf (r : Row) : Option Int × Nat := (r.ts, r.key)

theorem keys_mergeRow (m : List Row) (r : Row) (h : (m.map keyOf).Nodup) :
    ((mergeRow m r).map keyOf).Nodup ∧ ∀ k, k ∈ (mergeRow m r).map keyOf → k ∈ m.map keyOf ∨ k = keyOf r := by
  induction m with
  | nil => simp [mergeRow]
  | cons x xs ih =>
    simp only [List.map_cons, List.nodup_cons] at h
    obtain ⟨ih1, ih2⟩ := ih h.2
    unfold mergeRow
    split
    · refine ⟨?_, ?_⟩
      · simp only [List.map_cons, List.nodup_cons]; exact ⟨h.1, h.2⟩
      · intro k hk; left; simpa [keyOf] using hk
    · rename_i hne
      refine ⟨?_, ?_⟩
      · simp only [List.map_cons, List.nodup_cons]
        refine ⟨?_, ih1⟩
        intro hmem
        rcases ih2 _ hmem with h' | h'
        · exact h.1 h'
        · apply hne; simp only [keyOf, Prod.mk.injEq] at h'; exact h'
      · intro k hk
        simp only [List.map_cons, List.mem_cons] at hk
        rcases hk with hk | hk
        · left; simp [hk]
        · rcases ih2 k hk with h' | h'
          · left; simp [h']
          · right; exact h'

theorem keys_foldl (rs m : List Row) (h : (m.map keyOf).Nodup) : ((rs.foldl mergeRow m).map keyOf).Nodup := by
  induction rs generalizing m with
  | nil => simpa
  | cons x xs ih => exact ih _ (keys_mergeRow m x h).1

/-- **bin_unique**: at most one output row per (bin, labels, attributes). -/
theorem bin_unique (b : Int) (rows : List Row) : ((binTime b rows).map keyOf).Nodup := by
  unfold binTime; exact keys_foldl _ [] (by simp)

/-- merging a list with pairwise distinct keys into the empty map reproduces the list -/
theorem foldl_merge_nodup (rs m : List Row) (h : ((m ++ rs).map keyOf).Nodup) :
    rs.foldl mergeRow m = m ++ rs := by
  induction rs generalizing m with
  | nil => simp
  | cons x xs ih =>
    have hm : mergeRow m x = m ++ [x] := by
      clear ih
      induction m with
      | nil => rfl
      | cons y ys ihy =>
        unfold mergeRow
        have hne : ¬ (y.ts = x.ts ∧ y.key = x.key) := by
          intro ⟨h1, h2⟩
          simp only [List.cons_append, List.map_cons, List.nodup_cons, List.map_append, List.mem_append,
            List.mem_cons] at h
          apply h.1; right; left; simp [keyOf, h1, h2]
        simp only [hne, if_false, List.cons_append]
        congr 1
        apply ihy
        simp only [List.cons_append, List.map_cons, List.nodup_cons] at h
        exact h.2
    simp only [List.foldl_cons, hm]
    rw [ih (m ++ [x]) (by simpa using h)]; simp

theorem ts_of_mergeRow (P : Option Int → Prop) (m : List Row) (r : Row)
    (hm : ∀ x ∈ m, P x.ts) (hr : P r.ts) : ∀ x ∈ mergeRow m r, P x.ts := by
  induction m with
  | nil => simpa [mergeRow] using hr
  | cons y ys ih =>
    unfold mergeRow
    split
    · intro x hx
      simp only [List.mem_cons] at hx
      rcases hx with hx | hx
      · subst hx; exact hm y (by simp)
      · exact hm x (by simp [hx])
    · intro x hx
      simp only [List.mem_cons] at hx
      rcases hx with hx | hx
      · subst hx; exact hm _ (by simp)
      · exact ih (fun z hz => hm z (by simp [hz])) x hx

theorem ts_of_foldl (P : Option Int → Prop) (rs m : List Row)
    (hm : ∀ x ∈ m, P x.ts) (hr : ∀ x ∈ rs, P x.ts) : ∀ x ∈ rs.foldl mergeRow m, P x.ts := by
  induction rs generalizing m with
  | nil => simpa using hm
  | cons y ys ih =>
    simp only [List.foldl_cons]
    exact ih _ (ts_of_mergeRow P m y hm (hr y (by simp))) (fun x hx => hr x (by simp [hx]))

/-- **bin_idem**: binning an already binned result again changes nothing (same rows, same order),
    for non-negative timestamps and a whole-second bin size. -/
theorem bin_idem (s : Int) (hs : 0 < s) (rows : List Row)
    (hts : ∀ r ∈ rows, ∀ t, r.ts = some t → 0 ≤ t) :
    binTime (s * 1000000000) (binTime (s * 1000000000) rows) = binTime (s * 1000000000) rows := by
  -- every timestamp of the binned result is aligned
  have hal : ∀ x ∈ binTime (s * 1000000000) rows, ∀ t, x.ts = some t → s ∣ t := by
    unfold binTime
    apply ts_of_foldl (fun o => ∀ t, o = some t → s ∣ t)
    · simp
    · intro x hx t ht
      simp only [List.mem_map] at hx
      obtain ⟨r, hr, rfl⟩ := hx
      simp only [binRow] at ht
      cases hrt : r.ts with
      | none => simp [hrt] at ht
      | some t0 =>
        simp only [hrt, Option.map_some, Option.some.injEq] at ht
        subst ht
        exact (bin_aligned t0 s (hts r hr t0 hrt) hs).1
  have hmap : (binTime (s * 1000000000) rows).map (binRow (s * 1000000000)) = binTime (s * 1000000000) rows := by
    have hid : ∀ x ∈ binTime (s * 1000000000) rows, binRow (s * 1000000000) x = id x := by
      intro x hx
      cases hxt : x.ts with
      | none => cases x; simp_all [binRow]
      | some t =>
        have := binTimestamp_fix t s hs (hal x hx t hxt)
        cases x; simp_all [binRow]
    rw [List.map_congr_left hid, List.map_id]
  have e : binTime (s * 1000000000) (binTime (s * 1000000000) rows)
      = List.foldl mergeRow [] ((binTime (s * 1000000000) rows).map (binRow (s * 1000000000))) := rfl
  rw [e, hmap]
  have := foldl_merge_nodup (binTime (s * 1000000000) rows) [] (by simpa using bin_unique _ rows)
  simpa using this

/-- the model equals the independent spec on the domain of the property -/
theorem binTime_eq_spec (s : Int) (hs : 0 < s) (rows : List Row)
    (hts : ∀ r ∈ rows, ∀ t, r.ts = some t → 0 ≤ t) :
    binTime (s * 1000000000) rows = specBin s rows := by
  unfold binTime specBin
  congr 1
  apply List.map_congr_left
  intro r hr
  cases hrt : r.ts with
  | none => simp [binRow, specRow, hrt]
  | some t => simp [binRow, specRow, hrt, binTimestamp_eq_binEnd t s (hts r hr t hrt) hs]

/-! ## non-vacuity: concrete instances meeting the hypotheses -/
example : binTime (300 * 1000000000) [⟨some 301, 1, (1,2,3,4)⟩, ⟨some 599, 1, (10,20,30,40)⟩, ⟨some 600, 2, (5,5,5,5)⟩]
    = [⟨some 600, 1, (11,22,33,44)⟩, ⟨some 600, 2, (5,5,5,5)⟩] := by decide
example : (0:Int) ≤ 301 ∧ (0:Int) < 300 := by decide
example : CalcTimeBinSize 300000000000 (86401 * 1000000000) = 600000000000 := by decide

end C13
