import GoProbeModel.Model.C29
import GoProbeModel.Lemmas.C08
import GoProbeModel.Props.C09
import GoProbeModel.Props.C20

/-!
C29 — live queries see the current flows with the semantics of stored flows and change nothing:
the property theorems over the model of the code as written (`Model/C29.lean`, after the `fix:`
commit).

Second sentence of the property ("running live queries at any time does not change what is later
written to the database"), for ALL histories of packets, write-outs and live queries:

* `aggregateSt_log`, `flowMap_log`, `getFlowMaps_world`, `step_query` — every layer of the live
  path hands back the state it was given (`FlowLog.Aggregate` only reads the flows; `flowMap`,
  `GetFlowMaps`, `RunStatement` add nothing that writes);
* `noninterference` — a history and the same history without its live queries reach the same
  world: the same flow logs and the same list of maps handed to the write-out handler;
  `noninterference_insert` — hence any two histories that differ only in live queries do.

First sentence ("… the flows currently held in memory, filtered and grouped exactly as stored flows
would be"), for ALL conditions, attribute selections and reachable flow logs:

* `live_filter_eq_stored_filter` — the live filter (condition evaluated on the complete flow key)
  and the stored scan (condition evaluated on the comparison value that carries only the columns
  the condition names) select the same flows, namely those for which the condition's Boolean
  formula `C09.sem` is true;
* `queryFilter_eq_scan` — grouping: what `QueryFilter` makes of a map of complete keys is exactly
  what the stored scan makes of a block holding those entries (same key per flow, same map);
* `live_eq_next_block` — what `GetFlowMaps` sends for a capture is the stored scan of the block
  the next write-out would write (`FlowLog.Rotate` of the same flow log), without a block time;
* `live_result_rep` — the final map of an interface in a live query represents (distinct keys,
  summed counters) the items of the stored blocks together with the items of the pending block,
  items = the flows whose formula is true (`holds_is_sem`), under the key of the selected
  attributes; `stored_result_rep`: without live data it represents the stored blocks alone.
* `live_query_partial` — the answer of `QueryRunner.Run` consists of the rows of these final maps,
  PROVIDED a write-out has happened: before the first one the database has no directory for the
  interface, the front end resolves no interface and the live query fails (known finding
  `C29-live-before-first-writeout`; the last `example` exhibits it in the model).

Hypotheses: `OpsOK` (every packet is a 13- / 37-byte 5-tuple of bytes — a type invariant of the Go
code, `[13]byte` / `[37]byte`) and `PlanOK` (the plan of an accepted query, `plan_ok`). The
`example`s at the end instantiate everything on a concrete history, replay the defect of the
original filter (`origQueryFilter`) and show the failure outside `live_query_partial`'s hypothesis.
-/
namespace C29

open C20 (St FMap Key Agg)
open Gen.FlowLog (Flow Counters)
open C09 (Cond Attr Cmp Val sem semLeaf posMatch toNode coreValid encode)

/-! ## the live path is read-only -/

theorem aggStepSt_fold (put : Key → Key → Key) (m : FMap) (s : AggSt) :
    (m.foldl (aggStepSt put) s).seen = s.seen ++ m ∧
    ((m.foldl (aggStepSt put) s).buf, (m.foldl (aggStepSt put) s).agg) = m.foldl (C20.aggStep put) (s.buf, s.agg) := by
  induction m generalizing s with
  | nil => simp
  | cons e t ih =>
    rw [List.foldl_cons, List.foldl_cons]
    obtain ⟨h1, h2⟩ := ih (aggStepSt put s e)
    refine ⟨?_, ?_⟩
    · rw [h1]; unfold aggStepSt; split <;> simp
    · rw [h2]; congr 1
      unfold aggStepSt C20.aggStep
      split <;> rfl

/-- `FlowLog.Aggregate` leaves the flow log as it found it -/
theorem aggregateSt_log (st : St) : (aggregateSt st).2 = st := by
  unfold aggregateSt
  simp only [(aggStepSt_fold C20.putV4 st.v4 ⟨C20.emptyV4Key, [], []⟩).1,
    (aggStepSt_fold C20.putV6 st.v6 ⟨C20.emptyV6Key, [], []⟩).1, List.nil_append]

/-- … and computes C20's `aggregate` -/
theorem aggregateSt_maps (st : St) : (aggregateSt st).1 = C20.aggregate st := by
  unfold aggregateSt C20.aggregate
  have h4 := (aggStepSt_fold C20.putV4 st.v4 ⟨C20.emptyV4Key, [], []⟩).2
  have h6 := (aggStepSt_fold C20.putV6 st.v6 ⟨C20.emptyV6Key, [], []⟩).2
  simp only at h4 h6 ⊢
  rw [← h4, ← h6]

/-- `Capture.flowMap` leaves the flow log as it found it -/
theorem flowMap_log (st : St) : (flowMap st).2 = st := by
  unfold flowMap; split
  · rfl
  · exact aggregateSt_log st

theorem getFlowMap_log (p : Plan) (st : St) : (getFlowMap p st).2 = st := flowMap_log st

theorem setLog_log (w : World) (i : Nat) : w.setLog i (w.log i) = w := by
  unfold World.setLog World.log; split <;> rfl

/-- `Manager.GetFlowMaps` leaves every capture as it found it -/
theorem getFlowMaps_world (p : Plan) (ifs : List Nat) (w : World) : (getFlowMaps p ifs w).2 = w := by
  unfold getFlowMaps
  suffices h : ∀ (acc : List (Nat × Option RMap) × World), acc.2 = w →
      (ifs.foldl (fun acc i =>
        let r := getFlowMap p (acc.2.log i)
        (acc.1 ++ [(i, r.1)], acc.2.setLog i r.2)) acc).2 = w from h ([], w) rfl
  induction ifs with
  | nil => intro acc h; exact h
  | cons i t ih =>
    intro acc h
    rw [List.foldl_cons]
    apply ih
    show acc.2.setLog i (getFlowMap p (acc.2.log i)).2 = w
    rw [getFlowMap_log, setLog_log, h]

theorem runStatement_world (p : Plan) (ifs : List Nat) (w : World) (live : Bool) : (runStatement p ifs w live).2 = w := by
  unfold runStatement; cases live
  · rfl
  · exact getFlowMaps_world p ifs w

/-- **the live-query step is the identity on the state** (whatever the query, accepted or not) -/
theorem step_query (w : World) (qr : Query) : step w (.q qr) = w := by
  show (match plan qr with
    | .ok p => (runStatement p qr.ifaces w true).2
    | _ => w) = w
  split
  · exact runStatement_world _ _ _ _
  · rfl

/-- **`noninterference`** — second sentence of C29: for every history, the world reached (both flow
    logs and the list of everything handed to the write-out handler so far) is the one reached by
    the same history without its live queries. -/
theorem noninterference (ops : List Op) : ∀ w : World, run w ops = run w (eraseQ ops) := by
  induction ops with
  | nil => intro w; rfl
  | cons op t ih =>
    intro w
    cases op with
    | q qr =>
      have : eraseQ (Op.q qr :: t) = eraseQ t := by simp [eraseQ, isQuery]
      rw [this]
      show run (step w (.q qr)) t = _
      rw [step_query]; exact ih w
    | pkt i p =>
      have : eraseQ (Op.pkt i p :: t) = Op.pkt i p :: eraseQ t := by simp [eraseQ, isQuery]
      rw [this]
      exact ih (step w (.pkt i p))
    | rot =>
      have : eraseQ (Op.rot :: t) = Op.rot :: eraseQ t := by simp [eraseQ, isQuery]
      rw [this]
      exact ih (step w .rot)

/-- every write-out of the history hands over what it hands over without the queries -/
theorem writeouts_unchanged (ops : List Op) : (run World.init ops).wos = (run World.init (eraseQ ops)).wos := by
  rw [noninterference]

/-- inserting or removing any number of live queries at any points changes nothing: two histories
    with the same packets and write-outs reach the same world -/
theorem noninterference_insert (ops ops' : List Op) (h : eraseQ ops = eraseQ ops') (w : World) :
    run w ops = run w ops' := by
  rw [noninterference ops, noninterference ops', h]

/-- a write-out in the middle: what is written after a prefix with live queries is what is written
    after the prefix without them -/
theorem next_writeout_unchanged (pre : List Op) :
    (writeOut (run World.init pre)).wos = (writeOut (run World.init (eraseQ pre))).wos := by
  rw [noninterference]


/-! ## the condition: which columns it reads -/

def Flags.le (a b : Flags) : Prop :=
  (a.sip = true → b.sip = true) ∧ (a.dip = true → b.dip = true) ∧ (a.dport = true → b.dport = true) ∧ (a.proto = true → b.proto = true)

theorem Flags.le_refl (a : Flags) : a.le a := ⟨id, id, id, id⟩

theorem Flags.or_le {a b c : Flags} (h : (a.or b).le c) : a.le c ∧ b.le c := by
  obtain ⟨h1, h2, h3, h4⟩ := h
  simp only [Flags.or, Bool.or_eq_true] at h1 h2 h3 h4
  exact ⟨⟨fun x => h1 (Or.inl x), fun x => h2 (Or.inl x), fun x => h3 (Or.inl x), fun x => h4 (Or.inl x)⟩,
         ⟨fun x => h1 (Or.inr x), fun x => h2 (Or.inr x), fun x => h3 (Or.inr x), fun x => h4 (Or.inr x)⟩⟩

/-- the comparison value as a flow: the columns the flags name, zeros elsewhere -/
def cmpVal (fl : Flags) (f : C09.Flow) : C09.Flow :=
  { sip := if fl.sip then f.sip else zeros f.sip.length
    dip := if fl.dip then f.dip else zeros f.dip.length
    dport := if fl.dport then f.dport else 0
    proto := if fl.proto then f.proto else 0 }

theorem cmpVal_sip_len (fl : Flags) (f : C09.Flow) : (cmpVal fl f).sip.length = f.sip.length := by
  simp only [cmpVal]; split <;> simp [zeros]
theorem cmpVal_dip_len (fl : Flags) (f : C09.Flow) : (cmpVal fl f).dip.length = f.dip.length := by
  simp only [cmpVal]; split <;> simp [zeros]

theorem cmpVal_wf (fl : Flags) (f : C09.Flow) (h : f.WF) : (cmpVal fl f).WF := by
  obtain ⟨h1, h2, h3, h4, h5⟩ := h
  refine ⟨?_, ?_, ?_, ?_, ?_⟩
  · rw [cmpVal_sip_len, cmpVal_dip_len]; exact h1
  · intro b hb; unfold cmpVal at hb; cases hs : fl.sip <;> simp [hs, zeros] at hb
    · omega
    · exact h2 b hb
  · intro b hb; unfold cmpVal at hb; cases hs : fl.dip <;> simp [hs, zeros] at hb
    · omega
    · exact h3 b hb
  · unfold cmpVal; cases fl.dport <;> simp <;> omega
  · unfold cmpVal; cases fl.proto <;> simp <;> omega

theorem semLeaf_local (a : Attr) (c : Cmp) (v : Val) (ha : a.isCore = true) (fl : Flags)
    (hle : (leafFlags a.name).le fl) (f : C09.Flow) : semLeaf a c v (cmpVal fl f) = semLeaf a c v f := by
  obtain ⟨h1, h2, h3, h4⟩ := hle
  cases a <;> simp [Attr.isCore] at ha <;>
    simp [leafFlags, Attr.name, Gen.CondNode.SIPName, Gen.CondNode.DIPName, Gen.CondNode.DportName, Gen.CondNode.ProtoName] at h1 h2 h3 h4 <;>
    cases v <;> simp [semLeaf, posMatch, cmpVal, *]

/-- a core condition only reads the columns `Node.Attributes()` names -/
theorem sem_local (c : Cond) (hc : coreValid c = true) : ∀ (fl : Flags), (nodeFlags (toNode c)).le fl →
    ∀ f, sem c (cmpVal fl f) = sem c f := by
  induction c with
  | leaf a cmp v =>
    intro fl hle f
    simp only [coreValid, Bool.and_eq_true] at hc
    exact semLeaf_local a cmp v hc.1 fl hle f
  | not x ih => intro fl hle f; simp only [sem]; rw [ih hc fl hle f]
  | and l r ihl ihr =>
    intro fl hle f
    simp only [coreValid, Bool.and_eq_true] at hc
    obtain ⟨hl, hr⟩ := Flags.or_le hle
    simp only [sem]; rw [ihl hc.1 fl hl f, ihr hc.2 fl hr f]
  | or l r ihl ihr =>
    intro fl hle f
    simp only [coreValid, Bool.and_eq_true] at hc
    obtain ⟨hl, hr⟩ := Flags.or_le hle
    simp only [sem]; rw [ihl hc.1 fl hl f, ihr hc.2 fl hr f]

/-- what `plan` holds for a query with a condition it accepts: the instrumented tree is that of a
    core condition `c2` (desugared, in negation normal form) with the meaning of the condition, it
    evaluates to `sem c2` on every key of a flow, and the flags are the columns `c2` names -/
theorem plan_some (q : Query) (c : Cond) (hq : q.cond = some c) (p : Plan) (hp : plan q = .ok p) :
    p.sel = q.sel ∧ p.dir = q.dir ∧
    ∃ (c2 : Cond) (i : C09.INode), p.cond = some i ∧ p.flags = nodeFlags (toNode c2) ∧ coreValid c2 = true ∧
      (∀ f : C09.Flow, f.WF → i.eval (encode f) = .ok (sem c2 f, encode f)) ∧ (∀ f, sem c2 f = sem c f) := by
  unfold plan at hp
  rw [hq] at hp
  simp only [normalise] at hp
  rw [C09.desugar_toNode] at hp
  cases hd : C09.desugarC c with
  | none => rw [hd] at hp; simp [Outcome.bind] at hp
  | some c1 =>
    rw [hd] at hp
    obtain ⟨hsem, hval⟩ := (C09.desugarC_sem c).1 c1 hd
    simp only [C09.bind_ok_eq, C09.resolve, C09.negationNormalForm, C09.nnfHelper_toNode, Nat.zero_add] at hp
    by_cases hh : c1.height ≤ 512
    · rw [if_pos hh] at hp
      simp only [C09.bind_ok_eq] at hp
      obtain ⟨-, hcv, -, hnn⟩ := C09.nnfC_props c1 false
      rcases C09.instrument_toNode (C09.nnfC c1 false) with ⟨i, hi, hv, hev⟩ | ⟨e, hi, hv⟩
      · rw [hi] at hp
        simp only [C09.bind_ok_eq] at hp
        injection hp with hp
        subst hp
        refine ⟨rfl, rfl, C09.nnfC c1 false, i, rfl, rfl, hv, hev, ?_⟩
        intro f
        have hv1 : coreValid c1 = true := by rw [← hcv]; exact hv
        rw [hnn (C09.coreValid_valid c1 hv1) f, hsem f]; simp
      · rw [hi] at hp; simp [Outcome.bind] at hp
    · rw [if_neg hh] at hp; simp [Outcome.bind] at hp

theorem plan_none (q : Query) (hq : q.cond = none) (p : Plan) (hp : plan q = .ok p) :
    p.sel = q.sel ∧ p.dir = q.dir ∧ p.cond = none := by
  unfold plan at hp; rw [hq] at hp
  injection hp with hp; subst hp; exact ⟨rfl, rfl, rfl⟩


/-! ## keys of flows, buffers -/

theorem getters_encode (f : C09.Flow) (h : f.WF) :
    sipOf (encode f) = f.sip ∧ dipOf (encode f) = f.dip ∧
    dportOf (encode f) = [f.dport / 256, f.dport % 256] ∧ protoOf (encode f) = f.proto := by
  obtain ⟨hfam, -⟩ := h
  have e1 : encode f = f.sip ++ (f.dip ++ [f.dport / 256, f.dport % 256, f.proto]) := by simp [encode]
  have e3 : encode f = (f.sip ++ f.dip) ++ [f.dport / 256, f.dport % 256, f.proto] := rfl
  have gen : ∀ w : Nat, f.sip.length = w → f.dip.length = w →
      (encode f).length = 2 * w + 3 ∧ ((encode f).drop 0).take w = f.sip ∧ ((encode f).drop w).take w = f.dip ∧
      ((encode f).drop (2 * w)).take 2 = [f.dport / 256, f.dport % 256] ∧ (encode f).getD (2 * w + 2) 0 = f.proto := by
    intro w h1 h2
    have hl : (f.sip ++ f.dip).length = 2 * w := by simp [h1, h2]; omega
    refine ⟨by simp [encode, h1, h2]; omega, ?_, ?_, ?_, ?_⟩
    · rw [e1, List.drop_zero, List.take_left' h1]
    · rw [e1, List.drop_left' h1, List.take_left' h2]
    · rw [e3, List.drop_left' hl]; rfl
    · rw [e3, List.getD_eq_getElem?_getD, List.getElem?_append_right (by omega)]
      simp [hl]
  rcases hfam with ⟨h1, h2⟩ | ⟨h1, h2⟩
  · obtain ⟨g0, g1, g2, g3, g4⟩ := gen 4 h1 h2
    have hv : isV4Key (encode f) = true := by simp [isV4Key, kw4, g0, Gen.CondNode.KeyWidthIPv4]
    simp only [sipOf, dipOf, dportOf, protoOf, hv, if_true]
    exact ⟨g1, g2, g3, g4⟩
  · obtain ⟨g0, g1, g2, g3, g4⟩ := gen 16 h1 h2
    have hv : isV4Key (encode f) = false := by simp [isV4Key, kw4, g0, Gen.CondNode.KeyWidthIPv4]
    simp only [sipOf, dipOf, dportOf, protoOf, hv]
    exact ⟨g1, g2, g3, g4⟩

/-- a buffer whose fields outside the four flags are those of an empty key of the family `v4` and
    whose extension is `ext` -/
structure BufOK (s d dp pr : Bool) (v4 : Bool) (ext : Option Int) (b : KBuf) : Prop where
  ts : b.ts = ext
  sip : s = false → b.sip = (emptyBuf v4 ext).sip
  dip : d = false → b.dip = (emptyBuf v4 ext).dip
  dport : dp = false → b.dport = (emptyBuf v4 ext).dport
  proto : pr = false → b.proto = (emptyBuf v4 ext).proto

theorem bufOK_empty (s d dp pr v4 : Bool) (ext : Option Int) : BufOK s d dp pr v4 ext (emptyBuf v4 ext) :=
  ⟨rfl, fun _ => rfl, fun _ => rfl, fun _ => rfl, fun _ => rfl⟩

theorem fill_ok (s d dp pr v4 : Bool) (ext : Option Int) (b : KBuf) (flow : Key) (h : BufOK s d dp pr v4 ext b) :
    BufOK s d dp pr v4 ext (fill s d dp pr b flow) := by
  obtain ⟨h0, h1, h2, h3, h4⟩ := h
  cases s <;> cases d <;> cases dp <;> cases pr <;> simp_all [fill] <;> constructor <;> simp_all

/-- filling a buffer that is in order gives what filling a fresh key gives -/
theorem fill_eq (s d dp pr v4 : Bool) (ext : Option Int) (b : KBuf) (flow : Key) (h : BufOK s d dp pr v4 ext b) :
    fill s d dp pr b flow = fill s d dp pr (emptyBuf v4 ext) flow := by
  obtain ⟨h0, h1, h2, h3, h4⟩ := h
  cases b with
  | mk bs bd bp bq bt =>
    simp only at h0 h1 h2 h3 h4
    cases s <;> cases d <;> cases dp <;> cases pr <;> simp_all [fill, emptyBuf]


/-! ## the two filters agree -/

def famV4 (f : C09.Flow) : Bool := f.sip.length == 4

theorem fam_cases (f : C09.Flow) (h : f.WF) :
    (famV4 f = true ∧ f.sip.length = 4 ∧ f.dip.length = 4) ∨ (famV4 f = false ∧ f.sip.length = 16 ∧ f.dip.length = 16) := by
  rcases h.1 with ⟨h1, h2⟩ | ⟨h1, h2⟩
  · left; simp [famV4, h1, h2]
  · right; simp [famV4, h1, h2]

/-- the comparison value the stored scan builds in a buffer that is in order is the key of the flow
    restricted to the flagged columns -/
theorem cmp_bytes (fl : Flags) (b : KBuf) (f : C09.Flow) (hf : f.WF)
    (hb : BufOK fl.sip fl.dip fl.dport fl.proto (famV4 f) none b) :
    (fill fl.sip fl.dip fl.dport fl.proto b (encode f)).bytes = encode (cmpVal fl f) := by
  rw [fill_eq _ _ _ _ _ _ _ _ hb]
  obtain ⟨g1, g2, g3, g4⟩ := getters_encode f hf
  rcases fam_cases f hf with ⟨hv, h1, h2⟩ | ⟨hv, h1, h2⟩ <;>
    cases hs : fl.sip <;> cases hd : fl.dip <;> cases hp : fl.dport <;> cases hq : fl.proto <;>
    simp only [fill, g1, g2, g3, g4, Bool.false_eq_true, if_false, if_true] <;>
    simp [emptyBuf, KBuf.bytes, encode, cmpVal, hs, hd, hp, hq, hv, h1, h2, zeros,
      Gen.CondNode.IPv4Width, Gen.CondNode.IPv6Width, Gen.CondNode.DPortWidth]

/-- what is assumed of a plan: if it carries a condition, that is the instrumented tree of a core
    condition `c2` which it evaluates to `sem c2` on every key of a flow, and the flags are the
    columns `c2` names (`plan_ok`: every accepted query has such a plan) -/
def PlanOK (p : Plan) : Prop :=
  ∀ i, p.cond = some i → ∃ c2 : Cond, p.flags = nodeFlags (toNode c2) ∧ coreValid c2 = true ∧
    ∀ f : C09.Flow, f.WF → i.eval (encode f) = .ok (sem c2 f, encode f)

theorem plan_ok (q : Query) (p : Plan) (hp : plan q = .ok p) : PlanOK p := by
  intro i hi
  cases hq : q.cond with
  | none => rw [(plan_none q hq p hp).2.2] at hi; cases hi
  | some c =>
    obtain ⟨-, -, c2, i', h1, h2, h3, h4, -⟩ := plan_some q c hq p hp
    rw [h1] at hi; injection hi with hi; subst hi
    exact ⟨c2, h2, h3, h4⟩

/-- **`live_filter_eq_stored_filter`** — first sentence of C29, "filtered exactly as stored flows
    would be": for every accepted condition and every flow, evaluating the instrumented tree on the
    flow's complete key (what the live filter does) and on the comparison value the stored scan
    builds for the same flow (only the columns the condition names, in a reused buffer) give the
    same answer. -/
theorem live_filter_eq_stored_filter (p : Plan) (hp : PlanOK p) (i : C09.INode) (hi : p.cond = some i)
    (f : C09.Flow) (hf : f.WF) (b : KBuf) (hb : BufOK p.flags.sip p.flags.dip p.flags.dport p.flags.proto (famV4 f) none b) :
    evalNode i (fill p.flags.sip p.flags.dip p.flags.dport p.flags.proto b (encode f)).bytes = evalNode i (encode f) := by
  obtain ⟨c2, hfl, hcv, hev⟩ := hp i hi
  rw [cmp_bytes p.flags b f hf hb]
  unfold evalNode
  rw [hev f hf, hev (cmpVal p.flags f) (cmpVal_wf _ f hf)]
  show sem c2 (cmpVal p.flags f) = sem c2 f
  exact sem_local c2 hcv p.flags (by rw [hfl]; exact Flags.le_refl _) f

/-- … and that answer is the condition's Boolean formula (C09 `sem`) on the flow -/
theorem live_filter_is_sem (q : Query) (c : Cond) (hq : q.cond = some c) (p : Plan) (hp : plan q = .ok p)
    (f : C09.Flow) (hf : f.WF) : ∃ i, p.cond = some i ∧ evalNode i (encode f) = sem c f := by
  obtain ⟨-, -, c2, i, h1, -, -, h4, h5⟩ := plan_some q c hq p hp
  refine ⟨i, h1, ?_⟩
  unfold evalNode; rw [h4 f hf]; exact h5 f


/-! ## the two loops in closed form: same key per flow, same map -/

/-- `k` is the key of a flow of the family `v4` -/
def FlowKey (v4 : Bool) (k : Key) : Prop := ∃ f : C09.Flow, f.WF ∧ encode f = k ∧ famV4 f = v4

def useV6 (sel : C08.Sel) (flowIsIPv4 : Bool) : Bool := !flowIsIPv4 && (sel.sip || sel.dip)

/-- the key a flow is aggregated under: the selected attributes in an otherwise empty key of the
    family the flow is filed under, extended by `ext` -/
def projBuf (sel : C08.Sel) (flowIsIPv4 : Bool) (ext : Option Int) (flow : Key) : KBuf :=
  fill sel.sip sel.dip sel.dport sel.proto (emptyBuf (!useV6 sel flowIsIPv4) ext) flow

def itemOf (sel : C08.Sel) (ext : Option Int) (flowIsIPv4 : Bool) (e : Key × Ctr) : RKey × Ctr :=
  ((!useV6 sel flowIsIPv4, projBuf sel flowIsIPv4 ext e.1), e.2)

/-- the contributions of a list of entries: those that pass the condition, under their keys -/
def itemsOf (p : Plan) (ext : Option Int) (flowIsIPv4 : Bool) (es : List (Key × Ctr)) : List (RKey × Ctr) :=
  (es.filter fun e => holds p e.1).map (itemOf p.sel ext flowIsIPv4)

def updAll (m : RMap) (its : List (RKey × Ctr)) : RMap := its.foldl (fun m e => m.upd e.1 e.2) m

theorem updAll_append (m : RMap) (a b : List (RKey × Ctr)) : updAll m (a ++ b) = updAll (updAll m a) b := by
  simp [updAll, List.foldl_append]

abbrev KeyOK (sel : C08.Sel) (v4 : Bool) (ext : Option Int) (b : KBuf) : Prop :=
  BufOK sel.sip sel.dip sel.dport sel.proto v4 ext b

theorem key_eq (sel : C08.Sel) (v4 : Bool) (ext : Option Int) (k4 k6 : KBuf) (h4 : KeyOK sel true ext k4) (h6 : KeyOK sel false ext k6)
    (flow : Key) :
    fill sel.sip sel.dip sel.dport sel.proto (if useV6 sel v4 then k6 else k4) flow = projBuf sel v4 ext flow := by
  unfold projBuf
  cases hu : useV6 sel v4
  · simp only [Bool.false_eq_true, if_false, Bool.not_false]; exact fill_eq _ _ _ _ _ _ _ _ h4
  · simp only [if_true, Bool.not_true]; exact fill_eq _ _ _ _ _ _ _ _ h6

theorem key_ok (sel : C08.Sel) (v4 : Bool) (ext : Option Int) (flow : Key) :
    KeyOK sel (!useV6 sel v4) ext (projBuf sel v4 ext flow) :=
  fill_ok _ _ _ _ _ _ _ _ (bufOK_empty _ _ _ _ _ _)

/-- one call of `aggregateFlow` in closed form -/
theorem aggregateFlow_eq (p : Plan) (v4 : Bool) (s : FSt) (e : Key × Ctr)
    (h4 : KeyOK p.sel true none s.v4Key) (h6 : KeyOK p.sel false none s.v6Key) :
    KeyOK p.sel true none (aggregateFlow p v4 s e).v4Key ∧ KeyOK p.sel false none (aggregateFlow p v4 s e).v6Key ∧
    (aggregateFlow p v4 s e).res = if holds p e.1 then s.res.upd (itemOf p.sel none v4 e).1 e.2 else s.res := by
  unfold aggregateFlow
  cases hh : holds p e.1
  · simp only [Bool.not_false, if_true, Bool.false_eq_true, if_false]; exact ⟨h4, h6, trivial⟩
  · simp only [Bool.not_true, Bool.false_eq_true, if_false, if_true]
    have hk := key_eq p.sel v4 none s.v4Key s.v6Key h4 h6 e.1
    have hu : (!v4 && (p.sel.sip || p.sel.dip)) = useV6 p.sel v4 := rfl
    simp only [hu, hk]
    have hok := key_ok p.sel v4 none e.1
    refine ⟨?_, ?_, rfl⟩
    · cases hu' : useV6 p.sel v4
      · simp only [Bool.false_eq_true, if_false]; simpa [hu'] using hok
      · simpa using h4
    · cases hu' : useV6 p.sel v4
      · simpa using h6
      · simp only [if_true]; simpa [hu'] using hok

theorem aggregateFlow_fold (p : Plan) (v4 : Bool) (es : List (Key × Ctr)) : ∀ (s : FSt),
    KeyOK p.sel true none s.v4Key → KeyOK p.sel false none s.v6Key →
    KeyOK p.sel true none (es.foldl (aggregateFlow p v4) s).v4Key ∧ KeyOK p.sel false none (es.foldl (aggregateFlow p v4) s).v6Key ∧
    (es.foldl (aggregateFlow p v4) s).res = updAll s.res (itemsOf p none v4 es) := by
  induction es with
  | nil => intro s h4 h6; exact ⟨h4, h6, rfl⟩
  | cons e t ih =>
    intro s h4 h6
    obtain ⟨a4, a6, ar⟩ := aggregateFlow_eq p v4 s e h4 h6
    obtain ⟨b4, b6, br⟩ := ih (aggregateFlow p v4 s e) a4 a6
    rw [List.foldl_cons]
    refine ⟨b4, b6, ?_⟩
    rw [br, ar]
    unfold itemsOf
    cases hh : holds p e.1 <;> simp [hh, updAll, itemOf]

/-- `QueryFilter` in closed form -/
theorem queryFilter_eq (p : Plan) (m : Agg × Agg) :
    queryFilter p m = updAll [] (itemsOf p none true (ctrAgg m.1) ++ itemsOf p none false (ctrAgg m.2)) := by
  unfold queryFilter
  obtain ⟨a4, a6, ar⟩ := aggregateFlow_fold p true (ctrAgg m.1) ⟨emptyBuf true none, emptyBuf false none, []⟩
    (bufOK_empty _ _ _ _ _ _) (bufOK_empty _ _ _ _ _ _)
  obtain ⟨-, -, br⟩ := aggregateFlow_fold p false (ctrAgg m.2) _ a4 a6
  simp only at br ar ⊢
  rw [br, ar, updAll_append]


abbrev CmpOK (fl : Flags) (v4 : Bool) (b : KBuf) : Prop := BufOK fl.sip fl.dip fl.dport fl.proto v4 none b

/-- the four buffers of the stored scan are in order -/
structure ScanOK (p : Plan) (ext : Option Int) (s : SSt) : Prop where
  k4 : KeyOK p.sel true ext s.v4Key
  k6 : KeyOK p.sel false ext s.v6Key
  c4 : CmpOK p.flags true s.v4Cmp
  c6 : CmpOK p.flags false s.v6Cmp

/-- one iteration of the stored scan in closed form: the entry is added iff its flow passes the
    condition *evaluated on the complete key*, under the key `aggregateFlow` uses -/
theorem scanEntry_eq (p : Plan) (hp : PlanOK p) (ext : Option Int) (v4 : Bool) (s : SSt) (e : Key × Ctr)
    (hs : ScanOK p ext s) (he : FlowKey v4 e.1) :
    ScanOK p ext (scanEntry p v4 s e) ∧
    (scanEntry p v4 s e).res = if holds p e.1 then s.res.upd (itemOf p.sel ext v4 e).1 e.2 else s.res := by
  obtain ⟨k4, k6, c4, c6⟩ := hs
  have hk := key_eq p.sel v4 ext s.v4Key s.v6Key k4 k6 e.1
  have hu : (!v4 && (p.sel.sip || p.sel.dip)) = useV6 p.sel v4 := rfl
  have hok := key_ok p.sel v4 ext e.1
  have hk4 : KeyOK p.sel true ext (if useV6 p.sel v4 = true then s.v4Key else projBuf p.sel v4 ext e.1) := by
    cases hu' : useV6 p.sel v4
    · simp only [Bool.false_eq_true, if_false]; simpa [hu'] using hok
    · simpa using k4
  have hk6 : KeyOK p.sel false ext (if useV6 p.sel v4 = true then projBuf p.sel v4 ext e.1 else s.v6Key) := by
    cases hu' : useV6 p.sel v4
    · simpa using k6
    · simp only [if_true]; simpa [hu'] using hok
  unfold scanEntry
  simp only [hu, hk]
  cases hc : p.cond with
  | none =>
    have hh : holds p e.1 = true := by simp [holds, hc]
    simp only [hh, if_true]
    exact ⟨⟨hk4, hk6, c4, c6⟩, rfl⟩
  | some i =>
    obtain ⟨f, hf, hfe, hfv⟩ := he
    have hb : CmpOK p.flags (famV4 f) (if v4 = true then s.v4Cmp else s.v6Cmp) := by
      rw [hfv]; cases v4
      · simpa using c6
      · simpa using c4
    have hev := live_filter_eq_stored_filter p hp i hc f hf _ hb
    rw [hfe] at hev
    have hh : holds p e.1 = evalNode i e.1 := by simp [holds, hc]
    have hcmp := fill_ok _ _ _ _ _ _ _ e.1 hb
    rw [hfv] at hcmp
    have hc4 : CmpOK p.flags true (if v4 = true then fill p.flags.sip p.flags.dip p.flags.dport p.flags.proto (if v4 = true then s.v4Cmp else s.v6Cmp) e.1 else s.v4Cmp) := by
      cases v4
      · simpa using c4
      · simpa using hcmp
    have hc6 : CmpOK p.flags false (if v4 = true then s.v6Cmp else fill p.flags.sip p.flags.dip p.flags.dport p.flags.proto (if v4 = true then s.v4Cmp else s.v6Cmp) e.1) := by
      cases v4
      · simpa using hcmp
      · simpa using c6
    simp only [hev, hh]
    cases hv : evalNode i e.1
    · simp only [Bool.false_eq_true, if_false]; exact ⟨⟨hk4, hk6, hc4, hc6⟩, trivial⟩
    · simp only [if_true]; exact ⟨⟨hk4, hk6, hc4, hc6⟩, rfl⟩

theorem scanEntry_fold (p : Plan) (hp : PlanOK p) (ext : Option Int) (v4 : Bool) (es : List (Key × Ctr))
    (he : ∀ e ∈ es, FlowKey v4 e.1) : ∀ (s : SSt), ScanOK p ext s →
    ScanOK p ext (es.foldl (scanEntry p v4) s) ∧
    (es.foldl (scanEntry p v4) s).res = updAll s.res (itemsOf p ext v4 es) := by
  induction es with
  | nil => intro s hs; exact ⟨hs, rfl⟩
  | cons e t ih =>
    intro s hs
    obtain ⟨a1, ar⟩ := scanEntry_eq p hp ext v4 s e hs (he e (by simp))
    obtain ⟨b1, br⟩ := ih (fun x hx => he x (by simp [hx])) (scanEntry p v4 s e) a1
    rw [List.foldl_cons]
    refine ⟨b1, ?_⟩
    rw [br, ar]
    unfold itemsOf
    cases hh : holds p e.1 <;> simp [hh, updAll, itemOf]

/-- the entries of a pair of maps are keys of flows of the right family -/
def MapsOK (m : Agg × Agg) : Prop := (∀ e ∈ m.1, FlowKey true e.1) ∧ (∀ e ∈ m.2, FlowKey false e.1)

theorem ctrAgg_keys (a : Agg) (v4 : Bool) (h : ∀ e ∈ a, FlowKey v4 e.1) : ∀ e ∈ ctrAgg a, FlowKey v4 e.1 := by
  intro e he
  unfold ctrAgg at he
  obtain ⟨x, hx, rfl⟩ := List.mem_map.1 he
  exact h x hx

/-- the stored scan of one block in closed form -/
theorem scanMaps_eq (p : Plan) (hp : PlanOK p) (ext : Option Int) (m : Agg × Agg) (hm : MapsOK m) (res : RMap) :
    scanMaps p ext m res = updAll res (itemsOf p ext true (ctrAgg m.1) ++ itemsOf p ext false (ctrAgg m.2)) := by
  unfold scanMaps
  obtain ⟨a1, ar⟩ := scanEntry_fold p hp ext true (ctrAgg m.1) (ctrAgg_keys _ _ hm.1)
    ⟨emptyBuf true ext, emptyBuf false ext, emptyBuf true none, emptyBuf false none, res⟩
    ⟨bufOK_empty _ _ _ _ _ _, bufOK_empty _ _ _ _ _ _, bufOK_empty _ _ _ _ _ _, bufOK_empty _ _ _ _ _ _⟩
  obtain ⟨-, br⟩ := scanEntry_fold p hp ext false (ctrAgg m.2) (ctrAgg_keys _ _ hm.2) _ a1
  simp only at ar br ⊢
  rw [br, ar, updAll_append]

/-- **`queryFilter_eq_scan`** — first sentence of C29, "grouped exactly as stored flows would be":
    for every accepted query, what `QueryFilter` makes of a map of complete flow keys is exactly —
    the same entries under the same keys with the same counters — what the stored scan makes of a
    block holding those flows (with no block time attached). -/
theorem queryFilter_eq_scan (p : Plan) (hp : PlanOK p) (m : Agg × Agg) (hm : MapsOK m) :
    queryFilter p m = scanMaps p none m [] := by
  rw [queryFilter_eq, scanMaps_eq p hp none m hm]


/-! ## reachable flow logs -/

/-- a byte string of length `n` -/
def Bytes (n : Nat) (k : Key) : Prop := k.length = n ∧ ∀ b ∈ k, b < 256

/-- every 5-tuple in the flow log is 13 / 37 bytes -/
def LogOK (st : St) : Prop := (∀ k ∈ C20.keys st.v4, Bytes 13 k) ∧ (∀ k ∈ C20.keys st.v6, Bytes 37 k)

/-- a parsed packet: a 5-tuple of bytes of the size of its family -/
def PktOK (p : C20.Pkt) : Prop := Bytes (C20.hlen p.v6) p.h

theorem mirror_bytes (h : Key) (n : Nat) (hb : Bytes n h) : Bytes n (C20.mirror h) := by
  obtain ⟨hl, hb⟩ := hb
  refine ⟨?_, ?_⟩
  · simp only [C20.mirror, List.length_append, List.length_take, List.length_drop]; omega
  · intro b hm
    simp only [C20.mirror, List.mem_append] at hm
    rcases hm with (hm | hm) | hm
    · exact hb b (List.mem_of_mem_drop (List.mem_of_mem_take hm))
    · exact hb b (List.mem_of_mem_take hm)
    · exact hb b (List.mem_of_mem_drop hm)

theorem addTo_keys (n : Nat) (pr : Bool) (hr : Key) (rv : Bool) (m : FMap) (h : Key) (pt sz : Nat)
    (hm : ∀ k ∈ C20.keys m, Bytes n k) (hh : Bytes n h) (hhr : Bytes n hr) :
    ∀ k ∈ C20.keys (C20.addTo pr hr rv m h pt sz), Bytes n k := by
  rcases C20.addTo_cases pr hr rv m h pt sz with ⟨k, -, -, he⟩ | ⟨-, -, k, hk, he⟩
  · rw [he, C20.keys_upd]; exact hm
  · rw [he, C20.keys_ins]
    intro k' hk'
    rcases List.mem_cons.1 hk' with rfl | hk'
    · rcases hk with rfl | rfl
      · exact hh
      · exact hhr
    · exact hm k' hk'

theorem addPkt_ok (st : St) (p : C20.Pkt) (hs : LogOK st) (hp : PktOK p) : LogOK (C20.addPkt st p) := by
  unfold C20.addPkt
  cases hv : p.v6
  · have hb : Bytes 13 p.h := by simpa [PktOK, hv, C20.hlen, C20.alen] using hp
    simp only [Bool.false_eq_true, if_false]
    refine ⟨?_, hs.2⟩
    unfold C20.addV4
    exact addTo_keys 13 _ _ _ _ _ _ _ hs.1 hb (by rw [C20.revV4_eq_mirror _ hb.1]; exact mirror_bytes _ _ hb)
  · have hb : Bytes 37 p.h := by simpa [PktOK, hv, C20.hlen, C20.alen] using hp
    simp only [if_true]
    refine ⟨hs.1, ?_⟩
    unfold C20.addV6
    exact addTo_keys 37 _ _ _ _ _ _ _ hs.2 hb (by rw [C20.revV6_eq_mirror _ hb.1]; exact mirror_bytes _ _ hb)

theorem rotate_ok (st : St) (hs : LogOK st) : LogOK (C20.rotate st).2 := by
  obtain ⟨-, -, -, e4, e6⟩ := C20.rotate_eq st (fun k hk => (hs.1 k hk).1) (fun k hk => (hs.2 k hk).1)
  refine ⟨?_, ?_⟩
  · rw [e4, C20.keys_resetAll]; intro k hk; exact hs.1 k ((C20.keys_filter_sublist _ _).subset hk)
  · rw [e6, C20.keys_resetAll]; intro k hk; exact hs.2 k ((C20.keys_filter_sublist _ _).subset hk)

/-! ## what a flow log is stored as -/

theorem flowKey_of_bytes (v4 : Bool) (k : Key) (hk : Bytes (if v4 then 11 else 35) k) : FlowKey v4 k := by
  obtain ⟨f, hf, he⟩ := C09.key_is_flow k (by cases v4 <;> simp_all [Bytes]) hk.2
  refine ⟨f, hf, he, ?_⟩
  have hl : (encode f).length = f.sip.length + f.dip.length + 3 := by simp [encode]; omega
  rw [he, hk.1] at hl
  rcases fam_cases f hf with ⟨h0, h1, h2⟩ | ⟨h0, h1, h2⟩ <;> cases v4 <;> simp_all <;> omega

theorem dbKey_bytes (n : Nat) (h : Key) (_hn : n = 13 ∨ n = 37) (hb : Bytes n h) : Bytes (n - 2) (C20.dbKeyOf h) := by
  obtain ⟨hl, hb⟩ := hb
  refine ⟨?_, ?_⟩
  · simp only [C20.dbKeyOf, List.length_append, List.length_take, List.length_drop]; omega
  · intro b hm
    simp only [C20.dbKeyOf, List.mem_append] at hm
    rcases hm with hm | hm
    · exact hb b (List.mem_of_mem_take hm)
    · exact hb b (List.mem_of_mem_drop hm)

/-- the block the next write-out writes -/
def pending (st : St) : Agg × Agg := ((C20.rotate st).1.agg4, (C20.rotate st).1.agg6)

theorem aggOf_flowKeys (v4 : Bool) (n : Nat) (hn : n = if v4 then 13 else 37) (l : FMap)
    (hl : ∀ k ∈ C20.keys l, Bytes n k) : ∀ e ∈ C20.aggOf C20.dbKeyOf l [], FlowKey v4 e.1 := by
  intro e he
  have hk : e.1 ∈ C20.akeys (C20.aggOf C20.dbKeyOf l []) := List.mem_map.2 ⟨e, he, rfl⟩
  rcases (C20.aggOf_keys C20.dbKeyOf l [] e.1).1 hk with h | ⟨x, hx, hxe⟩
  · simp [C20.akeys] at h
  · have hb := hl x.1 (List.mem_map.2 ⟨x, hx, rfl⟩)
    apply flowKey_of_bytes
    rw [hxe]
    have := dbKey_bytes n x.1 (by cases v4 <;> simp_all) hb
    cases v4 <;> simp_all

theorem pending_eq (st : St) (hs : LogOK st) :
    pending st = (C20.aggOf C20.dbKeyOf (st.v4.filter C20.act) [], C20.aggOf C20.dbKeyOf (st.v6.filter C20.act) []) := by
  obtain ⟨e1, e2, -⟩ := C20.rotate_eq st (fun k hk => (hs.1 k hk).1) (fun k hk => (hs.2 k hk).1)
  unfold pending; rw [e1, e2]

theorem pending_ok (st : St) (hs : LogOK st) : MapsOK (pending st) := by
  rw [pending_eq st hs]
  refine ⟨aggOf_flowKeys true 13 rfl _ ?_, aggOf_flowKeys false 37 rfl _ ?_⟩
  · intro k hk; exact hs.1 k ((C20.keys_filter_sublist _ _).subset hk)
  · intro k hk; exact hs.2 k ((C20.keys_filter_sublist _ _).subset hk)

/-- `FlowLog.Aggregate` shows exactly the maps the next `FlowLog.Rotate` emits (C20, restated for
    every flow log of well-formed 5-tuples) -/
theorem aggregate_eq_pending (st : St) (hs : LogOK st) : C20.aggregate st = pending st := by
  rw [pending_eq st hs]
  obtain ⟨-, a⟩ := C20.agg_fold C20.putV4 C20.dbKeyOf 11 13 C20.putOK_v4 st.v4 (C20.emptyV4Key, [])
    (fun k hk => (hs.1 k hk).1) C20.emptyV4Key_length
  obtain ⟨-, b⟩ := C20.agg_fold C20.putV6 C20.dbKeyOf 35 37 C20.putOK_v6 st.v6 (C20.emptyV6Key, [])
    (fun k hk => (hs.2 k hk).1) C20.emptyV6Key_length
  unfold C20.aggregate
  rw [a, b]

/-- **`live_eq_next_block`** — "… exactly as stored flows would be": for every accepted query and
    every reachable flow log, what `GetFlowMaps` sends for the capture is the stored scan of the
    block the next write-out writes (`FlowLog.Rotate` of this very flow log), with no block time;
    nothing is sent exactly when the flow log is empty. -/
theorem live_eq_next_block (p : Plan) (hp : PlanOK p) (st : St) (hs : LogOK st) :
    (getFlowMap p st).1 = if flowLogLen st = 0 then none else some (scanMaps p none (pending st) []) := by
  unfold getFlowMap flowMap
  split
  · rfl
  · simp only [Option.map_some, aggregateSt_maps]
    rw [aggregate_eq_pending st hs, queryFilter_eq_scan p hp _ (pending_ok st hs)]


/-! ## reachable worlds -/

def BlkOK (b : Blk) : Prop := MapsOK (b.agg4, b.agg6)

/-- both flow logs hold well-formed 5-tuples and every block written holds keys of flows -/
structure WorldOK (w : World) : Prop where
  a : LogOK w.a
  b : LogOK w.b
  wos : ∀ o ∈ w.wos, ∀ i blk, o.get i = some blk → MapsOK (blk.agg4, blk.agg6)

def OpOK : Op → Prop
  | .pkt _ p => PktOK p
  | _ => True

/-- a history whose packets are parsed packets -/
def OpsOK (ops : List Op) : Prop := ∀ op ∈ ops, OpOK op

theorem logOK_init : LogOK C20.St.init := by
  constructor <;> intro k hk <;> simp [C20.St.init, C20.keys] at hk

theorem worldOK_init : WorldOK World.init := ⟨logOK_init, logOK_init, by intro o ho; simp [World.init] at ho⟩

theorem log_ok (w : World) (hw : WorldOK w) (i : Nat) : LogOK (w.log i) := by
  unfold World.log; split
  · exact hw.a
  · exact hw.b

theorem capRotate_ok (st : St) (hs : LogOK st) :
    LogOK (capRotate st).2 ∧ ∀ blk, (capRotate st).1 = some blk → MapsOK (blk.agg4, blk.agg6) := by
  unfold capRotate
  split
  · exact ⟨hs, by intro blk h; cases h⟩
  · refine ⟨rotate_ok st hs, ?_⟩
    intro blk h
    injection h with h; subst h
    exact pending_ok st hs

theorem step_ok (w : World) (op : Op) (hw : WorldOK w) (hop : OpOK op) :
    WorldOK (step w op) := by
  cases op with
  | q qr => rw [step_query]; exact hw
  | pkt i p =>
    show WorldOK (w.setLog i (C20.addPkt (w.log i) p))
    have := addPkt_ok (w.log i) p (log_ok w hw i) hop
    unfold World.setLog World.log at *
    split
    · rename_i h; simp only [h, if_true] at this; exact ⟨this, hw.b, hw.wos⟩
    · rename_i h; simp only [h, if_false] at this; exact ⟨hw.a, this, hw.wos⟩
  | rot =>
    show WorldOK (writeOut w)
    obtain ⟨a1, a2⟩ := capRotate_ok w.a hw.a
    obtain ⟨b1, b2⟩ := capRotate_ok w.b hw.b
    refine ⟨a1, b1, ?_⟩
    intro o ho i blk hb
    simp only [writeOut, List.mem_append, List.mem_singleton] at ho
    rcases ho with ho | rfl
    · exact hw.wos o ho i blk hb
    · unfold WOut.get at hb; split at hb
      · exact a2 blk hb
      · exact b2 blk hb

/-- every world reached by a history of well-formed packets, write-outs and live queries is in order -/
theorem run_ok (ops : List Op) : ∀ w, WorldOK w → OpsOK ops → WorldOK (run w ops) := by
  induction ops with
  | nil => intro w hw _; exact hw
  | cons op t ih =>
    intro w hw ho
    exact ih (step w op) (step_ok w op hw (ho op (by simp))) (fun x hx => ho x (by simp [hx]))

theorem blocksOf_ok (w : World) (hw : WorldOK w) (i : Nat) : ∀ b ∈ blocksOf w.wos i, BlkOK b := by
  intro b hb
  unfold blocksOf at hb
  obtain ⟨⟨o, j⟩, hm, rfl⟩ := List.mem_map.1 hb
  have ho : o ∈ w.wos := by
    obtain ⟨-, -, h3⟩ := List.mem_zipIdx hm
    simp at h3
    rw [h3]; exact List.getElem_mem _
  cases hg : o.get i with
  | none =>
    simp only [hg]
    exact ⟨fun e he => by simp at he, fun e he => by simp at he⟩
  | some blk =>
    simp only [hg]
    exact hw.wos o ho i blk hg


/-! ## the result of a live query -/

/-- the contributions of a block (or of the pending block, `ext = none`): the flows that pass the
    condition, each under the key of the selected attributes -/
def blockItems (p : Plan) (ext : Option Int) (m : Agg × Agg) : List (RKey × Ctr) :=
  itemsOf p ext true (ctrAgg m.1) ++ itemsOf p ext false (ctrAgg m.2)

def storedItemsM (p : Plan) (blocks : List Blk) : List (RKey × Ctr) :=
  blocks.flatMap fun b => blockItems p (extOf p.sel b.ts) (b.agg4, b.agg6)

theorem updAll_rep {m : RMap} {its : List (RKey × Ctr)} (h : C08.Rep m its) (b : List (RKey × Ctr)) :
    C08.Rep (updAll m b) (its ++ b) := C08.rep_foldl_upd b h

theorem storedMap_rep (p : Plan) (hp : PlanOK p) (blocks : List Blk) (hb : ∀ b ∈ blocks, BlkOK b) :
    C08.Rep (storedMap p blocks) (storedItemsM p blocks) := by
  unfold storedMap storedItemsM
  suffices h : ∀ (m : RMap) (its : List (RKey × Ctr)), C08.Rep m its →
      C08.Rep (blocks.foldl (scanBlock p) m) (its ++ blocks.flatMap fun b => blockItems p (extOf p.sel b.ts) (b.agg4, b.agg6)) by
    simpa using h [] [] C08.rep_nil
  induction blocks with
  | nil => intro m its h; simpa using h
  | cons b t ih =>
    intro m its h
    rw [List.foldl_cons, List.flatMap_cons, ← List.append_assoc]
    apply ih (fun x hx => hb x (by simp [hx]))
    unfold scanBlock
    rw [scanMaps_eq p hp _ _ (hb b (by simp))]
    exact updAll_rep h _

/-- what `GetFlowMaps` contributes for a capture represents the items of its pending block -/
theorem liveMap_rep (p : Plan) (hp : PlanOK p) (st : St) (hs : LogOK st) :
    C08.Rep ((getFlowMap p st).1.getD []) (blockItems p none (pending st)) := by
  rw [live_eq_next_block p hp st hs]
  split
  · rename_i h0
    have h4 : st.v4 = [] := List.eq_nil_of_length_eq_zero (by unfold flowLogLen at h0; omega)
    have h6 : st.v6 = [] := List.eq_nil_of_length_eq_zero (by unfold flowLogLen at h0; omega)
    have : pending st = ([], []) := by
      rw [pending_eq st hs, h4, h6]; rfl
    rw [this]
    exact C08.rep_nil
  · simp only [Option.getD_some]
    rw [scanMaps_eq p hp none _ (pending_ok st hs)]
    have h := updAll_rep C08.rep_nil (blockItems p none (pending st))
    simpa [blockItems] using h

theorem getFlowMaps_maps (p : Plan) (ifs : List Nat) (w : World) :
    (getFlowMaps p ifs w).1 = ifs.map fun j => (j, (getFlowMap p (w.log j)).1) := by
  unfold getFlowMaps
  suffices h : ∀ (acc : List (Nat × Option RMap) × World), acc.2 = w →
      (ifs.foldl (fun acc i =>
        let r := getFlowMap p (acc.2.log i)
        (acc.1 ++ [(i, r.1)], acc.2.setLog i r.2)) acc).1 = acc.1 ++ ifs.map fun j => (j, (getFlowMap p (w.log j)).1) by
    simpa using h ([], w) rfl
  induction ifs with
  | nil => intro acc _; simp
  | cons i t ih =>
    intro acc h
    rw [List.foldl_cons, ih]
    · simp [h]
    · show acc.2.setLog i (getFlowMap p (acc.2.log i)).2 = w
      rw [getFlowMap_log, setLog_log, h]

theorem liveOf_getFlowMaps (p : Plan) (ifs : List Nat) (w : World) (i : Nat) (hi : i ∈ ifs) :
    liveOf (getFlowMaps p ifs w).1 i = (getFlowMap p (w.log i)).1.getD [] := by
  rw [getFlowMaps_maps]
  unfold liveOf
  have : (ifs.map fun j => (j, (getFlowMap p (w.log j)).1)).find? (·.1 == i) = some (i, (getFlowMap p (w.log i)).1) := by
    induction ifs with
    | nil => cases hi
    | cons j t ih =>
      simp only [List.map_cons, List.find?_cons]
      by_cases hj : j = i
      · subst hj; simp
      · have : (j == i) = false := by simpa using hj
        simp only [this]
        exact ih (by rcases List.mem_cons.1 hi with h | h; exact absurd h.symm hj; exact h)
  rw [this]
  cases (getFlowMap p (w.log i)).1 <;> rfl

/-- **`live_result_rep`** — first sentence of C29: for every history of well-formed packets,
    write-outs and live queries, every accepted query (any condition, any attribute selection) and
    every interface it names, the final map the engine builds for the interface in a live query
    represents — distinct keys, counters summed per key — the contributions of all stored blocks
    together with the contributions of the block the next write-out would write: the in-memory
    flows, filtered and keyed by the very same `blockItems` that describes a stored block. -/
theorem live_result_rep (ops : List Op) (hops : OpsOK ops) (p : Plan) (hp : PlanOK p) (ifs : List Nat) (i : Nat) (hi : i ∈ ifs) :
    let w := run World.init ops
    C08.Rep (finalMap p w.wos (liveOf (getFlowMaps p ifs w).1 i) i)
      (storedItemsM p (blocksOf w.wos i) ++ blockItems p none (pending (w.log i))) := by
  intro w
  have hw : WorldOK w := run_ok ops World.init worldOK_init hops
  rw [liveOf_getFlowMaps p ifs w i hi]
  unfold finalMap
  exact C08.rep_merge (storedMap_rep p hp _ (blocksOf_ok w hw i)) (liveMap_rep p hp _ (log_ok w hw i))

/-- without live data the final map represents the stored blocks alone: the live query adds the
    pending block and nothing else -/
theorem stored_result_rep (ops : List Op) (hops : OpsOK ops) (p : Plan) (hp : PlanOK p) (i : Nat) :
    let w := run World.init ops
    C08.Rep (finalMap p w.wos [] i) (storedItemsM p (blocksOf w.wos i)) := by
  intro w
  have hw : WorldOK w := run_ok ops World.init worldOK_init hops
  unfold finalMap
  simpa [C08.AMap.merge] using storedMap_rep p hp _ (blocksOf_ok w hw i)

/-- the condition of `blockItems` is the query's Boolean formula: on the key of a flow, `holds` is
    C09's `sem` of the condition as the user wrote it (aliases, negations and all) -/
theorem holds_is_sem (q : Query) (p : Plan) (hp : plan q = .ok p) (f : C09.Flow) (hf : f.WF) :
    holds p (encode f) = condHolds q.cond f := by
  cases hq : q.cond with
  | none => simp [holds, (plan_none q hq p hp).2.2, condHolds]
  | some c =>
    obtain ⟨i, hi, he⟩ := live_filter_is_sem q c hq p hp f hf
    simp [holds, hi, he, condHolds]

/-- **`live_query_partial`** — the answer of `QueryRunner.Run` to a live query, under the
    hypothesis that at least one write-out has happened (before that the database knows no
    interface and the call fails, see `live_before_first_writeout`): the rows are those of the final
    maps of `live_result_rep`. -/
theorem live_query_partial (p : Plan) (ifs : List Nat) (w : World) (h : w.wos ≠ []) :
    answer p ifs w true = some (rowsOfMaps p (ifs.map fun i => (i, finalMap p w.wos (liveOf (getFlowMaps p ifs w).1 i) i))) := by
  unfold answer runStatement
  cases hw : w.wos with
  | nil => exact absurd hw h
  | cons _ _ => simp


/-! ## non-vacuity, and the hypothesis that was forced -/

instance (n : Nat) (k : Key) : Decidable (Bytes n k) := by unfold Bytes; exact inferInstance
instance (p : C20.Pkt) : Decidable (PktOK p) := by unfold PktOK; exact inferInstance
instance (op : Op) : Decidable (OpOK op) := by
  cases op <;> unfold OpOK <;> exact inferInstance
instance (ops : List Op) : Decidable (OpsOK ops) := by
  unfold OpsOK; exact inferInstance

/-- 10.0.0.1:40000 → 10.0.0.2:1024 and 10.0.0.1:40000 → 10.0.0.3:1024 (TCP SYN, inbound, 60 / 70 bytes) -/
def exP1 : C20.Pkt := ⟨false, [10,0,0,1, 156,64, 10,0,0,2, 4,0, 6], 0, 60, 2⟩
def exP2 : C20.Pkt := ⟨false, [10,0,0,1, 156,64, 10,0,0,3, 4,0, 6], 0, 70, 2⟩
/-- `sip` where `dnet = 10.0.0.0/30 & !(dip = 10.0.0.3)`… kept simple: query type `sip`, condition `dport = 1024` -/
def exQ : Query := ⟨⟨true, false, false, false, false⟩, some (.leaf .dport .eq (.num 1024)), [0], none⟩
/-- two flows written, the same two flows seen again, then the live query -/
def exOps : List Op := [.pkt 0 exP1, .pkt 0 exP2, .rot, .pkt 0 exP1, .pkt 0 exP2, .q exQ, .rot]

def exAnswer (ops : List Op) (q : Query) : Option (List (RowKey × Ctr)) :=
  match plan q with
  | .ok p => answer p q.ifaces (run World.init ops) true
  | _ => none

/-- the plan of a query (a dummy for rejected ones, never used below) -/
def planD (q : Query) : Plan :=
  match plan q with
  | .ok p => p
  | _ => ⟨q.sel, none, Flags.none, none⟩

/-- the original `QueryFilter` (before the `fix:` commit): the condition was applied, the entries
    kept their complete keys -/
def origQueryFilter (p : Plan) (m : Agg × Agg) : RMap :=
  ((ctrAgg m.1).filter fun e => holds p e.1).map (fun e => ((true, ⟨sipOf e.1, dipOf e.1, dportOf e.1, protoOf e.1, none⟩), e.2)) ++
  ((ctrAgg m.2).filter fun e => holds p e.1).map (fun e => ((false, ⟨sipOf e.1, dipOf e.1, dportOf e.1, protoOf e.1, none⟩), e.2))

example : OpsOK exOps := by decide
example : (plan exQ).isOk = true := by decide
example : exAnswer (exOps.take 5) exQ =
    some [(⟨"verifa", "-", some [10,0,0,1], none, none, none⟩, ⟨260, 0, 4, 0⟩)] := by decide

/-- what `GetFlowMaps` hands over at that moment: ONE entry for 10.0.0.1 (both in-memory flows), under the
    key the stored scan uses (`sip` only, everything else zero) -/
example : (getFlowMap (planD exQ) (run World.init (exOps.take 5)).a).1 =
    some [((true, ⟨[10,0,0,1], [0,0,0,0], [0,0], 0, none⟩), ⟨130, 0, 2, 0⟩)] := by decide
/-- the replayed defect: the original filter handed over one entry per in-memory flow with its complete
    key, so the live query showed 10.0.0.1 three times (130 stored, 60 and 70 live) -/
example : origQueryFilter (planD exQ) (C20.aggregate (run World.init (exOps.take 5)).a) =
    [((true, ⟨[10,0,0,1], [10,0,0,3], [4,0], 6, none⟩), ⟨70, 0, 1, 0⟩),
     ((true, ⟨[10,0,0,1], [10,0,0,2], [4,0], 6, none⟩), ⟨60, 0, 1, 0⟩)] := by decide
/-- a condition that holds for one of the two flows only -/
example : exAnswer (exOps.take 5) { exQ with cond := some (.not (.leaf .host .eq (.addr [10,0,0,3]))) } =
    some [(⟨"verifa", "-", some [10,0,0,1], none, none, none⟩, ⟨120, 0, 2, 0⟩)] := by decide
/-- with `time` the pending block is a group of its own, labelled `live` -/
example : exAnswer (exOps.take 5) { exQ with sel := ⟨true, false, false, false, true⟩ } =
    some [(⟨"verifa", "1700000100", some [10,0,0,1], none, none, none⟩, ⟨130, 0, 2, 0⟩),
          (⟨"verifa", "live", some [10,0,0,1], none, none, none⟩, ⟨130, 0, 2, 0⟩)] := by decide
/-- the live query changed nothing: the second write-out hands over the two flows -/
example : ((run World.init exOps).wos.map fun o => o.a.map fun b => C20.sortRecs b.recs) =
    [some [([10,0,0,1, 10,0,0,2, 4,0, 6], ⟨60, 0, 1, 0⟩), ([10,0,0,1, 10,0,0,3, 4,0, 6], ⟨70, 0, 1, 0⟩)],
     some [([10,0,0,1, 10,0,0,2, 4,0, 6], ⟨60, 0, 1, 0⟩), ([10,0,0,1, 10,0,0,3, 4,0, 6], ⟨70, 0, 1, 0⟩)]] := by decide

/-- **the hypothesis of `live_query_partial` is needed** (known finding
    `C29-live-before-first-writeout`): before the first write-out the database has no directory for
    the interface, the query front end resolves no interface and the live query fails although two
    flows that satisfy it are held in memory -/
example : exAnswer [.pkt 0 exP1, .pkt 0 exP2] exQ = none ∧
    (blockItems (planD exQ) none (pending (run World.init [.pkt 0 exP1, .pkt 0 exP2]).a)).length = 2 := by decide


end C29
