import GoProbeModel.Model.C26

set_option linter.unusedSimpArgs false

/-!
C26 — property theorems for the CSV import.

* `import_spec`         — the destination holds exactly the accepted rows grouped by
                          (iface, timestamp, key) with counters summed, for ALL inputs
* `rows_account`        — rows read = rows imported + rows skipped
* `regression_rejected` — input that goes backwards in time is rejected; what the destination
                          then holds is stated exactly
plus the refinement lemmas model = spec for schema and rows, the algebra of the spec, and the ties
to the regenerated tables.
-/
namespace C26

open Model

/-! ### algebra of the spec (`specStore` computes the finite map `specStored`) -/

theorem Counters.add_assoc (a b c : Counters) : (a.add b).add c = a.add (b.add c) := by
  simp [Counters.add, Nat.add_assoc]

theorem Counters.add_zero (a : Counters) : a.add Counters.zero = a := by
  cases a; simp [Counters.add, Counters.zero]

theorem stored_nil (k : FKey) : stored [] k = none := rfl

theorem stored_cons (f : Row) (fs : List Row) (k : FKey) :
    stored (f :: fs) k = if f.id = k then some f.c else stored fs k := by
  by_cases h : f.id = k <;> simp [stored, List.find?, h]

@[simp] theorem id_with_c (f : Row) (c : Counters) : ({ f with c := c } : Row).id = f.id := rfl

theorem stored_upsert (l : List Row) (r : Row) (k : FKey) :
    stored (upsert Counters.add l r) k =
      if r.id = k then some (match stored l k with | some a => a.add r.c | none => r.c) else stored l k := by
  induction l with
  | nil => simp only [upsert, stored_cons, stored_nil]
  | cons f fs ih =>
    simp only [upsert]
    by_cases hf : f.id = r.id
    · simp only [hf, if_true, stored_cons, id_with_c]
      by_cases h : r.id = k <;> simp [h]
    · simp only [hf, if_false, stored_cons, ih]
      by_cases hk : f.id = k
      · have : ¬ r.id = k := by intro h; exact hf (hk.trans h.symm)
        simp [hk, this]
      · simp [hk]

/-- folding rows into a store adds, per identity, the sum of their counters -/
theorem stored_foldl (rows : List Row) : ∀ (acc : List Row) (k : FKey),
    stored (rows.foldl (upsert Counters.add) acc) k =
      match stored acc k, specStored rows k with
      | a, none => a
      | none, some s => some s
      | some a, some s => some (a.add s) := by
  induction rows with
  | nil => intro acc k; simp [specStored]
  | cons r rs ih =>
    intro acc k
    simp only [List.foldl_cons, ih, stored_upsert]
    simp only [specStored, List.any_cons, List.filter_cons]
    by_cases hr : (rs.any fun x => decide (x.id = k)) = true
    · by_cases h : r.id = k
      · simp only [h, decide_true, Bool.true_or, if_true, sumCounters]
        cases hs : stored acc k <;> simp [hr, Counters.add_assoc]
      · simp only [h, decide_false, Bool.false_or, if_false]
        rfl
    · have hnil : rs.filter (fun x => decide (x.id = k)) = [] := by
        rw [List.filter_eq_nil_iff]; intro a ha hk; apply hr; rw [List.any_eq_true]; exact ⟨a, ha, hk⟩
      by_cases h : r.id = k
      · simp only [h, decide_true, Bool.true_or, if_true, sumCounters, hnil, Counters.add_zero]
        cases hs : stored acc k <;> simp [hr]
      · simp only [h, decide_false, Bool.false_or, if_false]
        rfl

/-- **algebra of the spec, 1**: under every identity `specStore` holds the sum of the counters of the
    rows with that identity, and nothing under an identity no row has -/
theorem specStore_stored (rows : List Row) (k : FKey) : stored (specStore rows) k = specStored rows k := by
  unfold specStore
  rw [stored_foldl rows [] k, stored_nil]
  cases specStored rows k <;> rfl

theorem upsert_ids (m : Counters → Counters → Counters) (l : List Row) (r : Row) :
    (upsert m l r).map Row.id = if r.id ∈ l.map Row.id then l.map Row.id else l.map Row.id ++ [r.id] := by
  induction l with
  | nil => simp [upsert]
  | cons f fs ih =>
    simp only [upsert]
    by_cases hf : f.id = r.id
    · simp [hf]
    · have hf' : ¬ r.id = f.id := fun h => hf h.symm
      simp only [hf, if_false, List.map_cons, ih, List.mem_cons, hf', false_or]
      by_cases hm : r.id ∈ fs.map Row.id <;> simp [hm]

theorem upsert_nodup (m : Counters → Counters → Counters) (l : List Row) (r : Row)
    (h : (l.map Row.id).Nodup) : ((upsert m l r).map Row.id).Nodup := by
  rw [upsert_ids]
  by_cases hm : r.id ∈ l.map Row.id
  · simp only [hm, if_true]; exact h
  · simp only [hm, if_false]
    rw [List.nodup_append]
    refine ⟨h, by simp, ?_⟩
    intro a ha b hb
    simp at hb
    subst hb
    intro hab; subst hab; exact hm ha

theorem foldl_upsert_nodup (m : Counters → Counters → Counters) (rows : List Row) :
    ∀ acc : List Row, (acc.map Row.id).Nodup → ((rows.foldl (upsert m) acc).map Row.id).Nodup := by
  induction rows with
  | nil => intro acc h; exact h
  | cons r rs ih => intro acc h; exact ih _ (upsert_nodup m acc r h)

/-- **algebra of the spec, 2**: one entry per identity -/
theorem specStore_nodup (rows : List Row) : ((specStore rows).map Row.id).Nodup :=
  foldl_upsert_nodup _ rows [] (by simp)

/-! ### the read loop of `Import` -/

theorem setOrUpdate_eq_upsert : ∀ (l : List Row) (r : Row), setOrUpdate l r = upsert Counters.add l r
  | [], r => rfl
  | f :: fs, r => by
    simp only [setOrUpdate, upsert, Counters.add]
    split
    · rfl
    · rw [setOrUpdate_eq_upsert fs r]

theorem upsert_append_of_not_mem (m : Counters → Counters → Counters) (a b : List Row) (r : Row)
    (h : ∀ f ∈ a, f.id ≠ r.id) : upsert m (a ++ b) r = a ++ upsert m b r := by
  induction a with
  | nil => rfl
  | cons f fs ih =>
    have hf : ¬ f.id = r.id := h f (by simp)
    simp only [List.cons_append, upsert, hf, if_false]
    rw [ih (fun g hg => h g (by simp [hg]))]

theorem upsert_all (m : Counters → Counters → Counters) (P : Int → Prop) (l : List Row) (r : Row)
    (hl : ∀ f ∈ l, P f.ts) (hr : P r.ts) : ∀ f ∈ upsert m l r, P f.ts := by
  induction l with
  | nil => intro f hf; simp [upsert] at hf; subst hf; exact hr
  | cons g gs ih =>
    intro f hf
    simp only [upsert] at hf
    split at hf
    · simp only [List.mem_cons] at hf
      rcases hf with hf | hf
      · subst hf; exact hl g (by simp)
      · exact hl f (by simp [hf])
    · simp only [List.mem_cons] at hf
      rcases hf with hf | hf
      · subst hf; exact hl f (by simp)
      · exact ih (fun x hx => hl x (by simp [hx])) f hf

theorem specStore_concat (acc : List Row) (r : Row) : specStore (acc ++ [r]) = upsert Counters.add (specStore acc) r := by
  simp [specStore, List.foldl_append]

theorem ts_ne_id_ne {f r : Row} (h : f.ts ≠ r.ts) : f.id ≠ r.id := by
  intro hid; apply h; simp only [Row.id, Prod.mk.injEq] at hid; exact hid.2.1

/-- the timestamp of the previously accepted row, if any (`haveTimestamp`, `currentTimestamp`) -/
def lastTs (st : St) : Option Int := if st.seen then some st.cur else none

/-- invariant of the loop after the accepted rows `acc` -/
structure Inv (st : St) (acc : List Row) : Prop where
  store : st.db ++ st.pending = specStore acc
  pend : ∀ f ∈ st.pending, f.ts = st.cur
  dbLt : ∀ f ∈ st.db, f.ts < st.cur
  wrLt : ∀ w ∈ st.written, w.2 < st.cur
  fresh : st.seen = false → st.written = []
  last : lastTs st = acc.getLast?.map (·.ts)
  imp : st.imported = acc.length

theorem Inv.acc_nil {st : St} {acc : List Row} (h : Inv st acc) (hs : st.seen = false) : acc = [] := by
  have := h.last
  simp only [lastTs, hs] at this
  cases hl : acc.getLast? with
  | none => exact List.getLast?_eq_none_iff.mp hl
  | some x => rw [hl] at this; simp at this

/-- the state after writing the flows `out` and keeping `keep` pending -/
def flushed (st : St) (out keep : List Row) : St :=
  { st with pending := keep, db := st.db ++ out, written := st.written ++ (out.map blockId).eraseDups, blocks := st.blocks + ((out.map blockId).eraseDups).length }

@[simp] theorem flushed_pending (st : St) (o k : List Row) : (flushed st o k).pending = k := rfl
@[simp] theorem flushed_db (st : St) (o k : List Row) : (flushed st o k).db = st.db ++ o := rfl
@[simp] theorem flushed_written (st : St) (o k : List Row) :
    (flushed st o k).written = st.written ++ (o.map blockId).eraseDups := rfl
@[simp] theorem flushed_read (st : St) (o k : List Row) : (flushed st o k).read = st.read := rfl
@[simp] theorem flushed_imported (st : St) (o k : List Row) : (flushed st o k).imported = st.imported := rfl
@[simp] theorem flushed_skipped (st : St) (o k : List Row) : (flushed st o k).skipped = st.skipped := rfl

/-- every pending block may be written: all blocks written so far are older -/
theorem writeBlocks_some (st : St) (out keep : List Row)
    (hout : ∀ f ∈ out, ∀ w ∈ st.written, w.2 < f.ts) :
    writeBlocks st out keep = some (flushed st out keep) := by
  unfold writeBlocks flushed
  have : ((out.map blockId).eraseDups).all (storageAccepts st.written) = true := by
    rw [List.all_eq_true]
    intro id hid
    rw [List.mem_eraseDups, List.mem_map] at hid
    obtain ⟨f, hf, rfl⟩ := hid
    unfold storageAccepts
    rw [List.all_eq_true]
    intro w hw
    have := hout f hf w hw
    simp [blockId, this]
  simp only [this, if_true]

theorem flushAll_some {st : St} {acc : List Row} (h : Inv st acc) :
    ∃ st', flushAll st = some st' ∧ st'.db = specStore acc ∧ st'.read = st.read ∧ st'.imported = st.imported ∧
      st'.skipped = st.skipped := by
  unfold flushAll
  rw [writeBlocks_some st st.pending st.pending (fun f hf w hw => by rw [h.pend f hf]; exact h.wrLt w hw)]
  exact ⟨_, rfl, h.store, rfl, rfl, rfl⟩

theorem flushBefore_some {st : St} {acc : List Row} (h : Inv st acc) (cutoff : Int) (hc : st.cur < cutoff) :
    flushBeforeTimestamp cutoff st = some (flushed st st.pending []) := by
  unfold flushBeforeTimestamp
  have h1 : st.pending.filter (fun f => decide (f.ts < cutoff)) = st.pending := by
    rw [List.filter_eq_self]; intro f hf; rw [h.pend f hf]; simpa using hc
  have h2 : st.pending.filter (fun f => !decide (f.ts < cutoff)) = [] := by
    rw [List.filter_eq_nil_iff]; intro f hf; rw [h.pend f hf]; simpa using hc
  rw [h1, h2]
  exact writeBlocks_some st st.pending [] (fun f hf w hw => by rw [h.pend f hf]; exact h.wrLt w hw)

/-- the invariant after accepting a row that is not older than the previous one -/
theorem Inv.accept {st : St} {acc : List Row} (h : Inv st acc) (r : Row)
    (hr : ¬ (st.seen = true ∧ r.ts < st.cur)) :
    ∃ st2, (if st.seen = true ∧ r.ts > st.cur then flushBeforeTimestamp r.ts st else some st) = some st2 ∧
      st2.read = st.read ∧ st2.imported = st.imported ∧ st2.skipped = st.skipped ∧
      Inv { st2 with seen := true, cur := r.ts, pending := setOrUpdate st2.pending r, imported := st2.imported + 1 } (acc ++ [r]) := by
  by_cases hflush : st.seen = true ∧ r.ts > st.cur
  · -- the timestamp advances: everything pending is written first
    rw [if_pos hflush, flushBefore_some h r.ts hflush.2]
    refine ⟨_, rfl, rfl, rfl, rfl, ?_⟩
    have hall : ∀ f ∈ st.db ++ st.pending, f.ts < r.ts := by
      intro f hf
      rcases List.mem_append.mp hf with hf | hf
      · exact Int.lt_trans (h.dbLt f hf) hflush.2
      · rw [h.pend f hf]; exact hflush.2
    constructor
    · show (st.db ++ st.pending) ++ setOrUpdate [] r = specStore (acc ++ [r])
      rw [specStore_concat, ← h.store]
      have := upsert_append_of_not_mem Counters.add (st.db ++ st.pending) [] r
        (fun f hf => ts_ne_id_ne (Int.ne_of_lt (hall f hf)))
      rw [List.append_nil] at this
      rw [this]; rfl
    · intro f hf
      simp only [flushed_pending, setOrUpdate, List.mem_singleton] at hf
      subst hf; rfl
    · exact hall
    · intro w hw
      have hw : w ∈ st.written ++ (st.pending.map blockId).eraseDups := hw
      rcases List.mem_append.mp hw with hw | hw
      · exact Int.lt_trans (h.wrLt w hw) hflush.2
      · rw [List.mem_eraseDups, List.mem_map] at hw
        obtain ⟨f, hf, rfl⟩ := hw
        show f.ts < r.ts
        rw [h.pend f hf]; exact hflush.2
    · intro hs; simp at hs
    · simp [lastTs]
    · simp [h.imp]
  · rw [if_neg hflush]
    refine ⟨st, rfl, rfl, rfl, rfl, ?_⟩
    cases hs : st.seen with
    | false =>
      -- first accepted row
      have hacc := h.acc_nil hs
      have hst := h.store
      subst hacc
      simp only [specStore, List.foldl_nil, List.append_eq_nil_iff] at hst
      have hw := h.fresh hs
      constructor
      · show st.db ++ setOrUpdate st.pending r = specStore ([] ++ [r])
        rw [hst.1, hst.2]; rfl
      · intro f hf
        simp only [hst.2, setOrUpdate, List.mem_singleton] at hf
        subst hf; rfl
      · intro f hf; rw [hst.1] at hf; cases hf
      · intro w hw'; rw [hw] at hw'; cases hw'
      · intro hs'; simp at hs'
      · simp [lastTs]
      · simp [h.imp]
    | true =>
      -- same timestamp as the previous row
      have heq : r.ts = st.cur := by
        rw [hs] at hr hflush
        simp only [true_and] at hr hflush
        omega
      constructor
      · show st.db ++ setOrUpdate st.pending r = specStore (acc ++ [r])
        rw [specStore_concat, ← h.store, setOrUpdate_eq_upsert]
        exact (upsert_append_of_not_mem Counters.add st.db st.pending r
          (fun f hf => ts_ne_id_ne (by rw [heq]; exact Int.ne_of_lt (h.dbLt f hf)))).symm
      · show ∀ f ∈ setOrUpdate st.pending r, f.ts = r.ts
        rw [setOrUpdate_eq_upsert]
        exact upsert_all _ (fun t => t = r.ts) st.pending r (fun f hf => by rw [h.pend f hf, heq]) rfl
      · intro f hf; show f.ts < r.ts; rw [heq]; exact h.dbLt f hf
      · intro w hw; show w.2 < r.ts; rw [heq]; exact h.wrLt w hw
      · intro hs'; simp at hs'
      · simp [lastTs]
      · simp [h.imp]

/-- what has been written when the import stops early: the grouped form of the accepted rows that are
    older than the timestamp of the last accepted row (the rows of that last timestamp are still pending) -/
def flushedPart (rows : List Row) : List Row :=
  match rows.getLast? with
  | none => []
  | some l => (specStore rows).filter fun f => decide (f.ts < l.ts)

theorem Inv.db_eq {st : St} {acc : List Row} (h : Inv st acc) : st.db = flushedPart acc := by
  unfold flushedPart
  cases hs : st.seen with
  | false =>
    have hacc := h.acc_nil hs
    have hst := h.store
    subst hacc
    simp only [specStore, List.foldl_nil, List.append_eq_nil_iff] at hst
    simp [hst.1]
  | true =>
    have hl := h.last
    simp only [lastTs, hs, if_true] at hl
    cases hg : acc.getLast? with
    | none => rw [hg] at hl; simp at hl
    | some l =>
      rw [hg] at hl
      simp only [Option.map_some, Option.some.injEq] at hl
      simp only [← h.store, List.filter_append, ← hl]
      have h1 : st.db.filter (fun f => decide (f.ts < st.cur)) = st.db := by
        rw [List.filter_eq_self]; intro f hf; simpa using h.dbLt f hf
      have h2 : st.pending.filter (fun f => decide (f.ts < st.cur)) = [] := by
        rw [List.filter_eq_nil_iff]; intro f hf; rw [h.pend f hf]; simp
      rw [h1, h2, List.append_nil]

theorem Inv.congr {st st' : St} {acc : List Row} (h : Inv st acc)
    (h1 : st'.db = st.db) (h2 : st'.pending = st.pending) (h3 : st'.written = st.written)
    (h4 : st'.cur = st.cur) (h5 : st'.seen = st.seen) (h6 : st'.imported = st.imported) : Inv st' acc := by
  constructor
  · rw [h1, h2]; exact h.store
  · rw [h2, h4]; exact h.pend
  · rw [h1, h4]; exact h.dbLt
  · rw [h3, h4]; exact h.wrLt
  · rw [h3, h5]; exact h.fresh
  · have := h.last; simp only [lastTs, h4, h5] at this ⊢; exact this
  · rw [h6]; exact h.imp

/-- **simulation**: the loop of `Import` (no row limit) against the spec's `scan` of the same events -/
theorem loop_sim (evs : List Ev) : ∀ (st : St) (acc : List Row), Inv st acc → st.read = st.imported + st.skipped →
    (loop setOrUpdate 0 evs st).1.imported = (acc ++ (scan evs (lastTs st)).1).length ∧
    match (scan evs (lastTs st)).2 with
    | .eof => (loop setOrUpdate 0 evs st).2 = .ok ∧
        (loop setOrUpdate 0 evs st).1.db = specStore (acc ++ (scan evs (lastTs st)).1) ∧
        (loop setOrUpdate 0 evs st).1.read = (loop setOrUpdate 0 evs st).1.imported + (loop setOrUpdate 0 evs st).1.skipped ∧
        (loop setOrUpdate 0 evs st).1.read = st.read + evs.length
    | .csv => (loop setOrUpdate 0 evs st).2 = .err "csv" ∧
        (loop setOrUpdate 0 evs st).1.db = flushedPart (acc ++ (scan evs (lastTs st)).1) ∧
        (loop setOrUpdate 0 evs st).1.read = (loop setOrUpdate 0 evs st).1.imported + (loop setOrUpdate 0 evs st).1.skipped
    | .regression => (loop setOrUpdate 0 evs st).2 = .err "regression" ∧
        (loop setOrUpdate 0 evs st).1.db = flushedPart (acc ++ (scan evs (lastTs st)).1) ∧
        (loop setOrUpdate 0 evs st).1.read = (loop setOrUpdate 0 evs st).1.imported + (loop setOrUpdate 0 evs st).1.skipped + 1 := by
  induction evs with
  | nil =>
    intro st acc h hacct
    obtain ⟨st', hfl, hdb, hr, hi, hs⟩ := flushAll_some h
    simp only [loop, finish, hfl, scan, List.append_nil, List.length_nil, Nat.add_zero]
    exact ⟨by rw [hi]; exact h.imp, trivial, hdb, by rw [hr, hi, hs]; exact hacct, hr⟩
  | cons e es ih =>
    intro st acc h hacct
    cases e with
    | bad =>
      simp only [loop, scan, List.append_nil]
      exact ⟨h.imp, rfl, h.db_eq, hacct⟩
    | skip =>
      have h' : Inv { st with read := st.read + 1, skipped := st.skipped + 1 } acc := h.congr rfl rfl rfl rfl rfl rfl
      have := ih _ acc h' (by show st.read + 1 = st.imported + (st.skipped + 1); omega)
      simp only [loop, scan, ne_eq, not_true_eq_false, false_and, if_false]
      have hl : lastTs { st with read := st.read + 1, skipped := st.skipped + 1 } = lastTs st := rfl
      rw [hl] at this
      refine ⟨this.1, ?_⟩
      have h2 := this.2
      cases hsc : (scan es (lastTs st)).2 <;> rw [hsc] at h2 <;> simp only at h2 ⊢
      · refine ⟨h2.1, h2.2.1, h2.2.2.1, ?_⟩
        rw [h2.2.2.2]; simp only [List.length_cons]; omega
      · exact h2
      · exact h2
    | row r =>
      have h1 : Inv { st with read := st.read + 1 } acc := h.congr rfl rfl rfl rfl rfl rfl
      by_cases hreg : st.seen = true ∧ r.ts < st.cur
      · -- older than the previous accepted row: rejected
        have hsc : scan (Ev.row r :: es) (lastTs st) = ([], .regression) := by
          simp [scan, older, lastTs, hreg.1, hreg.2]
        simp only [loop, ne_eq, not_true_eq_false, false_and, if_false, hreg, and_self, if_true, hsc, List.append_nil]
        exact ⟨h.imp, trivial, h.db_eq, by show st.read + 1 = st.imported + st.skipped + 1; omega⟩
      · have hsc : scan (Ev.row r :: es) (lastTs st) =
            (r :: (scan es (some r.ts)).1, (scan es (some r.ts)).2) := by
          have : older r.ts (lastTs st) = false := by
            unfold lastTs
            cases hs : st.seen with
            | false => simp [older]
            | true => simp only [hs, true_and] at hreg; simp [older, hreg]
          simp [scan, this]
        obtain ⟨st2, hst2, hr2, hi2, hs2, hinv⟩ := h1.accept r hreg
        have hl : lastTs { st2 with seen := true, cur := r.ts, pending := setOrUpdate st2.pending r, imported := st2.imported + 1 } = some r.ts := by
          simp [lastTs]
        have := ih _ (acc ++ [r]) hinv (by
          show st2.read = st2.imported + 1 + st2.skipped
          rw [hr2, hi2, hs2]; show st.read + 1 = st.imported + 1 + st.skipped; omega)
        rw [hl, List.append_assoc, List.singleton_append] at this
        have hstep : loop setOrUpdate 0 (Ev.row r :: es) st =
            loop setOrUpdate 0 es { st2 with seen := true, cur := r.ts, pending := setOrUpdate st2.pending r, imported := st2.imported + 1 } := by
          simp only [loop, ne_eq, not_true_eq_false, false_and, if_false]
          rw [if_neg hreg]
          simp only [hst2]
        rw [hstep, hsc]
        refine ⟨this.1, ?_⟩
        have h2 := this.2
        cases hsc2 : (scan es (some r.ts)).2 <;> rw [hsc2] at h2 <;> simp only at h2 ⊢
        · refine ⟨h2.1, h2.2.1, h2.2.2.1, ?_⟩
          rw [h2.2.2.2]; simp only [List.length_cons]
          show st2.read + es.length = st.read + (es.length + 1)
          rw [hr2]; show st.read + 1 + es.length = _; omega
        · exact h2
        · exact h2

theorem writeBlocks_read {st st' : St} {o k : List Row} (h : writeBlocks st o k = some st') : st'.read = st.read := by
  simp only [writeBlocks] at h
  split at h
  · simp only [Option.some.injEq] at h; rw [← h]
  · cases h

/-- `MaxRows`: because every consumed record increments `RowsRead`, the loop condition
    `RowsRead < MaxRows` is the same as cutting the input after `MaxRows - RowsRead` records -/
theorem loop_maxRows (store : List Row → Row → List Row) (m : Nat) (hm : m ≠ 0) (evs : List Ev) :
    ∀ st : St, loop store m evs st = loop store 0 (evs.take (m - st.read)) st := by
  induction evs with
  | nil => intro st; simp [loop]
  | cons e es ih =>
    intro st
    by_cases hle : m ≤ st.read
    · have : m - st.read = 0 := by omega
      simp [loop, hm, hle, this]
    · obtain ⟨k, hk⟩ : ∃ k, m - st.read = k + 1 := ⟨m - st.read - 1, by omega⟩
      have hk' : m - (st.read + 1) = k := by omega
      rw [hk, List.take_succ_cons]
      cases e with
      | bad => simp [loop, hle]
      | skip =>
        simp only [loop, hm, hle, ne_eq, not_false_eq_true, and_false, not_true_eq_false, false_and, if_false]
        rw [ih]
        show loop store 0 (es.take (m - (st.read + 1))) _ = _
        rw [hk']
      | row r =>
        simp only [loop, hm, hle, ne_eq, not_false_eq_true, and_false, not_true_eq_false, false_and, if_false]
        split
        · rfl
        · split
          · rfl
          · rename_i st2 hst2
            rw [ih]
            have : st2.read = st.read + 1 := by
              split at hst2
              · exact writeBlocks_read hst2
              · simp only [Option.some.injEq] at hst2; rw [← hst2]
            show loop store 0 (es.take (m - st2.read)) _ = _
            rw [this, hk']

/-! ### the three property theorems, for every list of read results

`evs` is what the loop sees: per record of the file `bad` (CSV syntax error), `skip` (malformed row) or
`row r` (accepted row).  The theorems hold for EVERY such list; `classify_eq_specEv` below ties the
model's classification of records to the row spec. -/

/-- accepted rows of a list of read results -/
def rowsOf : List Ev → List Row
  | [] => []
  | .row r :: es => r :: rowsOf es
  | _ :: es => rowsOf es

/-- timestamps never decrease (starting after a previous timestamp, if any) -/
def ordered : Option Int → List Row → Prop
  | _, [] => True
  | last, r :: rs => older r.ts last = false ∧ ordered (some r.ts) rs

def lastOf : Option Int → List Row → Option Int
  | last, [] => last
  | _, r :: rs => lastOf (some r.ts) rs

/-- the records `Import` may consume under `MaxRows` -/
def consumed (maxRows : Nat) (evs : List Ev) : List Ev := if maxRows = 0 then evs else evs.take maxRows

/-- the model of `Import` on an empty destination, from the first data record on -/
def runEvs (maxRows : Nat) (evs : List Ev) : St × Status := loop setOrUpdate maxRows evs {}

theorem scan_append (pre rest : List Ev) : ∀ last, Ev.bad ∉ pre → ordered last (rowsOf pre) →
    scan (pre ++ rest) last =
      (rowsOf pre ++ (scan rest (lastOf last (rowsOf pre))).1, (scan rest (lastOf last (rowsOf pre))).2) := by
  induction pre with
  | nil => intro last _ _; simp [rowsOf, lastOf]
  | cons e es ih =>
    intro last hb ho
    have hb' : Ev.bad ∉ es := fun h => hb (by simp [h])
    cases e with
    | bad => exact absurd (by simp) hb
    | skip => simpa [scan, rowsOf] using ih last hb' ho
    | row r =>
      simp only [rowsOf, ordered] at ho
      simp only [List.cons_append, scan, ho.1, rowsOf, lastOf]
      rw [ih (some r.ts) hb' ho.2]
      simp

theorem scan_ordered (evs : List Ev) (last : Option Int) (hb : Ev.bad ∉ evs) (ho : ordered last (rowsOf evs)) :
    scan evs last = (rowsOf evs, .eof) := by
  have := scan_append evs [] last hb ho
  simpa [scan] using this

theorem scan_eof (evs : List Ev) : ∀ last, (scan evs last).2 = .eof → Ev.bad ∉ evs ∧ ordered last (rowsOf evs) := by
  induction evs with
  | nil => intro last _; simp [rowsOf, ordered]
  | cons e es ih =>
    intro last h
    cases e with
    | bad => simp [scan] at h
    | skip =>
      simp only [scan] at h
      have := ih last h
      exact ⟨by simp [this.1], by simpa [rowsOf] using this.2⟩
    | row r =>
      simp only [scan] at h
      by_cases ho : older r.ts last = true
      · simp [ho] at h
      · simp only [ho] at h
        have := ih (some r.ts) h
        exact ⟨by simp [this.1], by simp only [rowsOf, ordered]; exact ⟨by simpa using ho, this.2⟩⟩

theorem Inv.init : Inv ({} : St) [] := by
  constructor <;> simp [specStore, lastTs]

theorem runEvs_eq (m : Nat) (evs : List Ev) : runEvs m evs = loop setOrUpdate 0 (consumed m evs) {} := by
  unfold runEvs consumed
  by_cases hm : m = 0
  · simp [hm]
  · rw [loop_maxRows _ m hm evs]; simp [hm]

/-- **C26, clause 1 (`import_spec`)** — "stores every accepted row under its interface and timestamp …
    with their counters (summed where rows share a key)": for EVERY list of read results whose consumed
    part has no syntax error and whose accepted rows are ordered by time, the import succeeds and the
    destination holds exactly `specStore` of the accepted rows, i.e. under every identity
    (iface, timestamp, key) the SUM of the counters of the accepted rows with that identity, one entry
    per identity, and nothing under any other identity. -/
theorem import_spec (m : Nat) (evs : List Ev) (hb : Ev.bad ∉ consumed m evs)
    (ho : ordered none (rowsOf (consumed m evs))) :
    (runEvs m evs).2 = .ok ∧
    (runEvs m evs).1.db = specStore (rowsOf (consumed m evs)) ∧
    (∀ k, stored (runEvs m evs).1.db k = specStored (rowsOf (consumed m evs)) k) ∧
    ((runEvs m evs).1.db.map Row.id).Nodup := by
  have hs := scan_ordered _ none hb ho
  have := loop_sim (consumed m evs) {} [] Inv.init rfl
  have hl : lastTs ({} : St) = none := rfl
  rw [hl, hs] at this
  simp only [List.nil_append] at this
  rw [runEvs_eq]
  refine ⟨this.2.1, this.2.2.1, ?_, ?_⟩
  · intro k; rw [this.2.2.1]; exact specStore_stored _ k
  · rw [this.2.2.1]; exact specStore_nodup _

/-- **C26, clause 2 (`rows_account`)** — "rows read equal rows imported plus rows skipped": whenever the
    import succeeds, and also when it stops at a CSV syntax error; when it stops at a time regression the
    offending row is read but neither imported nor skipped (read = imported + skipped + 1).  For EVERY input. -/
theorem rows_account (m : Nat) (evs : List Ev) :
    ((runEvs m evs).2 = .ok → (runEvs m evs).1.read = (runEvs m evs).1.imported + (runEvs m evs).1.skipped) ∧
    ((runEvs m evs).2 = .err "csv" → (runEvs m evs).1.read = (runEvs m evs).1.imported + (runEvs m evs).1.skipped) ∧
    ((runEvs m evs).2 = .err "regression" →
      (runEvs m evs).1.read = (runEvs m evs).1.imported + (runEvs m evs).1.skipped + 1) := by
  have := loop_sim (consumed m evs) {} [] Inv.init rfl
  rw [runEvs_eq]
  have h2 := this.2
  cases hsc : (scan (consumed m evs) (lastTs {})).2 <;> rw [hsc] at h2 <;> simp only at h2 <;> rw [h2.1]
  · exact ⟨fun _ => h2.2.2.1, fun h => absurd h (by decide), fun h => absurd h (by decide)⟩
  · exact ⟨fun h => absurd h (by decide), fun _ => h2.2.2, fun h => absurd h (by decide)⟩
  · exact ⟨fun h => absurd h (by decide), fun h => absurd h (by decide), fun _ => h2.2.2⟩

/-- on success the counters are exactly: every consumed record read, every accepted row imported -/
theorem rows_account_exact (m : Nat) (evs : List Ev) (hb : Ev.bad ∉ consumed m evs)
    (ho : ordered none (rowsOf (consumed m evs))) :
    (runEvs m evs).1.read = (consumed m evs).length ∧
    (runEvs m evs).1.imported = (rowsOf (consumed m evs)).length ∧
    (runEvs m evs).1.skipped = (consumed m evs).length - (rowsOf (consumed m evs)).length := by
  have hs := scan_ordered _ none hb ho
  have := loop_sim (consumed m evs) {} [] Inv.init rfl
  have hl : lastTs ({} : St) = none := rfl
  rw [hl, hs] at this
  simp only [List.nil_append] at this
  rw [runEvs_eq]
  obtain ⟨h1, _, _, h3, h4⟩ := this
  have h4' : (loop setOrUpdate 0 (consumed m evs) {}).1.read = (consumed m evs).length := by
    rw [h4]; show 0 + _ = _; omega
  refine ⟨h4', h1, ?_⟩
  omega

/-- the import never fails at the storage layer: on an empty destination every block it writes is
    newer than all blocks written before (rows of one timestamp are merged into ONE pending block that
    is written only when a strictly larger timestamp arrives or at the end), so
    `GPDir.WriteBlocks`' `ErrTimestampNotIncreasing` cannot fire -/
theorem no_write_error (m : Nat) (evs : List Ev) : (runEvs m evs).2 ≠ .err "write" := by
  have := loop_sim (consumed m evs) {} [] Inv.init rfl
  rw [runEvs_eq]
  have h2 := this.2
  cases hsc : (scan (consumed m evs) (lastTs {})).2 <;> rw [hsc] at h2 <;> simp only at h2 <;> rw [h2.1] <;> decide

/-- the import succeeds exactly on inputs without syntax error whose accepted rows are ordered by time -/
theorem ok_iff_ordered (m : Nat) (evs : List Ev) :
    (runEvs m evs).2 = .ok ↔ (Ev.bad ∉ consumed m evs ∧ ordered none (rowsOf (consumed m evs))) := by
  constructor
  · intro h
    have := loop_sim (consumed m evs) {} [] Inv.init rfl
    rw [runEvs_eq] at h
    have h2 := this.2
    cases hsc : (scan (consumed m evs) (lastTs {})).2 <;> rw [hsc] at h2 <;> simp only at h2
    · exact scan_eof _ _ hsc
    · rw [h2.1] at h; cases h
    · rw [h2.1] at h; cases h
  · intro h; exact (import_spec m evs h.1 h.2).1

theorem filter_upsert (m : Counters → Counters → Counters) (p : Int → Bool) (l : List Row) (r : Row) :
    (upsert m l r).filter (fun f => p f.ts) =
      if p r.ts then upsert m (l.filter (fun f => p f.ts)) r else l.filter (fun f => p f.ts) := by
  induction l with
  | nil => by_cases h : p r.ts <;> simp [upsert, h]
  | cons f fs ih =>
    by_cases hid : f.id = r.id
    · have hts : f.ts = r.ts := by simp only [Row.id, Prod.mk.injEq] at hid; exact hid.2.1
      by_cases h : p r.ts = true
      · simp [upsert, hid, hts, h]
      · simp [upsert, hid, hts, h]
    · by_cases hf : p f.ts = true <;> by_cases h : p r.ts = true <;>
        simp [upsert, hid, hf, h, ih]

theorem filter_foldl_upsert (m : Counters → Counters → Counters) (p : Int → Bool) (rows : List Row) :
    ∀ acc : List Row, (rows.foldl (upsert m) acc).filter (fun f => p f.ts) =
      (rows.filter (fun f => p f.ts)).foldl (upsert m) (acc.filter (fun f => p f.ts)) := by
  induction rows with
  | nil => intro acc; rfl
  | cons r rs ih =>
    intro acc
    simp only [List.foldl_cons, ih, filter_upsert, List.filter_cons]
    by_cases h : p r.ts = true <;> simp [h]

/-- grouping commutes with selecting the rows older than a timestamp -/
theorem filter_specStore (t : Int) (rows : List Row) :
    (specStore rows).filter (fun f => decide (f.ts < t)) = specStore (rows.filter (fun f => decide (f.ts < t))) := by
  have := filter_foldl_upsert Counters.add (fun x => decide (x < t)) rows []
  simpa [specStore] using this

theorem lastOf_getLast (rows : List Row) : ∀ last, lastOf last rows =
    match rows.getLast? with
    | some l => some l.ts
    | none => last := by
  induction rows with
  | nil => intro last; rfl
  | cons r rs ih =>
    intro last
    simp only [lastOf, ih]
    cases rs with
    | nil => rfl
    | cons a as =>
      rw [List.getLast?_cons_cons]
      cases hg : (a :: as).getLast? with
      | none => simp at hg
      | some l => rfl

/-- **C26, clause 3 (`regression_rejected`)** — "input that goes backwards in time is rejected": if,
    after a prefix `pre` without syntax error and with ordered accepted rows whose last timestamp is `t`,
    an accepted row `r` with `r.ts < t` follows (anything may come after it), the import returns the
    regression error.  What the code has stored by then, exactly: the grouped, summed rows of `pre` that are
    OLDER than `t`; the rows with timestamp `t` were still pending and are not written (they are counted
    in `imported` nevertheless).  The offending row is counted as read only. -/
theorem regression_rejected (m : Nat) (evs pre post : List Ev) (r : Row) (t : Int)
    (hc : consumed m evs = pre ++ Ev.row r :: post) (hb : Ev.bad ∉ pre) (ho : ordered none (rowsOf pre))
    (hl : lastOf none (rowsOf pre) = some t) (hreg : r.ts < t) :
    (runEvs m evs).2 = .err "regression" ∧
    (runEvs m evs).1.db = specStore ((rowsOf pre).filter (fun f => decide (f.ts < t))) ∧
    (runEvs m evs).1.imported = (rowsOf pre).length ∧
    (runEvs m evs).1.read = (runEvs m evs).1.imported + (runEvs m evs).1.skipped + 1 := by
  have hs : scan (consumed m evs) none = (rowsOf pre, .regression) := by
    rw [hc, scan_append pre _ none hb ho, hl]
    simp [scan, older, hreg]
  have := loop_sim (consumed m evs) {} [] Inv.init rfl
  have hl0 : lastTs ({} : St) = none := rfl
  rw [hl0, hs] at this
  simp only [List.nil_append] at this
  rw [runEvs_eq]
  refine ⟨this.2.1, ?_, this.1, this.2.2.2⟩
  rw [this.2.2.1, flushedPart]
  have h2 := lastOf_getLast (rowsOf pre) none
  rw [hl] at h2
  cases hg : (rowsOf pre).getLast? with
  | none => rw [hg] at h2; cases h2
  | some l =>
    rw [hg] at h2
    simp only [Option.some.injEq] at h2
    simp only [← h2]
    exact filter_specStore _ _


/-! ### rows: the model's parser chain computes the row spec -/

/-- all-or-nothing map (`List.mapM` in `Option`, as a structural recursion) -/
def allSome {α β : Type} (f : α → Option β) : List α → Option (List β)
  | [] => some []
  | a :: as =>
    match f a, allSome f as with
    | some b, some bs => some (b :: bs)
    | _, _ => none

theorem mapM_eq_allSome {α β : Type} (f : α → Option β) (l : List α) : l.mapM f = allSome f l := by
  induction l with
  | nil => rfl
  | cons a as ih =>
    rw [List.mapM_cons, ih]
    simp only [allSome]
    cases f a <;> cases allSome f as <;> rfl

theorem allSome_append {α β : Type} (f : α → Option β) (a b : List α) :
    allSome f (a ++ b) = match allSome f a, allSome f b with
      | some x, some y => some (x ++ y)
      | _, _ => none := by
  induction a with
  | nil => simp only [List.nil_append, allSome]; cases allSome f b <;> rfl
  | cons x xs ih =>
    simp only [List.cons_append, allSome, ih]
    cases f x <;> cases allSome f xs <;> cases allSome f b <;> rfl

theorem allSome_filter {α β : Type} (f : α → Option β) (p : α → Bool) (q : β → Bool)
    (hq : ∀ c y, f c = some y → q y = p c) (l : List α) :
    ∀ ys, allSome f l = some ys → allSome f (l.filter p) = some (ys.filter q) := by
  induction l with
  | nil => intro ys h; simp only [allSome, Option.some.injEq] at h; subst h; rfl
  | cons a as ih =>
    intro ys h
    simp only [allSome] at h
    cases hfa : f a with
    | none => rw [hfa] at h; cases h
    | some b =>
      cases has : allSome f as with
      | none => rw [hfa, has] at h; cases h
      | some bs =>
        rw [hfa, has] at h
        simp only [Option.some.injEq] at h; subst h
        have := ih bs has
        by_cases hp : p a = true
        · simp [List.filter_cons, hp, hq a b hfa, allSome, hfa, this]
        · simp [List.filter_cons, hp, hq a b hfa, this]

theorem allSome_none {α β : Type} (f : α → Option β) (l : List α) (h : allSome f l = none) :
    ∃ c ∈ l, f c = none := by
  induction l with
  | nil => cases h
  | cons a as ih =>
    simp only [allSome] at h
    cases hfa : f a with
    | none => exact ⟨a, by simp, hfa⟩
    | some b =>
      cases has : allSome f as with
      | none => obtain ⟨c, hc, hn⟩ := ih has; exact ⟨c, by simp [hc], hn⟩
      | some bs => rw [hfa, has] at h; cases h

theorem allSome_none_of_mem {α β : Type} (f : α → Option β) (l : List α) (c : α) (hc : c ∈ l) (hn : f c = none) :
    allSome f l = none := by
  induction l with
  | nil => cases hc
  | cons a as ih =>
    simp only [allSome]
    rcases List.mem_cons.mp hc with rfl | h
    · rw [hn]
    · rw [ih h]; cases f a <;> rfl

/-- the well-formed value of column `c` in `row` -/
def pf (row : List String) (c : Col) : Option Field := parseField c.kind (fieldAt row c.idx)

def isIPKind : Kind → Bool
  | .sip | .dip => true
  | _ => false

def isKeyKind : Kind → Bool
  | .sip | .dip | .dport | .proto | .time => true
  | _ => false

def isValKind : Kind → Bool
  | .br | .bs | .pr | .ps => true
  | _ => false

def keyItem (c : Col) : KeyParserItem := ⟨c.idx, if isIPKind c.kind then 0 else 1, c.kind⟩
def valItem (c : Col) : ValParserItem := ⟨c.idx, c.kind⟩

/-- effect of one well-formed key field on the key under construction -/
def applyField (f : Field) (key : EKey) : Except KErr EKey :=
  match f with
  | .sip v b => if v ≠ key.v4 then .error .mismatch else .ok { key with sip := b }
  | .dip v b => if v ≠ key.v4 then .error .mismatch else .ok { key with dip := b }
  | .dport n => .ok { key with dport := n }
  | .proto n => .ok { key with proto := n }
  | .time t => .ok { key with time := if t ≤ 0 then none else some t }
  | _ => .ok key

/-- **tie to the regenerated table**: the protocol names of `protocols.IPProtocolIDs` (as it is in the
    source now) are the ones of the spec -/
theorem proto_table_eq : Model.protoIDs = protoTable := by decide

theorem parseUint_lt {bits : Nat} {s : String} {n : Nat} (h : parseUint bits s = some n) : n < 2 ^ bits := by
  unfold parseUint parseUintChars at h
  split at h
  · cases h
  · split at h
    · simp only [Option.some.injEq] at h; rw [← h]; assumption
    · cases h

theorem parseKeyStep_eq (k : Kind) (hk : isKeyKind k = true) (s : String) (key : EKey) :
    parseKeyStep k s key = match parseField k s with
      | none => .error .other
      | some f => applyField f key := by
  cases k <;> simp only [isKeyKind] at hk <;> try cases hk
  · simp only [parseKeyStep, parseField]
    cases ipStringToBytes s with
    | none => rfl
    | some a => obtain ⟨v, b⟩ := a; rfl
  · simp only [parseKeyStep, parseField]
    cases ipStringToBytes s with
    | none => rfl
    | some a => obtain ⟨v, b⟩ := a; rfl
  · simp only [parseKeyStep, parseField, parsePort]
    cases parseUint 16 s <;> rfl
  · simp only [parseKeyStep, parseField, parseProto, proto_table_eq]
    cases h8 : parseUint 8 s with
    | some n =>
      have : n % 256 = n := Nat.mod_eq_of_lt (parseUint_lt h8)
      simp [applyField, this]
    | none =>
      cases protoTable.lookup (toLower s) <;> rfl
  · simp only [parseKeyStep, parseField]
    cases parseInt64 s <;> rfl

/-- sequential application of well-formed key fields (only a version mismatch can fail) -/
def applyFields : List Field → EKey → Except KErr EKey
  | [], k => .ok k
  | f :: fs, k =>
    match applyField f k with
    | .ok k' => applyFields fs k'
    | .error e => .error e

theorem applyKeyParsers_some (row : List String) (l : List Col) (hl : ∀ c ∈ l, isKeyKind c.kind = true) :
    ∀ fs key, allSome (pf row) l = some fs → applyKeyParsers row (l.map keyItem) key = applyFields fs key := by
  induction l with
  | nil => intro fs key h; simp only [allSome, Option.some.injEq] at h; subst h; rfl
  | cons c cs ih =>
    intro fs key h
    simp only [allSome] at h
    cases hc : pf row c with
    | none => rw [hc] at h; cases h
    | some f =>
      cases hcs : allSome (pf row) cs with
      | none => rw [hc, hcs] at h; cases h
      | some fs' =>
        rw [hc, hcs] at h
        simp only [Option.some.injEq] at h; subst h
        simp only [List.map_cons, applyKeyParsers, keyItem, applyFields]
        rw [parseKeyStep_eq c.kind (hl c (by simp))]
        have : parseField c.kind (fieldAt row c.idx) = some f := hc
        simp only [this]
        cases applyField f key with
        | error e => rfl
        | ok k' => exact ih (fun x hx => hl x (by simp [hx])) fs' k' hcs

theorem applyKeyParsers_none (row : List String) (l : List Col) (hl : ∀ c ∈ l, isKeyKind c.kind = true)
    (h : allSome (pf row) l = none) : ∀ key, ∃ e, applyKeyParsers row (l.map keyItem) key = .error e := by
  induction l with
  | nil => cases h
  | cons c cs ih =>
    intro key
    simp only [List.map_cons, applyKeyParsers, keyItem]
    rw [parseKeyStep_eq c.kind (hl c (by simp))]
    simp only [allSome] at h
    cases hc : pf row c with
    | none =>
      have : parseField c.kind (fieldAt row c.idx) = none := hc
      simp only [this]; exact ⟨_, rfl⟩
    | some f =>
      have : parseField c.kind (fieldAt row c.idx) = some f := hc
      simp only [this]
      cases applyField f key with
      | error e => exact ⟨e, rfl⟩
      | ok k' =>
        cases hcs : allSome (pf row) cs with
        | none => exact ih (fun x hx => hl x (by simp [hx])) hcs k'
        | some fs' => rw [hc, hcs] at h; cases h

/-- a well-formed key field written into the key (no version check) -/
def setField (f : Field) (key : EKey) : EKey :=
  match f with
  | .sip _ b => { key with sip := b }
  | .dip _ b => { key with dip := b }
  | .dport n => { key with dport := n }
  | .proto n => { key with proto := n }
  | .time t => { key with time := if t ≤ 0 then none else some t }
  | _ => key

def setFields (fs : List Field) (key : EKey) : EKey := fs.foldl (fun k f => setField f k) key

theorem setField_v4 (f : Field) (key : EKey) : (setField f key).v4 = key.v4 := by
  cases f <;> rfl

/-- all addresses among the fields are of IP version `v` -/
def sameVersion (v : Bool) (fs : List Field) : Bool := (fs.filterMap Field.ip?).all (fun a => a.1 == v)

theorem applyFields_eq (fs : List Field) : ∀ key, applyFields fs key =
    if sameVersion key.v4 fs then .ok (setFields fs key) else .error .mismatch := by
  induction fs with
  | nil => intro key; rfl
  | cons f fs ih =>
    intro key
    cases f with
    | sip v b =>
      simp only [applyFields, applyField, sameVersion, Field.ip?, List.filterMap_cons, List.all_cons]
      by_cases hv : v = key.v4
      · simp only [hv, ne_eq, not_true_eq_false, if_false, beq_self_eq_true, Bool.true_and]
        exact ih _
      · simp [hv]
    | dip v b =>
      simp only [applyFields, applyField, sameVersion, Field.ip?, List.filterMap_cons, List.all_cons]
      by_cases hv : v = key.v4
      · simp only [hv, ne_eq, not_true_eq_false, if_false, beq_self_eq_true, Bool.true_and]
        exact ih _
      · simp [hv]
    | _ => exact ih _

theorem lastD_cons {α : Type} (x : α) (l : List α) (d : α) : lastD (x :: l) d = lastD l x := rfl

theorem setFields_proj (fs : List Field) : ∀ key,
    (setFields fs key).v4 = key.v4 ∧
    (setFields fs key).sip = lastD (fs.filterMap Field.sip?) key.sip ∧
    (setFields fs key).dip = lastD (fs.filterMap Field.dip?) key.dip ∧
    (setFields fs key).dport = lastD (fs.filterMap Field.dport?) key.dport ∧
    (setFields fs key).proto = lastD (fs.filterMap Field.proto?) key.proto ∧
    (setFields fs key).time = lastD (fs.filterMap fun f => f.time?.map fun t => if t ≤ 0 then none else some t) key.time := by
  induction fs with
  | nil => intro key; exact ⟨rfl, rfl, rfl, rfl, rfl, rfl⟩
  | cons f fs ih =>
    intro key
    have := ih (setField f key)
    have hc : setFields (f :: fs) key = setFields fs (setField f key) := rfl
    rw [hc]
    cases f <;>
      simp only [List.filterMap_cons, Field.sip?, Field.dip?, Field.dport?, Field.proto?, Field.time?, lastD_cons,
        Option.map_some, Option.map_none] <;> exact this

/-- `parseKey` (IPv4 attempt, IPv6 retry after a mismatch) in closed form -/
theorem parseKey_eq (row : List String) (l : List Col) (hl : ∀ c ∈ l, isKeyKind c.kind = true) :
    parseKey row (l.map keyItem) = match allSome (pf row) l with
      | none => none
      | some fs =>
        if sameVersion true fs then some (setFields fs (baseKey true))
        else if sameVersion false fs then some (setFields fs (baseKey false))
        else none := by
  unfold parseKey
  cases h : allSome (pf row) l with
  | none =>
    obtain ⟨e, he⟩ := applyKeyParsers_none row l hl h (baseKey true)
    rw [he]
    cases e with
    | other => rfl
    | mismatch =>
      obtain ⟨e', he'⟩ := applyKeyParsers_none row l hl h (baseKey false)
      simp only [he']
  | some fs =>
    rw [applyKeyParsers_some row l hl fs _ h, applyKeyParsers_some row l hl fs _ h, applyFields_eq, applyFields_eq]
    dsimp only [baseKey]
    by_cases hA : sameVersion true fs = true
    · simp only [hA, if_true]
    · simp only [hA, if_false]
      by_cases hB : sameVersion false fs = true
      · simp only [hB, if_true]; rfl
      · simp only [hB, if_false]; rfl

/-- a well-formed counter field written into the counters -/
def setCounter (f : Field) (c : Counters) : Counters :=
  match f with
  | .br n => { c with br := n }
  | .bs n => { c with bs := n }
  | .pr n => { c with pr := n }
  | .ps n => { c with ps := n }
  | _ => c

def setCounters (fs : List Field) (c : Counters) : Counters := fs.foldl (fun c f => setCounter f c) c

theorem parseValStep_eq (k : Kind) (hk : isValKind k = true) (s : String) (c : Counters) :
    parseValStep k s c = (parseField k s).map fun f => setCounter f c := by
  cases k <;> simp only [isValKind] at hk <;> (try cases hk) <;>
    simp only [parseValStep, parseField, parseCounter] <;> cases parseUint 64 s <;> rfl

theorem applyValParsers_eq (row : List String) (l : List Col) (hl : ∀ c ∈ l, isValKind c.kind = true) :
    ∀ c, applyValParsers row (l.map valItem) c = (allSome (pf row) l).map fun fs => setCounters fs c := by
  induction l with
  | nil => intro c; rfl
  | cons x xs ih =>
    intro c
    simp only [List.map_cons, applyValParsers, valItem, allSome]
    rw [parseValStep_eq x.kind (hl x (by simp))]
    have hx : pf row x = parseField x.kind (fieldAt row x.idx) := rfl
    rw [← hx]
    cases pf row x with
    | none => rfl
    | some f =>
      simp only [Option.map_some]
      rw [ih (fun y hy => hl y (by simp [hy]))]
      cases allSome (pf row) xs <;> rfl

theorem setCounters_proj (fs : List Field) : ∀ c,
    (setCounters fs c).br = lastD (fs.filterMap Field.br?) c.br ∧
    (setCounters fs c).bs = lastD (fs.filterMap Field.bs?) c.bs ∧
    (setCounters fs c).pr = lastD (fs.filterMap Field.pr?) c.pr ∧
    (setCounters fs c).ps = lastD (fs.filterMap Field.ps?) c.ps := by
  induction fs with
  | nil => intro c; exact ⟨rfl, rfl, rfl, rfl⟩
  | cons f fs ih =>
    intro c
    have := ih (setCounter f c)
    have hc : setCounters (f :: fs) c = setCounters fs (setCounter f c) := rfl
    rw [hc]
    cases f <;>
      simp only [List.filterMap_cons, Field.br?, Field.bs?, Field.pr?, Field.ps?, lastD_cons] <;> exact this

/-! ### schema: `parseSchema` computes the spec's columns -/

/-- the effect of one understood column on the schema under construction -/
def addCol (d : Schema) (c : Col) : Schema :=
  { ifaceIndex := if c.kind = .iface then some c.idx else d.ifaceIndex
    minFields := Nat.max d.minFields (c.idx + 1)
    hasTime := d.hasTime || decide (c.kind = .time)
    keyParsers := if isKeyKind c.kind then d.keyParsers ++ [keyItem c] else d.keyParsers
    valParsers := if isValKind c.kind then d.valParsers ++ [valItem c] else d.valParsers }

theorem bumpMin_eq (m i : Nat) : bumpMin m i = Nat.max m (i + 1) := by
  unfold bumpMin Gen.CsvImport.max
  simp only [Int.ofNat_eq_natCast, Nat.max_def]
  split <;> split <;> omega

theorem schemaStep_eq (d : Schema) (n i : Nat) (f : String) :
    schemaStep (d, n) i f = match kindOfName (toLower (trimSpace f)) with
      | none => (d, n)
      | some k => (addCol d ⟨i, k⟩, n + 1) := by
  simp only [schemaStep, bumpMin_eq]
  generalize toLower (trimSpace f) = t
  simp only [kindOfName, newStringKeyParser, newStringValParser, Gen.CsvImport.IfaceName, Gen.CsvImport.SIPName,
    Gen.CsvImport.DIPName, Gen.CsvImport.DportName, Gen.CsvImport.ProtoName, Gen.CsvImport.TimeName]
  by_cases h1 : t = "iface"
  · subst h1; simp [addCol, keyItem, valItem, isKeyKind, isValKind, isIPKind]
  by_cases h2 : t = "sip"
  · subst h2; simp [addCol, keyItem, valItem, isKeyKind, isValKind, isIPKind]
  by_cases h3 : t = "dip"
  · subst h3; simp [addCol, keyItem, valItem, isKeyKind, isValKind, isIPKind]
  by_cases h4 : t = "dport"
  · subst h4; simp [addCol, keyItem, valItem, isKeyKind, isValKind, isIPKind]
  by_cases h5 : t = "proto"
  · subst h5; simp [addCol, keyItem, valItem, isKeyKind, isValKind, isIPKind]
  by_cases h6 : t = "time"
  · subst h6; simp [addCol, keyItem, valItem, isKeyKind, isValKind, isIPKind]
  by_cases h7 : t = "packets received"
  · subst h7; simp [addCol, keyItem, valItem, isKeyKind, isValKind, isIPKind]
  by_cases h8 : t = "packets sent"
  · subst h8; simp [addCol, keyItem, valItem, isKeyKind, isValKind, isIPKind]
  by_cases h9 : t = "data vol. received"
  · subst h9; simp [addCol, keyItem, valItem, isKeyKind, isValKind, isIPKind]
  by_cases h10 : t = "data vol. sent"
  · subst h10; simp [addCol, keyItem, valItem, isKeyKind, isValKind, isIPKind]
  simp [h1, h2, h3, h4, h5, h6, h7, h8, h9, h10]

/-- the understood columns of the names `fs`, the first of which has position `i` -/
def colsFrom (i : Nat) (fs : List String) : List Col :=
  (enumFrom i fs).filterMap fun (j, f) => (kindOfName (toLower (trimSpace f))).map (Col.mk j)

theorem colsFrom_cons (i : Nat) (f : String) (fs : List String) :
    colsFrom i (f :: fs) = match kindOfName (toLower (trimSpace f)) with
      | none => colsFrom (i + 1) fs
      | some k => ⟨i, k⟩ :: colsFrom (i + 1) fs := by
  simp only [colsFrom, enumFrom, List.filterMap_cons]
  cases kindOfName (toLower (trimSpace f)) <;> rfl

theorem schemaLoop_eq (fs : List String) : ∀ i d n,
    schemaLoop i fs (d, n) = ((colsFrom i fs).foldl addCol d, n + (colsFrom i fs).length) := by
  induction fs with
  | nil => intro i d n; rfl
  | cons f fs ih =>
    intro i d n
    simp only [schemaLoop, schemaStep_eq, colsFrom_cons]
    cases kindOfName (toLower (trimSpace f)) with
    | none => exact ih _ _ _
    | some k =>
      simp only [ih, List.foldl_cons, List.length_cons]
      congr 1; omega

theorem colsFrom_sorted (fs : List String) : ∀ i,
    (∀ c ∈ colsFrom i fs, i ≤ c.idx) ∧ (colsFrom i fs).Pairwise (fun a b => a.idx < b.idx) := by
  induction fs with
  | nil => intro i; simp [colsFrom, enumFrom]
  | cons f fs ih =>
    intro i
    have := ih (i + 1)
    rw [colsFrom_cons]
    cases kindOfName (toLower (trimSpace f)) with
    | none => exact ⟨fun c hc => Nat.le_of_succ_le (this.1 c hc), this.2⟩
    | some k =>
      refine ⟨?_, ?_⟩
      · intro c hc
        rcases List.mem_cons.mp hc with rfl | hc
        · exact Nat.le_refl _
        · exact Nat.le_of_succ_le (this.1 c hc)
      · rw [List.pairwise_cons]
        exact ⟨fun c hc => this.1 c hc, this.2⟩

theorem foldl_addCol (cols : List Col) : ∀ d : Schema,
    (cols.foldl addCol d).keyParsers = d.keyParsers ++ (cols.filter fun c => isKeyKind c.kind).map keyItem ∧
    (cols.foldl addCol d).valParsers = d.valParsers ++ (cols.filter fun c => isValKind c.kind).map valItem ∧
    (cols.foldl addCol d).minFields = cols.foldl (fun m c => Nat.max m (c.idx + 1)) d.minFields ∧
    (cols.foldl addCol d).hasTime = (d.hasTime || cols.any fun c => decide (c.kind = .time)) ∧
    (cols.foldl addCol d).ifaceIndex = (match (cols.filter fun c => decide (c.kind = .iface)).getLast? with
      | some c => some c.idx
      | none => d.ifaceIndex) := by
  induction cols with
  | nil => intro d; simp
  | cons c cs ih =>
    intro d
    obtain ⟨h1, h2, h3, h4, h5⟩ := ih (addCol d c)
    simp only [List.foldl_cons]
    refine ⟨?_, ?_, ?_, ?_, ?_⟩
    · rw [h1]; by_cases hk : isKeyKind c.kind = true <;> simp [addCol, hk]
    · rw [h2]; by_cases hk : isValKind c.kind = true <;> simp [addCol, hk]
    · rw [h3]; rfl
    · rw [h4]; simp [addCol, Bool.or_assoc]
    · rw [h5]
      by_cases hk : c.kind = .iface
      · simp only [addCol, hk, if_true, decide_true, List.filter_cons]
        cases hf : List.filter (fun c => decide (c.kind = Kind.iface)) cs with
        | nil => rfl
        | cons x xs =>
          rw [List.getLast?_cons_cons]
          cases hg : (x :: xs).getLast? with
          | none => simp at hg
          | some y => rfl
      · simp [addCol, hk, List.filter_cons]

/-! the two `sort.SliceStable` calls -/

theorem insertBy_append {α : Type} (lt : α → α → Bool) (x : α) (A B : List α) (h : ∀ a ∈ A, lt a x = true) :
    insertBy lt x (A ++ B) = A ++ insertBy lt x B := by
  induction A with
  | nil => rfl
  | cons a as ih =>
    simp only [List.cons_append, insertBy, h a (by simp), if_true]
    rw [ih (fun b hb => h b (by simp [hb]))]

theorem insertBy_front {α : Type} (lt : α → α → Bool) (x : α) (B : List α) (h : ∀ b ∈ B, lt b x = false) :
    insertBy lt x B = x :: B := by
  cases B with
  | nil => rfl
  | cons b bs => simp [insertBy, h b (by simp)]

theorem keyLess_item (y c : Col) : keyLess (keyItem y) (keyItem c) =
    if isIPKind y.kind = isIPKind c.kind then decide (y.idx < c.idx) else isIPKind y.kind := by
  unfold keyLess keyItem
  cases isIPKind y.kind <;> cases isIPKind c.kind <;> simp

/-- sorting the key parsers by (priority, index): address parsers first, each group in column order -/
theorem sort_keyItems (l : List Col) (hp : l.Pairwise (fun a b => a.idx < b.idx)) :
    stableSort keyLess (l.map keyItem) =
      (l.filter fun c => isIPKind c.kind).map keyItem ++ (l.filter fun c => !isIPKind c.kind).map keyItem := by
  induction l with
  | nil => rfl
  | cons c cs ih =>
    rw [List.pairwise_cons] at hp
    have hs : stableSort keyLess ((c :: cs).map keyItem) = insertBy keyLess (keyItem c) (stableSort keyLess (cs.map keyItem)) := rfl
    rw [hs, ih hp.2]
    by_cases hip : isIPKind c.kind = true
    · have hf : ∀ b ∈ (cs.filter fun c => isIPKind c.kind).map keyItem ++ (cs.filter fun c => !isIPKind c.kind).map keyItem,
          keyLess b (keyItem c) = false := by
        intro b hb
        simp only [List.mem_append, List.mem_map, List.mem_filter] at hb
        rcases hb with ⟨y, ⟨hy, hy2⟩, rfl⟩ | ⟨y, ⟨hy, hy2⟩, rfl⟩
        · have := hp.1 y hy
          rw [keyLess_item, hip, hy2]; simp; omega
        · have := hp.1 y hy
          simp only [Bool.not_eq_true'] at hy2
          rw [keyLess_item, hip, hy2]; simp
      rw [insertBy_front _ _ _ hf]
      simp [List.filter_cons, hip]
    · have hipf : isIPKind c.kind = false := by simpa using hip
      have hA : ∀ a ∈ (cs.filter fun c => isIPKind c.kind).map keyItem, keyLess a (keyItem c) = true := by
        intro a ha
        simp only [List.mem_map, List.mem_filter] at ha
        obtain ⟨y, ⟨_, hy2⟩, rfl⟩ := ha
        rw [keyLess_item, hipf, hy2]; simp
      have hB : ∀ b ∈ (cs.filter fun c => !isIPKind c.kind).map keyItem, keyLess b (keyItem c) = false := by
        intro b hb
        simp only [List.mem_map, List.mem_filter] at hb
        obtain ⟨y, ⟨hy, hy2⟩, rfl⟩ := hb
        have := hp.1 y hy
        simp only [Bool.not_eq_true'] at hy2
        rw [keyLess_item, hipf, hy2]; simp; omega
      rw [insertBy_append _ _ _ _ hA, insertBy_front _ _ _ hB]
      simp [List.filter_cons, hipf]

theorem sort_valItems (l : List Col) (hp : l.Pairwise (fun a b => a.idx < b.idx)) :
    stableSort valLess (l.map valItem) = l.map valItem := by
  induction l with
  | nil => rfl
  | cons c cs ih =>
    rw [List.pairwise_cons] at hp
    have hs : stableSort valLess ((c :: cs).map valItem) = insertBy valLess (valItem c) (stableSort valLess (cs.map valItem)) := rfl
    rw [hs, ih hp.2]
    apply insertBy_front
    intro b hb
    simp only [List.mem_map] at hb
    obtain ⟨y, hy, rfl⟩ := hb
    have := hp.1 y hy
    show decide (y.idx < c.idx) = false
    simp only [decide_eq_false_iff_not]; omega

def isOtherKeyKind : Kind → Bool
  | .dport | .proto | .time => true
  | _ => false

/-- the schema the importer builds from the understood columns `cols` -/
def schemaOf (cols : List Col) : Schema :=
  { ifaceIndex := match (cols.filter fun c => decide (c.kind = .iface)).getLast? with
      | some c => some c.idx
      | none => none
    minFields := minFields cols
    hasTime := true
    keyParsers := ((cols.filter fun c => isIPKind c.kind) ++ (cols.filter fun c => isOtherKeyKind c.kind)).map keyItem
    valParsers := (cols.filter fun c => isValKind c.kind).map valItem }

theorem specCols_sorted (s : String) : (specCols s).Pairwise (fun a b => a.idx < b.idx) :=
  (colsFrom_sorted (s.splitOn ",") 0).2

/-- **schema refinement**: `parseSchema` fails exactly when the spec says the schema is unusable, and
    otherwise builds `schemaOf` of the spec's columns (address parsers first, then the other key
    parsers, each in column order; value parsers in column order; `minFields` = last understood column) -/
theorem parseSchema_eq (s : String) : parseSchema s = match specSchema s with
    | .error e => .error e
    | .ok cols => .ok (schemaOf cols) := by
  have hc : specCols s = colsFrom 0 (s.splitOn ",") := rfl
  have hsorted := specCols_sorted s
  unfold parseSchema specSchema
  simp only [schemaLoop_eq, ← hc]
  obtain ⟨h1, h2, h3, h4, h5⟩ := foldl_addCol (specCols s) ⟨none, 0, false, [], []⟩
  generalize specCols s = cols at *
  cases hcols : cols with
  | nil => simp
  | cons c cs =>
    rw [← hcols]
    have hne : cols.isEmpty = false := by rw [hcols]; rfl
    have hlen : ¬ (0 + cols.length = 0) := by rw [hcols]; simp
    simp only [hlen, if_false, hne, Bool.false_eq_true]
    rw [h4]
    simp only [Bool.false_or]
    by_cases ht : (cols.any fun c => decide (c.kind = Kind.time)) = true
    · simp only [ht, Bool.not_true, Bool.false_eq_true, if_false]
      congr 1
      simp only [schemaOf, Schema.mk.injEq]
      refine ⟨h5, h3, trivial, ?_, ?_⟩
      · rw [h1, List.nil_append, sort_keyItems _ (hsorted.filter _), List.filter_filter, List.filter_filter, List.map_append]
        congr 2
        · congr 1; funext c; cases c.kind <;> rfl
        · congr 1; funext c; cases c.kind <;> rfl
      · rw [h2, List.nil_append, sort_valItems _ (hsorted.filter _)]
    · simp [ht]

/-- the kind of column a well-formed value came from -/
def fieldKind : Field → Kind
  | .iface => .iface | .sip _ _ => .sip | .dip _ _ => .dip | .dport _ => .dport | .proto _ => .proto
  | .time _ => .time | .br _ => .br | .bs _ => .bs | .pr _ => .pr | .ps _ => .ps

theorem parseField_kind {k : Kind} {s : String} {y : Field} (h : parseField k s = some y) : fieldKind y = k := by
  cases k <;> simp only [parseField, Option.map_eq_some_iff, Option.some.injEq] at h
  · subst h; rfl
  all_goals (obtain ⟨a, _, rfl⟩ := h; rfl)

theorem pf_kind {row : List String} {c : Col} {y : Field} (h : pf row c = some y) : fieldKind y = c.kind :=
  parseField_kind h

theorem allSome_filter_kind (row : List String) (p : Kind → Bool) (cols : List Col) (fs : List Field)
    (h : allSome (pf row) cols = some fs) :
    allSome (pf row) (cols.filter fun c => p c.kind) = some (fs.filter fun y => p (fieldKind y)) :=
  allSome_filter (pf row) _ _ (fun c y hy => by rw [pf_kind hy]) cols fs h

theorem filterMap_filter_of_support {α β : Type} (g : α → Option β) (q : α → Bool) (l : List α)
    (h : ∀ y, g y ≠ none → q y = true) : (l.filter q).filterMap g = l.filterMap g := by
  induction l with
  | nil => rfl
  | cons a as ih =>
    by_cases hq : q a = true
    · simp [List.filter_cons, hq, List.filterMap_cons, ih]
    · have : g a = none := by
        cases hg : g a with
        | none => rfl
        | some b => exact absurd (h a (by rw [hg]; simp)) hq
      simp [List.filter_cons, hq, List.filterMap_cons, this, ih]

theorem filterMap_filter_of_disjoint {α β : Type} (g : α → Option β) (q : α → Bool) (l : List α)
    (h : ∀ y, q y = true → g y = none) : (l.filter q).filterMap g = [] := by
  induction l with
  | nil => rfl
  | cons a as ih =>
    by_cases hq : q a = true
    · simp [List.filter_cons, hq, List.filterMap_cons, h a hq, ih]
    · simp [List.filter_cons, hq, ih]

/-- projecting address values out of the key fields (addresses first, as the importer orders them) -/
theorem filterMap_keyFields_ip {β : Type} (g : Field → Option β) (fs : List Field)
    (h : ∀ y, g y ≠ none → isIPKind (fieldKind y) = true) :
    ((fs.filter fun y => isIPKind (fieldKind y)) ++ (fs.filter fun y => isOtherKeyKind (fieldKind y))).filterMap g =
      fs.filterMap g := by
  rw [List.filterMap_append, filterMap_filter_of_support g _ fs h, filterMap_filter_of_disjoint g _ fs, List.append_nil]
  intro y hy
  cases hg : g y with
  | none => rfl
  | some b =>
    have := h y (by rw [hg]; simp)
    cases y <;> simp [fieldKind, isIPKind, isOtherKeyKind] at this hy

/-- projecting port / protocol / time values out of the key fields -/
theorem filterMap_keyFields_other {β : Type} (g : Field → Option β) (fs : List Field)
    (h : ∀ y, g y ≠ none → isOtherKeyKind (fieldKind y) = true) :
    ((fs.filter fun y => isIPKind (fieldKind y)) ++ (fs.filter fun y => isOtherKeyKind (fieldKind y))).filterMap g =
      fs.filterMap g := by
  rw [List.filterMap_append, filterMap_filter_of_support g _ fs h, filterMap_filter_of_disjoint g _ fs, List.nil_append]
  intro y hy
  cases hg : g y with
  | none => rfl
  | some b =>
    have := h y (by rw [hg]; simp)
    cases y <;> simp [fieldKind, isIPKind, isOtherKeyKind] at this hy

theorem lastD_map {α β : Type} (g : α → β) (l : List α) (d : α) : lastD (l.map g) (g d) = g (lastD l d) := by
  induction l generalizing d with
  | nil => rfl
  | cons a as ih => simp only [List.map_cons, lastD_cons]; exact ih a

theorem ifaceOK_eq (s : String) : ifaceOK s = validIface s := by
  unfold ifaceOK validIface
  by_cases h1 : s = "" <;> by_cases h2 : s = "." <;> by_cases h3 : s = ".." <;> simp [h1, h2, h3]

def keyFields (fs : List Field) : List Field :=
  (fs.filter fun y => isIPKind (fieldKind y)) ++ (fs.filter fun y => isOtherKeyKind (fieldKind y))

def valFields (fs : List Field) : List Field := fs.filter fun y => isValKind (fieldKind y)

theorem sameVersion_keyFields (v : Bool) (fs : List Field) : sameVersion v (keyFields fs) = sameVersion v fs := by
  unfold sameVersion keyFields
  rw [filterMap_keyFields_ip]
  intro y hy
  cases y <;> simp [Field.ip?, fieldKind, isIPKind] at hy ⊢

theorem rowIface_eq (cols : List Col) (row : List String) (d : String) :
    rowIface (schemaOf cols) row d = specIface cols d row := by
  simp only [rowIface, specIface, schemaOf]
  cases (cols.filter fun c => decide (c.kind = .iface)).getLast? <;> rfl

/-- `parseRow` in closed form -/
theorem parseRow_eq (cols : List Col) (row : List String) (d : String) :
    parseRow (schemaOf cols) row d =
      if !validIface (specIface cols d row) then none
      else match allSome (pf row) cols with
        | none => none
        | some fs =>
          if sameVersion true fs then
            some (specIface cols d row, setFields (keyFields fs) (baseKey true), setCounters (valFields fs) Counters.zero)
          else if sameVersion false fs then
            some (specIface cols d row, setFields (keyFields fs) (baseKey false), setCounters (valFields fs) Counters.zero)
          else none := by
  have hk : ∀ c ∈ (cols.filter fun c => isIPKind c.kind) ++ (cols.filter fun c => isOtherKeyKind c.kind),
      isKeyKind c.kind = true := by
    intro c hc
    simp only [List.mem_append, List.mem_filter] at hc
    rcases hc with ⟨_, h⟩ | ⟨_, h⟩ <;> cases hck : c.kind <;> simp [hck, isIPKind, isOtherKeyKind, isKeyKind] at h ⊢
  have hv : ∀ c ∈ (cols.filter fun c => isValKind c.kind), isValKind c.kind = true := by
    intro c hc; exact (List.mem_filter.mp hc).2
  simp only [parseRow, rowIface_eq, ifaceOK_eq]
  generalize specIface cols d row = iface
  by_cases hi : validIface iface = true
  case neg => simp [hi]
  simp only [hi, Bool.not_true, Bool.false_eq_true, if_false]
  have hkp : (schemaOf cols).keyParsers =
      ((cols.filter fun c => isIPKind c.kind) ++ (cols.filter fun c => isOtherKeyKind c.kind)).map keyItem := rfl
  have hvp : (schemaOf cols).valParsers = (cols.filter fun c => isValKind c.kind).map valItem := rfl
  rw [hkp, hvp, parseKey_eq row _ hk, applyValParsers_eq row _ hv]
  cases hall : allSome (pf row) cols with
  | none =>
    obtain ⟨c, hc, hn⟩ := allSome_none (pf row) cols hall
    by_cases hck : isKeyKind c.kind = true
    · have hmem : c ∈ (cols.filter fun c => isIPKind c.kind) ++ (cols.filter fun c => isOtherKeyKind c.kind) := by
        simp only [List.mem_append, List.mem_filter]
        cases hk' : c.kind <;> simp [hk', isKeyKind, isIPKind, isOtherKeyKind, hc] at hck ⊢
      rw [allSome_none_of_mem (pf row) _ c hmem hn]
    · by_cases hcv : isValKind c.kind = true
      · have hmem : c ∈ (cols.filter fun c => isValKind c.kind) := List.mem_filter.mpr ⟨hc, hcv⟩
        rw [allSome_none_of_mem (pf row) _ c hmem hn]
        simp only [Option.map_none]
        split <;> rfl
      · exfalso
        unfold pf at hn
        cases hk' : c.kind <;> simp [hk', isKeyKind, isValKind, parseField] at hck hcv hn
  | some fs =>
    have h1 := allSome_filter_kind row isIPKind cols fs hall
    have h2 := allSome_filter_kind row isOtherKeyKind cols fs hall
    have h3 := allSome_filter_kind row isValKind cols fs hall
    rw [allSome_append, h1, h2, h3]
    simp only [Option.map_some]
    have e1 : sameVersion true ((fs.filter fun y => isIPKind (fieldKind y)) ++ (fs.filter fun y => isOtherKeyKind (fieldKind y))) =
        sameVersion true fs := sameVersion_keyFields true fs
    have e2 : sameVersion false ((fs.filter fun y => isIPKind (fieldKind y)) ++ (fs.filter fun y => isOtherKeyKind (fieldKind y))) =
        sameVersion false fs := sameVersion_keyFields false fs
    rw [e1, e2]
    by_cases hA : sameVersion true fs = true
    · simp only [hA, if_true]; rfl
    · simp only [hA, if_false]
      by_cases hB : sameVersion false fs = true
      · simp only [hB, if_true]; rfl
      · simp only [hB, if_false]; rfl

theorem version_select {α : Type} (F : Bool → α) (fs : List Field) :
    (if sameVersion true fs then some (F true) else if sameVersion false fs then some (F false) else none) =
      if (fs.filterMap Field.ip?).all (fun a => a.1 == ipVersion (fs.filterMap Field.ip?)) then
        some (F (ipVersion (fs.filterMap Field.ip?))) else none := by
  unfold sameVersion
  cases (fs.filterMap Field.ip?) with
  | nil => rfl
  | cons a rest =>
    obtain ⟨v, b⟩ := a
    cases v <;> rfl

/-- `Key.Extend`: no time extension for a timestamp ≤ 0 -/
def ext (t : Int) : Option Int := if t ≤ 0 then none else some t

theorem key_time (fs : List Field) (v : Bool) :
    (setFields (keyFields fs) (baseKey v)).time = ext (lastD (fs.filterMap Field.time?) 0) := by
  have h := (setFields_proj (keyFields fs) (baseKey v)).2.2.2.2.2
  rw [h]
  unfold keyFields
  rw [filterMap_keyFields_other]
  · have : (fs.filterMap fun f => f.time?.map fun t => if t ≤ 0 then none else some t) = (fs.filterMap Field.time?).map ext := by
      rw [List.map_filterMap]
      congr 1
    rw [this]
    exact lastD_map ext _ 0
  · intro y hy
    cases y <;> simp [Field.time?, fieldKind, isOtherKeyKind] at hy ⊢

theorem kf_sip (fs : List Field) : (keyFields fs).filterMap Field.sip? = fs.filterMap Field.sip? :=
  filterMap_keyFields_ip _ _ (by intro y hy; cases y <;> simp [Field.sip?, fieldKind, isIPKind] at hy ⊢)
theorem kf_dip (fs : List Field) : (keyFields fs).filterMap Field.dip? = fs.filterMap Field.dip? :=
  filterMap_keyFields_ip _ _ (by intro y hy; cases y <;> simp [Field.dip?, fieldKind, isIPKind] at hy ⊢)
theorem kf_dport (fs : List Field) : (keyFields fs).filterMap Field.dport? = fs.filterMap Field.dport? :=
  filterMap_keyFields_other _ _ (by intro y hy; cases y <;> simp [Field.dport?, fieldKind, isOtherKeyKind] at hy ⊢)
theorem kf_proto (fs : List Field) : (keyFields fs).filterMap Field.proto? = fs.filterMap Field.proto? :=
  filterMap_keyFields_other _ _ (by intro y hy; cases y <;> simp [Field.proto?, fieldKind, isOtherKeyKind] at hy ⊢)
theorem vf_br (fs : List Field) : (valFields fs).filterMap Field.br? = fs.filterMap Field.br? :=
  filterMap_filter_of_support _ _ _ (by intro y hy; cases y <;> simp [Field.br?, fieldKind, isValKind] at hy ⊢)
theorem vf_bs (fs : List Field) : (valFields fs).filterMap Field.bs? = fs.filterMap Field.bs? :=
  filterMap_filter_of_support _ _ _ (by intro y hy; cases y <;> simp [Field.bs?, fieldKind, isValKind] at hy ⊢)
theorem vf_pr (fs : List Field) : (valFields fs).filterMap Field.pr? = fs.filterMap Field.pr? :=
  filterMap_filter_of_support _ _ _ (by intro y hy; cases y <;> simp [Field.pr?, fieldKind, isValKind] at hy ⊢)
theorem vf_ps (fs : List Field) : (valFields fs).filterMap Field.ps? = fs.filterMap Field.ps? :=
  filterMap_filter_of_support _ _ _ (by intro y hy; cases y <;> simp [Field.ps?, fieldKind, isValKind] at hy ⊢)

/-- **row refinement**: the importer's parser chain (address parsers first, IPv4 attempt and IPv6 retry,
    remaining key parsers, value parsers, `AttrTime`) accepts exactly the records the row spec calls
    well-formed and yields the same interface, timestamp, key and counters — for EVERY record, EVERY
    column list and default interface. -/
theorem classify_eq_specEv (cols : List Col) (d : String) (rc : Rec) :
    classify (schemaOf cols) d rc = specEv cols d rc := by
  cases rc with
  | bad => rfl
  | fields row =>
    have hmin : (schemaOf cols).minFields = minFields cols := rfl
    have hpf : (fun c : Col => parseField c.kind (fieldAt row c.idx)) = pf row := rfl
    simp only [classify, specEv, specRow, hmin, parseRow_eq, hpf, mapM_eq_allSome]
    by_cases hlen : row.length < minFields cols
    · simp [hlen]
    simp only [hlen, if_false]
    by_cases hi : validIface (specIface cols d row) = true
    case neg => simp [hi]
    simp only [hi, Bool.not_true, Bool.false_eq_true, if_false]
    cases hall : allSome (pf row) cols with
    | none => rfl
    | some fs =>
      simp only []
      rw [version_select (fun v => (specIface cols d row, setFields (keyFields fs) (baseKey v), setCounters (valFields fs) Counters.zero)) fs]
      by_cases hv : ((fs.filterMap Field.ip?).all fun a => a.1 == ipVersion (fs.filterMap Field.ip?)) = true
      case neg => simp [hv]
      simp only [hv, if_true, Bool.not_true, Bool.false_eq_true, if_false]
      rw [key_time]
      unfold ext
      by_cases ht : lastD (fs.filterMap Field.time?) 0 ≤ 0
      · simp [ht]
      simp only [ht, if_false]
      obtain ⟨k1, k2, k3, k4, k5, _⟩ := setFields_proj (keyFields fs) (baseKey (ipVersion (fs.filterMap Field.ip?)))
      obtain ⟨c1, c2, c3, c4⟩ := setCounters_proj (valFields fs) Counters.zero
      have hce : setCounters (valFields fs) Counters.zero =
          ⟨(setCounters (valFields fs) Counters.zero).br, (setCounters (valFields fs) Counters.zero).bs,
           (setCounters (valFields fs) Counters.zero).pr, (setCounters (valFields fs) Counters.zero).ps⟩ := rfl
      rw [hce, c1, c2, c3, c4, k1, k2, k3, k4, k5, kf_sip, kf_dip, kf_dport, kf_proto, vf_br, vf_bs, vf_pr, vf_ps]
      rfl

/-! ### whole files: `csvimport.Import` against the spec -/

theorem ifaceIndex_isNone (cols : List Col) :
    (schemaOf cols).ifaceIndex.isNone = !cols.any (fun c => decide (c.kind = .iface)) := by
  simp only [schemaOf]
  cases hf : (cols.filter fun c => decide (c.kind = .iface)).getLast? with
  | none =>
    have hnil := List.getLast?_eq_none_iff.mp hf
    have : (cols.any fun c => decide (c.kind = .iface)) = false := by
      rw [Bool.eq_false_iff]; intro h
      obtain ⟨x, hx, hx2⟩ := List.any_eq_true.mp h
      have : x ∈ cols.filter fun c => decide (c.kind = .iface) := List.mem_filter.mpr ⟨hx, hx2⟩
      rw [hnil] at this; cases this
    simp [this]
  | some y =>
    have hy : y ∈ cols.filter fun c => decide (c.kind = .iface) := List.mem_of_getLast? hf
    have := List.mem_filter.mp hy
    have : (cols.any fun c => decide (c.kind = .iface)) = true := List.any_eq_true.mpr ⟨y, this.1, this.2⟩
    simp [this]

/-- **set-up refinement**: schema source (option, else header record), schema errors, the missing
    interface and the `MaxRows` check are the spec's -/
theorem setup_eq (c : Case) : Model.setup c = match specSetup c with
    | .err cls => .error cls
    | .ready cols d data => .ok (schemaOf cols, d, data) := by
  have hw : ∀ (s : String) (data : List Rec),
      (match parseSchema s with
        | .error e => (.error (schemaErrClass e) : Except String (Schema × String × List Rec))
        | .ok sch => if sch.ifaceIndex.isNone && trimSpace c.iface = "" then .error "noiface"
            else .ok (sch, trimSpace c.iface, data)) =
      match (match specSchema s with
        | .error e => Setup.err (schemaErrClass e)
        | .ok cols => if !cols.any (fun x => decide (x.kind = Kind.iface)) && trimSpace c.iface = "" then Setup.err "noiface"
            else Setup.ready cols (trimSpace c.iface) data) with
      | .err cls => .error cls
      | .ready cols d data => .ok (schemaOf cols, d, data) := by
    intro s data
    rw [parseSchema_eq]
    cases specSchema s with
    | error e => rfl
    | ok cols =>
      simp only [ifaceIndex_isNone]
      by_cases h : (!cols.any (fun c => decide (c.kind = .iface)) && decide (trimSpace c.iface = "")) = true
      · simp only [h, if_true]
      · simp only [h, if_false]; rfl
  unfold Model.setup specSetup
  by_cases hm : c.maxRows < 0
  · simp only [hm, if_true]
  simp only [hm, if_false]
  by_cases hs : trimSpace c.schema ≠ ""
  · rw [if_pos hs, if_pos hs]; exact hw _ _
  · rw [if_neg hs, if_neg hs]
    cases c.recs with
    | nil => rfl
    | cons r rs =>
      cases r with
      | bad => rfl
      | fields h => exact hw _ _

theorem limitRows_eq_consumed (m : Int) (hm : ¬ m < 0) (l : List Ev) :
    limitRows m l = consumed m.toNat l := by
  unfold limitRows consumed
  by_cases h0 : m ≤ 0
  · have : m.toNat = 0 := by omega
    simp [h0, this]
  · have : ¬ m.toNat = 0 := by omega
    simp [h0, this]

/-- the model of `Import` on a file whose set-up succeeds = the read loop on the spec's events -/
theorem importCSV_eq (c : Case) (cols : List Col) (d : String) (data : List Rec)
    (h : specSetup c = .ready cols d data) :
    (importCSV c).st = (runEvs c.maxRows.toNat (data.map (specEv cols d))).1 ∧
    (importCSV c).status = (runEvs c.maxRows.toNat (data.map (specEv cols d))).2 := by
  have hs := setup_eq c
  rw [h] at hs
  have hf : classify (schemaOf cols) d = specEv cols d := funext (classify_eq_specEv cols d)
  simp only [importCSV, importWith, hs, hf, runEvs]
  exact ⟨trivial, trivial⟩

theorem maxRows_nonneg (c : Case) (cols : List Col) (d : String) (data : List Rec)
    (h : specSetup c = .ready cols d data) : ¬ c.maxRows < 0 := by
  intro hm
  unfold specSetup at h
  simp [hm] at h

/-- **C26 for whole files (`import_spec` + `rows_account`)**: let the set-up of a case succeed with
    columns `cols` and let `evs` be the spec's reading of the records the import may consume.  If no
    consumed record is a CSV syntax error and the well-formed rows are ordered by time, then
    `Import` succeeds, the destination holds under every (iface, timestamp, key) exactly the SUM of the
    counters of the well-formed rows with that identity (and nothing else), every consumed record is
    counted as read, every well-formed row as imported, and read = imported + skipped. -/
theorem import_file_spec (c : Case) (cols : List Col) (d : String) (data : List Rec)
    (h : specSetup c = .ready cols d data)
    (hb : Ev.bad ∉ limitRows c.maxRows (data.map (specEv cols d)))
    (ho : ordered none (rowsOf (limitRows c.maxRows (data.map (specEv cols d))))) :
    (importCSV c).status = .ok ∧
    (importCSV c).st.db = specStore (rowsOf (limitRows c.maxRows (data.map (specEv cols d)))) ∧
    (∀ k, stored (importCSV c).st.db k = specStored (rowsOf (limitRows c.maxRows (data.map (specEv cols d)))) k) ∧
    (importCSV c).st.read = (importCSV c).st.imported + (importCSV c).st.skipped ∧
    (importCSV c).st.read = (limitRows c.maxRows (data.map (specEv cols d))).length ∧
    (importCSV c).st.imported = (rowsOf (limitRows c.maxRows (data.map (specEv cols d)))).length := by
  obtain ⟨e1, e2⟩ := importCSV_eq c cols d data h
  rw [limitRows_eq_consumed _ (maxRows_nonneg c cols d data h)] at hb ho ⊢
  obtain ⟨h1, h2, h3, _⟩ := import_spec _ _ hb ho
  obtain ⟨a1, a2, _⟩ := rows_account_exact _ _ hb ho
  rw [e1, e2]
  exact ⟨h1, h2, h3, (rows_account _ _).1 h1, a1, a2⟩

/-- **C26 for whole files (`regression_rejected`)**: if the consumed records are `pre`, then a
    well-formed row `r`, then anything, where `pre` has no syntax error, its well-formed rows are ordered
    and end at timestamp `t`, and `r.ts < t`, then `Import` returns the regression error, having stored
    exactly the grouped rows of `pre` older than `t`. -/
theorem regression_file_rejected (c : Case) (cols : List Col) (d : String) (data : List Rec)
    (h : specSetup c = .ready cols d data) (pre post : List Ev) (r : Row) (t : Int)
    (hc : limitRows c.maxRows (data.map (specEv cols d)) = pre ++ Ev.row r :: post)
    (hb : Ev.bad ∉ pre) (ho : ordered none (rowsOf pre)) (hl : lastOf none (rowsOf pre) = some t) (hreg : r.ts < t) :
    (importCSV c).status = .err "regression" ∧
    (importCSV c).st.db = specStore ((rowsOf pre).filter (fun f => decide (f.ts < t))) ∧
    (importCSV c).st.read = (importCSV c).st.imported + (importCSV c).st.skipped + 1 := by
  obtain ⟨e1, e2⟩ := importCSV_eq c cols d data h
  rw [limitRows_eq_consumed _ (maxRows_nonneg c cols d data h)] at hc
  obtain ⟨h1, h2, _, h4⟩ := regression_rejected _ _ pre post r t hc hb ho hl hreg
  rw [e1, e2]
  exact ⟨h1, h2, h4⟩

/-! ### ties to the regenerated constants -/

/-- the column names the model dispatches on (regenerated from `pkg/types`) are the spec's -/
theorem column_names_eq :
    Gen.CsvImport.TimeName = "time" ∧ Gen.CsvImport.IfaceName = "iface" ∧ Gen.CsvImport.SIPName = "sip" ∧
    Gen.CsvImport.DIPName = "dip" ∧ Gen.CsvImport.DportName = "dport" ∧ Gen.CsvImport.ProtoName = "proto" := by
  decide

/-- `ExtendedKey.IsIPv4` / `AttrTime` decide by the LENGTH of the key: the four possible lengths
    (IPv4 / IPv6, with / without the 8-byte time extension) are pairwise different, so representing a key
    by (version, fields, optional time) loses nothing -/
theorem key_lengths_distinct :
    Gen.CsvImport.KeyWidthIPv4 ≠ Gen.CsvImport.KeyWidthIPv6 ∧
    Gen.CsvImport.KeyWidthIPv4 + Gen.CsvImport.TimestampWidth ≠ Gen.CsvImport.KeyWidthIPv6 ∧
    Gen.CsvImport.KeyWidthIPv4 ≠ Gen.CsvImport.KeyWidthIPv6 + Gen.CsvImport.TimestampWidth ∧
    Gen.CsvImport.KeyWidthIPv4 + Gen.CsvImport.TimestampWidth ≠ Gen.CsvImport.KeyWidthIPv6 + Gen.CsvImport.TimestampWidth ∧
    0 < Gen.CsvImport.TimestampWidth ∧
    Gen.CsvImport.KeyWidthIPv4 = 4 + 4 + 2 + 1 ∧ Gen.CsvImport.KeyWidthIPv6 = 16 + 16 + 2 + 1 := by
  decide

/-! ### non-vacuity, the replayed defect, and what happens outside the hypotheses -/

namespace Ex
def k1 : FlowKey := ⟨true, [10, 0, 0, 1], [10, 0, 0, 2], 443, 6⟩
def k2 : FlowKey := ⟨true, [10, 0, 0, 3], [10, 0, 0, 4], 80, 6⟩
def r1 : Row := ⟨"eth0", 1711929900, k1, ⟨300, 200, 3, 2⟩⟩
def r3 : Row := ⟨"eth0", 1711929900, k2, ⟨400, 100, 4, 1⟩⟩
def r4 : Row := ⟨"eth1", 1711930200, k1, ⟨1, 1, 1, 1⟩⟩
/-- the replayed witness: two identical rows, a malformed one, one other row -/
def witness : List Ev := [.row r1, .row r1, .skip, .row r3]
end Ex

open Ex in
/-- the hypotheses of `import_spec` hold on the witness … -/
example : Ev.bad ∉ consumed 0 witness ∧ ordered none (rowsOf (consumed 0 witness)) := by
  refine ⟨by decide, ?_⟩
  simp [consumed, witness, rowsOf, ordered, older, r1, r3]

open Ex in
/-- … and the fixed code stores the SUM under the shared identity (3 imported, 1 skipped, 4 read) -/
example : (runEvs 0 witness).1.db = [⟨"eth0", 1711929900, k1, ⟨600, 400, 6, 4⟩⟩, r3] ∧
    (runEvs 0 witness).1.imported = 3 ∧ (runEvs 0 witness).1.skipped = 1 ∧ (runEvs 0 witness).1.read = 4 ∧
    (runEvs 0 witness).1.blocks = 1 := by decide

open Ex in
/-- **the defect that was fixed** (model of the code before the `fix:` commit, `Map.Set`): the same input
    is reported as 3 rows imported, but the destination holds the counters of ONE of the two identical
    rows, which is not what `import_spec` demands -/
example : (loop setOverwrite 0 witness {}).2 = .ok ∧ (loop setOverwrite 0 witness {}).1.imported = 3 ∧
    (loop setOverwrite 0 witness {}).1.db = [r1, r3] ∧
    (loop setOverwrite 0 witness {}).1.db ≠ specStore (rowsOf witness) := by decide

open Ex in
/-- the hypotheses of `regression_rejected` hold on a concrete input; the older row is rejected and the
    block of the newer timestamp, still pending, is not written -/
example : lastOf none (rowsOf [Ev.row r4]) = some 1711930200 ∧ r1.ts < 1711930200 ∧
    (runEvs 0 [.row r4, .row r1, .row r3]).2 = .err "regression" ∧
    (runEvs 0 [.row r4, .row r1, .row r3]).1.db = [] ∧ (runEvs 0 [.row r4, .row r1, .row r3]).1.imported = 1 ∧
    (runEvs 0 [.row r4, .row r1, .row r3]).1.read = 2 := by decide

open Ex in
/-- a regression after a flushed block: the earlier block is stored, the pending one is not -/
example : (runEvs 0 [.row r1, .row r4, .row r3]).2 = .err "regression" ∧
    (runEvs 0 [.row r1, .row r4, .row r3]).1.db = [r1] := by decide

open Ex in
/-- `MaxRows` cuts the input before the regression is seen: the import succeeds -/
example : (runEvs 1 [.row r4, .row r1]).2 = .ok ∧ (runEvs 1 [.row r4, .row r1]).1.db = [r4] := by decide

open Ex in
/-- outside the hypothesis "no CSV syntax error": the import fails and the accepted row, still pending,
    is not stored although it was counted as imported -/
example : (runEvs 0 [.row r1, .bad]).2 = .err "csv" ∧ (runEvs 0 [.row r1, .bad]).1.db = [] ∧
    (runEvs 0 [.row r1, .bad]).1.imported = 1 := by decide

/-! concrete schemas and records (evaluated by the kernel; `strings.Split` does not reduce there, so the
    names are given as a list) -/

example : colsFrom 0 [" Time ", " SIP ", "", "DPORT", "x"] = [⟨0, .time⟩, ⟨1, .sip⟩, ⟨3, .dport⟩] := by decide

/-- address parsers are moved to the front, the others keep their column order -/
example : schemaOf (colsFrom 0 ["dport", "time", "dip", "iface", "sip", "packets sent"]) =
    ⟨some 3, 6, true, [⟨2, 0, .dip⟩, ⟨4, 0, .sip⟩, ⟨0, 1, .dport⟩, ⟨1, 1, .time⟩], [⟨5, .ps⟩]⟩ := by decide

/-- the same through the code-shaped loop and the two sorts -/
example : (schemaLoop 0 ["dport", "time", "dip", "iface", "sip", "packets sent"] (⟨none, 0, false, [], []⟩, 0)).2 = 6 ∧
    stableSort keyLess (schemaLoop 0 ["dport", "time", "dip", "iface", "sip", "packets sent"]
      (⟨none, 0, false, [], []⟩, 0)).1.keyParsers = [⟨2, 0, .dip⟩, ⟨4, 0, .sip⟩, ⟨0, 1, .dport⟩, ⟨1, 1, .time⟩] := by
  decide

set_option maxRecDepth 4000 in
/-- an IPv6 row is accepted through the retry; fields are trimmed; protocol by name -/
example : classify (schemaOf [⟨0, .time⟩, ⟨1, .sip⟩, ⟨2, .dip⟩, ⟨3, .proto⟩, ⟨4, .ps⟩]) "lo"
      (.fields ["100", " 2001:db8::1", "::2 ", "UDP", "7"]) =
    .row ⟨"lo", 100, ⟨false, [0x20, 1, 0xd, 0xb8, 0, 0, 0, 0, 0, 0, 0, 0, 0, 0, 0, 1],
      [0, 0, 0, 0, 0, 0, 0, 0, 0, 0, 0, 0, 0, 0, 0, 2], 0, 17⟩, ⟨0, 0, 0, 7⟩⟩ := by decide

set_option maxRecDepth 4000 in
/-- mixed IP versions, a time ≤ 0, a short record and a bad port are skipped -/
example :
    classify (schemaOf [⟨0, .time⟩, ⟨1, .sip⟩, ⟨2, .dip⟩, ⟨3, .dport⟩]) "lo" (.fields ["100", "1.2.3.4", "::1", "80"]) = .skip ∧
    classify (schemaOf [⟨0, .time⟩, ⟨1, .sip⟩, ⟨2, .dip⟩, ⟨3, .dport⟩]) "lo" (.fields ["0", "1.2.3.4", "1.2.3.5", "80"]) = .skip ∧
    classify (schemaOf [⟨0, .time⟩, ⟨1, .sip⟩, ⟨2, .dip⟩, ⟨3, .dport⟩]) "lo" (.fields ["100", "1.2.3.4", "1.2.3.5"]) = .skip ∧
    classify (schemaOf [⟨0, .time⟩, ⟨1, .sip⟩, ⟨2, .dip⟩, ⟨3, .dport⟩]) "lo" (.fields ["100", "1.2.3.4", "1.2.3.5", "+80"]) = .skip := by
  decide

end C26
