import GoProbeModel.Model.C23

/-!
C23 — property theorems for the local packet buffer (`LocalBuffer`, pkg/capture/buffer.go).

The model (`Model/C23.lean`) is a byte array with checked Go index / slice operations. The proof
is a refinement: `Inv limit b a` says that the bytes between the read and the write position of
the concrete buffer `b` are the concatenated encodings of the queue `a.pending` of the executable
spec (`Spec/C23.lean`), that positions and lengths are in range and that the spec's byte budget
`a.used` is the write position. Every op keeps `Inv`, never panics and produces exactly the token
the spec judge accepts (`step_ok`); by induction the whole trace of every in-domain case is judged
`holds`, for every size limit (`case_holds`). The four clauses of the property are stated over the
states reachable by any sequence of ops (`Reach`):
`fifo_fields`, `refuse_only_at_limit`, `refuse_no_change`, `add_total` (+ `case_no_panic`).

Hypotheses: initial buffer size ≥ 45 bytes (one doubling then always makes room for one item —
an `example` shows a refusal far below the limit otherwise), non-empty slices from the pool, and
well-formed items (13-byte key iff IPv4, else 37 bytes — an `example` shows a lost key otherwise).
-/
namespace C23

/-! ## byte-array primitives -/
theorem rd_set (m : Array Nat) (i v j : Nat) :
    rd (m.setIfInBounds i v) j = if i = j ∧ i < m.size then v else rd m j := by
  unfold rd
  rw [Array.getElem?_setIfInBounds]
  split
  · rename_i h; subst h
    split
    · rename_i h2; simp [h2]
    · rename_i h2; simp [h2]
  · rename_i h; simp [h]

@[simp] theorem size_storeList (m : Array Nat) (i : Nat) (xs : List Nat) :
    (storeList m i xs).size = m.size := by
  induction xs generalizing m i with
  | nil => rfl
  | cons x xs ih => simp [storeList, ih]

theorem rd_storeList_out (m : Array Nat) (i : Nat) (xs : List Nat) (j : Nat)
    (h : j < i ∨ i + xs.length ≤ j) : rd (storeList m i xs) j = rd m j := by
  induction xs generalizing m i with
  | nil => rfl
  | cons x xs ih =>
    simp only [storeList, List.length_cons] at *
    rw [ih _ _ (by omega), rd_set]
    have : ¬ (i = j ∧ i < m.size) := by omega
    simp [this]

theorem rd_storeList_in (m : Array Nat) (i : Nat) (xs : List Nat) (k : Nat)
    (hk : k < xs.length) (hs : i + xs.length ≤ m.size) :
    rd (storeList m i xs) (i + k) = xs[k]?.getD 0 := by
  induction xs generalizing m i k with
  | nil => simp at hk
  | cons x xs ih =>
    simp only [storeList, List.length_cons] at *
    cases k with
    | zero =>
      rw [rd_storeList_out _ _ _ _ (by omega), rd_set]
      simp; omega
    | succ k =>
      have := ih (m.setIfInBounds i x) (i + 1) k (by omega) (by simp; omega)
      rw [show i + (k + 1) = i + 1 + k by omega, this]
      simp

theorem readList_length (m : Array Nat) (p n : Nat) : (readList m p n).length = n := by
  simp [readList]

theorem readList_congr (m m' : Array Nat) (p n : Nat)
    (h : ∀ j, p ≤ j → j < p + n → rd m' j = rd m j) : readList m' p n = readList m p n := by
  unfold readList
  apply List.map_congr_left
  intro j hj
  simp at hj
  exact h _ (by omega) (by omega)

theorem readList_add (m : Array Nat) (p a b : Nat) :
    readList m p (a + b) = readList m p a ++ readList m (p + a) b := by
  unfold readList
  rw [List.range_add, List.map_append, List.map_map]
  congr 1
  apply List.map_congr_left
  intro j _
  simp [Nat.add_assoc]

theorem readList_storeList (m : Array Nat) (i : Nat) (xs : List Nat) (hs : i + xs.length ≤ m.size) :
    readList (storeList m i xs) i xs.length = xs := by
  apply List.ext_getElem?
  intro k
  unfold readList
  by_cases hk : k < xs.length
  · simp [hk, rd_storeList_in m i xs k hk hs]
  · simp [hk]

theorem storeList_append (m : Array Nat) (i : Nat) (a b : List Nat) :
    storeList m i (a ++ b) = storeList (storeList m i a) (i + a.length) b := by
  induction a generalizing m i with
  | nil => rfl
  | cons x xs ih =>
    simp only [List.cons_append, storeList, List.length_cons]
    rw [ih]; congr 1; omega

/-! ## record encoding -/
open Gen.Buffer

def enc (it : Item) : List Nat :=
  [if it.v4 then 0 else 1] ++ it.key ++ [it.ptype, it.aux, errnoByte it.errno] ++ le32 it.size

theorem enc_length (it : Item) : (enc it).length = need it := by
  simp [enc, need, le32]

theorem fromLE32_le32 (v : Nat) (h : v < 4294967296) : fromLE32 (le32 v) = v := by
  simp only [le32, fromLE32]; omega

theorem toInt8_errnoByte (e : Int) (h1 : -128 ≤ e) (h2 : e ≤ 127) : toInt8 (errnoByte e) = e := by
  unfold toInt8 errnoByte
  split <;> omega

theorem wf_iff (it : Item) : it.wf = true ↔
    it.key.length = (if it.v4 then 13 else 37) ∧ (∀ x ∈ it.key, x < 256) ∧ it.ptype < 256 ∧
    it.size < 4294967296 ∧ it.aux < 256 ∧ -128 ≤ it.errno ∧ it.errno ≤ 127 := by
  simp [Item.wf, and_assoc]

theorem setIdx_ok (b : Buf) (i v : Nat) (h : i < b.len) :
    setIdx b i v = .ok { b with mem := storeList b.mem i [v] } := by
  simp [setIdx, h, storeList]

theorem copyTo_ok (b : Buf) (lo hi : Nat) (src : List Nat) (h1 : lo ≤ hi) (h2 : hi ≤ b.mem.size) :
    copyTo b lo hi src = .ok { b with mem := storeList b.mem lo (src.take (hi - lo)) } := by
  simp [copyTo, h1, h2]

theorem setU32_ok (b : Buf) (i v : Nat) (h1 : i < b.len) (h2 : i + 4 ≤ b.mem.size) :
    setU32 b i v = .ok { b with mem := storeList b.mem i (le32 v) } := by
  simp [setU32, h1, h2]

/-- the element transfer writes exactly the encoding of the item at the write position -/
theorem writeRec_eq (b : Buf) (it : Item)
    (hk : it.key.length = if it.v4 then 13 else 37)
    (hroom : b.w + need it ≤ b.len) (hcap : b.len ≤ b.mem.size) :
    writeRec b it = .ok { b with mem := storeList b.mem b.w (enc it), w := b.w + need it } := by
  unfold need at hroom
  have hn : (if it.v4 then EPHashSizeV4 else EPHashSizeV6) = it.key.length := by
    rw [hk]; cases it.v4 <;> rfl
  unfold writeRec
  simp only [hn, bufElementAddSize]
  generalize hlen : it.key.length = n at *
  rw [setIdx_ok _ _ _ (by omega)]; simp only [Outcome.bind_ok]
  rw [copyTo_ok _ _ _ _ (by omega) (by simp; omega)]; simp only [Outcome.bind_ok]
  rw [setIdx_ok _ _ _ (by simp; omega)]; simp only [Outcome.bind_ok]
  rw [setIdx_ok _ _ _ (by simp; omega)]; simp only [Outcome.bind_ok]
  rw [setIdx_ok _ _ _ (by simp; omega)]; simp only [Outcome.bind_ok]
  rw [setU32_ok _ _ _ (by simp; omega) (by simp; omega)]; simp only [Outcome.bind_ok]
  have htake : List.take (b.w + n + 1 - (b.w + 1)) it.key = it.key := by
    apply List.take_of_length_le; omega
  have henc : enc it = [if it.v4 then 0 else 1] ++ it.key ++ [it.ptype] ++ [it.aux] ++ [errnoByte it.errno] ++ le32 it.size := by
    simp [enc]
  rw [htake, henc]
  simp only [storeList_append, List.length_append, List.length_cons, List.length_nil, hlen, need]
  show Outcome.ok _ = Outcome.ok _
  rw [show b.w + (0 + 1) = b.w + 1 by omega, show b.w + (0 + 1 + n) = b.w + n + 1 by omega,
    show b.w + (0 + 1 + n + (0 + 1)) = b.w + n + 2 by omega,
    show b.w + (0 + 1 + n + (0 + 1) + (0 + 1)) = b.w + n + 3 by omega,
    show b.w + (0 + 1 + n + (0 + 1) + (0 + 1) + (0 + 1)) = b.w + n + 4 by omega]

theorem readList_split (m : Array Nat) (p : Nat) (a rest : List Nat) (n2 : Nat)
    (h : readList m p (a.length + n2) = a ++ rest) :
    readList m p a.length = a ∧ readList m (p + a.length) n2 = rest := by
  rw [readList_add] at h
  exact List.append_inj h (by simp [readList_length])

theorem readList_one (m : Array Nat) (p x : Nat) (h : readList m p 1 = [x]) : rd m p = x := by
  simpa [readList] using h

theorem getIdx_ok (b : Buf) (i : Nat) (h : i < b.len) : getIdx b i = .ok (rd b.mem i) := by
  simp [getIdx, h]

theorem sliceOf_ok (b : Buf) (lo hi : Nat) (h1 : lo ≤ hi) (h2 : hi ≤ b.mem.size) :
    sliceOf b lo hi = .ok (readList b.mem lo (hi - lo)) := by
  simp [sliceOf, h1, h2]

theorem getU32_ok (b : Buf) (i : Nat) (h1 : i < b.len) (h2 : i + 4 ≤ b.mem.size) :
    getU32 b i = .ok (fromLE32 (readList b.mem i 4)) := by
  simp [getU32, h1, h2]

/-- reading a record that holds the encoding of a well-formed item gives the item back, field by field -/
theorem next_decode (b : Buf) (it : Item) (hwf : it.wf = true)
    (hrw : b.r < b.w) (henc : readList b.mem b.r (need it) = enc it)
    (hroom : b.r + need it ≤ b.len) (hcap : b.len ≤ b.mem.size) :
    next b = .ok ({ b with r := b.r + need it }, some it) := by
  obtain ⟨hk, _, hpt, hsz, haux, he1, he2⟩ := (wf_iff it).1 hwf
  have e1 : enc it = [if it.v4 then 0 else 1] ++ (it.key ++ ([it.ptype] ++ ([it.aux] ++ ([errnoByte it.errno] ++ le32 it.size)))) := by
    simp [enc]
  have e2 : need it = ([if it.v4 then 0 else 1] : List Nat).length + (it.key.length + (([it.ptype] : List Nat).length +
      (([it.aux] : List Nat).length + (([errnoByte it.errno] : List Nat).length + 4)))) := by
    simp [need]; omega
  have henc' := henc
  rw [e1, e2] at henc'
  obtain ⟨h0, henc'⟩ := readList_split _ _ _ _ _ henc'
  obtain ⟨hkey, henc'⟩ := readList_split _ _ _ _ _ henc'
  obtain ⟨h1, henc'⟩ := readList_split _ _ _ _ _ henc'
  obtain ⟨h2, henc'⟩ := readList_split _ _ _ _ _ henc'
  obtain ⟨h3, h4⟩ := readList_split _ _ _ _ _ henc'
  replace h0 := readList_one _ _ _ h0
  replace h1 := readList_one _ _ _ h1
  replace h2 := readList_one _ _ _ h2
  replace h3 := readList_one _ _ _ h3
  simp only [List.length_cons, List.length_nil] at hkey h1 h2 h3 h4
  clear henc' e1 e2
  have hn : (if (if it.v4 then 0 else 1 : Nat) = 0 then EPHashSizeV4 else EPHashSizeV6) = it.key.length := by
    rw [hk]; cases it.v4 <;> rfl
  have hflag : decide ((if it.v4 then 0 else 1 : Nat) = 0) = it.v4 := by cases it.v4 <;> rfl
  unfold need at hroom
  generalize hlen : it.key.length = n at *
  rw [show b.r + (0 + 1) = b.r + 1 by omega] at hkey
  rw [show b.r + (0 + 1) + n = b.r + 1 + n by omega] at h1
  rw [show b.r + (0 + 1) + n + (0 + 1) = b.r + n + 2 by omega] at h2
  rw [show b.r + (0 + 1) + n + (0 + 1) + (0 + 1) = b.r + n + 3 by omega] at h3
  rw [show b.r + (0 + 1) + n + (0 + 1) + (0 + 1) + (0 + 1) = b.r + n + 4 by omega] at h4
  unfold next
  rw [if_neg (by omega)]
  dsimp only
  rw [getIdx_ok _ _ (by omega)]; simp only [Outcome.bind_ok, h0, hn]
  rw [sliceOf_ok _ _ _ (by omega) (by omega)]; simp only [Outcome.bind_ok]
  rw [getIdx_ok _ _ (by omega)]; simp only [Outcome.bind_ok]
  rw [getU32_ok _ _ (by omega) (by omega)]; simp only [Outcome.bind_ok]
  rw [getIdx_ok _ _ (by omega)]; simp only [Outcome.bind_ok]
  rw [getIdx_ok _ _ (by omega)]; simp only [Outcome.bind_ok]
  rw [show b.r + 1 + n - (b.r + 1) = n by omega, hkey, h1, h2, h3, h4, fromLE32_le32 _ hsz,
    toInt8_errnoByte _ he1 he2, hflag]
  simp only [bufElementAddSize, need, hlen]
  rfl

theorem resize_ok (b : Buf) (size : Nat) (h0 : 0 < b.len) (hcap : b.len ≤ b.mem.size) (hs : b.len ≤ size) :
    ∃ b1, resize b size = .ok b1 ∧ b1.len = size ∧ size ≤ b1.mem.size ∧
      (∀ j, j < b.len → rd b1.mem j = rd b.mem j) ∧
      b1.w = b.w ∧ b1.r = b.r ∧ b1.limit = b.limit ∧ b1.page = b.page := by
  unfold resize
  rw [if_neg (by omega)]
  split
  · refine ⟨_, rfl, rfl, ?_, ?_, rfl, rfl, rfl, rfl⟩
    · simp; omega
    · intro j hj
      simp only [rd]
      rw [Array.getElem?_append_left (by simp; omega)]
      simp only [Array.getElem?_extract, Nat.zero_add, Nat.sub_zero]
      rw [if_pos (by omega)]
  · refine ⟨_, rfl, rfl, ?_, ?_, rfl, rfl, rfl, rfl⟩
    · simp; omega
    · intro j _; rfl

/-! ## the refinement invariant -/

/-- the bytes from `p` up to `w` are the concatenated encodings of the items -/
def Enc (m : Array Nat) : Nat → List Item → Nat → Prop
  | p, [], w => p = w
  | p, it :: rest, w => readList m p (need it) = enc it ∧ Enc m (p + need it) rest w

theorem Enc_le {m : Array Nat} {p : Nat} {its : List Item} {w : Nat} (h : Enc m p its w) : p ≤ w := by
  induction its generalizing p with
  | nil => simp [Enc] at h; omega
  | cons it rest ih => have := ih h.2; omega

theorem Enc_frame {m m' : Array Nat} {p : Nat} {its : List Item} {w : Nat}
    (hf : ∀ j, p ≤ j → j < w → rd m' j = rd m j) (h : Enc m p its w) : Enc m' p its w := by
  induction its generalizing p with
  | nil => exact h
  | cons it rest ih =>
    have hle := Enc_le h.2
    refine ⟨?_, ih (fun j h1 h2 => hf j (by omega) h2) h.2⟩
    rw [← h.1]
    exact readList_congr _ _ _ _ (fun j h1 h2 => hf j h1 (by omega))

theorem Enc_snoc {m : Array Nat} {p : Nat} {its : List Item} {w : Nat} (it : Item)
    (h : Enc m p its w) (hit : readList m w (need it) = enc it) : Enc m p (its ++ [it]) (w + need it) := by
  induction its generalizing p with
  | nil => simp only [Enc] at h; subst h; exact ⟨hit, rfl⟩
  | cons x rest ih => exact ⟨h.1, ih h.2⟩

/-- `Inv limit b a`: the concrete buffer `b` represents the spec state `a` -/
structure Inv (limit : Nat) (b : Buf) (a : Abs) : Prop where
  lim : b.limit = limit
  pg : 45 ≤ b.page
  cap : b.len ≤ b.mem.size
  big : 45 ≤ b.len
  wl : b.w ≤ b.len
  enc : Enc b.mem b.r a.pending b.w
  wf : ∀ it ∈ a.pending, it.wf = true
  tk : a.taken ≤ a.acc.size
  used : a.used = b.w
  lastW : a.lastW = b.w

theorem need_le (it : Item) (h : it.wf = true) : need it ≤ 45 ∧ 21 ≤ need it := by
  have := ((wf_iff it).1 h).1
  unfold need
  cases hv : it.v4 <;> simp [hv] at this <;> omega

theorem pending_push (a : Abs) (it : Item) (h : a.taken ≤ a.acc.size) :
    ({ a with acc := a.acc.push it } : Abs).pending = a.pending ++ [it] := by
  simp only [Abs.pending, Array.toList_push]
  rw [List.drop_append_of_le_length (by simpa using h)]

/-- a write of an encoded item at the write position keeps the invariant for the pushed queue -/
theorem inv_store {limit : Nat} {b : Buf} {a : Abs} (it : Item) (h : Inv limit b a) (hwf : it.wf = true)
    (hroom : b.w + need it ≤ b.len) :
    Inv limit { b with mem := storeList b.mem b.w (enc it), w := b.w + need it }
      { a with acc := a.acc.push it, used := a.used + need it, lastW := b.w + need it } := by
  have hr := Enc_le h.enc
  refine ⟨h.lim, h.pg, by simpa using h.cap, h.big, hroom, ?_, ?_, ?_, ?_, rfl⟩
  · show Enc _ _ (Abs.pending _) _
    rw [show ({ a with acc := a.acc.push it, used := a.used + need it, lastW := b.w + need it } : Abs).pending
        = a.pending ++ [it] from pending_push a it h.tk]
    apply Enc_snoc
    · exact Enc_frame (fun j h1 h2 => rd_storeList_out _ _ _ _ (Or.inl h2)) h.enc
    · rw [← enc_length]
      exact readList_storeList _ _ _ (by rw [enc_length]; have := h.cap; omega)
  · intro x hx
    rw [show ({ a with acc := a.acc.push it, used := a.used + need it, lastW := b.w + need it } : Abs).pending
        = a.pending ++ [it] from pending_push a it h.tk] at hx
    rcases List.mem_append.1 hx with hx | hx
    · exact h.wf x hx
    · simp at hx; subst hx; exact hwf
  · simp; have := h.tk; omega
  · show a.used + need it = b.w + need it
    rw [h.used]

theorem inv_grow {limit : Nat} {b b1 : Buf} {a : Abs} (h : Inv limit b a)
    (hlen : b.len ≤ b1.len) (hcap : b1.len ≤ b1.mem.size)
    (hrd : ∀ j, j < b.len → rd b1.mem j = rd b.mem j)
    (hw : b1.w = b.w) (hr : b1.r = b.r) (hl : b1.limit = b.limit) (hp : b1.page = b.page) : Inv limit b1 a := by
  have := h.wl
  refine ⟨by rw [hl, h.lim], by rw [hp]; exact h.pg, hcap, by have := h.big; omega, by omega, ?_, h.wf, h.tk,
    by rw [hw]; exact h.used, by rw [hw]; exact h.lastW⟩
  rw [hw, hr]
  exact Enc_frame (fun j _ h2 => hrd j (by omega)) h.enc

theorem wf_key (it : Item) (h : it.wf = true) : it.key.length = if it.v4 then 13 else 37 := ((wf_iff it).1 h).1

/-- `Add` on a represented state: never panics; accepted → the queue gets the item at its end;
    refused → nothing changes and the item does not fit under the limit -/
theorem add_step {limit : Nat} {b : Buf} {a : Abs} (it : Item) (h : Inv limit b a) (hwf : it.wf = true) :
    ∃ b' ok a', add b it = .ok (b', ok) ∧ judgeStep limit a (.add it) (.added ok b'.w) = .ok a' ∧
      Inv limit b' a' ∧ (ok = false → b' = b ∧ limit < a.used + need it) := by
  have hn := need_le it hwf
  have hreq : b.w + it.key.length + bufElementAddSize = b.w + need it := by simp [need, bufElementAddSize]; omega
  unfold add
  simp only [hreq]
  by_cases h1 : b.w + need it > b.len
  · rw [if_pos h1]
    by_cases h2 : b.w + need it > min b.limit (2 * b.len)
    · -- refused
      rw [if_pos h2]
      have hlim : limit < a.used + need it := by
        rw [h.used, ← h.lim]
        have := h.wl; have := h.big
        omega
      refine ⟨b, false, a, rfl, ?_, h, fun _ => ⟨rfl, hlim⟩⟩
      simp only [judgeStep]
      rw [if_neg (by omega), if_neg (by simp [h.lastW])]
    · -- grown, then stored
      rw [if_neg h2]
      obtain ⟨b1, hres, hl1, hc1, hrd, hw, hr, hl, hp⟩ :=
        resize_ok b (min b.limit (2 * b.len)) (by have := h.big; omega) h.cap (by omega)
      have h' : Inv limit b1 a := inv_grow h (by omega) (by omega) hrd hw hr hl hp
      have hroom : b1.w + need it ≤ b1.len := by rw [hw, hl1]; omega
      rw [hres]; simp only [Outcome.bind_ok]
      rw [writeRec_eq b1 it (wf_key it hwf) hroom h'.cap]; simp only [Outcome.bind_ok]
      exact ⟨_, true, _, rfl, rfl, inv_store it h' hwf hroom, by simp⟩
  · rw [if_neg h1]
    have hroom : b.w + need it ≤ b.len := by omega
    rw [writeRec_eq b it (wf_key it hwf) hroom h.cap]; simp only [Outcome.bind_ok]
    exact ⟨_, true, _, rfl, rfl, inv_store it h hwf hroom, by simp⟩

theorem pending_nil_iff (a : Abs) : a.pending = [] ↔ a.acc[a.taken]? = none := by
  simp [Abs.pending]

theorem pending_cons (a : Abs) (x : Item) (rest : List Item) (h : a.pending = x :: rest) :
    a.acc[a.taken]? = some x ∧ ({ a with taken := a.taken + 1 } : Abs).pending = rest := by
  simp only [Abs.pending] at *
  have hlt : a.taken < a.acc.toList.length := by
    rcases Nat.lt_or_ge a.taken a.acc.toList.length with hc | hc
    · exact hc
    · rw [List.drop_of_length_le hc] at h
      cases h
  rw [List.drop_eq_getElem_cons hlt] at h
  injection h with h1 h2
  refine ⟨?_, h2⟩
  rw [← h1]
  simp at hlt
  simp [hlt]

/-- `Next` on a represented state: never panics and returns exactly the head of the queue
    (every field), or nothing iff the queue is empty -/
theorem next_step {limit : Nat} {b : Buf} {a : Abs} (h : Inv limit b a) :
    ∃ b' a', next b = .ok (b', a.pending.head?) ∧ judgeStep limit a .next (.got a.pending.head?) = .ok a' ∧
      Inv limit b' a' ∧ a'.pending = a.pending.tail := by
  cases hp : a.pending with
  | nil =>
    have henc := h.enc; rw [hp] at henc
    simp only [Enc] at henc
    refine ⟨b, a, ?_, ?_, h, by simp [hp]⟩
    · unfold next; rw [if_pos (by omega)]; rfl
    · have := (pending_nil_iff a).1 hp
      simp only [judgeStep, List.head?_nil, this]
  | cons x rest =>
    have henc := h.enc; rw [hp] at henc
    obtain ⟨hx, hrest⟩ := henc
    have hle := Enc_le hrest
    have hwf : x.wf = true := h.wf x (by rw [hp]; simp)
    have hn := need_le x hwf
    obtain ⟨hget, hpend⟩ := pending_cons a x rest hp
    refine ⟨{ b with r := b.r + need x }, { a with taken := a.taken + 1 }, ?_, ?_, ?_, by simp [hpend]⟩
    · exact next_decode b x hwf (by omega) hx (by have := h.wl; omega) h.cap
    · simp only [judgeStep, List.head?_cons, hget, if_true]
    · refine ⟨h.lim, h.pg, h.cap, h.big, h.wl, ?_, ?_, ?_, h.used, h.lastW⟩
      · show Enc _ _ (Abs.pending _) _
        rw [hpend]; exact hrest
      · intro y hy
        rw [hpend] at hy
        exact h.wf y (by rw [hp]; simp [hy])
      · show a.taken + 1 ≤ a.acc.size
        have : a.taken < a.acc.size := by
          rcases Nat.lt_or_ge a.taken a.acc.size with hc | hc
          · exact hc
          · rw [Array.getElem?_eq_none hc] at hget
            cases hget
        omega

theorem reset_step {limit : Nat} {b : Buf} {a : Abs} (h : Inv limit b a) :
    Inv limit (reset b) { acc := #[], taken := 0, used := 0, lastW := (reset b).w } := by
  refine ⟨h.lim, h.pg, h.cap, h.big, Nat.zero_le _, ?_, ?_, Nat.le_refl _, rfl, rfl⟩
  · show Enc _ 0 [] 0; rfl
  · intro x hx; simp [Abs.pending] at hx

/-- `Assign` of a non-empty slice of a backing array establishes the invariant for the empty queue
    whenever the positions are zero -/
theorem assign_inv {limit : Nat} (b : Buf) (mem : Array Nat) (len : Nat)
    (hl : b.limit = limit) (hpg : 45 ≤ b.page) (hw : b.w = 0) (hr : b.r = 0)
    (h0 : 0 < len) (hcap : len ≤ mem.size) :
    ∃ b', assign b mem len = .ok b' ∧ Inv limit b' { acc := #[], taken := 0, used := 0, lastW := b'.w } := by
  unfold assign
  dsimp only
  split
  · rename_i hlt
    obtain ⟨b1, hres, hl1, hc1, _, hw1, hr1, hlim1, hp1⟩ :=
      resize_ok { b with mem := mem, len := len } b.page h0 hcap (by simp; omega)
    refine ⟨b1, hres, ?_⟩
    simp only at hw1 hr1 hlim1 hp1
    refine ⟨by rw [hlim1, hl], by rw [hp1]; exact hpg, by omega, by omega, by omega, ?_, ?_, Nat.le_refl _, by show 0 = b1.w; omega, rfl⟩
    · show Enc _ _ [] _; simp only [Enc]; omega
    · intro x hx; simp [Abs.pending] at hx
  · rename_i hge
    refine ⟨_, rfl, ?_⟩
    refine ⟨hl, hpg, hcap, by simp; omega, by simp; omega, ?_, ?_, Nat.le_refl _, by show 0 = b.w; omega, rfl⟩
    · show Enc _ _ [] _; simp only [Enc]; omega
    · intro x hx; simp [Abs.pending] at hx

theorem poolGet_spec (mem : Array Nat) (size : Nat) : size ≤ (poolGet mem size).1.size ∧ (poolGet mem size).2 = size := by
  unfold poolGet
  split <;> simp <;> omega

theorem cycle_step {limit : Nat} {b : Buf} {a : Abs} (n : Nat) (h : Inv limit b a) (hn : 1 ≤ n) :
    ∃ b', cycle b n = .ok b' ∧ Inv limit b' { acc := #[], taken := 0, used := 0, lastW := b'.w } := by
  unfold cycle
  have hs := poolGet_spec (reset b).mem n
  exact assign_inv (reset b) _ _ h.lim h.pg rfl rfl (by omega) (by omega)

theorem mkBuf_inv (page limit get : Nat) (hp : 45 ≤ page) (hg : 1 ≤ get) :
    ∃ b, mkBuf page limit get = .ok b ∧ Inv limit b {} := by
  unfold mkBuf
  have hs := poolGet_spec (Array.replicate page 0) get
  obtain ⟨b', h1, h2⟩ := assign_inv (limit := limit) { mem := #[], len := 0, w := 0, r := 0, limit := limit, page := page }
    (poolGet (Array.replicate page 0) get).1 (poolGet (Array.replicate page 0) get).2 rfl hp rfl rfl (by omega) (by omega)
  refine ⟨b', h1, ?_⟩
  have : b'.w = 0 := by have := h2.used; simpa using this.symm
  rw [this] at h2
  exact h2

/-! ## runs -/

/-- one op on a represented state: no panic, the token is accepted by the spec, the successor
    states are again related -/
theorem step_ok {limit : Nat} {b : Buf} {a : Abs} (op : Op) (h : Inv limit b a) (hwf : op.wf = true) :
    ∃ b' t a', step b op = .ok (b', t) ∧ t ≠ .panic ∧ judgeStep limit a op t = .ok a' ∧ Inv limit b' a' := by
  cases op with
  | add it =>
    obtain ⟨b', ok, a', hadd, hj, hinv, _⟩ := add_step it h hwf
    refine ⟨b', .added ok b'.w, a', ?_, by simp, hj, hinv⟩
    simp only [step, hadd, Outcome.bind_ok]; rfl
  | next =>
    obtain ⟨b', a', hn, hj, hinv, _⟩ := next_step h
    refine ⟨b', .got a.pending.head?, a', ?_, by simp, hj, hinv⟩
    simp only [step, hn, Outcome.bind_ok]; rfl
  | reset =>
    exact ⟨reset b, .rst (reset b).w, _, rfl, by simp, rfl, reset_step h⟩
  | cycle n =>
    obtain ⟨b', hc, hinv⟩ := cycle_step n h (by simpa [Op.wf] using hwf)
    refine ⟨b', .cyc b'.w b'.len b'.mem.size, _, ?_, by simp, rfl, hinv⟩
    simp only [step, hc, Outcome.bind_ok]; rfl

theorem judgeAll_cons (limit : Nat) (a : Abs) (op : Op) (ops : List Op) (t : Tok) (ts : List Tok)
    (ht : t ≠ .panic) :
    judgeAll limit a (op :: ops) (t :: ts) =
      match judgeStep limit a op t with
      | .ok a' => judgeAll limit a' ops ts
      | .error e => "violates:" ++ e := by
  cases t <;> (try cases ts) <;> first | rfl | exact absurd rfl ht

theorem run_holds (limit : Nat) (ops : List Op) : ∀ (b : Buf) (a : Abs), Inv limit b a →
    (∀ op ∈ ops, op.wf = true) → judgeAll limit a ops (run b ops) = "holds" := by
  induction ops with
  | nil => intro b a _ _; rfl
  | cons op ops ih =>
    intro b a h hwf
    obtain ⟨b', t, a', hs, ht, hj, hinv⟩ := step_ok op h (hwf op (by simp))
    simp only [run, hs]
    rw [judgeAll_cons _ _ _ _ _ _ ht, hj]
    exact ih b' a' hinv (fun o ho => hwf o (by simp [ho]))

theorem run_no_panic (limit : Nat) (ops : List Op) : ∀ (b : Buf) (a : Abs), Inv limit b a →
    (∀ op ∈ ops, op.wf = true) → Tok.panic ∉ run b ops := by
  induction ops with
  | nil => intro b a _ _; simp [run, finTok]
  | cons op ops ih =>
    intro b a h hwf
    obtain ⟨b', t, a', hs, ht, _, hinv⟩ := step_ok op h (hwf op (by simp))
    simp only [run, hs, List.mem_cons, not_or]
    exact ⟨fun e => ht e.symm, ih b' a' hinv (fun o ho => hwf o (by simp [ho]))⟩

theorem runTR_eq (ops : List Op) : ∀ (b : Buf) (acc : List Tok), runTR b ops acc = acc.reverse ++ run b ops := by
  induction ops with
  | nil => intro b acc; simp [runTR, run]
  | cons op ops ih =>
    intro b acc
    simp only [runTR, run]
    cases step b op with
    | ok p => obtain ⟨b', t⟩ := p; simp [ih]
    | err e => simp
    | panic e => simp

theorem inDomain_iff (page get : Nat) (ops : List Op) :
    inDomain page get ops = true ↔ 45 ≤ page ∧ 1 ≤ get ∧ ∀ op ∈ ops, op.wf = true := by
  simp [inDomain, and_assoc]

/-- the whole observable trace of the model, on every in-domain case and for every size limit,
    is accepted by the executable spec (the same judge that is run on the implementation's output) -/
theorem case_holds (page limit get : Nat) (ops : List Op) (hd : inDomain page get ops = true) :
    judgeAll limit {} ops (runCase page limit get ops) = "holds" := by
  obtain ⟨hp, hg, hwf⟩ := (inDomain_iff page get ops).1 hd
  obtain ⟨b, hb, hinv⟩ := mkBuf_inv page limit get hp hg
  simp only [runCase, hb, runTR_eq, List.reverse_nil, List.nil_append]
  exact run_holds limit ops b {} hinv hwf

/-! ## reachable states and the four clauses -/

/-- `Reach page limit b a`: `b` is reached from a freshly assigned buffer by some sequence of
    well-formed ops, and `a` is what the spec has recorded from the tokens observed on the way -/
inductive Reach (page limit : Nat) : Buf → Abs → Prop
  | init (get : Nat) (b : Buf) : 1 ≤ get → mkBuf page limit get = .ok b → Reach page limit b {}
  | step (b b' : Buf) (a a' : Abs) (op : Op) (t : Tok) : Reach page limit b a → op.wf = true →
      step b op = .ok (b', t) → judgeStep limit a op t = .ok a' → Reach page limit b' a'

theorem reach_inv {page limit : Nat} {b : Buf} {a : Abs} (hp : 45 ≤ page) (h : Reach page limit b a) :
    Inv limit b a := by
  induction h with
  | init get b hg hb =>
    obtain ⟨b0, hb0, hinv⟩ := mkBuf_inv page limit get hp hg
    rw [hb0] at hb; cases hb; exact hinv
  | step b b' a a' op t _ hwf hs hj ih =>
    obtain ⟨b1, t1, a1, hs1, _, hj1, hinv⟩ := step_ok op ih hwf
    rw [hs1] at hs; cases hs
    rw [hj1] at hj; cases hj
    exact hinv

/-- **fifo_fields** — in every reachable state `Next` returns the oldest item that was accepted
    and not yet taken, with the same key bytes, IP version, packet type, auxiliary byte, errno and
    size (equality of the whole `Item`), and nothing iff there is none; the rest stays queued. -/
theorem fifo_fields {page limit : Nat} {b : Buf} {a : Abs} (hp : 45 ≤ page) (h : Reach page limit b a) :
    ∃ b' a', next b = .ok (b', a.pending.head?) ∧ Reach page limit b' a' ∧ a'.pending = a.pending.tail := by
  obtain ⟨b', a', hn, hj, _, hpend⟩ := next_step (reach_inv hp h)
  refine ⟨b', a', hn, Reach.step b b' a a' .next (.got a.pending.head?) h rfl ?_ hj, hpend⟩
  simp only [step, hn, Outcome.bind_ok]; rfl

/-- an accepted insert puts the item at the end of the queue (what "insertion order" refers to) -/
theorem accepted_enqueues {page limit : Nat} {b b' : Buf} {a : Abs} (it : Item) (hp : 45 ≤ page)
    (h : Reach page limit b a) (hwf : it.wf = true) (hadd : add b it = .ok (b', true)) :
    ∃ a', Reach page limit b' a' ∧ a'.pending = a.pending ++ [it] := by
  have hinv := reach_inv hp h
  refine ⟨{ a with acc := a.acc.push it, used := a.used + need it, lastW := b'.w }, ?_, pending_push a it hinv.tk⟩
  refine Reach.step b b' a _ (.add it) (.added true b'.w) h hwf ?_ rfl
  simp only [step, hadd, Outcome.bind_ok]; rfl

/-- **refuse_only_at_limit** — in every reachable state, `Add` of a well-formed item returns false
    only if the bytes needed by the items accepted since the last reset (`a.used`, which is the
    write position) plus the bytes of this item exceed the size limit. -/
theorem refuse_only_at_limit {page limit : Nat} {b b' : Buf} {a : Abs} (it : Item) (hp : 45 ≤ page)
    (h : Reach page limit b a) (hwf : it.wf = true) (hadd : add b it = .ok (b', false)) :
    limit < a.used + need it ∧ a.used = b.w := by
  have hinv := reach_inv hp h
  obtain ⟨b1, ok, a1, hadd1, _, _, hno⟩ := add_step it hinv hwf
  rw [hadd1] at hadd; cases hadd
  exact ⟨(hno rfl).2, hinv.used⟩

/-- `a.used` is the sum of the bytes needed by the accepted items -/
theorem used_is_sum {page limit : Nat} {b : Buf} {a : Abs} (h : Reach page limit b a) :
    a.used = (a.acc.toList.map need).sum := by
  induction h with
  | init => rfl
  | step b b' a a' op t _ _ _ hj ih =>
    cases op with
    | add it =>
      cases t with
      | added ok w =>
        cases ok with
        | true => simp only [judgeStep] at hj; cases hj; simp [ih]
        | false =>
          simp only [judgeStep] at hj
          split at hj
          · cases hj
          · split at hj
            · cases hj
            · cases hj; exact ih
      | _ => simp [judgeStep] at hj
    | next =>
      cases t with
      | got o =>
        simp only [judgeStep] at hj
        split at hj
        · cases hj; exact ih
        · cases hj
        · cases hj
        · split at hj
          · cases hj; exact ih
          · cases hj
      | _ => simp [judgeStep] at hj
    | reset =>
      cases t with
      | rst w => simp only [judgeStep] at hj; cases hj; rfl
      | _ => simp [judgeStep] at hj
    | cycle n =>
      cases t with
      | cyc w l c => simp only [judgeStep] at hj; cases hj; rfl
      | _ => simp [judgeStep] at hj

/-- **refuse_no_change** — a refused insert returns the buffer it was given: same bytes, same
    length and capacity, same positions (for every state and every item, well-formed or not). -/
theorem refuse_no_change (b b' : Buf) (it : Item) (hadd : add b it = .ok (b', false)) : b' = b := by
  unfold add at hadd
  dsimp only at hadd
  split at hadd
  · split at hadd
    · cases hadd; rfl
    · cases hr : resize b (min b.limit (2 * b.len)) with
      | ok b1 =>
        rw [hr] at hadd; simp only [Outcome.bind_ok] at hadd
        cases hw : writeRec b1 it with
        | ok b2 => rw [hw] at hadd; cases hadd
        | err e => rw [hw] at hadd; cases hadd
        | panic e => rw [hw] at hadd; cases hadd
      | err e => rw [hr] at hadd; cases hadd
      | panic e => rw [hr] at hadd; cases hadd
  · cases hw : writeRec b it with
    | ok b2 => rw [hw] at hadd; cases hadd
    | err e => rw [hw] at hadd; cases hadd
    | panic e => rw [hw] at hadd; cases hadd

/-- **add_total** — in every reachable state every well-formed op (in particular `Add`, for
    every size limit) returns normally: no index or slice-bounds panic and no 4-byte store past
    the backing array (both are `Outcome.panic` in the model). -/
theorem add_total {page limit : Nat} {b : Buf} {a : Abs} (op : Op) (hp : 45 ≤ page)
    (h : Reach page limit b a) (hwf : op.wf = true) :
    ∃ b' t, step b op = .ok (b', t) ∧ t ≠ .panic := by
  obtain ⟨b', t, _, hs, ht, _, _⟩ := step_ok op (reach_inv hp h) hwf
  exact ⟨b', t, hs, ht⟩

/-- `add_total` for whole runs: no in-domain case, whatever the limit, produces a panic token -/
theorem case_no_panic (page limit get : Nat) (ops : List Op) (hd : inDomain page get ops = true) :
    Tok.panic ∉ runCase page limit get ops := by
  obtain ⟨hp, hg, hwf⟩ := (inDomain_iff page get ops).1 hd
  obtain ⟨b, hb, hinv⟩ := mkBuf_inv page limit get hp hg
  simp only [runCase, hb, runTR_eq, List.reverse_nil, List.nil_append]
  exact run_no_panic limit ops b {} hinv hwf

/-! ## the spec judge enforces the clauses (soundness of the judge's step) -/
theorem pending_head (a : Abs) : a.pending.head? = a.acc[a.taken]? := by
  simp [Abs.pending, List.head?_drop]

/-- the judge accepts a `Next` observation only if it is the head of the queue (all fields) -/
theorem judge_next_sound (limit : Nat) (a a' : Abs) (o : Option Item)
    (h : judgeStep limit a .next (.got o) = .ok a') : o = a.pending.head? ∧ a'.pending = a.pending.tail := by
  rw [pending_head]
  simp only [judgeStep] at h
  split at h
  · rename_i h2; cases h
    have : a.pending = [] := by simpa [Abs.pending] using h2
    exact ⟨h2.symm, by rw [this]; rfl⟩
  · cases h
  · cases h
  · rename_i x y h1 h2
    split at h
    · rename_i hxy; cases h; subst hxy
      refine ⟨h2.symm, ?_⟩
      simp [Abs.pending]
    · cases h

theorem judge_refuse_sound (limit : Nat) (a a' : Abs) (it : Item) (w : Nat)
    (h : judgeStep limit a (.add it) (.added false w) = .ok a') :
    limit < a.used + need it ∧ w = a.lastW ∧ a' = a := by
  simp only [judgeStep] at h
  split at h
  · cases h
  · split at h
    · cases h
    · rename_i h1 h2; cases h; exact ⟨by omega, by simpa using h2, rfl⟩

/-! ## non-vacuity and necessity of the hypotheses -/

def k4 : List Nat := [1,2,3,4,5,6,7,8,9,10,11,12,13]
def k6 : List Nat := (List.range 37).map (· + 100)
def i4 (sz : Nat) : Item := { v4 := true, key := k4, ptype := 3, size := sz, aux := 9, errno := -1 }
def i6 (sz : Nat) : Item := { v4 := false, key := k6, ptype := 4, size := sz, aux := 255, errno := 127 }
def exOps : List Op := [.add (i4 100), .add (i6 4294967295), .add (i4 16777216), .add (i6 0), .next, .next, .next]

/-- the hypotheses of `case_holds` / `case_no_panic` are satisfiable (mixed IPv4/IPv6 items) -/
example : inDomain 64 64 exOps = true := by decide

/-- a concrete non-trivial run (initial size 64, limit 100): the second insert grows the buffer to
    the limit, the fourth is refused and changes nothing, the items come out in order, all fields -/
example : runCase 64 100 64 exOps =
    [.added true 21, .added true 66, .added true 87, .added false 87, .got (some (i4 100)), .got (some (i6 4294967295)),
     .got (some (i4 16777216)), .fin 87 87 100 100] := by decide +kernel

/-- `Reach` is inhabited -/
example : ∃ b, Reach 64 100 b {} :=
  (mkBuf_inv 64 100 64 (by decide) (by decide)).elim fun b h => ⟨b, Reach.init 64 b (by decide) h.1⟩

def bad : Item := { v4 := false, key := k4, ptype := 3, size := 5, aux := 9, errno := -1 }

/-- outside the well-formedness hypothesis (IPv6 flag with a 13-byte key) the key is not preserved:
    the item comes back with 24 bytes that were never put in -/
example : runCase 64 150 64 [.add bad, .next] =
    [.added true 45, .got (some { bad with key := k4 ++ List.replicate 24 0 }), .fin 45 45 64 64] := by decide +kernel

/-- outside the hypothesis `45 ≤ page` (initial size 20): an IPv6 item is refused although the
    limit is 1000, because one doubling does not make room — the judge reports it -/
example : runCase 20 1000 20 [.add (i6 1)] = [.added false 0, .fin 0 0 20 20] ∧
    judgeAll 1000 {} [.add (i6 1)] (runCase 20 1000 20 [.add (i6 1)]) = "violates:refused-below-limit" := by decide +kernel

end C23
