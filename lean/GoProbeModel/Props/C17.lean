import GoProbeModel.Model.C17

/-!
C17 — property theorems (JSON round trips). Statements are about

* `Gen.EnumJSON.*` — `Direction.String`, `DirectionFromString`, `SortOrder.String`,
  `SortOrderFromString` and the member constants, regenerated from /repo on every run;
* `Gen.Facts.c17_*` — the JSON field tables of every struct reachable from `Args`, `Statement`,
  `Result` and of the aux structs inside `Labels.MarshalJSON` / `Attributes.MarshalJSON`, and the
  member lists of the enumerations, regenerated on every run;
* `C17.enc` / `C17.dec` — the field-table codec of `Model/C17.lean` (tied to the real
  `Marshal -> Unmarshal` by the correspondence harness), instantiated with the regenerated tables.

The judge's equivalence `C17.diff` (Spec) is the notion of "equivalent value".
-/
namespace C17
open Gen.EnumJSON

/-! ## 1. enumerations: every member maps to its name and back to itself -/

/-- the member list extracted from the source consists of exactly the regenerated constants
    (so the ranges below cover every member; a new member changes the extracted list) -/
theorem direction_members_complete :
    Gen.Facts.c17_members_Direction =
      ["DirectionUnknown=" ++ toString DirectionUnknown, "DirectionSum=" ++ toString DirectionSum,
       "DirectionIn=" ++ toString DirectionIn, "DirectionOut=" ++ toString DirectionOut,
       "DirectionBoth=" ++ toString DirectionBoth]
    ∧ [DirectionUnknown, DirectionSum, DirectionIn, DirectionOut, DirectionBoth] = members .dir := by decide

theorem sortorder_members_complete :
    Gen.Facts.c17_members_SortOrder =
      ["SortUnknown=" ++ toString SortUnknown, "SortPackets=" ++ toString SortPackets,
       "SortTraffic=" ++ toString SortTraffic, "SortTime=" ++ toString SortTime]
    ∧ [SortUnknown, SortPackets, SortTraffic, SortTime] = members .sort := by decide

/-- **enum_roundtrip** (Direction): for EVERY member `DirectionUnknown ≤ d ≤ DirectionBoth`,
    `DirectionFromString (d.String()) = d` -/
theorem direction_roundtrip (d : Int) (h0 : DirectionUnknown ≤ d) (h1 : d ≤ DirectionBoth) :
    DirectionFromString (Direction_String d) = d := by
  have : d = 0 ∨ d = 1 ∨ d = 2 ∨ d = 3 ∨ d = 4 := by
    simp only [DirectionUnknown, DirectionBoth] at h0 h1; omega
  rcases this with rfl | rfl | rfl | rfl | rfl <;> decide

/-- **enum_roundtrip** (SortOrder): for EVERY member `SortUnknown ≤ s ≤ SortTime`,
    `SortOrderFromString (s.String()) = s` -/
theorem sortorder_roundtrip (s : Int) (h0 : SortUnknown ≤ s) (h1 : s ≤ SortTime) :
    SortOrderFromString (SortOrder_String s) = s := by
  have : s = 0 ∨ s = 1 ∨ s = 2 ∨ s = 3 := by
    simp only [SortUnknown, SortTime] at h0 h1; omega
  rcases this with rfl | rfl | rfl | rfl <;> decide

theorem isMember_iff (k : Kind) (n : Int) :
    isMember k n = true ↔
      match k with
      | .dir => DirectionUnknown ≤ n ∧ n ≤ DirectionBoth
      | .sort => SortUnknown ≤ n ∧ n ≤ SortTime := by
  cases k <;> simp [isMember, DirectionUnknown, DirectionBoth, SortUnknown, SortTime]

/-- **enum_roundtrip**, both enumerations, in the terms of the spec (`isMember`) -/
theorem enum_roundtrip (k : Kind) (n : Int) (h : isMember k n = true) :
    enumFromString k (enumToString k n) = n := by
  rw [isMember_iff] at h
  cases k
  · exact direction_roundtrip n h.1 h.2
  · exact sortorder_roundtrip n h.1 h.2

/-- the code's names are the documented ones (model = spec on the members) -/
theorem enum_name_spec (k : Kind) (n : Int) (h : isMember k n = true) : enumToString k n = specName k n := by
  cases k
  · have : n = 0 ∨ n = 1 ∨ n = 2 ∨ n = 3 ∨ n = 4 := by simp [isMember] at h; omega
    rcases this with rfl | rfl | rfl | rfl | rfl <;> decide
  · have : n = 0 ∨ n = 1 ∨ n = 2 ∨ n = 3 := by simp [isMember] at h; omega
    rcases this with rfl | rfl | rfl | rfl <;> decide

/-- non-members all print as "unknown", which reads back as the Unknown member: the hypothesis
    `isMember` of `enum_roundtrip` is necessary -/
theorem enum_nonmember_collapses (k : Kind) (n : Int) (h : isMember k n = false) :
    enumToString k n = "unknown" ∧ enumFromString k (enumToString k n) = 0 := by
  cases k
  · have hn : n ≠ 1 ∧ n ≠ 2 ∧ n ≠ 3 ∧ n ≠ 4 := by simp [isMember] at h; omega
    have : Direction_String n = "unknown" := by simp [Direction_String, hn]
    simp only [enumToString, enumFromString, this]; decide
  · have hn : n ≠ 1 ∧ n ≠ 2 ∧ n ≠ 3 := by simp [isMember] at h; omega
    have : SortOrder_String n = "unknown" := by simp [SortOrder_String, hn]
    simp only [enumToString, enumFromString, this]; decide

/-- only the names are recognised: whatever string reads as a non-Unknown member is that member's name -/
theorem enum_fromString_sound (k : Kind) (s : String) (h : enumFromString k s ≠ 0) :
    enumToString k (enumFromString k s) = s := by
  cases k
  · simp only [enumFromString, enumToString, DirectionFromString] at h ⊢
    split <;> rename_i h1
    · subst h1; decide
    · split <;> rename_i h2
      · subst h2; decide
      · split <;> rename_i h3
        · subst h3; decide
        · split <;> rename_i h4
          · subst h4; decide
          · simp [h1, h2, h3, h4] at h
  · simp only [enumFromString, enumToString, SortOrderFromString] at h ⊢
    split <;> rename_i h1
    · subst h1; decide
    · split <;> rename_i h2
      · subst h2; decide
      · split <;> rename_i h3
        · subst h3; decide
        · simp [h1, h2, h3] at h

/-- `types.Status` is a string type (its JSON form is the value itself): the codes are pairwise
    distinct and are exactly the extracted member list -/
theorem status_codes_distinct :
    [StatusOK, StatusEmpty, StatusError, StatusMissingData, StatusTooManyRequests].Nodup ∧
    Gen.Facts.c17_members_Status =
      ["StatusOK=" ++ StatusOK, "StatusEmpty=" ++ StatusEmpty, "StatusError=" ++ StatusError,
       "StatusMissingData=" ++ StatusMissingData, "StatusTooManyRequests=" ++ StatusTooManyRequests] := by decide

example : isMember .dir DirectionBoth = true ∧ enumToString .dir DirectionBoth = "bi-directional" := by decide
example : isMember .dir 5 = false ∧ enumFromString .dir (enumToString .dir 5) = 0 := by decide

/-! ## 2. the regenerated key tables -/

def tyCompat (e d : Ty) : Bool := e == d || (e == .ptr d && (d == .time || d == .addr))

def agree : List Field → List Field → Bool
  | [], [] => true
  | e :: E, d :: D => e.name == d.name && e.key == d.key && tyCompat e.ty d.ty && agree E D
  | _, _ => false

def tableOK (E D : List Field) : Bool := decide ((D.map (·.key)).Nodup) && agree E D

def SchemaOK (S : Schema) : Bool :=
  S.structs.all fun e => tableOK (match e.2.aux with | some t => t | none => e.2.tags) e.2.tags


/-- every field type of every regenerated table is known to the hand-written type map, and every
    struct it mentions has a table (otherwise `wt` below would be unsatisfiable) -/
def tyRefs : Ty → List String
  | .struct n => [n]
  | .slice t => tyRefs t
  | .map t => tyRefs t
  | .ptr t => tyRefs t
  | _ => []

def tyKnown : Ty → Bool
  | .unknown _ => false
  | .slice t => tyKnown t
  | .map t => tyKnown t
  | .ptr t => tyKnown t
  | _ => true

theorem tables_closed :
    ∀ n ∈ structNames, ∀ f ∈ genSchema.tags n ++ genSchema.encTable n,
      tyKnown f.ty = true ∧ ∀ m ∈ tyRefs f.ty, m ∈ structNames := by decide

/-- **keys_agree** (Labels): field by field, the aux struct of `Labels.MarshalJSON` carries the Go
    names, JSON keys and omitempty flags of the struct tags of `Labels` the decoder goes by -/
theorem keys_agree_labels :
    (genSchema.encTable "Labels").map (fun f => (f.name, f.key, f.omitEmpty)) =
      (genSchema.tags "Labels").map (fun f => (f.name, f.key, f.omitEmpty))
    ∧ (genSchema.encTable "Labels").map (·.ty) = [.ptr .time, .str, .str, .str]
    ∧ (genSchema.tags "Labels").map (·.ty) = [.time, .str, .str, .str] := by decide

/-- **keys_agree** (Attributes) -/
theorem keys_agree_attributes :
    (genSchema.encTable "Attributes").map (fun f => (f.name, f.key, f.omitEmpty)) =
      (genSchema.tags "Attributes").map (fun f => (f.name, f.key, f.omitEmpty))
    ∧ (genSchema.encTable "Attributes").map (·.ty) = [.ptr .addr, .ptr .addr, .int, .int]
    ∧ (genSchema.tags "Attributes").map (·.ty) = [.addr, .addr, .int, .int] := by decide

/-- **keys_agree** (all tables): no struct reachable from Args / Statement / Result has two fields
    with the same JSON key (embedded structs spliced in), on the encoder's and the decoder's side -/
theorem keys_nodup :
    ∀ n ∈ structNames, ((genSchema.tags n).map (·.key)).Nodup ∧ ((genSchema.encTable n).map (·.key)).Nodup := by
  decide

/-- the regenerated schema satisfies the hypothesis of `roundtrip_equiv` -/
theorem genSchema_ok : SchemaOK genSchema = true := by decide

/-! ## 3. object round trip -/

def notNullable : Ty → Bool
  | .ptr _ => false | .slice _ => false | .map _ => false | .unknown _ => false
  | _ => true

def wtFields (w : Ty → Val → Bool) : List Field → List (String × Val) → Bool
  | [], [] => true
  | f :: tbl, (k, v) :: fs => k == f.name && w f.ty v && wtFields w tbl fs
  | _, _ => false

def wt (S : Schema) : Nat → Ty → Val → Bool
  | 0, _, _ => false
  | fuel + 1, ty, v =>
    match ty, v with
    | .str, .str _ => true
    | .int, .int _ => true
    | .bool, .bool _ => true
    | .time, .time s _ o => fuel != 0 && timeInDomain s o
    | .addr, .addr _ => fuel != 0
    | .dir, .int i => isMember .dir i
    | .sort, .int i => isMember .sort i
    | .ptr _, .nil => true
    | .ptr t, .ptr v => notNullable t && wt S fuel t v
    | .slice _, .nil => true
    | .slice t, .list xs => xs.all (wt S fuel t)
    | .map _, .nil => true
    | .map t, .map kvs => kvs.all fun kv => wt S fuel t kv.2
    | .struct n, .obj n' fs => n == n' && wtFields (wt S fuel) (S.tags n) fs
    | _, _ => false

def RT (S : Schema) (fuel : Nat) (ty : Ty) (v : Val) : Prop :=
  ∃ j d, enc S fuel ty v = .ok j ∧ dec S fuel ty j = .ok d ∧ ∀ p, diff p v d = none

theorem list_rt (e : Val → Except String J) (d : J → Except String Val) (xs : List Val)
    (h : ∀ x ∈ xs, ∃ j dv, e x = .ok j ∧ d j = .ok dv ∧ ∀ p, diff p x dv = none) :
    ∃ js ds, encList e xs = .ok js ∧ decList d js = .ok ds ∧ ∀ p, diffList p xs ds = none := by
  induction xs with
  | nil => exact ⟨[], [], rfl, rfl, fun _ => by simp [diffList]⟩
  | cons x xs ih =>
    obtain ⟨j, dv, h1, h2, h3⟩ := h x (by simp)
    obtain ⟨js, ds, i1, i2, i3⟩ := ih (fun y hy => h y (by simp [hy]))
    refine ⟨j :: js, dv :: ds, ?_, ?_, ?_⟩
    · simp [encList, h1, i1]
    · simp [decList, h2, i2]
    · intro p; simp [diffList, h3, i3]

theorem keyed_rt (e : Val → Except String J) (d : J → Except String Val) (xs : List (String × Val))
    (h : ∀ x ∈ xs, ∃ j dv, e x.2 = .ok j ∧ d j = .ok dv ∧ ∀ p, diff p x.2 dv = none) :
    ∃ js ds, encKeyed e xs = .ok js ∧ decKeyed d js = .ok ds ∧ ∀ p, diffKeyed true p xs ds = none := by
  induction xs with
  | nil => exact ⟨[], [], rfl, rfl, fun _ => by simp [diffKeyed]⟩
  | cons x xs ih =>
    obtain ⟨k, v⟩ := x
    obtain ⟨j, dv, h1, h2, h3⟩ := h (k, v) (by simp)
    obtain ⟨js, ds, i1, i2, i3⟩ := ih (fun y hy => h y (by simp [hy]))
    refine ⟨(k, j) :: js, (k, dv) :: ds, ?_, ?_, ?_⟩
    · simp [encKeyed, h1, i1]
    · simp [decKeyed, h2, i2]
    · intro p; simp [diffKeyed, h3, i3]

theorem lookup_none {β : Type} (k : String) (l : List (String × β)) (h : k ∉ l.map Prod.fst) : l.lookup k = none := by
  induction l with
  | nil => rfl
  | cons x xs ih =>
    obtain ⟨a, b⟩ := x
    simp only [List.map_cons, List.mem_cons, not_or] at h
    have : (k == a) = false := by simpa using h.1
    simp [List.lookup, this, ih h.2]

theorem agree_keys : ∀ (E D : List Field), agree E D = true → E.map (·.key) = D.map (·.key)
  | [], [], _ => rfl
  | [], _ :: _, h => by simp [agree] at h
  | _ :: _, [], h => by simp [agree] at h
  | e :: E, d :: D, h => by
    simp only [agree, Bool.and_eq_true, beq_iff_eq] at h
    simp [h.1.1.2, agree_keys E D h.2]

theorem encFields_keys (e : Ty → Val → Except String J) :
    ∀ (E : List Field) (fs : List (String × Val)) (kvs : List (String × J)),
      encFields e E fs = .ok kvs → ∀ k ∈ kvs.map Prod.fst, k ∈ E.map (·.key)
  | [], [], kvs, h => by simp [encFields] at h; subst h; simp
  | [], _ :: _, kvs, h => by simp [encFields] at h
  | _ :: _, [], kvs, h => by simp [encFields] at h
  | f :: E, (k, v0) :: fs, kvs, h => by
    intro key hkey
    simp only [encFields] at h
    split at h
    · cases h
    · split at h
      · have := encFields_keys e E fs kvs h key hkey
        simp [this]
      · split at h
        · cases h
        · split at h
          · cases h
          · rename_i r hr
            cases h
            simp only [List.map_cons, List.mem_cons] at hkey ⊢
            rcases hkey with hk | hk
            · left; exact hk
            · right; exact encFields_keys e E fs r hr key hk

theorem decFields_skip (d : Ty → J → Except String Val) (z : Ty → Val) (k : String) (j : J) (kvs : List (String × J)) :
    ∀ (D : List Field), k ∉ D.map (·.key) → decFields d z D ((k, j) :: kvs) = decFields d z D kvs
  | [], _ => rfl
  | f :: D, h => by
    simp only [List.map_cons, List.mem_cons, not_or] at h
    have hne : (f.key == k) = false := by
      have : f.key ≠ k := fun e => h.1 e.symm
      simpa using this
    simp only [decFields, decField, List.lookup, hne, decFields_skip d z k j kvs D h.2]

/-- what a field codec must satisfy: an omitted or `null` field leaves the decoder's zero value,
    which must be equivalent to the original; anything else must decode to an equivalent value -/
def FieldOK (e : Ty → Val → Except String J) (d : Ty → J → Except String Val) (z : Ty → Val)
    (fe fd : Field) (v : Val) : Prop :=
  (isEmptyVal (wrapAux fe.ty v) = true → ∀ p, diff p v (z fd.ty) = none) ∧
  ∃ j, e fe.ty (wrapAux fe.ty v) = .ok j ∧
    ((j = .null ∧ ∀ p, diff p v (z fd.ty) = none) ∨
     (j ≠ .null ∧ ∃ dv, d fd.ty j = .ok dv ∧ ∀ p, diff p v dv = none))

/-- **object_roundtrip** (generic field-table codec): if the encoder's table `E` and the decoder's
    table `D` agree field by field on Go name and JSON key, `D` has no duplicate keys, and every
    field codec round-trips (`FieldOK`), then decoding the encoded object yields every field of the
    original, up to the property's equivalence. -/
theorem object_roundtrip (e : Ty → Val → Except String J) (d : Ty → J → Except String Val) (z : Ty → Val)
    (w : Ty → Val → Bool)
    (hf : ∀ (fe fd : Field) (v : Val), tyCompat fe.ty fd.ty = true → w fd.ty v = true → FieldOK e d z fe fd v) :
    ∀ (E D : List Field) (fs : List (String × Val)),
      agree E D = true → wtFields w D fs = true → (D.map (·.key)).Nodup →
      ∃ kvs fs', encFields e E fs = .ok kvs ∧ decFields d z D kvs = .ok fs' ∧
        ∀ p, diffKeyed false p fs fs' = none
  | [], [], [], _, _, _ => ⟨[], [], rfl, rfl, fun _ => by simp [diffKeyed]⟩
  | [], [], _ :: _, _, h, _ => by simp [wtFields] at h
  | [], _ :: _, _, h, _, _ => by simp [agree] at h
  | _ :: _, [], _, h, _, _ => by simp [agree] at h
  | _ :: _, _ :: _, [], _, h, _ => by simp [wtFields] at h
  | fe :: E, fd :: D, (k, v) :: fs, ha, hw, hn => by
    simp only [agree, Bool.and_eq_true, beq_iff_eq] at ha
    obtain ⟨⟨⟨hname, hkey⟩, hcompat⟩, hrest⟩ := ha
    simp only [wtFields, Bool.and_eq_true, beq_iff_eq] at hw
    obtain ⟨⟨hk, hwv⟩, hwrest⟩ := hw
    simp only [List.map_cons, List.nodup_cons] at hn
    obtain ⟨kvs, fs', h1, h2, h3⟩ := object_roundtrip e d z w hf E D fs hrest hwrest hn.2
    obtain ⟨hempty, j, hj, hdec⟩ := hf fe fd v hcompat hwv
    have hkeys := encFields_keys e E fs kvs h1
    have hnotin : fd.key ∉ kvs.map Prod.fst := by
      intro hmem
      have := hkeys _ hmem
      rw [agree_keys E D hrest] at this
      exact hn.1 this
    have hkn : ¬ (k ≠ fe.name) := by simp [hk, hname]
    by_cases hskip : (fe.omitEmpty && isEmptyVal (wrapAux fe.ty v)) = true
    · -- omitted
      refine ⟨kvs, (fd.name, z fd.ty) :: fs', ?_, ?_, ?_⟩
      · simp only [encFields, hkn, if_false, hskip, if_true, h1]
      · simp only [decFields, decField, lookup_none _ _ hnotin, h2]
      · intro p
        simp only [Bool.and_eq_true] at hskip
        simp [diffKeyed, hk, hempty hskip.2, h3]
    · rcases hdec with ⟨hnull, hz⟩ | ⟨hnn, dv, hdv, hdiff⟩
      · refine ⟨(fe.key, j) :: kvs, (fd.name, z fd.ty) :: fs', ?_, ?_, ?_⟩
        · simp only [encFields, hkn, if_false, hskip, hj, h1]; simp
        · rw [hkey, decFields, decField, decFields_skip d z fd.key j kvs D hn.1, h2]
          simp [List.lookup, hnull]
        · intro p; simp [diffKeyed, hk, hz, h3]
      · refine ⟨(fe.key, j) :: kvs, (fd.name, dv) :: fs', ?_, ?_, ?_⟩
        · simp only [encFields, hkn, if_false, hskip, hj, h1]; simp
        · rw [hkey, decFields, decField, decFields_skip d z fd.key j kvs D hn.1, h2]
          cases j <;> simp_all [List.lookup]
        · intro p; simp [diffKeyed, hk, hdiff, h3]

/-! ### the codec of the model satisfies `FieldOK` -/

theorem tdiv60 (o : Int) (h : o % 60 = 0) : Int.tdiv o 60 * 60 = o := by
  have hd : (60 : Int) ∣ o := Int.dvd_of_emod_eq_zero h
  rw [Int.tdiv_eq_ediv_of_dvd hd]; omega

theorem time_rt (S : Schema) (f : Nat) (s n o : Int) (h : timeInDomain s o = true) :
    ∃ j, enc S (f + 1) .time (.time s n o) = .ok j ∧ j ≠ .null ∧
      ∃ dv, dec S (f + 1) .time j = .ok dv ∧ ∀ p, diff p (.time s n o) dv = none := by
  simp only [timeInDomain, decide_eq_true_eq] at h
  obtain ⟨h1, h2, h3, h4, h5⟩ := h
  have ht := tdiv60 o h3
  have hcond : ¬ (s + o < -62167219200 ∨ 253402300800 ≤ s + o ∨ Int.tdiv o 60 ≤ -1440 ∨ 1440 ≤ Int.tdiv o 60) := by
    omega
  refine ⟨.tstr (s + o) n (Int.tdiv o 60), ?_, by simp, .time (s + o - Int.tdiv o 60 * 60) n (Int.tdiv o 60 * 60), ?_, ?_⟩
  · simp only [enc, encTime, hcond, if_false]
  · simp only [dec]
  · intro p; simp only [diff]; rw [ht]; simp

theorem wrap_id (S : Schema) (fuel : Nat) (t : Ty) (v : Val) (h : wt S fuel t v = true) : wrapAux t v = v := by
  cases fuel with
  | zero => simp [wt] at h
  | succ f =>
    unfold wrapAux
    split
    · simp [wt] at h
    · simp [wt] at h
    · rfl

theorem dec_null (S : Schema) (fuel : Nat) (t : Ty) (dv : Val) (h : dec S fuel t .null = .ok dv) :
    dv = zeroVal S fuel t := by
  cases fuel with
  | zero => simp [dec] at h
  | succ f => cases t <;> simp_all [dec, zeroVal]

theorem empty_zero (S : Schema) (fuel : Nat) (t : Ty) (v : Val) (hw : wt S fuel t v = true)
    (he : isEmptyVal v = true) : ∀ p, diff p v (zeroVal S fuel t) = none := by
  intro p
  cases fuel with
  | zero => simp [wt] at hw
  | succ f =>
    cases t <;> cases v <;> simp_all [wt, isEmptyVal, zeroVal, diff]

theorem mapOk_ne {α : Type} (f : α → J) (x : Except String α) (hf : ∀ a, f a ≠ .null) : mapOk f x ≠ .ok .null := by
  cases x with
  | error m => simp [mapOk]
  | ok a => simp [mapOk, hf a]

theorem enc_notnull (S : Schema) (fuel : Nat) (t : Ty) (v : Val) (j : J) (hn : notNullable t = true)
    (h : enc S fuel t v = .ok j) : j ≠ .null := by
  cases fuel with
  | zero => simp [enc] at h
  | succ f =>
    intro hj; subst hj
    unfold enc at h
    split at h
    case h_4 => unfold encTime at h; split at h <;> cases h
    case h_11 => exact mapOk_ne _ _ (by simp) h
    case h_13 => exact mapOk_ne _ _ (by simp) h
    case h_14 => split at h; cases h; exact mapOk_ne _ _ (by simp) h
    all_goals first | (simp [notNullable] at hn; done) | cases h

theorem field_ok (S : Schema) (fuel : Nat) (ih : ∀ ty v, wt S fuel ty v = true → RT S fuel ty v)
    (fe fd : Field) (v : Val) (hc : tyCompat fe.ty fd.ty = true) (hw : wt S fuel fd.ty v = true) :
    FieldOK (enc S fuel) (dec S fuel) (zeroVal S fuel) fe fd v := by
  simp only [tyCompat, Bool.or_eq_true, Bool.and_eq_true, beq_iff_eq] at hc
  unfold FieldOK
  rcases hc with hc | ⟨hc, hta⟩
  · -- same type on both sides
    rw [hc, wrap_id S fuel fd.ty v hw]
    obtain ⟨j, dv, h1, h2, h3⟩ := ih fd.ty v hw
    refine ⟨fun he => empty_zero S fuel fd.ty v hw he, j, h1, ?_⟩
    by_cases hj : j = .null
    · left; subst hj
      have := dec_null S fuel fd.ty dv h2
      subst this
      exact ⟨rfl, h3⟩
    · right; exact ⟨hj, dv, h2, h3⟩
  · -- aux struct holds a pointer to the struct's time / address
    rw [hc]
    cases fuel with
    | zero => simp [wt] at hw
    | succ f =>
      rcases hta with ht | ht
      · rw [ht] at hw ⊢
        cases v <;> simp [wt] at hw
        rename_i s n o
        obtain ⟨hf, hdom⟩ := hw
        obtain ⟨g, rfl⟩ : ∃ g, f = g + 1 := ⟨f - 1, by omega⟩
        by_cases hz : s = zeroSec ∧ n = 0
        · have hwz : wrapAux (.ptr .time) (.time s n o) = .nil := by simp [wrapAux, hz]
          have hd : ∀ p, diff p (.time s n o) (zeroVal S (g + 1 + 1) .time) = none := by
            intro p; simp [zeroVal, diff, hz]
          rw [hwz]
          exact ⟨fun _ => hd, .null, by simp [enc], Or.inl ⟨rfl, hd⟩⟩
        · have hwz : wrapAux (.ptr .time) (.time s n o) = .ptr (.time s n o) := by simp [wrapAux, hz]
          rw [hwz]
          obtain ⟨j, hj, hnn, dv, hdv, hdiff⟩ := time_rt S g s n o hdom
          refine ⟨by simp [isEmptyVal], j, ?_, Or.inr ⟨hnn, dv, ?_, hdiff⟩⟩
          · simpa [enc] using hj
          · cases j <;> simp_all [enc, encTime, dec]
      · rw [ht] at hw ⊢
        cases v <;> simp [wt] at hw
        rename_i a
        obtain ⟨g, rfl⟩ : ∃ g, f = g + 1 := ⟨f - 1, by omega⟩
        by_cases hz : a = "-"
        · have hwz : wrapAux (.ptr .addr) (.addr a) = .nil := by simp [wrapAux, hz]
          have hd : ∀ p, diff p (.addr a) (zeroVal S (g + 1 + 1) .addr) = none := by
            intro p; simp [zeroVal, diff, hz]
          rw [hwz]
          exact ⟨fun _ => hd, .null, by simp [enc], Or.inl ⟨rfl, hd⟩⟩
        · have hwz : wrapAux (.ptr .addr) (.addr a) = .ptr (.addr a) := by simp [wrapAux, hz]
          rw [hwz]
          refine ⟨by simp [isEmptyVal], .astr a, by simp [enc], Or.inr ⟨by simp, .addr a, by simp [dec], ?_⟩⟩
          intro p; simp [diff]

theorem lookup_mem {β : Type} (n : String) (l : List (String × β)) (b : β) (h : l.lookup n = some b) :
    ∃ k, (k, b) ∈ l := by
  induction l with
  | nil => simp [List.lookup] at h
  | cons x xs ih =>
    obtain ⟨a, c⟩ := x
    simp only [List.lookup] at h
    split at h
    · cases h; exact ⟨a, by simp⟩
    · obtain ⟨k, hk⟩ := ih h; exact ⟨k, by simp [hk]⟩

theorem schema_table_ok (S : Schema) (hS : SchemaOK S = true) (n : String) :
    tableOK (S.encTable n) (S.tags n) = true := by
  unfold Schema.encTable Schema.tags Schema.info
  cases hl : S.structs.lookup n with
  | none => simp [tableOK, agree]
  | some info =>
    simp only [Option.getD_some]
    have := lookup_mem n S.structs info hl
    obtain ⟨k, hk⟩ := this
    simp only [SchemaOK, List.all_eq_true] at hS
    exact hS _ hk

/-- **object_roundtrip, whole documents**: for every schema whose tables are duplicate-free and agree
    with their custom marshallers' tables (`SchemaOK`), every well-typed value in the property's
    domain (`wt`: enumeration fields hold members, instants are RFC 3339-representable) is encoded
    without error, decodes without error, and the decoded value is equivalent to the original
    under the judge's equivalence `diff` (the model satisfies the spec). -/
theorem roundtrip_equiv (S : Schema) (hS : SchemaOK S = true) :
    ∀ (fuel : Nat) (ty : Ty) (v : Val), wt S fuel ty v = true → RT S fuel ty v := by
  intro fuel
  induction fuel with
  | zero => intro ty v h; simp [wt] at h
  | succ f ih =>
    intro ty v h
    unfold wt at h
    split at h
    · exact ⟨_, _, rfl, rfl, fun p => by simp [diff]⟩
    · exact ⟨_, _, rfl, rfl, fun p => by simp [diff]⟩
    · exact ⟨_, _, rfl, rfl, fun p => by simp [diff]⟩
    · simp only [Bool.and_eq_true] at h
      obtain ⟨j, hj, _, dv, hdv, hd⟩ := time_rt S f _ _ _ h.2
      exact ⟨j, dv, hj, hdv, hd⟩
    · exact ⟨_, _, rfl, rfl, fun p => by simp [diff]⟩
    · rename_i i
      refine ⟨_, _, rfl, rfl, fun p => ?_⟩
      have := direction_roundtrip i (by simp [isMember, DirectionUnknown] at h ⊢; omega) (by simp [isMember, DirectionBoth] at h ⊢; omega)
      simp [diff, this]
    · rename_i i
      refine ⟨_, _, rfl, rfl, fun p => ?_⟩
      have := sortorder_roundtrip i (by simp [isMember, SortUnknown] at h ⊢; omega) (by simp [isMember, SortTime] at h ⊢; omega)
      simp [diff, this]
    · exact ⟨_, _, rfl, rfl, fun p => by simp [diff]⟩
    · -- non-nil pointer
      rename_i t v'
      simp only [Bool.and_eq_true] at h
      obtain ⟨j, dv, h1, h2, h3⟩ := ih t v' h.2
      have hnn := enc_notnull S f t v' j h.1 h1
      refine ⟨j, .ptr dv, by simpa [enc] using h1, ?_, fun p => by simp [diff, h3]⟩
      cases j <;> simp_all [dec, mapOk]
    · exact ⟨_, _, rfl, rfl, fun p => by simp [diff]⟩
    · -- slice
      rename_i t xs
      simp only [List.all_eq_true] at h
      obtain ⟨js, ds, h1, h2, h3⟩ := list_rt (enc S f t) (dec S f t) xs (fun x hx => ih t x (h x hx))
      exact ⟨.arr js, .list ds, by simp [enc, h1, mapOk], by simp [dec, h2, mapOk], fun p => by simp [diff, h3]⟩
    · exact ⟨_, _, rfl, rfl, fun p => by simp [diff]⟩
    · -- map
      rename_i t kvs
      simp only [List.all_eq_true] at h
      obtain ⟨js, ds, h1, h2, h3⟩ := keyed_rt (enc S f t) (dec S f t) kvs (fun x hx => ih t x.2 (h x hx))
      exact ⟨.obj js, .map ds, by simp [enc, h1, mapOk], by simp [dec, h2, mapOk], fun p => by simp [diff, h3]⟩
    · -- struct
      rename_i n n' fs
      simp only [Bool.and_eq_true, beq_iff_eq] at h
      obtain ⟨hn, hw⟩ := h
      subst hn
      have hok := schema_table_ok S hS n
      simp only [tableOK, Bool.and_eq_true, decide_eq_true_eq] at hok
      obtain ⟨kvs, fs', h1, h2, h3⟩ :=
        object_roundtrip (enc S f) (dec S f) (zeroVal S f) (wt S f)
          (fun fe fd v hc hwv => field_ok S f ih fe fd v hc hwv) (S.encTable n) (S.tags n) fs hok.2 hw hok.1
      exact ⟨.obj kvs, .obj n fs', by simp [enc, h1, mapOk], by simp [dec, h2, mapOk], fun p => by simp [diff, h3]⟩
    · cases h

/-! ## 4. the three documents of the property, over the regenerated schema -/

/-- **object_roundtrip** for `query.Args` -/
theorem args_roundtrip (v : Val) (h : wt genSchema fuelTop (.struct "Args") v = true) :
    RT genSchema fuelTop (.struct "Args") v := roundtrip_equiv genSchema genSchema_ok _ _ _ h

/-- **object_roundtrip** for `query.Statement` (direction and sort order included) -/
theorem statement_roundtrip (v : Val) (h : wt genSchema fuelTop (.struct "Statement") v = true) :
    RT genSchema fuelTop (.struct "Statement") v := roundtrip_equiv genSchema genSchema_ok _ _ _ h

/-- **object_roundtrip** for `results.Result` (time labels, addresses, counters included) -/
theorem result_roundtrip (v : Val) (h : wt genSchema fuelTop (.struct "Result") v = true) :
    RT genSchema fuelTop (.struct "Result") v := roundtrip_equiv genSchema genSchema_ok _ _ _ h

/-! ## 5. non-vacuity, and failures outside the hypotheses -/

/-- outcome of the model's Marshal -> Unmarshal under the judge's equivalence -/
def rtDiff (S : Schema) (ty : String) (v : Val) : Option String :=
  match enc S fuelTop (.struct ty) v with
  | .error e => some ("err:" ++ e)
  | .ok j =>
    match dec S fuelTop (.struct ty) j with
    | .error e => some ("err:" ++ e)
    | .ok d => diff "" v d

def exRow (ts : Val) : Val :=
  .obj "Row" [
    ("Labels", .obj "Labels" [("Timestamp", ts), ("Iface", .str "eth0"), ("Hostname", .str "-"), ("HostID", .str "-")]),
    ("Attributes", .obj "Attributes" [("SrcIP", .addr "10.0.0.1"), ("DstIP", .addr "-"), ("IPProto", .int 6), ("DstPort", .int 0)]),
    ("Counters", .obj "Counters" [("BytesRcvd", .int 18446744073709551615), ("BytesSent", .int 0), ("PacketsRcvd", .int 1), ("PacketsSent", .int 0)])]

def exStatement (dir : Int) : Val :=
  .obj "Statement" [
    ("Ifaces", .list [.str "eth0"]),
    ("LabelSelector", .obj "LabelSelector" [("Timestamp", .bool true), ("Iface", .bool false), ("Hostname", .bool false), ("HostID", .bool false)]),
    ("QueryType", .str "sip"), ("Condition", .str "-"), ("Direction", .int dir), ("First", .int 1700000000), ("Last", .int 1700003600),
    ("TimeBinSize", .int 300000000000), ("Format", .str "json"), ("NumResults", .int 1000), ("SortBy", .int 3), ("SortAscending", .bool true),
    ("Caller", .str "-"),
    ("DNSResolution", .obj "DNSResolution" [("Enabled", .bool false), ("Timeout", .int 1000000000), ("MaxRows", .int 25)]),
    ("MaxMemPct", .int 60), ("LowMem", .bool false), ("KeepAliveDuration", .int 0), ("Live", .bool false)]

-- the hypotheses are satisfiable: a row with a zoned timestamp, a zero address and an omitted counter,
-- and a statement with the default direction DirectionBoth, are well-typed and round-trip
example : wt genSchema fuelTop (.struct "Row") (exRow (.time 1700000000 5 7200)) = true
    ∧ rtDiff genSchema "Row" (exRow (.time 1700000000 5 7200)) = none := by decide
example : wt genSchema fuelTop (.struct "Statement") (exStatement DirectionBoth) = true
    ∧ rtDiff genSchema "Statement" (exStatement DirectionBoth) = none := by decide
-- the zero instant in another zone is omitted and comes back as the zero instant
example : wt genSchema fuelTop (.struct "Row") (exRow (.time zeroSec 0 3600)) = true
    ∧ rtDiff genSchema "Row" (exRow (.time zeroSec 0 3600)) = none := by decide

-- outside the hypotheses: a non-member direction is not restored, ...
example : wt genSchema fuelTop (.struct "Statement") (exStatement 7) = false
    ∧ rtDiff genSchema "Statement" (exStatement 7) = some "Direction" := by decide
-- ... a year RFC 3339 cannot carry fails to marshal, a sub-minute zone offset moves the instant
example : wt genSchema fuelTop (.struct "Row") (exRow (.time 253402300800 0 0)) = false
    ∧ rtDiff genSchema "Row" (exRow (.time 253402300800 0 0)) = some "err:marshal" := by decide
example : wt genSchema fuelTop (.struct "Row") (exRow (.time 1700000000 0 3601)) = false
    ∧ rtDiff genSchema "Row" (exRow (.time 1700000000 0 3601)) = some "Labels.Timestamp" := by decide

/-- `SchemaOK` is necessary: with two fields under one JSON key the second is lost -/
def dupSchema : Schema where
  structs := [("T", { tags := [⟨"A", "x", false, .int⟩, ⟨"B", "x", false, .int⟩], aux := none })]

example : SchemaOK dupSchema = false
    ∧ wt dupSchema fuelTop (.struct "T") (.obj "T" [("A", .int 1), ("B", .int 2)]) = true
    ∧ rtDiff dupSchema "T" (.obj "T" [("A", .int 1), ("B", .int 2)]) = some "B" := by decide

/-- ... and so is the agreement of a custom marshaller's keys with the decoder's tags -/
def disagreeSchema : Schema where
  structs := [("T", { tags := [⟨"Host", "host", true, .str⟩], aux := some [⟨"Host", "hostname", true, .str⟩] })]

example : SchemaOK disagreeSchema = false
    ∧ wt disagreeSchema fuelTop (.struct "T") (.obj "T" [("Host", .str "a")]) = true
    ∧ rtDiff disagreeSchema "T" (.obj "T" [("Host", .str "a")]) = some "Host" := by decide

end C17
